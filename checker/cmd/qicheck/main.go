// qicheck decides the structural clauses of one property of lugu/qiloop from
// the repository's source (see /verif/DESIGN.md).  It never runs qiloop code.
package main

import (
	"flag"
	"fmt"
	"os"
	"path/filepath"
	"runtime/debug"
	"sort"
	"strconv"
	"strings"

	"qicheck/internal/core"
	"qicheck/internal/rules"
)

func main() {
	prop := flag.String("property", "", "property id (C01..C20) or 'all' / 'list'")
	tier := flag.String("tier", "", "quick | thorough (default: $VERIF_TIER or quick)")
	repo := flag.String("repo", "/repo", "repository under test")
	verif := flag.String("verif", "", "verification directory (default: parent of the binary's directory)")
	explain := flag.String("explain", "", "print the failing obligations of a report file and exit")
	flag.Parse()

	if *explain != "" {
		b, err := os.ReadFile(*explain)
		if err != nil {
			fmt.Println(err)
			os.Exit(2)
		}
		for _, l := range strings.Split(string(b), "\n") {
			if strings.HasPrefix(l, "VIOLATION") || strings.HasPrefix(l, "UNDECIDED") || strings.HasPrefix(l, "KNOWN") || strings.HasPrefix(l, "rule ") {
				fmt.Println(l)
			}
		}
		return
	}
	if *tier == "" {
		*tier = os.Getenv("VERIF_TIER")
	}
	if *tier != "thorough" {
		*tier = "quick"
	}
	if *verif == "" {
		exe, err := os.Executable()
		if err == nil {
			*verif = filepath.Dir(filepath.Dir(exe))
		} else {
			*verif = "/verif"
		}
	}
	seed, _ := strconv.Atoi(os.Getenv("VERIF_SEED"))

	if *prop == "list" {
		ids := make([]string, 0)
		for id := range rules.Registry {
			ids = append(ids, id)
		}
		sort.Strings(ids)
		for _, id := range ids {
			fmt.Println(id, rules.Registry[id].Title)
		}
		return
	}
	if *prop == "all" {
		// dev-time mode (self-test): one load, every property in turn; evidence and
		// reports are written per property as usual.  Quick tier only.
		abs, err := filepath.Abs(*repo)
		if err == nil {
			*repo = abs
		}
		os.Exit(runAll(*repo, *verif, seed))
	}
	p, ok := rules.Registry[*prop]
	if !ok {
		fmt.Fprintf(os.Stderr, "unknown property %q\n", *prop)
		os.Exit(2)
	}
	abs, err := filepath.Abs(*repo)
	if err == nil {
		*repo = abs
	}
	os.Exit(run(p, *repo, *tier, *verif, seed))
}

func run(p *rules.Property, repo, tier, verif string, seed int) int {
	cmdline := strings.Join(os.Args, " ")
	known, kerr := core.LoadKnown(filepath.Join(verif, "known_findings.txt"))
	analyse := func(label string, env ...string) *core.Ctx {
		c, err := core.Load(repo, tier, false, env...)
		if err != nil {
			// nothing could be decided: that is a failure of the check
			c = &core.Ctx{Repo: repo, Tier: tier, RuleDocs: map[string]string{}, Floors: map[string]int{}, LoadStats: map[string]int{}}
			c.Property = p.ID
			c.Undecided("load", "repository", 0, err.Error())
			return c
		}
		c.Property = p.ID
		func() {
			defer func() {
				if r := recover(); r != nil {
					c.Undecided("panic", "analyser", 0, fmt.Sprintf("%v\n%s", r, debug.Stack()))
				}
			}()
			p.Run(c)
			if tier == "thorough" {
				// the rules of the properties whose checks have caught breakages of this
				// one (their behaviours overlap: framing and truncation, the codecs, the end
				// point and its users): obligations with the same rule and construct are
				// merged, the others are added
				for _, rid := range rules.Related[p.ID] {
					if rp := rules.Registry[rid]; rp != nil {
						rp.Run(c)
					}
				}
				c.Dedupe()
			}
			c.EvalWitnesses()
		}()
		return c
	}
	c := analyse("default")
	if kerr != nil {
		c.Undecided("load", "known_findings.txt", 0, kerr.Error())
	}
	c.Known = known
	if tier == "thorough" {
		// the same rules over the other build configurations the repository
		// compiles for: a 32-bit target (int is 32 bits: the signedness rules
		// of C07/C12 see more narrowing) and another operating system (files
		// selected by build constraints differ)
		for _, cfg := range [][3]string{{"linux/386", "GOOS=linux", "GOARCH=386"}, {"darwin/arm64", "GOOS=darwin", "GOARCH=arm64"}} {
			o := analyse(cfg[0], cfg[1], cfg[2], "CGO_ENABLED=0")
			c.Merge(o, cfg[0])
			o = nil
			debug.FreeOSMemory()
		}
	}
	return c.Finish(verif, seed, p.Explanation, p.Assumptions, cmdline)
}

// runAll loads the repository once and runs every property's rules on the
// shared program (the registered commands never use it: they run one property
// per process).
func runAll(repo, verif string, seed int) int {
	known, kerr := core.LoadKnown(filepath.Join(verif, "known_findings.txt"))
	ids := make([]string, 0)
	for id := range rules.Registry {
		ids = append(ids, id)
	}
	sort.Strings(ids)
	c, err := core.Load(repo, "quick", false)
	if err != nil {
		fmt.Println("load:", err)
		for _, id := range ids {
			fmt.Printf("== %s: exit 1\n", id)
		}
		return 1
	}
	worst := 0
	for _, id := range ids {
		p := rules.Registry[id]
		c.ResetFor(id)
		if kerr != nil {
			c.Undecided("load", "known_findings.txt", 0, kerr.Error())
		}
		c.Known = append([]core.KnownFinding(nil), known...)
		func() {
			defer func() {
				if r := recover(); r != nil {
					c.Undecided("panic", "analyser", 0, fmt.Sprintf("%v\n%s", r, debug.Stack()))
				}
			}()
			p.Run(c)
			c.EvalWitnesses()
		}()
		code := c.Finish(verif, seed, p.Explanation, p.Assumptions, "qicheck -property all ("+id+")")
		fmt.Printf("== %s: exit %d\n", id, code)
		if code > worst {
			worst = code
		}
	}
	return worst
}
