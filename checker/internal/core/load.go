// Package core holds the shared machinery of qicheck: loading the resolved
// program of the repository under test, stable construct keys, the
// obligation/report/evidence writer and the SSA helpers the rules are built
// from.  Nothing in this package executes code of the repository.
package core

import (
	_ "embed"
	"fmt"
	"go/ast"
	"go/token"
	"go/types"
	"os"
	"path/filepath"
	"sort"
	"strings"
	"time"

	"golang.org/x/tools/go/callgraph"
	"golang.org/x/tools/go/callgraph/cha"
	"golang.org/x/tools/go/callgraph/vta"
	"golang.org/x/tools/go/packages"
	"golang.org/x/tools/go/ssa"
	"golang.org/x/tools/go/ssa/ssautil"
)

//go:embed witness/witness.go.txt
var witnessSrc []byte

// WitnessDirName is the directory (inside the analysed repository, overlay
// only) of the package of positive and negative examples.
const WitnessDirName = "zz_qicheck_witness"

// WitnessSpec is one example function of the witness package.
type WitnessSpec struct {
	Func       string
	Positive   []string // rules that must report a violation inside the function
	Negative   []string // rules that must stay silent inside it
	Start, End token.Pos
}

type witnessHit struct {
	Rule      string
	Status    Status
	Pos       token.Pos
	Construct string
}

// Module is the import path prefix of the repository under test.
const Module = "github.com/lugu/qiloop"

// Ctx is the resolved program plus the obligations decided so far.
type Ctx struct {
	Repo     string
	Tier     string
	Property string
	Fset     *token.FileSet
	Pkgs     []*packages.Package          // root packages (./...)
	ByPath   map[string]*packages.Package // every loaded package
	Prog     *ssa.Program
	SSA      map[string]*ssa.Package // by import path, repository packages only
	AllFuncs map[*ssa.Function]bool

	cgCHA *callgraph.Graph
	cgVTA *callgraph.Graph

	callSites  map[*ssa.Function][]ssa.CallInstruction
	valueTaken map[*ssa.Function]bool

	Obls      []*Obligation
	Notes     []string
	RuleDocs  map[string]string
	Floors    map[string]int
	Start     time.Time
	Known     []KnownFinding
	Configs   []string // extra build configurations merged in (thorough tier)
	LoadStats map[string]int

	WitnessDir  string // absolute path of the overlaid example package
	Witnesses   []WitnessSpec
	witnessHits []witnessHit
}

// Load type-checks ./... of repo and builds SSA for it.  Any type error, an
// empty package list or a go list failure is a hard failure: nothing could
// be decided.
func Load(repo, tier string, tests bool, extraEnv ...string) (*Ctx, error) {
	c := &Ctx{Repo: repo, Tier: tier, Start: time.Now(),
		ByPath: map[string]*packages.Package{}, SSA: map[string]*ssa.Package{},
		RuleDocs: map[string]string{}, Floors: map[string]int{}, LoadStats: map[string]int{}}
	c.Fset = token.NewFileSet()
	env := []string{}
	for _, e := range os.Environ() {
		// the go list spawned inside the repository must never rewrite its
		// go.mod (GOFLAGS=-mod=mod does) and must not see a workspace.
		if strings.HasPrefix(e, "GOFLAGS=") || strings.HasPrefix(e, "GOWORK=") {
			continue
		}
		env = append(env, e)
	}
	env = append(env, "GOFLAGS=-mod=readonly", "GOWORK=off", "GOPROXY=off", "GOSUMDB=off", "GOTOOLCHAIN=local")
	env = append(env, extraEnv...)
	c.WitnessDir = filepath.Join(repo, WitnessDirName)
	cfg := &packages.Config{
		Mode:    packages.LoadAllSyntax,
		Dir:     repo,
		Fset:    c.Fset,
		Env:     env,
		Tests:   tests,
		Overlay: map[string][]byte{filepath.Join(c.WitnessDir, "witness.go"): witnessSrc},
	}
	pkgs, err := packages.Load(cfg, "./...")
	if err != nil {
		return nil, fmt.Errorf("packages.Load: %v", err)
	}
	if len(pkgs) == 0 {
		return nil, fmt.Errorf("no packages loaded from %s", repo)
	}
	var errs []string
	packages.Visit(pkgs, nil, func(p *packages.Package) {
		c.ByPath[p.ID] = p
		if _, ok := c.ByPath[p.PkgPath]; !ok || p.ID == p.PkgPath {
			c.ByPath[p.PkgPath] = p
		}
		if strings.HasPrefix(p.PkgPath, Module) {
			for _, e := range p.Errors {
				errs = append(errs, e.Error())
			}
		}
	})
	if len(errs) > 0 {
		sort.Strings(errs)
		if len(errs) > 10 {
			errs = errs[:10]
		}
		return nil, fmt.Errorf("type errors in repository: %s", strings.Join(errs, "; "))
	}
	c.Pkgs = pkgs
	prog, _ := ssautil.AllPackages(pkgs, ssa.InstantiateGenerics)
	prog.Build()
	c.Prog = prog
	nroot := 0
	for _, p := range pkgs {
		if !strings.HasPrefix(p.PkgPath, Module) {
			continue
		}
		nroot++
		sp := prog.Package(p.Types)
		if sp == nil {
			continue
		}
		// With Tests=true a package appears twice (plain and test variant);
		// prefer the variant with the most members (the test variant is a
		// superset of the plain one).
		if old, ok := c.SSA[p.PkgPath]; !ok || len(sp.Members) > len(old.Members) {
			c.SSA[p.PkgPath] = sp
			c.ByPath[p.PkgPath] = p
		}
	}
	if nroot == 0 {
		return nil, fmt.Errorf("no package of %s among %d loaded", Module, len(pkgs))
	}
	c.AllFuncs = ssautil.AllFunctions(prog)
	IndexFieldStores(c.AllFuncs)
	if wp := c.ByPath[Module+"/"+WitnessDirName]; wp != nil {
		nroot-- // the example package is not part of the repository
		for _, f := range wp.Syntax {
			for _, d := range f.Decls {
				fd, ok := d.(*ast.FuncDecl)
				if !ok || fd.Doc == nil {
					continue
				}
				w := WitnessSpec{Func: fd.Name.Name, Start: fd.Pos(), End: fd.End()}
				for _, cm := range fd.Doc.List {
					t := strings.TrimSpace(strings.TrimPrefix(cm.Text, "//"))
					switch {
					case strings.HasPrefix(t, "positive:"):
						w.Positive = append(w.Positive, strings.Fields(strings.TrimPrefix(t, "positive:"))...)
					case strings.HasPrefix(t, "negative:"):
						w.Negative = append(w.Negative, strings.Fields(strings.TrimPrefix(t, "negative:"))...)
					}
				}
				if len(w.Positive)+len(w.Negative) > 0 {
					c.Witnesses = append(c.Witnesses, w)
				}
			}
		}
	}
	if len(c.Witnesses) == 0 {
		return nil, fmt.Errorf("the example package %s was not loaded (overlay not honoured?)", WitnessDirName)
	}
	c.LoadStats["root_packages"] = nroot
	c.LoadStats["packages_total"] = len(c.ByPath)
	c.LoadStats["functions_total"] = len(c.AllFuncs)
	return c, nil
}

// Pkg returns the loaded package with import path Module+"/"+rel.
func (c *Ctx) Pkg(rel string) *packages.Package {
	path := Module
	if rel != "" {
		path += "/" + rel
	}
	return c.ByPath[path]
}

// SSAPkg returns the SSA package with import path Module+"/"+rel.
func (c *Ctx) SSAPkg(rel string) *ssa.Package {
	path := Module
	if rel != "" {
		path += "/" + rel
	}
	return c.SSA[path]
}

// Func resolves a function or method of the repository.  recv is "" for a
// package-level function, otherwise the name of the receiver's named type
// (pointer-ness is ignored).  nil if it does not exist.
func (c *Ctx) Func(rel, recv, name string) *ssa.Function {
	sp := c.SSAPkg(rel)
	if sp == nil {
		return nil
	}
	if recv == "" {
		return sp.Func(name)
	}
	tn, ok := sp.Pkg.Scope().Lookup(recv).(*types.TypeName)
	if !ok {
		return nil
	}
	for _, t := range []types.Type{tn.Type(), types.NewPointer(tn.Type())} {
		ms := c.Prog.MethodSets.MethodSet(t)
		for i := 0; i < ms.Len(); i++ {
			sel := ms.At(i)
			if sel.Obj().Name() == name && sel.Obj().Pkg() == sp.Pkg {
				// skip promoted methods of embedded fields
				if len(sel.Index()) != 1 {
					continue
				}
				return c.Prog.MethodValue(sel)
			}
		}
	}
	return nil
}

// Named returns the named type rel.name, nil if absent.
func (c *Ctx) Named(rel, name string) *types.Named {
	p := c.Pkg(rel)
	if p == nil || p.Types == nil {
		return nil
	}
	tn, ok := p.Types.Scope().Lookup(name).(*types.TypeName)
	if !ok {
		return nil
	}
	n, _ := tn.Type().(*types.Named)
	return n
}

// Object returns the package-level object rel.name.
func (c *Ctx) Object(rel, name string) types.Object {
	p := c.Pkg(rel)
	if p == nil || p.Types == nil {
		return nil
	}
	return p.Types.Scope().Lookup(name)
}

// Field returns field `field` of struct type rel.typ.
func (c *Ctx) Field(rel, typ, field string) *types.Var {
	n := c.Named(rel, typ)
	if n == nil {
		return nil
	}
	st, ok := n.Underlying().(*types.Struct)
	if !ok {
		return nil
	}
	for i := 0; i < st.NumFields(); i++ {
		if st.Field(i).Name() == field {
			return st.Field(i)
		}
	}
	// the field moved into a struct of the same package that this one embeds or holds by
	// value (one level down, unambiguous)
	var found *types.Var
	for i := 0; i < st.NumFields(); i++ {
		sub, ok := st.Field(i).Type().(*types.Named)
		if !ok || sub.Obj().Pkg() != n.Obj().Pkg() {
			continue
		}
		ss, ok := sub.Underlying().(*types.Struct)
		if !ok {
			continue
		}
		for j := 0; j < ss.NumFields(); j++ {
			if ss.Field(j).Name() == field {
				if found != nil {
					return nil
				}
				found = ss.Field(j)
			}
		}
	}
	return found
}

// RepoFuncs returns every source function (including anonymous ones) of the
// repository packages whose import path has one of the given prefixes
// (relative to Module; "" = all), in a deterministic order.
func (c *Ctx) RepoFuncs(relPrefixes ...string) []*ssa.Function {
	var out []*ssa.Function
	for fn := range c.AllFuncs {
		if fn.Pkg == nil || fn.Synthetic != "" && fn.Syntax() == nil {
			continue
		}
		path := fn.Pkg.Pkg.Path()
		if !strings.HasPrefix(path, Module) {
			continue
		}
		if c.SSA[path] != fn.Pkg {
			continue // duplicate variant (plain vs test)
		}
		rel := strings.TrimPrefix(strings.TrimPrefix(path, Module), "/")
		ok := len(relPrefixes) == 0
		for _, pre := range relPrefixes {
			if pre == "" || rel == pre || strings.HasPrefix(rel, pre+"/") {
				ok = true
			}
		}
		if ok && len(fn.Blocks) > 0 {
			out = append(out, fn)
		}
	}
	sort.Slice(out, func(i, j int) bool { return FuncKey(out[i]) < FuncKey(out[j]) })
	return out
}

// IsTestFile reports whether the function is declared in a _test.go file.
func (c *Ctx) IsTestFile(fn *ssa.Function) bool {
	p := fn.Pos()
	if !p.IsValid() {
		if fn.Parent() != nil {
			return c.IsTestFile(fn.Parent())
		}
		return false
	}
	return strings.HasSuffix(c.Fset.Position(p).Filename, "_test.go")
}

// FuncKey is the stable key of a function: pkg-relative path, receiver, name;
// anonymous functions get parent key + "$n".
func FuncKey(fn *ssa.Function) string {
	if fn == nil {
		return "<nil>"
	}
	if fn.Parent() != nil {
		return FuncKey(fn.Parent()) + "$" + strings.TrimPrefix(fn.Name(), fn.Parent().Name()+"$")
	}
	pkg := ""
	if fn.Pkg != nil {
		pkg = strings.TrimPrefix(strings.TrimPrefix(fn.Pkg.Pkg.Path(), Module), "/")
	} else if fn.Object() != nil && fn.Object().Pkg() != nil {
		pkg = fn.Object().Pkg().Path()
	}
	if fn.Signature != nil && fn.Signature.Recv() != nil {
		t := fn.Signature.Recv().Type()
		if p, ok := t.(*types.Pointer); ok {
			t = p.Elem()
		}
		if n, ok := t.(*types.Named); ok {
			return pkg + "." + n.Obj().Name() + "." + fn.Name()
		}
	}
	return pkg + "." + fn.Name()
}

// Pos renders a position relative to the repository root.
func (c *Ctx) Pos(p token.Pos) string {
	if !p.IsValid() {
		return "-"
	}
	pos := c.Fset.Position(p)
	f := strings.TrimPrefix(pos.Filename, c.Repo+"/")
	return fmt.Sprintf("%s:%d", f, pos.Line)
}

// InstrPos returns the best position available for an instruction.
func InstrPos(in ssa.Instruction) token.Pos {
	if in == nil {
		return token.NoPos
	}
	if p := in.Pos(); p.IsValid() {
		return p
	}
	// fall back: nearest positioned instruction in the block, then the function
	b := in.Block()
	if b != nil {
		for _, x := range b.Instrs {
			if p := x.Pos(); p.IsValid() {
				return p
			}
		}
		if b.Parent() != nil {
			return b.Parent().Pos()
		}
	}
	return token.NoPos
}

// CHA returns the class-hierarchy call graph (cheap, over-approximate).
func (c *Ctx) CHA() *callgraph.Graph {
	if c.cgCHA == nil {
		c.cgCHA = cha.CallGraph(c.Prog)
	}
	return c.cgCHA
}

// VTA returns the variable-type-analysis call graph refined from CHA.
func (c *Ctx) VTA() *callgraph.Graph {
	if c.cgVTA == nil {
		c.cgVTA = vta.CallGraph(c.AllFuncs, c.CHA())
	}
	return c.cgVTA
}

// FileOf returns the syntax file of the repository package rel whose name ends
// in suffix.
func (c *Ctx) FileOf(rel, suffix string) *ast.File {
	p := c.Pkg(rel)
	if p == nil {
		return nil
	}
	for _, f := range p.Syntax {
		if strings.HasSuffix(c.Fset.Position(f.Pos()).Filename, suffix) {
			return f
		}
	}
	return nil
}

// ---------------------------------------------------------------- rename-tolerant anchors

// typeStr renders a type with package names as qualifiers.
// transparent rewrites t with the unexported named types of the own package
// whose underlying type is not a struct or an interface replaced by that
// underlying type (type serviceID uint32, type registry map[serviceID]Info):
// introducing such a name changes nothing an anchor described by its type
// should notice.
func transparent(t types.Type, own *types.Package, depth int) types.Type {
	if depth > 6 {
		return t
	}
	switch x := t.(type) {
	case *types.Named:
		if x.Obj().Pkg() == own && own != nil && !x.Obj().Exported() {
			switch x.Underlying().(type) {
			case *types.Struct, *types.Interface:
				return t
			}
			return transparent(x.Underlying(), own, depth+1)
		}
	case *types.Map:
		return types.NewMap(transparent(x.Key(), own, depth+1), transparent(x.Elem(), own, depth+1))
	case *types.Slice:
		return types.NewSlice(transparent(x.Elem(), own, depth+1))
	case *types.Pointer:
		return types.NewPointer(transparent(x.Elem(), own, depth+1))
	case *types.Chan:
		return types.NewChan(x.Dir(), transparent(x.Elem(), own, depth+1))
	}
	return t
}

func typeStr(t types.Type, own *types.Package) string {
	t = transparent(t, own, 0)
	return types.TypeString(t, func(p *types.Package) string {
		if p == own {
			return ""
		}
		return p.Name()
	})
}

// StructLike resolves a struct type by name; if it was renamed, by the unique
// struct of the package that has fields of all the given types.
func (c *Ctx) StructLike(rel, name string, fieldTypes ...string) *types.Named {
	if n := c.Named(rel, name); n != nil {
		if _, ok := n.Underlying().(*types.Struct); ok {
			return n
		}
	}
	p := c.Pkg(rel)
	if p == nil || p.Types == nil || len(fieldTypes) == 0 {
		return nil
	}
	var found *types.Named
	sc := p.Types.Scope()
	for _, nm := range sc.Names() {
		tn, ok := sc.Lookup(nm).(*types.TypeName)
		if !ok {
			continue
		}
		n, ok := tn.Type().(*types.Named)
		if !ok {
			continue
		}
		st, ok := n.Underlying().(*types.Struct)
		if !ok {
			continue
		}
		have := map[string]int{}
		for i := 0; i < st.NumFields(); i++ {
			have[typeStr(st.Field(i).Type(), p.Types)]++
		}
		all := true
		need := map[string]int{}
		for _, ft := range fieldTypes {
			need[ft]++
		}
		for ft, k := range need {
			if have[ft] < k {
				all = false
			}
		}
		if all {
			if found != nil {
				return nil // ambiguous
			}
			found = n
		}
	}
	return found
}

// FieldT resolves a field by name; if it was renamed, by the unique field of
// the struct whose type prints as typeString.
func (c *Ctx) FieldT(st *types.Named, name, typeString string) *types.Var {
	if st == nil {
		return nil
	}
	s, ok := st.Underlying().(*types.Struct)
	if !ok {
		return nil
	}
	for i := 0; i < s.NumFields(); i++ {
		if s.Field(i).Name() == name && (typeString == "" || typeStr(s.Field(i).Type(), st.Obj().Pkg()) == typeString) {
			return s.Field(i)
		}
	}
	var found *types.Var
	for i := 0; i < s.NumFields(); i++ {
		if typeString != "" && typeStr(s.Field(i).Type(), st.Obj().Pkg()) == typeString {
			if found != nil {
				return nil // ambiguous: the caller must disambiguate by role
			}
			found = s.Field(i)
		}
	}
	return found
}

// FieldsOfType lists the fields of st whose type prints as typeString.
func (c *Ctx) FieldsOfType(st *types.Named, typeString string) []*types.Var {
	var out []*types.Var
	if st == nil {
		return nil
	}
	s, ok := st.Underlying().(*types.Struct)
	if !ok {
		return nil
	}
	for i := 0; i < s.NumFields(); i++ {
		if typeStr(s.Field(i).Type(), st.Obj().Pkg()) == typeString {
			out = append(out, s.Field(i))
		}
	}
	return out
}

// MethodsOf lists the source methods (value and pointer receiver) declared on
// the named type.
func (c *Ctx) MethodsOf(n *types.Named) []*ssa.Function {
	var out []*ssa.Function
	if n == nil {
		return nil
	}
	seen := map[*ssa.Function]bool{}
	for _, t := range []types.Type{n, types.NewPointer(n)} {
		ms := c.Prog.MethodSets.MethodSet(t)
		for i := 0; i < ms.Len(); i++ {
			sel := ms.At(i)
			if len(sel.Index()) != 1 {
				continue
			}
			if f := c.Prog.MethodValue(sel); f != nil && !seen[f] && len(f.Blocks) > 0 && f.Synthetic == "" {
				seen[f] = true
				out = append(out, f)
			}
		}
	}
	sort.Slice(out, func(i, j int) bool { return out[i].Name() < out[j].Name() })
	return out
}

// MethodLike resolves a method by name; if renamed, by the unique method of
// the type satisfying role.
func (c *Ctx) MethodLike(n *types.Named, name string, role func(*ssa.Function) bool) *ssa.Function {
	if n == nil {
		return nil
	}
	ms := c.MethodsOf(n)
	for _, f := range ms {
		if f.Name() == name {
			return f
		}
	}
	if role == nil {
		return nil
	}
	var found *ssa.Function
	for _, f := range ms {
		if role(f) {
			if found != nil {
				return nil
			}
			found = f
		}
	}
	return found
}

// OwnerName renders the owner of a field of named type n the way LockClass does.
func OwnerName(n *types.Named) string {
	pkg := ""
	if n.Obj().Pkg() != nil {
		pkg = strings.TrimPrefix(strings.TrimPrefix(n.Obj().Pkg().Path(), Module), "/")
	}
	return pkg + "." + n.Obj().Name()
}

// CallSites returns, for every function of the repository, its static call
// sites (Call, Go and Defer instructions), and the set of functions whose
// value is taken (stored, passed, bound): those can be called from anywhere.
func (c *Ctx) CallSites() (map[*ssa.Function][]ssa.CallInstruction, map[*ssa.Function]bool) {
	if c.callSites != nil {
		return c.callSites, c.valueTaken
	}
	c.callSites = map[*ssa.Function][]ssa.CallInstruction{}
	c.valueTaken = map[*ssa.Function]bool{}
	for fn := range c.AllFuncs {
		if fn.Pkg == nil || !strings.HasPrefix(fn.Pkg.Pkg.Path(), Module) {
			continue
		}
		for _, b := range fn.Blocks {
			for _, in := range b.Instrs {
				if call, ok := in.(ssa.CallInstruction); ok {
					if f := call.Common().StaticCallee(); f != nil {
						c.callSites[f] = append(c.callSites[f], call)
					}
				}
				for _, op := range in.Operands(nil) {
					f, ok := (*op).(*ssa.Function)
					if !ok {
						continue
					}
					if call, isCall := in.(ssa.CallInstruction); isCall && call.Common().Value == ssa.Value(f) {
						continue
					}
					c.valueTaken[f] = true
				}
			}
		}
	}
	return c.callSites, c.valueTaken
}
