package core

import (
	"fmt"
	"go/token"
	"go/types"
	"sort"
	"strings"

	"golang.org/x/tools/go/ssa"
)

// LockClass names a mutex by the struct type that owns it and the field.
type LockClass struct {
	Owner string // pkg-relative named type, e.g. "bus/net.endPoint"
	Field string // field name ("RWMutex" for an embedded one)
}

func (c LockClass) String() string { return c.Owner + "." + c.Field }

// LockKind is the operation performed on a mutex.
type LockKind int

const (
	OpLock LockKind = iota
	OpUnlock
	OpRLock
	OpRUnlock
)

func (k LockKind) String() string {
	return [...]string{"Lock", "Unlock", "RLock", "RUnlock"}[k]
}

// LockOp is a resolved mutex operation.
type LockOp struct {
	Class LockClass
	Kind  LockKind
}

// OwnerOfType renders a (pointer to a) named struct type the way LockClass.Owner does.
func OwnerOfType(t types.Type) string { return ownerName(t) }

// ownerName renders the named struct type owning a field.
func ownerName(t types.Type) string {
	for {
		if p, ok := t.(*types.Pointer); ok {
			t = p.Elem()
			continue
		}
		break
	}
	if n, ok := t.(*types.Named); ok {
		pkg := ""
		if n.Obj().Pkg() != nil {
			pkg = strings.TrimPrefix(strings.TrimPrefix(n.Obj().Pkg().Path(), Module), "/")
		}
		return pkg + "." + n.Obj().Name()
	}
	return t.String()
}

// LockOpOf resolves a call to sync.(RW)Mutex.{Lock,Unlock,RLock,RUnlock}.
func LockOpOf(call ssa.CallInstruction) (LockOp, bool) {
	f := StaticCallee(call)
	if f == nil || f.Signature.Recv() == nil {
		return LockOp{}, false
	}
	if f.Pkg == nil || f.Pkg.Pkg.Path() != "sync" {
		return LockOp{}, false
	}
	if !TypeIs(f.Signature.Recv().Type(), "sync", "Mutex") && !TypeIs(f.Signature.Recv().Type(), "sync", "RWMutex") {
		return LockOp{}, false
	}
	var kind LockKind
	switch f.Name() {
	case "Lock":
		kind = OpLock
	case "Unlock":
		kind = OpUnlock
	case "RLock":
		kind = OpRLock
	case "RUnlock":
		kind = OpRUnlock
	default:
		return LockOp{}, false
	}
	args := call.Common().Args
	if len(args) == 0 {
		return LockOp{}, false
	}
	recv := Strip(args[0])
	if fa, ok := recv.(*ssa.FieldAddr); ok {
		fld := structField(fa.X.Type(), fa.Field)
		if fld != nil {
			return LockOp{LockClass{ownerName(fa.X.Type()), fld.Name()}, kind}, true
		}
	}
	// a mutex held by pointer in a struct field (mu *sync.Mutex; x.mu.Lock()): the class is
	// that field, whichever load of it the call happens to use
	if ld, ok := recv.(*ssa.UnOp); ok && ld.Op == token.MUL {
		if fa, ok := Strip(ld.X).(*ssa.FieldAddr); ok {
			if fld := structField(fa.X.Type(), fa.Field); fld != nil {
				return LockOp{LockClass{ownerName(fa.X.Type()), fld.Name()}, kind}, true
			}
		}
		if f, ok := Strip(ld.X).(*ssa.Field); ok {
			if st, ok := f.X.Type().Underlying().(*types.Struct); ok && f.Field < st.NumFields() {
				return LockOp{LockClass{ownerName(f.X.Type()), st.Field(f.Field).Name()}, kind}, true
			}
		}
	}
	if f, ok := recv.(*ssa.Field); ok {
		if st, ok := f.X.Type().Underlying().(*types.Struct); ok && f.Field < st.NumFields() {
			return LockOp{LockClass{ownerName(f.X.Type()), st.Field(f.Field).Name()}, kind}, true
		}
	}
	// a mutex that is not a struct field (local, global): class by printed value
	name := recv.Name()
	if g, ok := recv.(*ssa.Global); ok {
		name = g.Name()
	}
	owner := "<local>"
	if p := call.Parent(); p != nil {
		owner = FuncKey(p)
	}
	return LockOp{LockClass{owner, name}, kind}, true
}

// lockState is the multiset of held locks plus the deferred releases.
type lockState struct {
	w, r     map[LockClass]int
	deferred []LockOp
}

func (s lockState) clone() lockState {
	n := lockState{w: map[LockClass]int{}, r: map[LockClass]int{}}
	for k, v := range s.w {
		if v != 0 {
			n.w[k] = v
		}
	}
	for k, v := range s.r {
		if v != 0 {
			n.r[k] = v
		}
	}
	n.deferred = append([]LockOp(nil), s.deferred...)
	return n
}

func (s lockState) key() string {
	var parts []string
	for k, v := range s.w {
		if v != 0 {
			parts = append(parts, fmt.Sprintf("W%s=%d", k, v))
		}
	}
	for k, v := range s.r {
		if v != 0 {
			parts = append(parts, fmt.Sprintf("R%s=%d", k, v))
		}
	}
	sort.Strings(parts)
	d := make([]string, len(s.deferred))
	for i, o := range s.deferred {
		d[i] = fmt.Sprintf("D%s:%s", o.Class, o.Kind)
	}
	return strings.Join(parts, ",") + "|" + strings.Join(d, ",")
}

// Held renders the held locks of a state.
func (s lockState) held() string {
	var parts []string
	for k, v := range s.w {
		if v > 0 {
			parts = append(parts, k.String()+"(W)")
		}
	}
	for k, v := range s.r {
		if v > 0 {
			parts = append(parts, k.String()+"(R)")
		}
	}
	sort.Strings(parts)
	return strings.Join(parts, ",")
}

// LockProblem is a pairing violation found by the lockset analysis.
type LockProblem struct {
	Instr ssa.Instruction
	Class LockClass
	What  string
}

// LockFacts is the result of the per-function lockset analysis: the set of
// possible lock states before every instruction (path-sensitive up to the
// finite set of states).
type LockFacts struct {
	Fn       *ssa.Function
	before   map[ssa.Instruction][]lockState
	Problems []LockProblem
	Ops      int
}

func (s *lockState) apply(op LockOp, in ssa.Instruction, probs *[]LockProblem, seen map[string]bool) {
	report := func(what string) {
		k := fmt.Sprintf("%p|%s|%s", in, op.Class, what)
		if !seen[k] {
			seen[k] = true
			*probs = append(*probs, LockProblem{in, op.Class, what})
		}
	}
	const cap = 3
	switch op.Kind {
	case OpLock:
		if s.w[op.Class] > 0 || s.r[op.Class] > 0 {
			report("Lock while the same mutex is already held on this path (self-deadlock)")
		}
		if s.w[op.Class] < cap {
			s.w[op.Class]++
		}
	case OpRLock:
		if s.w[op.Class] > 0 {
			report("RLock while the write lock is held on this path (self-deadlock)")
		}
		if s.r[op.Class] < cap {
			s.r[op.Class]++
		}
	case OpUnlock:
		if s.w[op.Class] == 0 {
			if s.r[op.Class] > 0 {
				report("Unlock releases a mutex that is read-locked (RLock) on this path")
			} else {
				report("Unlock of a mutex that is not locked on this path")
			}
		} else {
			s.w[op.Class]--
		}
	case OpRUnlock:
		if s.r[op.Class] == 0 {
			if s.w[op.Class] > 0 {
				report("RUnlock releases a mutex that is write-locked (Lock) on this path")
			} else {
				report("RUnlock of a mutex that is not read-locked on this path")
			}
		} else {
			s.r[op.Class]--
		}
	}
}

// lockOpsIn lists the lock operations a function literal performs, in order
// (used for `defer func(){ mu.Unlock() }()`).
func lockOpsIn(fn *ssa.Function) []LockOp {
	var out []LockOp
	for _, b := range fn.Blocks {
		for _, in := range b.Instrs {
			if c, ok := in.(ssa.CallInstruction); ok {
				if _, isDefer := in.(*ssa.Defer); isDefer {
					continue
				}
				if op, ok := LockOpOf(c); ok {
					out = append(out, op)
				}
			}
		}
	}
	return out
}

// AnalyzeLocks runs the lockset analysis on one function.
func AnalyzeLocks(fn *ssa.Function) *LockFacts {
	lf := &LockFacts{Fn: fn, before: map[ssa.Instruction][]lockState{}}
	if len(fn.Blocks) == 0 {
		return lf
	}
	in := map[*ssa.BasicBlock]map[string]lockState{}
	seenProb := map[string]bool{}
	var work []*ssa.BasicBlock
	addIn := func(b *ssa.BasicBlock, s lockState) {
		m := in[b]
		if m == nil {
			m = map[string]lockState{}
			in[b] = m
		}
		k := s.key()
		if _, ok := m[k]; !ok && len(m) < 64 {
			m[k] = s
			work = append(work, b)
		}
	}
	addIn(fn.Blocks[0], lockState{w: map[LockClass]int{}, r: map[LockClass]int{}})
	for len(work) > 0 {
		b := work[len(work)-1]
		work = work[:len(work)-1]
		keys := make([]string, 0, len(in[b]))
		for k := range in[b] {
			keys = append(keys, k)
		}
		sort.Strings(keys)
		// recompute the per-instruction states of this block from scratch
		for _, instr := range b.Instrs {
			delete(lf.before, instr)
		}
		for _, k := range keys {
			s := in[b][k].clone()
			for _, instr := range b.Instrs {
				lf.before[instr] = append(lf.before[instr], s.clone())
				switch x := instr.(type) {
				case *ssa.Defer:
					if op, ok := LockOpOf(x); ok {
						s.deferred = append(s.deferred, op)
					} else if mc, ok := x.Call.Value.(*ssa.MakeClosure); ok {
						if f, ok := mc.Fn.(*ssa.Function); ok {
							s.deferred = append(s.deferred, lockOpsIn(f)...)
						}
					} else if f, ok := x.Call.Value.(*ssa.Function); ok && f.Parent() != nil {
						s.deferred = append(s.deferred, lockOpsIn(f)...)
					}
				case *ssa.RunDefers:
					for i := len(s.deferred) - 1; i >= 0; i-- {
						s.apply(s.deferred[i], instr, &lf.Problems, seenProb)
					}
					s.deferred = nil
				case *ssa.Call:
					if op, ok := LockOpOf(x); ok {
						s.apply(op, instr, &lf.Problems, seenProb)
					}
				case *ssa.Return:
					if h := s.held(); h != "" {
						k := fmt.Sprintf("%p|ret|%s", instr, h)
						if !seenProb[k] {
							seenProb[k] = true
							lf.Problems = append(lf.Problems, LockProblem{instr, LockClass{}, "returns with " + h + " still held on some path"})
						}
					}
				}
			}
			for _, succ := range b.Succs {
				addIn(succ, s)
			}
		}
	}
	for _, c := range Calls(fn) {
		if _, ok := LockOpOf(c); ok {
			lf.Ops++
		}
	}
	return lf
}

// HeldAt reports whether class is held (exclusively if excl) in every state
// before instruction in.  reached=false if the instruction is unreachable.
func (lf *LockFacts) HeldAt(in ssa.Instruction, class LockClass, excl bool) (held, reached bool) {
	states := lf.before[in]
	if len(states) == 0 {
		return false, false
	}
	for _, s := range states {
		if excl {
			if s.w[class] == 0 {
				return false, true
			}
		} else if s.w[class] == 0 && s.r[class] == 0 {
			return false, true
		}
	}
	return true, true
}

// AnyHeldAt returns the classes held in every state before in.
func (lf *LockFacts) MustHeld(in ssa.Instruction) map[LockClass]bool {
	states := lf.before[in]
	out := map[LockClass]bool{}
	for i, s := range states {
		cur := map[LockClass]bool{}
		for k, v := range s.w {
			if v > 0 {
				cur[k] = true
			}
		}
		for k, v := range s.r {
			if v > 0 {
				cur[k] = true
			}
		}
		if i == 0 {
			out = cur
			continue
		}
		for k := range out {
			if !cur[k] {
				delete(out, k)
			}
		}
	}
	return out
}

// MayHeld returns the classes held in some state before in.
func (lf *LockFacts) MayHeld(in ssa.Instruction) map[LockClass]bool {
	out := map[LockClass]bool{}
	for _, s := range lf.before[in] {
		for k, v := range s.w {
			if v > 0 {
				out[k] = true
			}
		}
		for k, v := range s.r {
			if v > 0 {
				out[k] = true
			}
		}
	}
	return out
}

// LockCache memoises per-function lock facts.
type LockCache struct {
	m map[*ssa.Function]*LockFacts
}

func NewLockCache() *LockCache { return &LockCache{m: map[*ssa.Function]*LockFacts{}} }

func (lc *LockCache) Get(fn *ssa.Function) *LockFacts {
	if f, ok := lc.m[fn]; ok {
		return f
	}
	f := AnalyzeLocks(fn)
	lc.m[fn] = f
	return f
}
