package core

import (
	"bufio"
	"encoding/json"
	"fmt"
	"go/token"
	"os"
	"path/filepath"
	"runtime"
	"sort"
	"strings"
	"time"
)

// Status of an obligation.
type Status string

const (
	OK        Status = "OK"
	Violation Status = "VIOLATION"
	Known     Status = "KNOWN"
	Undecided Status = "UNDECIDED"
)

// Obligation is one decided (or undecidable) instance of a rule.
type Obligation struct {
	Rule      string `json:"rule"`
	Construct string `json:"construct"`
	Status    Status `json:"status"`
	Pos       string `json:"pos"`
	Detail    string `json:"detail,omitempty"`
	Trivial   bool   `json:"-"`
}

func (o *Obligation) Key() string { return o.Rule + " " + o.Construct }

// KnownFinding is one line of known_findings.txt.
type KnownFinding struct {
	Property  string
	Rule      string
	Construct string
	What      string
	used      bool
}

// Merge folds the obligations decided for another build configuration of the
// same tree into c: an obligation with the same key keeps the worse status
// (the configuration is named in the detail); keys that exist only in the
// other configuration are added.
func (c *Ctx) Merge(o *Ctx, label string) {
	rank := map[Status]int{OK: 0, Known: 1, Undecided: 2, Violation: 3}
	idx := map[string]*Obligation{}
	for _, x := range c.Obls {
		idx[x.Key()] = x
	}
	for _, y := range o.Obls {
		if x, ok := idx[y.Key()]; ok {
			if rank[y.Status] > rank[x.Status] {
				x.Status, x.Pos = y.Status, y.Pos
				x.Detail = "[" + label + "] " + y.Detail
			}
			continue
		}
		y.Detail = "[" + label + " only] " + y.Detail
		c.Obls = append(c.Obls, y)
		idx[y.Key()] = y
	}
	for r, d := range o.RuleDocs {
		if _, ok := c.RuleDocs[r]; !ok {
			c.RuleDocs[r] = d
			c.Floors[r] = o.Floors[r]
		}
	}
	c.Notes = append(c.Notes, fmt.Sprintf("configuration %s: %d repository packages, %d functions, %d obligations merged", label, o.LoadStats["root_packages"], o.LoadStats["functions_total"], len(o.Obls)))
	c.Configs = append(c.Configs, label)
}

// ResetFor clears everything a property's run leaves behind, keeping the
// loaded program and its caches (call graphs, call sites).
func (c *Ctx) ResetFor(property string) {
	c.Property = property
	c.Obls = nil
	c.Notes = nil
	c.RuleDocs = map[string]string{}
	c.Floors = map[string]int{}
	c.witnessHits = nil
	c.Known = nil
	c.Configs = nil
	c.Start = time.Now()
}

// Dedupe merges obligations recorded twice under the same rule and construct
// (a rule shared by two properties that were both run): the worse verdict stays.
func (c *Ctx) Dedupe() {
	rank := map[Status]int{OK: 0, Known: 1, Undecided: 2, Violation: 3}
	idx := map[string]*Obligation{}
	var out []*Obligation
	for _, o := range c.Obls {
		if x, ok := idx[o.Key()]; ok {
			if rank[o.Status] > rank[x.Status] {
				x.Status, x.Pos, x.Detail = o.Status, o.Pos, o.Detail
			}
			continue
		}
		idx[o.Key()] = o
		out = append(out, o)
	}
	c.Obls = out
}

// Doc registers the one-line description of a rule and its instance floor.
func (c *Ctx) Doc(rule, doc string, floor int) {
	c.RuleDocs[rule] = doc
	c.Floors[rule] = floor
}

// InWitness reports whether pos lies in the overlaid example package.
func (c *Ctx) InWitness(pos token.Pos) bool {
	if !pos.IsValid() || c.Fset == nil || c.WitnessDir == "" {
		return false
	}
	return strings.HasPrefix(c.Fset.Position(pos).Filename, c.WitnessDir+string(filepath.Separator))
}

// constructNames reports whether construct mentions the function name as a
// whole identifier.
func constructNames(construct, name string) bool {
	for i := 0; ; {
		j := strings.Index(construct[i:], name)
		if j < 0 {
			return false
		}
		end := i + j + len(name)
		if end == len(construct) || !(construct[end] == '_' || construct[end] >= '0' && construct[end] <= '9' || construct[end] >= 'a' && construct[end] <= 'z' || construct[end] >= 'A' && construct[end] <= 'Z') {
			return true
		}
		i = end
	}
}

// EvalWitnesses turns what the rules said about the example package into
// obligations: every positive example of a rule that ran must have been
// reported, every negative example must have been left alone.
func (c *Ctx) EvalWitnesses() {
	ran := func(rule string) bool { _, ok := c.RuleDocs[rule]; return ok }
	for _, w := range c.Witnesses {
		hit := func(rule string, sts ...Status) bool {
			for _, h := range c.witnessHits {
				if h.Rule != rule {
					continue
				}
				if h.Pos.IsValid() {
					if h.Pos < w.Start || h.Pos > w.End {
						continue
					}
				} else if !constructNames(h.Construct, WitnessDirName+"."+w.Func) {
					continue
				}
				for _, st := range sts {
					if h.Status == st {
						return true
					}
				}
			}
			return false
		}
		for _, r := range w.Positive {
			if !ran(r) {
				continue
			}
			key := "example:" + w.Func
			if hit(r, Violation) {
				c.addRaw(r, key, OK, token.NoPos, "positive example reported (the rule still detects what it was written for)").Trivial = true
			} else {
				c.Undecided(r, key, token.NoPos, "the rule no longer reports its positive example "+w.Func+" (checker/internal/core/witness/witness.go.txt): it would pass on a tree that violates it")
			}
		}
		for _, r := range w.Negative {
			if !ran(r) {
				continue
			}
			key := "example:" + w.Func
			if hit(r, Violation, Undecided) {
				c.Undecided(r, key, token.NoPos, "the rule fires on its negative example "+w.Func+" (checker/internal/core/witness/witness.go.txt): it would raise a false alarm on a tree that is right")
			} else {
				c.addRaw(r, key, OK, token.NoPos, "negative example left alone").Trivial = true
			}
		}
	}
}

func (c *Ctx) add(rule, construct string, st Status, pos token.Pos, detail string) *Obligation {
	if c.InWitness(pos) || strings.Contains(construct, WitnessDirName+".") {
		// verdicts on the example package never count as obligations of the repository
		c.witnessHits = append(c.witnessHits, witnessHit{rule, st, pos, construct})
		return &Obligation{}
	}
	return c.addRaw(rule, construct, st, pos, detail)
}

func (c *Ctx) addRaw(rule, construct string, st Status, pos token.Pos, detail string) *Obligation {
	o := &Obligation{Rule: rule, Construct: construct, Status: st, Pos: c.Pos(pos), Detail: detail}
	c.Obls = append(c.Obls, o)
	return o
}

// Pass records a discharged obligation.
func (c *Ctx) Pass(rule, construct string, pos token.Pos, detail string) {
	c.add(rule, construct, OK, pos, detail)
}

// PassTrivial records a discharged obligation that only states an anchor exists.
func (c *Ctx) PassTrivial(rule, construct string, pos token.Pos, detail string) {
	c.add(rule, construct, OK, pos, detail).Trivial = true
}

// Fail records a violated obligation.
func (c *Ctx) Fail(rule, construct string, pos token.Pos, detail string) {
	c.add(rule, construct, Violation, pos, detail)
}

// Undecided records an obligation the rule could not decide (unknown idiom,
// unresolved anchor): the check fails, it never passes silently.
func (c *Ctx) Undecided(rule, construct string, pos token.Pos, detail string) {
	c.add(rule, construct, Undecided, pos, detail)
}

// Check is Pass or Fail.
func (c *Ctx) Check(ok bool, rule, construct string, pos token.Pos, okDetail, failDetail string) bool {
	if ok {
		c.Pass(rule, construct, pos, okDetail)
	} else {
		c.Fail(rule, construct, pos, failDetail)
	}
	return ok
}

// Note adds an unarmed diagnostic to the report.
func (c *Ctx) Note(format string, args ...interface{}) {
	c.Notes = append(c.Notes, fmt.Sprintf(format, args...))
}

// LoadKnown parses known_findings.txt.
func LoadKnown(path string) ([]KnownFinding, error) {
	f, err := os.Open(path)
	if err != nil {
		if os.IsNotExist(err) {
			return nil, nil
		}
		return nil, err
	}
	defer f.Close()
	var out []KnownFinding
	sc := bufio.NewScanner(f)
	sc.Buffer(make([]byte, 1<<20), 1<<20)
	for sc.Scan() {
		line := strings.TrimSpace(sc.Text())
		if line == "" || strings.HasPrefix(line, "#") || strings.HasPrefix(line, "fixed:") {
			continue // fixed: entries suppress nothing
		}
		// finding: property=Cxx rule=<rule> construct=<construct> :: what fails
		if !strings.HasPrefix(line, "finding:") {
			return nil, fmt.Errorf("known_findings: unparsable line %q", line)
		}
		rest := strings.TrimSpace(strings.TrimPrefix(line, "finding:"))
		what := ""
		if i := strings.Index(rest, " :: "); i >= 0 {
			what = strings.TrimSpace(rest[i+4:])
			rest = rest[:i]
		}
		kf := KnownFinding{What: what}
		for _, tok := range strings.Fields(rest) {
			switch {
			case strings.HasPrefix(tok, "property="):
				kf.Property = strings.TrimPrefix(tok, "property=")
			case strings.HasPrefix(tok, "rule="):
				kf.Rule = strings.TrimPrefix(tok, "rule=")
			case strings.HasPrefix(tok, "construct="):
				kf.Construct = strings.TrimPrefix(tok, "construct=")
			}
		}
		if kf.Property == "" || kf.Rule == "" || kf.Construct == "" {
			return nil, fmt.Errorf("known_findings: incomplete line %q", line)
		}
		out = append(out, kf)
	}
	return out, sc.Err()
}

// Evidence is the JSON written to evidence/<id>.json.
type Evidence struct {
	PropertyID  string                 `json:"property_id"`
	Tier        string                 `json:"tier"`
	Seed        int                    `json:"seed"`
	Level       string                 `json:"level"`
	Coverage    map[string]interface{} `json:"coverage"`
	Assumptions []string               `json:"assumptions"`
	WallS       float64                `json:"wall_s"`
	Violations  int                    `json:"violations"`
}

// Finish applies floors and known findings, prints the report, writes the
// evidence and report files, and returns the process exit code.
func (c *Ctx) Finish(verifDir string, seed int, explanation string, assumptions []string, cmdline string) int {
	// floors: a rule that matched fewer instances than confirmed by hand
	// decides nothing.
	perRule := map[string]int{}
	for _, o := range c.Obls {
		perRule[o.Rule]++
	}
	rules := make([]string, 0, len(c.Floors))
	for r := range c.Floors {
		rules = append(rules, r)
	}
	sort.Strings(rules)
	for _, r := range rules {
		if perRule[r] < c.Floors[r] {
			c.add("floor", r, Undecided, token.NoPos,
				fmt.Sprintf("rule %s matched %d instances, floor is %d: the rule no longer finds the constructs it was written for", r, perRule[r], c.Floors[r]))
		}
	}
	// known findings
	for _, o := range c.Obls {
		if o.Status != Violation {
			continue
		}
		for i := range c.Known {
			k := &c.Known[i]
			// a finding recorded for the property that owns the rule also matches when that rule
			// runs as a related rule in another property's thorough tier
			if (k.Property == c.Property || strings.HasPrefix(k.Rule, k.Property+".")) && k.Rule == o.Rule && k.Construct == o.Construct {
				o.Status = Known
				k.used = true
				if o.Detail == "" {
					o.Detail = k.What
				}
			}
		}
	}
	sort.SliceStable(c.Obls, func(i, j int) bool {
		if c.Obls[i].Rule != c.Obls[j].Rule {
			return c.Obls[i].Rule < c.Obls[j].Rule
		}
		return c.Obls[i].Construct < c.Obls[j].Construct
	})
	var nOK, nViol, nKnown, nUndec int
	distinct := map[string]bool{}
	var rep strings.Builder
	fmt.Fprintf(&rep, "qicheck property=%s tier=%s repo=%s\n", c.Property, c.Tier, c.Repo)
	fmt.Fprintf(&rep, "loaded: %d repository packages, %d packages total, %d functions\n",
		c.LoadStats["root_packages"], c.LoadStats["packages_total"], c.LoadStats["functions_total"])
	for _, r := range sortedKeys(c.RuleDocs) {
		fmt.Fprintf(&rep, "rule %-28s instances=%-4d floor=%-4d %s\n", r, perRule[r], c.Floors[r], c.RuleDocs[r])
	}
	for _, o := range c.Obls {
		switch o.Status {
		case OK:
			nOK++
		case Violation:
			nViol++
		case Known:
			nKnown++
		case Undecided:
			nUndec++
		}
		if !o.Trivial {
			distinct[o.Key()] = true
		}
		fmt.Fprintf(&rep, "%-9s %s %s %s", o.Status, o.Rule, o.Construct, o.Pos)
		if o.Detail != "" {
			fmt.Fprintf(&rep, " -- %s", o.Detail)
		}
		rep.WriteString("\n")
	}
	for _, n := range c.Notes {
		fmt.Fprintf(&rep, "NOTE %s\n", n)
	}
	for _, o := range c.Obls {
		if o.Status == Known {
			fmt.Fprintf(&rep, "KNOWN-FINDING: property=%s %s %s %s -- %s\n", c.Property, o.Rule, o.Construct, o.Pos, o.Detail)
		}
	}
	for _, k := range c.Known {
		if k.Property == c.Property && !k.used {
			fmt.Fprintf(&rep, "NOTE known finding no longer reported (repaired?): %s %s\n", k.Rule, k.Construct)
		}
	}
	wall := time.Since(c.Start).Seconds()
	fmt.Fprintf(&rep, "summary: obligations=%d ok=%d known=%d violations=%d undecided=%d wall=%.1fs\n",
		len(c.Obls), nOK, nKnown, nViol, nUndec, wall)

	evDir := filepath.Join(verifDir, "evidence")
	os.MkdirAll(evDir, 0o755)
	reportPath := filepath.Join(evDir, c.Property+".report.txt")
	code := 0
	if nViol+nUndec > 0 {
		code = 1
		fmt.Fprintf(&rep, "VIOLATION property=%s replay=%s\n", c.Property, reportPath)
	}
	os.WriteFile(reportPath, []byte(rep.String()), 0o644)
	fmt.Print(rep.String())

	// evidence
	samples := []interface{}{}
	seenRule := map[string]int{}
	for _, o := range c.Obls {
		if o.Trivial || seenRule[o.Rule] >= 2 || len(samples) >= 24 {
			continue
		}
		seenRule[o.Rule]++
		samples = append(samples, map[string]string{"rule": o.Rule, "construct": o.Construct,
			"status": string(o.Status), "pos": o.Pos, "detail": o.Detail})
	}
	if len(samples) == 0 {
		for _, o := range c.Obls {
			samples = append(samples, map[string]string{"rule": o.Rule, "construct": o.Construct, "status": string(o.Status)})
			if len(samples) >= 5 {
				break
			}
		}
	}
	knownList := []string{}
	for _, o := range c.Obls {
		if o.Status == Known {
			knownList = append(knownList, o.Key())
		}
	}
	perRuleOut := map[string]interface{}{}
	for r, n := range perRule {
		perRuleOut[r] = map[string]int{"instances": n, "floor": c.Floors[r]}
	}
	ev := Evidence{
		PropertyID: c.Property, Tier: c.Tier, Seed: seed, Level: "other",
		Coverage: map[string]interface{}{
			"explanation":            explanation,
			"obligations":            len(c.Obls),
			"discharged":             nOK,
			"evaluations":            len(c.Obls),
			"distinct_nontrivial":    len(distinct),
			"rule":                   "one obligation per (rule, construct) instance found in the resolved program of /repo; non-trivial = the obligation needed a path, lockset, table or call-graph query (anchor-existence obligations are excluded); distinct = distinct rule+construct keys",
			"samples":                samples,
			"checker_cmd":            cmdline,
			"trusted_base":           []string{"go/types type checker", "golang.org/x/tools v0.29.0 go/packages, go/ssa, callgraph/cha, callgraph/vta", "the frozen rule tables in /verif/checker/internal/rules (each row confirmed by reading)", "Go standard library and third-party packages (bytes.Buffer, encoding/binary, goparsec, net.Conn) behave as documented"},
			"exhaustive":             true,
			"packages":               c.LoadStats["root_packages"],
			"packages_total":         c.LoadStats["packages_total"],
			"functions_total":        c.LoadStats["functions_total"],
			"build_configurations":   append([]string{"default (" + runtime.GOOS + "/" + runtime.GOARCH + ")"}, c.Configs...),
			"per_rule":               perRuleOut,
			"rule_docs":              c.RuleDocs,
			"known_findings_matched": knownList,
			"undecided":              nUndec,
			"notes":                  c.Notes,
		},
		Assumptions: assumptions,
		WallS:       wall,
		Violations:  nViol + nUndec,
	}
	b, _ := json.MarshalIndent(ev, "", " ")
	os.WriteFile(filepath.Join(evDir, c.Property+".json"), append(b, '\n'), 0o644)
	return code
}

func sortedKeys(m map[string]string) []string {
	out := make([]string, 0, len(m))
	for k := range m {
		out = append(out, k)
	}
	sort.Strings(out)
	return out
}
