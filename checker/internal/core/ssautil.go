package core

import (
	"go/constant"
	"go/token"
	"go/types"
	"strings"

	"golang.org/x/tools/go/ssa"
)

// ---------------------------------------------------------------- values

// Strip removes value-preserving wrappers (ChangeType, ChangeInterface,
// MakeInterface) so that identity tests see the underlying value.
func Strip(v ssa.Value) ssa.Value {
	for {
		switch x := v.(type) {
		case *ssa.ChangeType:
			v = x.X
		case *ssa.ChangeInterface:
			v = x.X
		case *ssa.MakeInterface:
			v = x.X
		default:
			return v
		}
	}
}

// StripConv additionally removes numeric conversions.
func StripConv(v ssa.Value) ssa.Value {
	for {
		v = Strip(v)
		if x, ok := v.(*ssa.Convert); ok {
			v = x.X
			continue
		}
		return v
	}
}

// Path is an access path root.f1.f2… (pointer dereferences are implicit).
type Path struct {
	Root   ssa.Value
	Fields []*types.Var
}

// String renders the field names of the path.
func (p Path) String() string {
	s := ""
	for i, f := range p.Fields {
		if i > 0 {
			s += "."
		}
		s += f.Name()
	}
	return s
}

// HasSuffix reports whether the path ends with the given field objects.
func (p Path) HasSuffix(fields ...*types.Var) bool {
	if len(p.Fields) < len(fields) {
		return false
	}
	off := len(p.Fields) - len(fields)
	for i, f := range fields {
		if f == nil || p.Fields[off+i] != f {
			return false
		}
	}
	return true
}

func structField(t types.Type, idx int) *types.Var {
	if p, ok := t.Underlying().(*types.Pointer); ok {
		t = p.Elem()
	}
	st, ok := t.Underlying().(*types.Struct)
	if !ok || idx >= st.NumFields() {
		return nil
	}
	return st.Field(idx)
}

// AccessPath resolves v (a loaded field value or a field address) to root +
// field chain.  Loads through single-store local Allocs are followed.
func AccessPath(v ssa.Value) Path {
	var fields []*types.Var
	for depth := 0; depth < 32; depth++ {
		v = Strip(v)
		switch x := v.(type) {
		case *ssa.UnOp:
			if x.Op == token.MUL {
				switch x.X.(type) {
				case *ssa.Alloc, *ssa.FreeVar:
					// a local variable cell: continue from its single definition
					if d := SingleDef(x.X); d != nil {
						v = d
						continue
					}
					v = x.X
					continue
				case *ssa.FieldAddr:
					v = x.X
					continue
				}
				// a value loaded from an element, a global, a pointer result…:
				// the loaded value itself is the root
				return Path{Root: v, Fields: fields}
			}
		case *ssa.FieldAddr:
			if f := structField(x.X.Type(), x.Field); f != nil {
				fields = append([]*types.Var{f}, fields...)
			}
			v = x.X
			continue
		case *ssa.Field:
			if f := structField(x.X.Type(), x.Field); f != nil {
				fields = append([]*types.Var{f}, fields...)
			}
			v = x.X
			continue
		}
		break
	}
	return Path{Root: v, Fields: fields}
}

// ConstInt returns the integer value of a constant operand.
func ConstInt(v ssa.Value) (int64, bool) {
	c, ok := StripConv(v).(*ssa.Const)
	if !ok || c.Value == nil {
		return 0, false
	}
	if c.Value.Kind() != constant.Int {
		return 0, false
	}
	i, exact := constant.Int64Val(c.Value)
	if !exact {
		u, ok := constant.Uint64Val(c.Value)
		return int64(u), ok
	}
	return i, true
}

// IsNilConst reports whether v is the nil constant.
func IsNilConst(v ssa.Value) bool {
	c, ok := Strip(v).(*ssa.Const)
	return ok && c.Value == nil
}

// ConstBool returns the value of a boolean constant operand.
func ConstBool(v ssa.Value) (bool, bool) {
	c, ok := Strip(v).(*ssa.Const)
	if !ok || c.Value == nil || c.Value.Kind() != constant.Bool {
		return false, false
	}
	return constant.BoolVal(c.Value), true
}

// ConstString returns the value of a string constant operand.
func ConstString(v ssa.Value) (string, bool) {
	c, ok := Strip(v).(*ssa.Const)
	if !ok || c.Value == nil || c.Value.Kind() != constant.String {
		return "", false
	}
	return constant.StringVal(c.Value), true
}

// ---------------------------------------------------------------- calls

// StaticCallee returns the statically resolved callee of a call, or nil.
func StaticCallee(call ssa.CallInstruction) *ssa.Function {
	if call == nil {
		return nil
	}
	return call.Common().StaticCallee()
}

// CallResult returns the call instruction that produced v, looking through
// Extract (tuple results); idx is the tuple index (-1 if not a tuple).
func CallResult(v ssa.Value) (*ssa.Call, int) {
	v = Strip(v)
	switch x := v.(type) {
	case *ssa.Call:
		return x, -1
	case *ssa.Extract:
		if c, ok := x.Tuple.(*ssa.Call); ok {
			return c, x.Index
		}
	}
	return nil, -1
}

// IsCallTo reports whether call statically calls fn.
func IsCallTo(call ssa.CallInstruction, fn *ssa.Function) bool {
	return fn != nil && StaticCallee(call) == fn
}

// InvokeName returns the method name of an interface invoke ("" otherwise)
// and the name of the interface's named type when it has one.
func InvokeName(call ssa.CallInstruction) (iface string, method string) {
	cc := call.Common()
	if !cc.IsInvoke() {
		return "", ""
	}
	t := cc.Value.Type()
	if n, ok := t.(*types.Named); ok {
		iface = n.Obj().Name()
	}
	return iface, cc.Method.Name()
}

// CalleeName gives a printable name for any call.
func CalleeName(call ssa.CallInstruction) string {
	cc := call.Common()
	if cc.IsInvoke() {
		i, m := InvokeName(call)
		return i + "." + m
	}
	if f := cc.StaticCallee(); f != nil {
		return FuncKey(f)
	}
	if b, ok := cc.Value.(*ssa.Builtin); ok {
		return b.Name()
	}
	p := AccessPath(cc.Value)
	if len(p.Fields) > 0 {
		return "(" + p.String() + ")"
	}
	return "(dynamic)"
}

// MethodCall reports whether call invokes a method named `method` (static or
// through an interface) whose receiver's named type (pointer stripped) is
// recvName in package with path suffix pkgSuffix ("" = any).
func MethodCall(call ssa.CallInstruction, pkgSuffix, recvName, method string) bool {
	cc := call.Common()
	var recvT types.Type
	var name string
	if cc.IsInvoke() {
		recvT = cc.Value.Type()
		name = cc.Method.Name()
	} else if f := cc.StaticCallee(); f != nil && f.Signature.Recv() != nil {
		recvT = f.Signature.Recv().Type()
		name = f.Name()
	} else {
		return false
	}
	if name != method {
		return false
	}
	return TypeIs(recvT, pkgSuffix, recvName)
}

// TypeIs reports whether t (pointers stripped) is the named type
// pkgSuffix.name.
func TypeIs(t types.Type, pkgSuffix, name string) bool {
	for {
		if p, ok := t.(*types.Pointer); ok {
			t = p.Elem()
			continue
		}
		break
	}
	n, ok := t.(*types.Named)
	if !ok {
		return false
	}
	if n.Obj().Name() != name {
		return false
	}
	if pkgSuffix == "" {
		return true
	}
	if n.Obj().Pkg() == nil {
		return false
	}
	return strings.HasSuffix(n.Obj().Pkg().Path(), pkgSuffix)
}

// Calls lists the call instructions (Call, Go, Defer) of fn in block order.
func Calls(fn *ssa.Function) []ssa.CallInstruction {
	var out []ssa.CallInstruction
	for _, b := range fn.Blocks {
		for _, in := range b.Instrs {
			if c, ok := in.(ssa.CallInstruction); ok {
				out = append(out, c)
			}
		}
	}
	return out
}

// Returns lists the Return instructions of fn.
func Returns(fn *ssa.Function) []*ssa.Return {
	var out []*ssa.Return
	for _, b := range fn.Blocks {
		if b == fn.Recover {
			// only entered when a deferred call recovers from a panic: not a
			// path of the function's own control flow
			continue
		}
		for _, in := range b.Instrs {
			if r, ok := in.(*ssa.Return); ok {
				out = append(out, r)
			}
		}
	}
	return out
}

// AnonFuncs returns fn and every function literal nested in it.
func AnonFuncs(fn *ssa.Function) []*ssa.Function {
	out := []*ssa.Function{fn}
	for _, a := range fn.AnonFuncs {
		out = append(out, AnonFuncs(a)...)
	}
	return out
}

// ---------------------------------------------------------------- conditions

// Cmp is a normalised branch condition X Op Y.
type Cmp struct {
	Op   token.Token
	X, Y ssa.Value
}

// CondCmp normalises the condition of an If.  A plain boolean value v becomes
// v != false.  neg reports an odd number of enclosing logical negations.
func CondCmp(cond ssa.Value) (cmp Cmp, neg bool) {
	for {
		if u, ok := cond.(*ssa.UnOp); ok && u.Op == token.NOT {
			neg = !neg
			cond = u.X
			continue
		}
		break
	}
	if b, ok := cond.(*ssa.BinOp); ok {
		switch b.Op {
		case token.EQL, token.NEQ, token.LSS, token.LEQ, token.GTR, token.GEQ:
			return Cmp{b.Op, b.X, b.Y}, neg
		}
	}
	return Cmp{token.NEQ, cond, ssa.NewConst(constant.MakeBool(false), types.Typ[types.Bool])}, neg
}

// EdgeMatcher says, for a normalised condition, which outgoing edge(s) of the
// If establish the guard being looked for.
type EdgeMatcher func(c Cmp) (onTrue, onFalse bool)

// AnyOf combines matchers: an edge establishes the guard if any does.
func AnyOf(ms ...EdgeMatcher) EdgeMatcher {
	return func(c Cmp) (bool, bool) {
		var t, f bool
		for _, m := range ms {
			a, b := m(c)
			t = t || a
			f = f || b
		}
		return t, f
	}
}

// Eq builds a matcher for "x == y holds" where the operands are recognised by
// the two predicates (in either order).
func Eq(isX, isY func(ssa.Value) bool) EdgeMatcher {
	return func(c Cmp) (bool, bool) {
		if !(isX(c.X) && isY(c.Y) || isX(c.Y) && isY(c.X)) {
			return false, false
		}
		switch c.Op {
		case token.EQL:
			return true, false
		case token.NEQ:
			return false, true
		}
		return false, false
	}
}

// Ne builds a matcher for "x != y holds".
func Ne(isX, isY func(ssa.Value) bool) EdgeMatcher {
	e := Eq(isX, isY)
	return func(c Cmp) (bool, bool) {
		t, f := e(c)
		return f, t
	}
}

// IsTrue builds a matcher for "boolean v is true".
func IsTrue(isV func(ssa.Value) bool) EdgeMatcher {
	return func(c Cmp) (bool, bool) {
		var v, k ssa.Value
		if isV(c.X) {
			v, k = c.X, c.Y
		} else if isV(c.Y) {
			v, k = c.Y, c.X
		} else {
			return false, false
		}
		_ = v
		b, ok := ConstBool(k)
		if !ok {
			return false, false
		}
		switch c.Op {
		case token.EQL: // v == b
			return b, !b
		case token.NEQ: // v != b
			return !b, b
		}
		return false, false
	}
}

// IsFalse builds a matcher for "boolean v is false".
func IsFalse(isV func(ssa.Value) bool) EdgeMatcher {
	m := IsTrue(isV)
	return func(c Cmp) (bool, bool) {
		t, f := m(c)
		return f, t
	}
}

// LeConst builds a matcher for "v <= K or v < K for some constant K" (an upper
// bound on v by a constant), v recognised by isV.  If maxK > 0 the constant
// must not exceed it.
func UpperBound(isV func(ssa.Value) bool, maxK int64) EdgeMatcher {
	return func(c Cmp) (bool, bool) {
		okK := func(v ssa.Value) bool {
			k, ok := ConstInt(v)
			return ok && (maxK <= 0 || k <= maxK)
		}
		if isV(c.X) && okK(c.Y) {
			switch c.Op {
			case token.LSS, token.LEQ: // v < K
				return true, false
			case token.GTR, token.GEQ: // v > K : false edge bounds
				return false, true
			}
		}
		if isV(c.Y) && okK(c.X) {
			switch c.Op {
			case token.GTR, token.GEQ: // K > v
				return true, false
			case token.LSS, token.LEQ: // K < v
				return false, true
			}
		}
		return false, false
	}
}

// LowerBound0 matches "v >= 0" style guards (v >= 0, v > -1, !(v < 0)).
func LowerBound0(isV func(ssa.Value) bool) EdgeMatcher {
	return func(c Cmp) (bool, bool) {
		if isV(c.X) {
			k, ok := ConstInt(c.Y)
			if !ok {
				return false, false
			}
			switch c.Op {
			case token.GEQ:
				return k >= 0, false
			case token.GTR:
				return k >= -1, false
			case token.LSS:
				return false, k >= 0
			case token.LEQ:
				return false, k >= -1
			}
		}
		if isV(c.Y) {
			k, ok := ConstInt(c.X)
			if !ok {
				return false, false
			}
			switch c.Op {
			case token.LEQ: // k <= v
				return k >= 0, false
			case token.LSS:
				return k >= -1, false
			case token.GTR: // k > v
				return false, k >= 0
			case token.GEQ:
				return false, k >= -1
			}
		}
		return false, false
	}
}

// ---------------------------------------------------------------- reachability

// EdgeCut decides whether the edge b -> b.Succs[i] is removed.
type EdgeCut func(b *ssa.BasicBlock, i int) bool

// Fact is a comparison known to hold (Holds=true) or not to hold on an edge.
type Fact struct {
	Cmp   Cmp
	Holds bool
}

// condAlts describes what is known when boolean value v is `want`, as a list
// of alternatives (one of them holds), each a conjunction of facts.  Besides
// plain comparisons it understands the value form of short-circuit operators
// that go/ssa emits when a && b / a || b is used as a value (e.g. a case
// expression of a tag-less switch): phi [false…, b].
func condAlts(v ssa.Value, want bool, depth int) [][]Fact {
	if depth > 6 {
		return [][]Fact{nil}
	}
	for {
		if u, ok := v.(*ssa.UnOp); ok && u.Op == token.NOT {
			want = !want
			v = u.X
			continue
		}
		break
	}
	// err == nil / err != nil where err is the error result of a checking helper of the
	// repository (`if err := checkSize(n); err != nil { return err }`): on the nil side,
	// what holds on the helper's paths to `return nil`
	if bo, ok := v.(*ssa.BinOp); ok && (bo.Op == token.EQL || bo.Op == token.NEQ) {
		var other ssa.Value
		if IsNilConst(bo.Y) {
			other = bo.X
		} else if IsNilConst(bo.X) {
			other = bo.Y
		}
		if other != nil && IsErrorType(other.Type()) && (bo.Op == token.EQL) == want {
			if call, idx := CallResult(Canon(other)); call != nil {
				if alts, ok := helperNilErrAlts(call, idx, depth+1); ok {
					cmp, neg := CondCmp(v)
					holds := want
					if neg {
						holds = !holds
					}
					return conjAlts([][]Fact{{{cmp, holds}}}, alts)
				}
			}
		}
	}
	if phi, ok := v.(*ssa.Phi); ok && isBoolType(phi.Type()) {
		var nonConst []int
		allSame, constVal := true, false
		first := true
		for i, e := range phi.Edges {
			if bv, isConst := ConstBool(e); isConst {
				if first {
					constVal, first = bv, false
				} else if bv != constVal {
					allSame = false
				}
			} else {
				nonConst = append(nonConst, i)
			}
		}
		shortCircuit := allSame && !first && len(nonConst) == 1
		if shortCircuit {
			// the constant edges of a short-circuit value come from the tests of its operands
			for i, e := range phi.Edges {
				if _, isConst := ConstBool(e); !isConst {
					continue
				}
				pr := phi.Block().Preds[i]
				if len(pr.Instrs) == 0 {
					shortCircuit = false
					continue
				}
				if _, isIf := pr.Instrs[len(pr.Instrs)-1].(*ssa.If); !isIf {
					shortCircuit = false
				}
			}
		}
		if !shortCircuit {
			// not the value of a short-circuit operator (a flag variable): the plain
			// fact about the variable itself
			cmp, neg := CondCmp(v)
			holds := want
			if neg {
				holds = !holds
			}
			return [][]Fact{{{cmp, holds}}}
		}
		blk := phi.Block()
		// what taking the short-circuit edge i / not taking it means
		shortFacts := func(i int, taken bool) [][]Fact {
			p := blk.Preds[i]
			if len(p.Instrs) == 0 {
				return [][]Fact{nil}
			}
			ifi, ok := p.Instrs[len(p.Instrs)-1].(*ssa.If)
			if !ok {
				return [][]Fact{nil}
			}
			k := 0
			if len(p.Succs) == 2 && p.Succs[1] == blk {
				k = 1
			}
			// the edge to the phi block is taken when cond == (k==0)
			val := k == 0
			if !taken {
				val = !val
			}
			return condAlts(ifi.Cond, val, depth+1)
		}
		conj := func(x, y [][]Fact) [][]Fact { // cross product of alternatives
			var out [][]Fact
			for _, a := range x {
				for _, b := range y {
					out = append(out, append(append([]Fact{}, a...), b...))
				}
			}
			return out
		}
		if want != constVal {
			// came through the non-constant edge: that operand is `want`, and no
			// short-circuit edge was taken (for those whose block dominates it)
			out := condAlts(phi.Edges[nonConst[0]], want, depth+1)
			for i, e := range phi.Edges {
				if _, isConst := ConstBool(e); !isConst {
					continue
				}
				if !blk.Preds[i].Dominates(blk.Preds[nonConst[0]]) {
					continue
				}
				out = conj(out, shortFacts(i, false))
			}
			return out
		}
		// the value equals the short-circuit constant: either one of the
		// short-circuit edges was taken, or the last operand has that value
		var out [][]Fact
		for i, e := range phi.Edges {
			if _, isConst := ConstBool(e); isConst {
				out = append(out, shortFacts(i, true)...)
			}
		}
		out = append(out, condAlts(phi.Edges[nonConst[0]], want, depth+1)...)
		return out
	}
	// a boolean computed by a helper function of the repository: use what its
	// returns imply (predicate helpers such as validType(t), lookups returning
	// (value, ok) …)
	if call, idx := CallResult(v); call != nil && isBoolType(v.Type()) {
		if alts, ok := helperAlts(call, idx, want, depth+1); ok {
			cmp, neg := CondCmp(v)
			holds := want
			if neg {
				holds = !holds
			}
			return conjAlts([][]Fact{{{cmp, holds}}}, alts)
		}
	}
	cmp, neg := CondCmp(v)
	holds := want
	if neg {
		holds = !holds
	}
	return [][]Fact{{{cmp, holds}}}
}

// NonZero builds a matcher for "unsigned v != 0": v != 0, v >= k (k >= 1), v > k (k >= 0).
func NonZero(isV func(ssa.Value) bool) EdgeMatcher {
	return func(c Cmp) (bool, bool) {
		x, y, op := c.X, c.Y, c.Op
		if !isV(x) {
			if !isV(y) {
				return false, false
			}
			x, y = y, x
			switch op { // mirror
			case token.LSS:
				op = token.GTR
			case token.LEQ:
				op = token.GEQ
			case token.GTR:
				op = token.LSS
			case token.GEQ:
				op = token.LEQ
			}
		}
		k, ok := ConstInt(y)
		if !ok {
			return false, false
		}
		switch op {
		case token.NEQ:
			return k == 0, false
		case token.EQL:
			return false, k == 0
		case token.GEQ:
			return k >= 1, false
		case token.GTR:
			return k >= 0, false
		case token.LSS: // v < k : false edge means v >= k
			return false, k >= 1
		case token.LEQ:
			return false, k >= 0
		}
		return false, false
	}
}

func conjAlts(x, y [][]Fact) [][]Fact {
	var out [][]Fact
	for _, a := range x {
		for _, b := range y {
			out = append(out, append(append([]Fact{}, a...), b...))
		}
	}
	return out
}

// pathAlts: conditions necessarily true when block b executes (edges on its
// dominator chain that are the only way into their target).
func pathAlts(b *ssa.BasicBlock, depth int) [][]Fact {
	out := [][]Fact{nil}
	for cur := b; cur != nil && cur.Idom() != nil; cur = cur.Idom() {
		p := cur.Idom()
		if len(cur.Preds) != 1 || cur.Preds[0] != p || len(p.Instrs) == 0 {
			continue
		}
		ifi, ok := p.Instrs[len(p.Instrs)-1].(*ssa.If)
		if !ok || p.Succs[0] == p.Succs[1] {
			continue
		}
		k := 0
		if p.Succs[1] == cur {
			k = 1
		}
		out = conjAlts(out, condAlts(ifi.Cond, k == 0, depth+1))
		if len(out) > 16 {
			return [][]Fact{nil}
		}
	}
	return out
}

// helperAlts summarises a call to a repository function whose result idx is a
// boolean: what holds when that result is `want`.
func helperAlts(call *ssa.Call, idx int, want bool, depth int) ([][]Fact, bool) {
	if depth > 5 {
		return nil, false
	}
	h := call.Call.StaticCallee()
	if h == nil || len(h.Blocks) == 0 || len(h.Blocks) > 60 || h.Pkg == nil || !strings.HasPrefix(h.Pkg.Pkg.Path(), Module) {
		return nil, false
	}
	if idx < 0 {
		idx = 0
	}
	args := call.Call.Args
	subst := func(v ssa.Value) ssa.Value {
		if p, ok := Canon(v).(*ssa.Parameter); ok && p.Parent() == h {
			for i, hp := range h.Params {
				if hp == p && i < len(args) {
					return args[i]
				}
			}
		}
		// a field of a struct parameter (t.service in `func (t target) concerns(hdr)`):
		// what the caller gave that field when it built the struct it passes
		if p, fi, ok := FieldOfParam(v); ok && p.Parent() == h {
			for i, hp := range h.Params {
				if hp == p && i < len(args) {
					if d := LocalStructField(args[i], fi); d != nil {
						return d
					}
				}
			}
		}
		return v
	}
	var out [][]Fact
	for _, r := range Returns(h) {
		if idx >= len(r.Results) {
			continue
		}
		// skip the synthetic recover block
		if len(r.Block().Preds) == 0 && r.Block() != h.Blocks[0] {
			continue
		}
		rv := RetVal(r, idx)
		path := pathAlts(r.Block(), depth)
		if bv, isConst := ConstBool(rv); isConst {
			if bv != want {
				continue
			}
			out = append(out, path...)
			continue
		}
		out = append(out, conjAlts(path, condAlts(rv, want, depth+1))...)
	}
	if len(out) == 0 || len(out) > 16 {
		return nil, false
	}
	for i := range out {
		for j := range out[i] {
			out[i][j].Cmp.X = subst(out[i][j].Cmp.X)
			out[i][j].Cmp.Y = subst(out[i][j].Cmp.Y)
		}
	}
	return out, true
}

// helperNilErrAlts summarises a call to a small checking function of the
// repository whose result idx is an error: what holds when that error is nil.
// Sound only if every return is either the nil constant or a certainly non-nil
// error (built on the spot); otherwise no summary is given.
func helperNilErrAlts(call *ssa.Call, idx int, depth int) ([][]Fact, bool) {
	if depth > 5 {
		return nil, false
	}
	h := call.Call.StaticCallee()
	if h == nil || len(h.Blocks) == 0 || len(h.Blocks) > 40 || h.Pkg == nil || !strings.HasPrefix(h.Pkg.Pkg.Path(), Module) {
		return nil, false
	}
	if idx < 0 {
		idx = 0
	}
	args := call.Call.Args
	subst := func(v ssa.Value) ssa.Value {
		if p, ok := Canon(v).(*ssa.Parameter); ok && p.Parent() == h {
			for i, hp := range h.Params {
				if hp == p && i < len(args) {
					return args[i]
				}
			}
		}
		return v
	}
	var out [][]Fact
	for _, r := range Returns(h) {
		if idx >= len(r.Results) {
			return nil, false
		}
		if len(r.Block().Preds) == 0 && r.Block() != h.Blocks[0] {
			continue
		}
		rv := RetVal(r, idx)
		if IsNilConst(rv) {
			out = append(out, pathAlts(r.Block(), depth)...)
			continue
		}
		// certainly non-nil: built by a call (fmt.Errorf, errors.New, a constructor) or boxed on the spot
		switch x := Canon(rv).(type) {
		case *ssa.Call:
			if f := x.Call.StaticCallee(); f != nil && (f.Name() == "Errorf" || f.Name() == "New") {
				continue
			}
			return nil, false
		case *ssa.MakeInterface:
			continue
		default:
			return nil, false
		}
	}
	if len(out) == 0 || len(out) > 16 {
		return nil, false
	}
	for i := range out {
		for j := range out[i] {
			out[i][j].Cmp.X = subst(out[i][j].Cmp.X)
			out[i][j].Cmp.Y = subst(out[i][j].Cmp.Y)
		}
	}
	return out, true
}

func isBoolType(t types.Type) bool {
	b, ok := t.Underlying().(*types.Basic)
	return ok && b.Info()&types.IsBoolean != 0
}

// EdgeAlts returns what is known on the edge b -> b.Succs[i] (alternatives of
// conjunctions of facts); nil if the edge is not a conditional one.
func EdgeAlts(b *ssa.BasicBlock, i int) [][]Fact {
	if len(b.Instrs) == 0 {
		return nil
	}
	ifi, ok := b.Instrs[len(b.Instrs)-1].(*ssa.If)
	if !ok {
		return nil
	}
	return condAlts(ifi.Cond, i == 0, 0)
}

// CutEstablishing removes every If edge that establishes m: on that edge, in
// every alternative, some known comparison makes m hold.  It also understands
// the search-then-use idiom: a variable that starts at a sentinel (a negative
// index, false) and is only given another value where m holds; an edge on
// which the variable is known to have left its sentinel then establishes m.
func CutEstablishing(m EdgeMatcher) EdgeCut {
	plain := func(b *ssa.BasicBlock, i int) bool { return AltsEstablish(EdgeAlts(b, i), m) }
	memo := map[*ssa.Phi]int{} // 1 in progress / ok, 2 no
	var reach *Reach
	// liveOK: every value other than the sentinel that variable p (a phi and the
	// phis it merges) can take is given on an edge where m holds
	var liveOK func(p *ssa.Phi, sent *bool) bool
	liveOK = func(p *ssa.Phi, sent *bool) bool {
		if st, ok := memo[p]; ok {
			return st == 1
		}
		memo[p] = 1
		for k, e := range p.Edges {
			if isSentinelConst(e) {
				*sent = true
				continue
			}
			if q, ok := e.(*ssa.Phi); ok && (q == p || mergesSentinel(q)) {
				if !liveOK(q, sent) {
					memo[p] = 2
					return false
				}
				continue
			}
			pred := p.Block().Preds[k]
			idx := -1
			for si, sc := range pred.Succs {
				if sc == p.Block() {
					idx = si
				}
			}
			if idx >= 0 && plain(pred, idx) {
				continue
			}
			if reach == nil {
				reach = ReachEntry(p.Parent(), nil, plain)
			}
			if len(pred.Instrs) > 0 && !reach.Has(pred.Instrs[len(pred.Instrs)-1]) {
				continue
			}
			memo[p] = 2
			return false
		}
		return true
	}
	sentinelOK := func(p *ssa.Phi) bool {
		if st, ok := memo[p]; ok && st == 2 {
			return false
		}
		if !hasSentinelEdge(p) && !mergesSentinel(p) {
			return false
		}
		sent := false
		for k := range memo {
			if memo[k] == 1 {
				delete(memo, k)
			}
		}
		return liveOK(p, &sent) && sent
	}
	notSentinel := func(f Fact) bool {
		for _, side := range []ssa.Value{f.Cmp.X, f.Cmp.Y} {
			if side == nil {
				continue
			}
			p, ok := StripConv(side).(*ssa.Phi)
			if !ok {
				continue
			}
			isP := func(v ssa.Value) bool { return v != nil && StripConv(v) == ssa.Value(p) }
			left := false
			for _, mm := range []EdgeMatcher{LowerBound0(isP), IsTrue(isP), Ne(isP, isSentinelConst)} {
				t, fl := mm(f.Cmp)
				if (f.Holds && t) || (!f.Holds && fl) {
					left = true
				}
			}
			if left && sentinelOK(p) {
				return true
			}
		}
		return false
	}
	return func(b *ssa.BasicBlock, i int) bool {
		alts := EdgeAlts(b, i)
		if len(alts) == 0 {
			return false
		}
		for _, alt := range alts {
			ok := false
			for _, f := range alt {
				t, fl := m(f.Cmp)
				if (f.Holds && t) || (!f.Holds && fl) || notSentinel(f) {
					ok = true
					break
				}
			}
			if !ok {
				return false
			}
		}
		return true
	}
}

// mergesSentinel: one of the phis p merges (transitively) has a sentinel edge.
func mergesSentinel(p *ssa.Phi) bool {
	seen := map[*ssa.Phi]bool{}
	var walk func(q *ssa.Phi) bool
	walk = func(q *ssa.Phi) bool {
		if seen[q] {
			return false
		}
		seen[q] = true
		if hasSentinelEdge(q) {
			return true
		}
		for _, e := range q.Edges {
			if r, ok := e.(*ssa.Phi); ok && walk(r) {
				return true
			}
		}
		return false
	}
	return walk(p)
}

func hasSentinelEdge(p *ssa.Phi) bool {
	for _, e := range p.Edges {
		if isSentinelConst(e) {
			return true
		}
	}
	return false
}

// isSentinelConst: a negative integer constant or the constant false.
func isSentinelConst(v ssa.Value) bool {
	if v == nil {
		return false
	}
	if k, ok := ConstInt(v); ok {
		return k < 0
	}
	if b, ok := ConstBool(v); ok {
		return !b
	}
	return false
}

// Point is a program point: before instruction I of block B.
type Point struct {
	B *ssa.BasicBlock
	I int
}

// PointOf returns the point just before instruction in.
func PointOf(in ssa.Instruction) Point {
	b := in.Block()
	for i, x := range b.Instrs {
		if x == in {
			return Point{b, i}
		}
	}
	return Point{b, 0}
}

// After returns the point just after instruction in.
func After(in ssa.Instruction) Point {
	p := PointOf(in)
	p.I++
	return p
}

// Reach is the set of instructions reachable from a start point.
type Reach struct {
	entry map[*ssa.BasicBlock]bool // block reachable at its first instruction
	start Point
	stop  func(ssa.Instruction) bool
	first map[*ssa.BasicBlock]int // index of first stopping instr (len if none), from index 0
}

// ReachFrom computes what is reachable from start without executing an
// instruction for which stop returns true (the stopping instruction itself
// is reached, nothing after it) and without crossing a cut edge.
func ReachFrom(start Point, stop func(ssa.Instruction) bool, cut EdgeCut) *Reach {
	r := &Reach{entry: map[*ssa.BasicBlock]bool{}, start: start, stop: stop, first: map[*ssa.BasicBlock]int{}}
	firstStop := func(b *ssa.BasicBlock, from int) int {
		if stop == nil {
			return len(b.Instrs)
		}
		for i := from; i < len(b.Instrs); i++ {
			if stop(b.Instrs[i]) {
				return i
			}
		}
		return len(b.Instrs)
	}
	var work []*ssa.BasicBlock
	push := func(b *ssa.BasicBlock) {
		if !r.entry[b] {
			r.entry[b] = true
			work = append(work, b)
		}
	}
	propagate := func(b *ssa.BasicBlock) {
		for i, s := range b.Succs {
			if cut != nil && cut(b, i) {
				continue
			}
			push(s)
		}
	}
	// the start block, from start.I
	if firstStop(start.B, start.I) == len(start.B.Instrs) {
		propagate(start.B)
	}
	for len(work) > 0 {
		b := work[len(work)-1]
		work = work[:len(work)-1]
		fs := firstStop(b, 0)
		r.first[b] = fs
		if fs == len(b.Instrs) {
			propagate(b)
		}
	}
	return r
}

// ReachEntry computes reachability from the function entry.
func ReachEntry(fn *ssa.Function, stop func(ssa.Instruction) bool, cut EdgeCut) *Reach {
	if len(fn.Blocks) == 0 {
		return &Reach{entry: map[*ssa.BasicBlock]bool{}}
	}
	r := ReachFrom(Point{fn.Blocks[0], 0}, stop, cut)
	return r
}

// Has reports whether instruction in is reached.
func (r *Reach) Has(in ssa.Instruction) bool {
	p := PointOf(in)
	if r.entry[p.B] {
		if fs, ok := r.first[p.B]; ok && p.I <= fs {
			return true
		}
	}
	if p.B == r.start.B && p.I >= r.start.I {
		// reached within the start block
		for i := r.start.I; i < p.I; i++ {
			if r.stop != nil && r.stop(p.B.Instrs[i]) {
				return false
			}
		}
		return true
	}
	return false
}

// Guarded reports whether every path from the entry of fn to target crosses
// an edge establishing m (the target is unreachable once those are cut).
func Guarded(fn *ssa.Function, target ssa.Instruction, m EdgeMatcher) bool {
	return !ReachEntry(fn, nil, CutEstablishing(m)).Has(target)
}

// MustPassBefore reports whether every path from entry to target executes an
// instruction satisfying via first.
func MustPassBefore(fn *ssa.Function, target ssa.Instruction, via func(ssa.Instruction) bool) bool {
	r := ReachEntry(fn, via, nil)
	if !r.Has(target) {
		return true
	}
	// target reached: it may itself be the `via` instruction or be reached
	// without passing one.
	return false
}

// CanReach reports whether `to` is reachable from the point after `from`.
func CanReach(from ssa.Instruction, to func(ssa.Instruction) bool) ssa.Instruction {
	var hit ssa.Instruction
	ReachFrom(After(from), func(in ssa.Instruction) bool {
		if to(in) {
			if hit == nil {
				hit = in
			}
			return true
		}
		return false
	}, nil)
	return hit
}

// Dominates reports whether instruction a dominates instruction b.
func Dominates(a, b ssa.Instruction) bool {
	pa, pb := PointOf(a), PointOf(b)
	if pa.B == pb.B {
		return pa.I <= pb.I
	}
	return pa.B.Dominates(pb.B)
}

// ---------------------------------------------------------------- misc

// Referrers returns the referrers of v (nil-safe).
func Referrers(v ssa.Value) []ssa.Instruction {
	if v == nil {
		return nil
	}
	r := v.Referrers()
	if r == nil {
		return nil
	}
	return *r
}

// ParamNamed returns the parameter of fn with the given name.
func ParamNamed(fn *ssa.Function, name string) *ssa.Parameter {
	for _, p := range fn.Params {
		if p.Name() == name {
			return p
		}
	}
	return nil
}

// ParamOfType returns the first parameter for which pred(type) holds.
func ParamOfType(fn *ssa.Function, pred func(types.Type) bool) *ssa.Parameter {
	for _, p := range fn.Params {
		if pred(p.Type()) {
			return p
		}
	}
	return nil
}

// IsErrorType reports whether t is the predeclared error type.
func IsErrorType(t types.Type) bool {
	return types.Identical(t, types.Universe.Lookup("error").Type())
}

// FreeVarBinding maps a free variable of closure fn back to the value bound
// at the (unique) MakeClosure in its parent.
func FreeVarBinding(fv *ssa.FreeVar) ssa.Value {
	fn := fv.Parent()
	idx := -1
	for i, x := range fn.FreeVars {
		if x == fv {
			idx = i
		}
	}
	if idx < 0 || fn.Parent() == nil {
		return nil
	}
	for _, b := range fn.Parent().Blocks {
		for _, in := range b.Instrs {
			if mc, ok := in.(*ssa.MakeClosure); ok && mc.Fn == fn && idx < len(mc.Bindings) {
				return mc.Bindings[idx]
			}
		}
	}
	return nil
}

// ---------------------------------------------------------------- cells

// cellStores collects every Store into the variable cell `cell` (an Alloc or
// a FreeVar), including stores made by closures that capture it.
func cellStores(cell ssa.Value, out *[]*ssa.Store, escaped *bool, depth int) {
	if depth > 6 {
		*escaped = true
		return
	}
	for _, r := range Referrers(cell) {
		switch x := r.(type) {
		case *ssa.Store:
			if x.Addr == cell {
				*out = append(*out, x)
			} else {
				*escaped = true // the address itself is stored somewhere
			}
		case *ssa.UnOp:
			// load
		case *ssa.MakeClosure:
			fn, ok := x.Fn.(*ssa.Function)
			if !ok {
				*escaped = true
				continue
			}
			for i, b := range x.Bindings {
				if b == cell && i < len(fn.FreeVars) {
					cellStores(fn.FreeVars[i], out, escaped, depth+1)
				}
			}
		case *ssa.DebugRef:
		case *ssa.FieldAddr, *ssa.IndexAddr:
			// address of a part of the cell's content: a partial write is
			// possible (struct-typed cells); handled by callers that care.
		default:
			if _, isCall := r.(ssa.CallInstruction); isCall {
				*escaped = true // &x passed to a call
			}
		}
	}
}

// SingleDef returns the unique value ever stored into the local variable
// cell (Alloc, or FreeVar of a closure), or nil if there are several stores,
// none, or the cell's address escapes.
func SingleDef(cell ssa.Value) ssa.Value {
	// walk up to the defining Alloc for free variables
	for {
		fv, ok := cell.(*ssa.FreeVar)
		if !ok {
			break
		}
		b := FreeVarBinding(fv)
		if b == nil {
			return nil
		}
		cell = b
	}
	a, ok := cell.(*ssa.Alloc)
	if !ok {
		return nil
	}
	var stores []*ssa.Store
	escaped := false
	cellStores(a, &stores, &escaped, 0)
	if escaped || len(stores) != 1 {
		return nil
	}
	return stores[0].Val
}

// Canon resolves v through wrappers and through loads of single-assignment
// local variables, so that two reads of the same variable compare equal.
func Canon(v ssa.Value) ssa.Value {
	for depth := 0; depth < 16; depth++ {
		v = Strip(v)
		u, ok := v.(*ssa.UnOp)
		if !ok || u.Op != token.MUL {
			return v
		}
		switch x := u.X.(type) {
		case *ssa.Alloc, *ssa.FreeVar:
			if d := SingleDef(u.X); d != nil {
				v = d
				continue
			}
		case *ssa.FieldAddr:
			// s.queue where s is a struct made here and the field is given its
			// value once in the whole program (the composite literal)
			if al, ok := Canon(x.X).(*ssa.Alloc); ok {
				if d := SingleFieldDef(al, x.Field); d != nil {
					v = d
					continue
				}
			}
		}
		return v
	}
	return v
}

// fieldStoreCount: how many instructions of the program write each struct
// field (a store of a whole struct counts for each of its fields).
var fieldStoreCount map[*types.Var]int

// IndexFieldStores counts the writes to every struct field over fns.
func IndexFieldStores(fns map[*ssa.Function]bool) {
	fieldStoreCount = map[*types.Var]int{}
	for fn := range fns {
		for _, b := range fn.Blocks {
			for _, in := range b.Instrs {
				st, ok := in.(*ssa.Store)
				if !ok {
					continue
				}
				if fa, ok := st.Addr.(*ssa.FieldAddr); ok {
					if fv := fieldAddrVar(fa); fv != nil {
						fieldStoreCount[fv]++
					}
					continue
				}
				if s, ok := st.Val.Type().Underlying().(*types.Struct); ok {
					for i := 0; i < s.NumFields(); i++ {
						fieldStoreCount[s.Field(i)]++
					}
				}
			}
		}
	}
}

func fieldAddrVar(fa *ssa.FieldAddr) *types.Var {
	p, ok := fa.X.Type().Underlying().(*types.Pointer)
	if !ok {
		return nil
	}
	s, ok := p.Elem().Underlying().(*types.Struct)
	if !ok || fa.Field >= s.NumFields() {
		return nil
	}
	return s.Field(fa.Field)
}

// SingleFieldDef: the one value ever stored in field idx of the struct al
// allocates — the field is written by a single instruction of the program, and
// that instruction initialises al.
func SingleFieldDef(al *ssa.Alloc, idx int) ssa.Value {
	if fieldStoreCount == nil || al.Referrers() == nil {
		return nil
	}
	var def ssa.Value
	for _, r := range *al.Referrers() {
		fa, ok := r.(*ssa.FieldAddr)
		if !ok || fa.Field != idx || fa.Referrers() == nil {
			continue
		}
		fv := fieldAddrVar(fa)
		if fv == nil || fieldStoreCount[fv] != 1 {
			return nil
		}
		for _, u := range *fa.Referrers() {
			if st, ok := u.(*ssa.Store); ok && st.Addr == ssa.Value(fa) {
				if def != nil {
					return nil
				}
				def = st.Val
			}
		}
	}
	return def
}

// SameValue reports whether a and b are provably the same value (same SSA
// value after Canon, equal constants, or loads of the same variable cell).
func SameValue(a, b ssa.Value) bool {
	ca, cb := Canon(a), Canon(b)
	if ca == cb {
		return true
	}
	if x, ok := ca.(*ssa.Const); ok {
		if y, ok := cb.(*ssa.Const); ok {
			return x.Value != nil && y.Value != nil && constant.Compare(x.Value, token.EQL, y.Value) && types.Identical(x.Type(), y.Type())
		}
	}
	// loads of the same cell (multi-store variable): same variable, possibly
	// different moments; callers that need more must check for stores between.
	ua, ok1 := ca.(*ssa.UnOp)
	ub, ok2 := cb.(*ssa.UnOp)
	if ok1 && ok2 && ua.Op == token.MUL && ub.Op == token.MUL {
		return cellRoot(ua.X) != nil && cellRoot(ua.X) == cellRoot(ub.X) && samePathFields(ua.X, ub.X)
	}
	return false
}

func cellRoot(v ssa.Value) ssa.Value {
	for {
		switch x := v.(type) {
		case *ssa.FreeVar:
			b := FreeVarBinding(x)
			if b == nil {
				return x
			}
			v = b
		case *ssa.Alloc:
			return x
		case *ssa.FieldAddr:
			v = x.X
		default:
			return nil
		}
	}
}

func samePathFields(a, b ssa.Value) bool {
	fa, ok1 := a.(*ssa.FieldAddr)
	fb, ok2 := b.(*ssa.FieldAddr)
	if ok1 != ok2 {
		return false
	}
	if !ok1 {
		return true
	}
	return fa.Field == fb.Field && samePathFields(fa.X, fb.X)
}

// RootOf returns the canonical root of v's access path: a local variable cell
// with a single definition is replaced by that definition.
func RootOf(v ssa.Value) ssa.Value {
	r := AccessPath(v).Root
	for depth := 0; depth < 8; depth++ {
		switch x := r.(type) {
		case *ssa.Alloc:
			if d := SingleDef(x); d != nil {
				r = AccessPath(d).Root
				continue
			}
		case *ssa.FreeVar:
			if d := SingleDef(x); d != nil {
				r = AccessPath(d).Root
				continue
			}
			if b := FreeVarBinding(x); b != nil {
				r = b
				continue
			}
		}
		break
	}
	return Canon(r)
}

// RetVal returns the i-th result of a return, looking through the result
// cells go/ssa introduces in functions with defers (results are stored to a
// cell, `rundefers` runs, the cell is loaded and returned): the value stored
// last in the same block is returned.
func RetVal(r *ssa.Return, i int) ssa.Value {
	if i < 0 || i >= len(r.Results) {
		return nil
	}
	v := r.Results[i]
	u, ok := v.(*ssa.UnOp)
	if !ok || u.Op != token.MUL {
		return v
	}
	a, ok := u.X.(*ssa.Alloc)
	if !ok {
		return v
	}
	b := r.Block()
	for k := len(b.Instrs) - 1; k >= 0; k-- {
		if st, ok := b.Instrs[k].(*ssa.Store); ok && st.Addr == ssa.Value(a) {
			return st.Val
		}
	}
	// not stored in this block: if the cell has a single definition use it
	if d := SingleDef(a); d != nil {
		return d
	}
	return v
}

// RetVals returns all results of r resolved with RetVal.
func RetVals(r *ssa.Return) []ssa.Value {
	out := make([]ssa.Value, len(r.Results))
	for i := range r.Results {
		out[i] = RetVal(r, i)
	}
	return out
}

// ValueAlts exposes condAlts: what is known when boolean value v equals want.
func ValueAlts(v ssa.Value, want bool) [][]Fact { return condAlts(v, want, 0) }

// AltsEstablish reports whether, in every alternative, some fact makes m hold.
func AltsEstablish(alts [][]Fact, m EdgeMatcher) bool {
	if len(alts) == 0 {
		return false
	}
	for _, alt := range alts {
		ok := false
		for _, f := range alt {
			t, fl := m(f.Cmp)
			if (f.Holds && t) || (!f.Holds && fl) {
				ok = true
				break
			}
		}
		if !ok {
			return false
		}
	}
	return true
}

// ---------------------------------------------------------------- search variables

// Search variables: a variable that starts at a sentinel (a negative index,
// false) and is given a live value on a path is not, later on that path, found
// at its sentinel again (`found = i; break` … `if found < 0 { … }`: the
// then-branch is not reached from the assignment).  The walks below track one
// bit per variable: state = (block, set of variables known to be live).

type searchState struct {
	b    *ssa.BasicBlock
	mask uint32
}

type searchCtx struct {
	bit    map[*ssa.Phi]uint
	parent map[*ssa.Phi]*ssa.Phi
}

func (sc *searchCtx) find(p *ssa.Phi) *ssa.Phi {
	if sc.parent[p] == nil || sc.parent[p] == p {
		sc.parent[p] = p
		return p
	}
	r := sc.find(sc.parent[p])
	sc.parent[p] = r
	return r
}

func (sc *searchCtx) groupBit(p *ssa.Phi) (uint, bool) {
	b, ok := sc.bit[sc.find(p)]
	return b, ok
}

func newSearchCtx(fn *ssa.Function) *searchCtx {
	sc := &searchCtx{bit: map[*ssa.Phi]uint{}, parent: map[*ssa.Phi]*ssa.Phi{}}
	var phis []*ssa.Phi
	for _, b := range fn.Blocks {
		for _, in := range b.Instrs {
			p, ok := in.(*ssa.Phi)
			if !ok {
				break
			}
			phis = append(phis, p)
			sc.find(p)
		}
	}
	// groups of phis that are copies of one source variable
	for _, p := range phis {
		for _, e := range p.Edges {
			// a phi that holds the same variable: not any phi (a loop counter
			// assigned to the variable is a value like another)
			if q, ok := e.(*ssa.Phi); ok && (q == p || mergesSentinel(q)) {
				sc.parent[sc.find(p)] = sc.find(q)
			}
		}
	}
	for _, p := range phis {
		if hasSentinelEdge(p) {
			g := sc.find(p)
			if _, ok := sc.bit[g]; !ok && len(sc.bit) < 16 {
				sc.bit[g] = uint(len(sc.bit))
			}
		}
	}
	return sc
}

// atSentinel: the fact says that a search variable is at its sentinel.
func (sc *searchCtx) atSentinel(f Fact) (uint, bool) {
	for _, side := range []ssa.Value{f.Cmp.X, f.Cmp.Y} {
		if side == nil {
			continue
		}
		p, ok := StripConv(side).(*ssa.Phi)
		if !ok {
			continue
		}
		gb, ok := sc.groupBit(p)
		if !ok {
			continue
		}
		isP := func(v ssa.Value) bool { return v != nil && StripConv(v) == ssa.Value(p) }
		for _, mm := range []EdgeMatcher{LowerBound0(isP), IsTrue(isP), Ne(isP, isSentinelConst)} {
			t, fl := mm(f.Cmp)
			// the complement holds: the variable has not left its sentinel
			if (f.Holds && fl) || (!f.Holds && t) {
				return gb, true
			}
		}
	}
	return 0, false
}

// transfer: the state after entering block to from block pr.
func (sc *searchCtx) transfer(mask uint32, pr, to *ssa.BasicBlock) uint32 {
	for k, p := range to.Preds {
		if p != pr {
			continue
		}
		for _, in := range to.Instrs {
			ph, ok := in.(*ssa.Phi)
			if !ok {
				break
			}
			gb, ok := sc.groupBit(ph)
			if !ok {
				continue
			}
			e := ph.Edges[k]
			switch {
			case isSentinelConst(e):
				mask &^= 1 << gb
			default:
				if q, isPhi := e.(*ssa.Phi); !isPhi || sc.find(q) != sc.find(ph) {
					mask |= 1 << gb
				}
			}
		}
		break
	}
	return mask
}

// feasible: the edge st.b -> st.b.Succs[i] does not put a live variable at its sentinel.
func (sc *searchCtx) feasible(st searchState, i int) bool {
	alts := EdgeAlts(st.b, i)
	if len(alts) == 0 {
		return true
	}
	for _, alt := range alts {
		hit := false
		for _, f := range alt {
			if gb, ok := sc.atSentinel(f); ok && st.mask&(1<<gb) != 0 {
				hit = true
			}
		}
		if !hit {
			return true
		}
	}
	return false
}

// next: the successor states of st (cut edges and infeasible edges left out;
// nothing follows a block that holds a stopping instruction).
func (sc *searchCtx) next(st searchState, stop func(ssa.Instruction) bool, cut EdgeCut) []searchState {
	if stop != nil {
		for _, in := range st.b.Instrs {
			if stop(in) {
				return nil
			}
		}
	}
	var out []searchState
	for i, to := range st.b.Succs {
		if cut != nil && cut(st.b, i) {
			continue
		}
		if !sc.feasible(st, i) {
			continue
		}
		out = append(out, searchState{to, sc.transfer(st.mask, st.b, to)})
	}
	return out
}

// SearchReach computes the blocks reachable from the start of block from along
// paths that are consistent with the search variables of the function.
func SearchReach(from *ssa.BasicBlock) map[*ssa.BasicBlock]bool {
	return searchReach(from, nil)
}

// SearchReachEdge is SearchReach started on the edge b -> b.Succs[i] (what the
// edge assigns to the search variables counts).
func SearchReachEdge(b *ssa.BasicBlock, i int) map[*ssa.BasicBlock]bool {
	return searchReach(b.Succs[i], b)
}

func searchReach(from, via *ssa.BasicBlock) map[*ssa.BasicBlock]bool {
	sc := newSearchCtx(from.Parent())
	start := searchState{from, 0}
	if via != nil {
		start.mask = sc.transfer(0, via, from)
	}
	seen := map[searchState]bool{start: true}
	out := map[*ssa.BasicBlock]bool{}
	work := []searchState{start}
	for len(work) > 0 {
		st := work[len(work)-1]
		work = work[:len(work)-1]
		out[st.b] = true
		for _, ns := range sc.next(st, nil, nil) {
			if !seen[ns] {
				seen[ns] = true
				work = append(work, ns)
			}
		}
	}
	return out
}

// SearchCycleThrough reports whether the loop with header h can go round —
// come back to h in the state it left it — along a path that executes no
// stopping instruction, crosses no cut edge and is consistent with the search
// variables (a flag set in the body that makes the loop condition false ends
// the loop: no cycle).
func SearchCycleThrough(h *ssa.BasicBlock, stop func(ssa.Instruction) bool, cut EdgeCut) bool {
	sc := newSearchCtx(h.Parent())
	// the states of h reachable from (h, nothing live)
	start := searchState{h, 0}
	seen := map[searchState]bool{start: true}
	work := []searchState{start}
	var hs []searchState
	for len(work) > 0 {
		st := work[len(work)-1]
		work = work[:len(work)-1]
		if st.b == h {
			hs = append(hs, st)
		}
		for _, ns := range sc.next(st, stop, cut) {
			if !seen[ns] {
				seen[ns] = true
				work = append(work, ns)
			}
		}
	}
	for _, h0 := range hs {
		seen2 := map[searchState]bool{}
		work = append(work[:0], sc.next(h0, stop, cut)...)
		for len(work) > 0 {
			st := work[len(work)-1]
			work = work[:len(work)-1]
			if st == h0 {
				return true
			}
			if seen2[st] {
				continue
			}
			seen2[st] = true
			work = append(work, sc.next(st, stop, cut)...)
		}
	}
	return false
}

// ReachingStores: for a load of a local cell, the stores into the cell that
// can be the last one before the load (stores of the cell's own value, as
// `return c, false` makes for a named result, are looked through).
func ReachingStores(ld *ssa.UnOp) []*ssa.Store {
	a, ok := ld.X.(*ssa.Alloc)
	if !ok || ld.Op != token.MUL {
		return nil
	}
	var stores []*ssa.Store
	for _, r := range Referrers(a) {
		if st, ok := r.(*ssa.Store); ok && st.Addr == ssa.Value(a) {
			if u, isLoad := st.Val.(*ssa.UnOp); isLoad && u.Op == token.MUL && u.X == ssa.Value(a) {
				continue // c = c
			}
			stores = append(stores, st)
		}
	}
	isStore := func(x ssa.Instruction) bool {
		for _, s := range stores {
			if s == x {
				return true
			}
		}
		return false
	}
	var out []*ssa.Store
	for _, st := range stores {
		if ReachFrom(After(st), isStore, nil).Has(ld) {
			out = append(out, st)
		}
	}
	return out
}

// ResolveLoad: the value a load of a local cell yields when exactly one store
// can be the last one before it (a variable assigned on several branches, read
// where only one assignment reaches); v itself otherwise.
func ResolveLoad(v ssa.Value) ssa.Value {
	for i := 0; i < 4; i++ {
		ld, ok := v.(*ssa.UnOp)
		if !ok {
			return v
		}
		sts := ReachingStores(ld)
		if len(sts) != 1 {
			return v
		}
		v = Canon(sts[0].Val)
	}
	return v
}

// FieldOfParam: v reads field idx of a struct-typed parameter p (directly, or
// through the local copy go/ssa makes of a parameter whose address is taken).
func FieldOfParam(v ssa.Value) (*ssa.Parameter, int, bool) {
	switch x := StripConv(v).(type) {
	case *ssa.Field:
		if p, ok := x.X.(*ssa.Parameter); ok {
			return p, x.Field, true
		}
	case *ssa.UnOp:
		fa, ok := x.X.(*ssa.FieldAddr)
		if !ok || x.Op != token.MUL {
			return nil, 0, false
		}
		al, ok := fa.X.(*ssa.Alloc)
		if !ok {
			return nil, 0, false
		}
		var p *ssa.Parameter
		n := 0
		for _, r := range Referrers(al) {
			switch y := r.(type) {
			case *ssa.Store:
				if y.Addr == ssa.Value(al) {
					n++
					p, _ = y.Val.(*ssa.Parameter)
				}
			case *ssa.FieldAddr:
				for _, u := range Referrers(y) {
					if st, ok := u.(*ssa.Store); ok && st.Addr == ssa.Value(y) {
						return nil, 0, false
					}
				}
			}
		}
		if n == 1 && p != nil {
			return p, fa.Field, true
		}
	}
	return nil, 0, false
}

// LocalStructField: arg is a struct value built on the spot (the load of a
// local filled field by field by one composite literal, possibly captured by
// the closure that uses it); returns what field idx was given, nil if unknown.
func LocalStructField(arg ssa.Value, idx int) ssa.Value {
	ld, ok := Strip(arg).(*ssa.UnOp)
	if !ok || ld.Op != token.MUL {
		return nil
	}
	var al *ssa.Alloc
	switch x := ld.X.(type) {
	case *ssa.Alloc:
		al = x
	case *ssa.FreeVar:
		for depth := 0; depth < 3 && al == nil; depth++ {
			b := FreeVarBinding(x)
			switch y := b.(type) {
			case *ssa.Alloc:
				al = y
			case *ssa.FreeVar:
				x = y
				continue
			}
			break
		}
	}
	if al == nil {
		return nil
	}
	if _, isStruct := al.Type().Underlying().(*types.Pointer).Elem().Underlying().(*types.Struct); !isStruct {
		return nil
	}
	var val ssa.Value
	n := 0
	var visit func(cell ssa.Value, depth int) bool
	visit = func(cell ssa.Value, depth int) bool {
		for _, r := range Referrers(cell) {
			switch y := r.(type) {
			case *ssa.Store:
				if y.Addr == cell {
					return false // the whole struct is overwritten
				}
			case *ssa.FieldAddr:
				if y.Field != idx {
					continue
				}
				for _, u := range Referrers(y) {
					if st, ok := u.(*ssa.Store); ok && st.Addr == ssa.Value(y) {
						n++
						val = st.Val
					}
				}
			case *ssa.MakeClosure:
				if depth > 2 {
					return false
				}
				fn, _ := y.Fn.(*ssa.Function)
				for i, b := range y.Bindings {
					if b == cell && fn != nil && i < len(fn.FreeVars) {
						if !visit(fn.FreeVars[i], depth+1) {
							return false
						}
					}
				}
			}
		}
		return true
	}
	if !visit(al, 0) || n != 1 {
		return nil
	}
	return val
}
