package rules

import (
	"go/types"

	"golang.org/x/tools/go/ssa"

	"qicheck/internal/core"
)

// Rename-tolerant anchors.  Every unexported struct and field the rules refer
// to is described by its name on the confirmed tree AND by a type-based
// description; resolution tries the name first and falls back to the type
// description, so that renaming an unexported identifier (a behaviour-
// preserving edit) does not make a rule lose its anchor.

// structSig: field types that identify a struct within its package.
var structSig = map[string][]string{
	"bus/net.endPoint":               {"Stream", "[]*Handler", "sync.Mutex"},
	"bus/net.Handler":                {"Filter", "chan<- *Message", "Closer"},
	"bus/directory.serviceDirectory": {"map[uint32]ServiceInfo", "map[uint32]ServiceInfo", "uint32", "ServiceDirectorySignalHelper"},
	"bus.signalHandler":              {"[]signalUser", "sync.RWMutex"},
	"bus.signalUser":                 {"uint64", "Channel", "int"},
	"bus.serviceImpl":                {"map[uint32]Actor", "map[uint32]MailBox"},
	"bus.client":                     {"net.EndPoint", "map[string]int", "CapabilityMap"},
	"bus.channel":                    {"CapabilityMap", "net.EndPoint"},
	"bus.objectImpl":                 {"map[string]value.Value", "*signalHandler"},
	"bus.clientService":              {"map[uint32]int", "Channel", "Session"},
	"bus.Router":                     {"map[uint32]ServiceReceiver"},
	"bus/session.Session":            {"map[string]bus.Client", "[]services.ServiceInfo"},
	"bus.serviceAuthenticate":        {"Authenticator"},
	"type/value.OpaqueValue":         {"string", "[]byte"},
	"meta/signature.MapType":         {"Type", "Type"},
}

// fieldType: type of each anchored field on the confirmed tree.
var fieldType = map[string]string{
	"bus/net.endPoint.stream":               "Stream",
	"bus/net.endPoint.handlers":             "[]*Handler",
	"bus/net.endPoint.handlersMutex":        "sync.Mutex",
	"bus/net.Handler.filter":                "Filter",
	"bus/net.Handler.consumer":              "chan<- *Message",
	"bus/net.Handler.closer":                "Closer",
	"bus/directory.serviceDirectory.lastID": "uint32",
	"bus/directory.serviceDirectory.mutex":  "sync.Mutex",
	"bus.signalHandler.signals":             "[]signalUser",
	"bus.signalHandler.signalsMutex":        "sync.RWMutex",
	"bus.signalUser.userID":                 "uint64",
	"bus.signalUser.contextID":              "int",
	"bus.serviceImpl.objects":               "map[uint32]Actor",
	"bus.serviceImpl.boxes":                 "map[uint32]MailBox",
	"bus.Router.services":                   "map[uint32]ServiceReceiver",
	"bus.client.state":                      "map[string]int",
	"bus.client.messageID":                  "uint32",
	"bus.channel.capability":                "CapabilityMap",
	"bus.objectImpl.properties":             "map[string]value.Value",
	"bus.clientService.objectsHandlers":     "map[uint32]int",
	"bus/session.Session.poll":              "map[string]bus.Client",
	"bus/session.Session.serviceList":       "[]services.ServiceInfo",
	"type/value.OpaqueValue.sig":            "string",
	"type/value.OpaqueValue.data":           "[]byte",
}

// strct resolves a struct type (rename-tolerant).
func strct(c *core.Ctx, rel, name string) *types.Named {
	return c.StructLike(rel, name, structSig[rel+"."+name]...)
}

// fld resolves a field (rename-tolerant): by name, else by its unique type.
func fld(c *core.Ctx, rel, typ, name string) *types.Var {
	st := strct(c, rel, typ)
	if st == nil {
		return nil
	}
	if f := c.FieldT(st, name, fieldType[rel+"."+typ+"."+name]); f != nil {
		return f
	}
	// the field moved, with its neighbours, into a small struct the owner now embeds or
	// holds (signalUser{subscription; context; contextID}): found one level down
	_, f := fldNested(c, rel, typ, name, "")
	return f
}

// fldNested resolves a field like fld, and also finds it one level down: in a
// small struct of the same package that the owner now holds (the state and its
// mutex moved together into a type of their own).  Returns the struct that
// declares the field.
func fldNested(c *core.Ctx, rel, typ, name, typeString string) (*types.Named, *types.Var) {
	st := strct(c, rel, typ)
	if st == nil {
		return nil, nil
	}
	if typeString == "" {
		typeString = fieldType[rel+"."+typ+"."+name]
	}
	if f := c.FieldT(st, name, typeString); f != nil {
		return st, f
	}
	s, ok := st.Underlying().(*types.Struct)
	if !ok {
		return nil, nil
	}
	var owner *types.Named
	var found *types.Var
	for i := 0; i < s.NumFields(); i++ {
		t := s.Field(i).Type()
		if p, ok := t.(*types.Pointer); ok {
			t = p.Elem()
		}
		sub, ok := t.(*types.Named)
		if !ok || sub.Obj().Pkg() != st.Obj().Pkg() {
			continue
		}
		if _, isStruct := sub.Underlying().(*types.Struct); !isStruct {
			continue
		}
		if f := c.FieldT(sub, name, typeString); f != nil {
			if found != nil {
				return nil, nil // ambiguous
			}
			owner, found = sub, f
		}
	}
	return owner, found
}

// mutexFields lists the sync.Mutex / sync.RWMutex fields of a struct
// (embedded ones included).
func mutexFields(st *types.Named) []*types.Var {
	var out []*types.Var
	s, ok := st.Underlying().(*types.Struct)
	if !ok {
		return nil
	}
	for i := 0; i < s.NumFields(); i++ {
		ts := types.TypeString(s.Field(i).Type(), nil)
		if ts == "sync.Mutex" || ts == "sync.RWMutex" {
			out = append(out, s.Field(i))
		}
	}
	return out
}

// classOf builds the lock class of mutex field mu of struct st.
func classOf(st *types.Named, mu *types.Var) core.LockClass {
	return core.LockClass{Owner: core.OwnerName(st), Field: mu.Name()}
}

// guardOf infers which mutex of st protects field f: the mutex of st held at
// the largest number of (non-constructor) accesses of f in the package.  hint
// is preferred when it names a mutex of the struct.
func guardOf(c *core.Ctx, lc *core.LockCache, rel string, st *types.Named, f *types.Var, hint string) (core.LockClass, bool) {
	cands := mutexFields(st)
	if len(cands) == 0 {
		return core.LockClass{}, false
	}
	for _, m := range cands {
		if m.Name() == hint {
			return classOf(st, m), true
		}
	}
	if len(cands) == 1 {
		return classOf(st, cands[0]), true
	}
	best, bestN := cands[0], -1
	for _, m := range cands {
		cl := classOf(st, m)
		n := 0
		for _, fn := range srcFuncsOfPkg(c, rel) {
			lf := lc.Get(fn)
			for _, a := range fieldAccesses(fn, f) {
				if a.fresh {
					continue
				}
				if h, _ := lf.HeldAt(a.instr, cl, false); h {
					n++
				}
			}
		}
		if n > bestN {
			best, bestN = m, n
		}
	}
	return classOf(st, best), true
}

// methodsCalling returns a role predicate: the function contains a call satisfying pred.
func methodsCalling(pred func(ssa.CallInstruction) bool) func(*ssa.Function) bool {
	return func(fn *ssa.Function) bool {
		for _, call := range core.Calls(fn) {
			if pred(call) {
				return true
			}
		}
		return false
	}
}

// clientMessageID: the uint32 counter field of bus.client (the only uint32 field).
func clientMessageID(c *core.Ctx) (*types.Named, *types.Var) {
	return fldNested(c, "bus", "client", "messageID", "uint32")
}

// clientServiceNextID: the counter of clientService: the uint32 field that is
// incremented somewhere in the package (serviceID is only assigned).
func clientServiceNextID(c *core.Ctx) *types.Var {
	st := strct(c, "bus", "clientService")
	if st == nil {
		return nil
	}
	s := st.Underlying().(*types.Struct)
	for i := 0; i < s.NumFields(); i++ {
		if s.Field(i).Name() == "nextID" {
			return s.Field(i)
		}
	}
	for _, f := range c.FieldsOfType(st, "uint32") {
		for _, fn := range srcFuncsOfPkg(c, "bus") {
			for _, a := range fieldAccesses(fn, f) {
				if st, ok := a.instr.(*ssa.Store); ok && a.write && !a.fresh && incOfField(st.Val, f) {
					return f
				}
			}
		}
	}
	return nil
}

// directoryFields resolves the registry state of bus/directory.serviceDirectory:
// the two map[uint32]ServiceInfo tables and the id counter.  The tables have
// the same type; if renamed they are told apart by role: staging is the one
// the id-allocating function inserts into, services is the other.
func directoryFields(c *core.Ctx) (st *types.Named, staging, services, lastID *types.Var) {
	const rel = "bus/directory"
	st = strct(c, rel, "serviceDirectory")
	if st == nil {
		return
	}
	lastID = c.FieldT(st, "lastID", "uint32")
	maps := c.FieldsOfType(st, "map[uint32]ServiceInfo")
	for _, m := range maps {
		switch m.Name() {
		case "staging":
			staging = m
		case "services":
			services = m
		}
	}
	if staging != nil && services != nil {
		return
	}
	staging, services = nil, nil
	if len(maps) != 2 || lastID == nil {
		return
	}
	for _, fn := range srcFuncsOfPkg(c, rel) {
		inc := false
		for _, a := range fieldAccesses(fn, lastID) {
			if s, ok := a.instr.(*ssa.Store); ok && a.write && !a.fresh && incOfField(s.Val, lastID) {
				inc = true
			}
		}
		if !inc {
			continue
		}
		for i, m := range maps {
			if ups, _ := mapWrites(fn, m); len(ups) > 0 {
				staging, services = m, maps[1-i]
			}
		}
	}
	return
}
