package rules

import (
	"fmt"
	"go/token"
	"go/types"
	"strings"

	"golang.org/x/tools/go/ssa"

	"qicheck/internal/core"
)

func init() {
	register(&Property{
		ID:    "C01",
		Title: "Message framing is lossless, self-delimiting and matches the documented layout",
		Explanation: "Static discharge of the structural clauses of C01: " +
			"(layout) the wire shape of Header.Write equals the wire shape of Header.Read field by field and both equal the `struct header_t` block of doc/about-qimessaging.md (order, widths, sum = HeaderSize = 28); the magic goes through encoding/binary.BigEndian on both sides; every other primitive of type/basic moves exactly the size of its Go type through binary.LittleEndian on both sides; " +
			"(refusals) Header.Read returns nil only across magic == Magic, version == Version, type != 0 and type <= the last message type; in Message.Read the payload buffer and the payload read are behind Header.Read == nil and Size <= MaxPayloadSize, and the header is parsed from a private buffer, not from the stream; " +
			"(exact reads) Message.Read hands the stream to exactly two ReadN calls (header buffer of HeaderSize, payload buffer of Size) and assigns Payload on every success path; ReadN/WriteN retry on buf[size:], advance by what was transferred, report success only when complete and treat data arriving together with io.EOF as success; " +
			"(single write) Message.Write refuses len(Payload) != Size and issues one WriteN of a private buffer holding header then payload; NewMessage sets Size to len(payload). " +
			"Not decided: equality of what is read back for all field values, lengths, fragmentations and sequences (value-level round trip; encoding/binary arithmetic is trusted).",
		Assumptions: []string{"encoding/binary and bytes.Buffer behave as documented", "the doc's header_t block and 'magic … big endian … little endian' sentence are the layout oracle"},
		Run:         runC01,
	})
}

func runC01(c *core.Ctx) {
	c.Doc("C01.primitives", "each type/basic primitive moves the size of its Go type, little endian, reader = writer", 11)
	rulePrimitives(c, "C01.primitives")
	c.Doc("C01.layout", "Header.Write = Header.Read = documented header_t (order, widths, endianness, total 28)", 4)
	ruleHeaderLayout(c)
	c.Doc("C01.refusals", "bad magic / version / type / oversize are refused before the payload is read", 5)
	ruleHeaderRefusals(c)
	c.Doc("C01.exact-reads", "exactly two exact stream reads per message; payload always assigned; retry loops complete", 8)
	ruleMessageReads(c)
	ruleRetryLoop(c, "C01.exact-reads", "ReadN", "Read")
	ruleRetryLoop(c, "C01.exact-reads", "WriteN", "Write")
	// every ReadN fills a buffer of exactly the length asked for: a payload buffer that is
	// re-sliced or reused is longer (or shared with an earlier message) — rule shared with C08
	c.Doc("C08.readn-calls", "every ReadN call passes the length of the buffer it fills (a fresh buffer of that length) — rule shared with C08", 3)
	ruleReadNCalls(c, newDecoderSet(c), "C08.readn-calls")
	if a := getEP(c, "C01.anchors"); a != nil {
		c.Doc("C10.single-write", "one stream write per message, header then payload in a private buffer, size mismatch refused", 5)
		ruleSingleWrite(c, a)
	}
	c.Doc("C01.new-message", "NewMessage sets Header.Size to len(payload)", 1)
	ruleNewMessage(c)
	c.Doc("C01.limits", "every comparison with a size limit bounds the size itself and accepts the limit (writer, reader and siblings agree)", 5)
	ruleLimitComparisons(c, "C01.limits")
}

func normDocName(s string) string {
	s = strings.ToLower(s)
	s = strings.TrimSuffix(s, "_id")
	if s == "message" {
		s = "id"
	}
	return s
}

func ruleHeaderLayout(c *core.Ctx) {
	const rule = "C01.layout"
	hw := c.Func("bus/net", "Header", "Write")
	hr := c.Func("bus/net", "Header", "Read")
	if hw == nil || hr == nil {
		c.Undecided(rule, "bus/net.Header", token.NoPos, "Header.Write / Header.Read not found")
		return
	}
	ws, p1 := shapeOf(c, hw, streamParam(hw, "Write"))
	rs, p2 := shapeOf(c, hr, streamParam(hr, "Read"))
	if p1 != "" || p2 != "" {
		c.Undecided(rule, "bus/net.Header/shape", hw.Pos(), "cannot extract the wire shape: "+p1+p2)
		return
	}
	d := compareShapes(rs, ws, true)
	c.Check(d == "", rule, "bus/net.Header/read-vs-write", hr.Pos(), "Header.Read: "+shapeString(rs)+" == Header.Write", "Header.Read and Header.Write disagree: "+d)

	// the magic helpers
	magicF := c.Field("bus/net", "Header", "Magic")
	for _, m := range []struct{ name, method, binop string }{{"writeMagic", "Write", "PutUint32"}, {"readMagic", "Read", "Uint32"}} {
		fn := c.Func("bus/net", "Header", m.name)
		key := "bus/net.Header." + m.name
		if fn == nil {
			// magic may be handled inline: look in Write/Read themselves
			if m.method == "Write" {
				fn = hw
			} else {
				fn = hr
			}
		}
		big, width, touchesMagic := false, int64(0), false
		for _, call := range core.Calls(fn) {
			f := core.StaticCallee(call)
			if f == nil {
				continue
			}
			if f.Pkg != nil && f.Pkg.Pkg.Path() == "encoding/binary" && f.Name() == m.binop && f.Signature.Recv() != nil && strings.Contains(f.Signature.Recv().Type().String(), "bigEndian") {
				big = true
				if m.method == "Write" && isFieldOf(call.Common().Args[2], magicF) {
					touchesMagic = true
				}
				if m.method == "Read" {
					if cv, ok := call.(*ssa.Call); ok {
						for _, r := range core.Referrers(cv) {
							if st, ok := r.(*ssa.Store); ok && isFieldOf(st.Addr, magicF) {
								touchesMagic = true
							}
						}
					}
				}
			}
			if k := core.FuncKey(f); k == "type/basic.WriteN" || k == "type/basic.ReadN" {
				if n, ok := core.ConstInt(call.Common().Args[2]); ok {
					width = n
				}
			}
		}
		c.Check(big && width == 4 && touchesMagic, rule, key, fn.Pos(), "4 bytes through binary.BigEndian, from/to Header.Magic",
			"the magic is not transferred as 4 big-endian bytes of Header.Magic")
	}

	// against the documentation
	doc, magicBE, err := parseDocHeader(c.Repo)
	if err != nil || len(doc) == 0 {
		c.Undecided(rule, "doc/header_t", token.NoPos, fmt.Sprintf("cannot read the documented layout: %v", err))
		return
	}
	flat := flatten(ws)
	var got []docField
	for _, t := range flat {
		switch t.Kind {
		case "sub":
			got = append(got, docField{"", "magic", 4})
		case "prim":
			if t.Name == "Bytes" && len(got) == 0 {
				// the magic written inline: a fixed number of raw bytes (checked above
				// to be Header.Magic in big-endian order)
				got = append(got, docField{"", "magic", t.Len})
				continue
			}
			got = append(got, docField{"", normDocName(t.Field), primWidth[t.Name]})
		}
	}
	bad := ""
	var total int64
	if len(got) != len(doc) {
		bad = fmt.Sprintf("the code writes %d header fields, the documentation lists %d", len(got), len(doc))
	} else {
		for i := range doc {
			total += got[i].Width
			if normDocName(doc[i].Name) != got[i].Name || doc[i].Width != got[i].Width {
				bad = fmt.Sprintf("field %d: documentation says %s %s (%d bytes), the code writes %s (%d bytes)", i+1, doc[i].CType, doc[i].Name, doc[i].Width, got[i].Name, got[i].Width)
				break
			}
		}
	}
	hs := constOf(c, "bus/net", "HeaderSize")
	if bad == "" && (total != hs || total != 28) {
		bad = fmt.Sprintf("field widths add up to %d, HeaderSize is %d, the documented header is 28 bytes", total, hs)
	}
	if bad == "" && !magicBE {
		bad = "the documentation no longer states that the magic is big endian and everything else little endian"
	}
	c.Check(bad == "", rule, "doc/header_t", hw.Pos(), fmt.Sprintf("%d fields, %d bytes, same order and widths as struct header_t", len(doc), total), "the wire layout differs from doc/about-qimessaging.md: "+bad)
}

func ruleHeaderRefusals(c *core.Ctx) {
	const rule = "C01.refusals"
	hr := c.Func("bus/net", "Header", "Read")
	mr := c.Func("bus/net", "Message", "Read")
	if hr == nil || mr == nil {
		c.Undecided(rule, "bus/net", token.NoPos, "Header.Read / Message.Read not found")
		return
	}
	fld := func(n string) *types.Var { return c.Field("bus/net", "Header", n) }
	isF := func(n string) func(ssa.Value) bool {
		f := fld(n)
		return func(v ssa.Value) bool { return isFieldOf(core.StripConv(v), f) }
	}
	isConst := func(k int64) func(ssa.Value) bool {
		return func(v ssa.Value) bool { x, ok := core.ConstInt(v); return ok && x == k }
	}
	magic := constOf(c, "bus/net", "Magic")
	version := constOf(c, "bus/net", "Version")
	last := constOf(c, "bus/net", "Cancelled")
	var succ []*ssa.Return
	for _, r := range core.Returns(hr) {
		if successReturn(r) {
			succ = append(succ, r)
			continue
		}
		// `return h.readDestination(r)`: the outcome of the last step of a Read split into
		// private steps is handed on — it may be nil
		if len(r.Results) == 1 {
			if cr, _ := core.CallResult(core.RetVal(r, 0)); cr != nil {
				if g := cr.Call.StaticCallee(); g != nil && inRepo(g) && isPrivateHelper(c, g) && streamParam(g, "Read") != nil {
					// (a step is handed the stream; an error-wrapping helper is not)
					// … unless this is the branch where that outcome was found to be an error
					the := ssa.Value(cr)
					isIt := func(v ssa.Value) bool { return core.Canon(v) == the }
					if !core.Guarded(hr, r, core.Ne(isIt, core.IsNilConst)) {
						succ = append(succ, r)
					}
				}
			}
		}
	}
	guardedAll := func(m core.EdgeMatcher) bool {
		if len(succ) == 0 {
			return false
		}
		for _, r := range succ {
			if !core.Guarded(hr, r, m) {
				// the validation steps may be the rows of a constant table of functions
				return guardedThroughTable(c, hr, succ, m)
			}
		}
		return true
	}
	c.Check(guardedAll(core.Eq(isF("Magic"), isConst(magic))), rule, "bus/net.Header.Read/magic", hr.Pos(), "nil only across Magic == 0x42dead42", "a header with a wrong magic is accepted")
	c.Check(guardedAll(core.Eq(isF("Version"), isConst(version))), rule, "bus/net.Header.Read/version", hr.Pos(), "nil only across Version == supported version", "a header with a wrong protocol version is accepted")
	c.Check(guardedAll(core.NonZero(isF("Type"))) && guardedAll(core.UpperBound(isF("Type"), last+1)), rule, "bus/net.Header.Read/type", hr.Pos(),
		"nil only across Type != 0 and Type <= last message type", "a header with an invalid message type (0 or beyond the last defined type) is accepted")

	// Message.Read: payload behind header validation and size limit (the payload
	// part may live in a private helper that receives the stream)
	maxP := constOf(c, "bus/net", "MaxPayloadSize")
	readN := c.Func("type/basic", "", "ReadN")
	unit := streamUnit(c, mr, mr.Params[1])
	var streamReads []ssa.CallInstruction
	var hdrCall ssa.CallInstruction
	var hdrFn *ssa.Function
	for _, su := range unit {
		for _, call := range core.Calls(su.fn) {
			if usesValue(call, su.stream) && !isUnitCall(unit, call) {
				streamReads = append(streamReads, call)
			}
			if core.IsCallTo(call, hr) {
				hdrCall, hdrFn = call, su.fn
			}
		}
	}
	if hdrCall == nil || len(streamReads) < 2 {
		c.Fail(rule, "bus/net.Message.Read/payload-guards", mr.Pos(), "Message.Read does not validate the header with Header.Read before reading a payload from the stream")
		return
	}
	// header parsed from a private buffer
	private := true
	for _, su := range unit {
		if su.fn == hdrFn && usesValue(hdrCall, su.stream) {
			private = false
		}
	}
	c.Check(private, rule, "bus/net.Message.Read/header-from-buffer", hdrCall.Pos(), "the header fields are parsed from the 28-byte buffer, not from the stream", "Header.Read is applied to the stream itself: a malformed header consumes stream bytes beyond the 28 read")
	// the payload read: the stream read that is not the HeaderSize one
	hs := constOf(c, "bus/net", "HeaderSize")
	var payloadRead ssa.CallInstruction
	for _, sr := range streamReads {
		if k, ok := core.ConstInt(sr.Common().Args[len(sr.Common().Args)-1]); ok && k == hs {
			continue
		}
		payloadRead = sr
	}
	// the verdict of Header.Read, or the error of a private helper of the unit
	// that returns nil only where Header.Read did
	var isHdrOKDepth func(v ssa.Value, depth int) bool
	isHdrOKDepth = func(v ssa.Value, depth int) bool {
		cr, _ := core.CallResult(v)
		if cr == nil {
			return false
		}
		if ssa.CallInstruction(cr) == hdrCall {
			return true
		}
		h := cr.Call.StaticCallee()
		if h == nil || depth > 2 || !isUnitCall(unit, cr) || !core.IsErrorType(v.Type()) {
			return false
		}
		n := 0
		for _, ret := range core.Returns(h) {
			if !successReturn(ret) {
				continue
			}
			n++
			if !core.Guarded(h, ret, core.Eq(func(w ssa.Value) bool { return isHdrOKDepth(w, depth+1) }, core.IsNilConst)) {
				return false
			}
		}
		return n > 0
	}
	isHdrOK := func(v ssa.Value) bool { return isHdrOKDepth(v, 0) }
	bad := ""
	if payloadRead == nil {
		bad = "no payload read found"
	} else {
		pin := payloadRead.(ssa.Instruction)
		pf := payloadRead.Parent()
		if !core.IsCallTo(payloadRead, readN) {
			bad = "the payload is not read with basic.ReadN"
		} else if !guardedUp(c, pf, pin, core.Eq(isHdrOK, core.IsNilConst)) {
			bad = "the payload is read although Header.Read rejected the header"
		} else if !guardedUp(c, pf, pin, core.UpperBound(isF("Size"), maxP)) {
			bad = fmt.Sprintf("the payload is read (and its buffer allocated) without Size having been compared with MaxPayloadSize (%d): an over-limit or hostile size is not refused before reading", maxP)
		}
	}
	// the allocation too
	for _, su := range unit {
		for _, b := range su.fn.Blocks {
			for _, in := range b.Instrs {
				if mk, ok := in.(*ssa.MakeSlice); ok && isFieldOf(core.StripConv(mk.Len), fld("Size")) {
					if !guardedUp(c, su.fn, mk, core.UpperBound(isF("Size"), maxP)) || !guardedUp(c, su.fn, mk, core.Eq(isHdrOK, core.IsNilConst)) {
						bad = "the payload buffer is allocated before the header was validated and its size compared with MaxPayloadSize"
					}
				}
			}
		}
	}
	pos := mr.Pos()
	if payloadRead != nil {
		pos = payloadRead.Pos()
	}
	c.Check(bad == "", rule, "bus/net.Message.Read/payload-guards", pos, "payload allocation and read are behind Header.Read == nil and Size <= MaxPayloadSize", bad)
}

// streamUnitEntry: a function of the unit with the value that denotes the stream in it.
type streamUnitEntry struct {
	fn     *ssa.Function
	stream ssa.Value
}

// streamUnit follows a stream parameter into the private helpers it is handed to.
func streamUnit(c *core.Ctx, fn *ssa.Function, stream ssa.Value) []streamUnitEntry {
	out := []streamUnitEntry{{fn, stream}}
	seen := map[*ssa.Function]bool{fn: true}
	for i := 0; i < len(out); i++ {
		for _, call := range core.Calls(out[i].fn) {
			f := core.StaticCallee(call)
			if f == nil || seen[f] || !isPrivateHelper(c, f) || f.Pkg != fn.Pkg {
				continue
			}
			for ai, a := range call.Common().Args {
				if core.Canon(a) == out[i].stream && ai < len(f.Params) {
					seen[f] = true
					out = append(out, streamUnitEntry{f, f.Params[ai]})
				}
			}
		}
	}
	return out
}

func isUnitCall(unit []streamUnitEntry, call ssa.CallInstruction) bool {
	f := core.StaticCallee(call)
	for _, u := range unit[1:] {
		if u.fn == f {
			return true
		}
	}
	return false
}

func ruleMessageReads(c *core.Ctx) {
	const rule = "C01.exact-reads"
	mr := c.Func("bus/net", "Message", "Read")
	readN := c.Func("type/basic", "", "ReadN")
	payloadF := c.Field("bus/net", "Message", "Payload")
	if mr == nil || readN == nil || payloadF == nil {
		c.Undecided(rule, "bus/net.Message.Read", token.NoPos, "anchor not found")
		return
	}
	n := 0
	bad := ""
	hs := constOf(c, "bus/net", "HeaderSize")
	sawHeader := false
	unit := streamUnit(c, mr, mr.Params[1])
	for _, su := range unit {
		for _, call := range core.Calls(su.fn) {
			if !usesValue(call, su.stream) || isUnitCall(unit, call) {
				continue
			}
			n++
			if !core.IsCallTo(call, readN) {
				bad = "the stream is handed to " + core.CalleeName(call) + " instead of basic.ReadN: bytes beyond header+payload can be consumed, or short reads go unnoticed"
				continue
			}
			if k, ok := constLen(call.Common().Args[2]); ok && k == hs {
				sawHeader = true
			}
			if core.CanReach(call.(ssa.Instruction), func(x ssa.Instruction) bool { return x == call.(ssa.Instruction) }) != nil {
				bad = "a stream read sits in a loop"
			}
		}
	}
	if bad == "" && (n != 2 || !sawHeader) {
		bad = fmt.Sprintf("%d stream reads (expected: one of HeaderSize bytes, one of Header.Size bytes)", n)
	}
	c.Check(bad == "", rule, "bus/net.Message.Read/stream-reads", mr.Pos(), "exactly two ReadN on the stream: HeaderSize bytes, then the payload", bad)
	// Payload assigned on every success path (directly or in a helper of the unit)
	var assigns func(fn *ssa.Function, depth int) bool
	assigns = func(fn *ssa.Function, depth int) bool {
		isStore := func(x ssa.Instruction) bool {
			if st, ok := x.(*ssa.Store); ok && isFieldOf(st.Addr, payloadF) {
				return true
			}
			if call, ok := x.(*ssa.Call); ok && depth < 3 {
				if f := call.Call.StaticCallee(); f != nil && f != fn && isUnitCall(unit, call) {
					return assigns(f, depth+1)
				}
			}
			return false
		}
		for _, ret := range core.Returns(fn) {
			if successReturn(ret) && !core.MustPassBefore(fn, ret, isStore) {
				return false
			}
			// `return m.helper(r)`: the result of a unit helper (not `return err` under err != nil)
			if !successReturn(ret) && !errorReturnConst(ret) && !returnsTestedError(fn, ret) {
				if cr, _ := core.CallResult(core.RetVal(ret, len(ret.Results)-1)); cr != nil && isUnitCall(unit, cr) {
					if !assigns(cr.Call.StaticCallee(), depth+1) {
						return false
					}
				}
			}
		}
		return true
	}
	ok := assigns(mr, 0)
	c.Check(ok, rule, "bus/net.Message.Read/payload-assigned", mr.Pos(), "Payload is (re)assigned on every success path", "Message.Read can succeed without assigning Payload (zero-size message): a reused Message keeps the previous payload, which no longer matches Header.Size")
	// the payload handed out is storage of this read alone: what is stored into Payload
	// is never derived from the previous payload of the receiver, from a package-level
	// variable or from a pool (a later read would overwrite a message already handed out)
	stale := ""
	var stalePos token.Pos
	for _, su := range unit {
		for _, b := range su.fn.Blocks {
			for _, x := range b.Instrs {
				st, ok := x.(*ssa.Store)
				if !ok || !isFieldOf(st.Addr, payloadF) {
					continue
				}
				if why := sharedStorage(st.Val, payloadF, map[ssa.Value]bool{}); why != "" && stale == "" {
					stale, stalePos = why, st.Pos()
				}
			}
		}
	}
	if stalePos == token.NoPos {
		stalePos = mr.Pos()
	}
	c.Check(stale == "", rule, "bus/net.Message.Read/payload-fresh", stalePos, "the payload stored is storage of this read alone", "the payload buffer filled by Message.Read is "+stale+": reading the next message overwrites the payload of a message already handed out (a sequence read back into one Message, a reply read over its request)")
}

// sharedStorage follows a slice value back through re-slices, conversions, phis and
// single-assignment locals; it answers how the value is backed by storage that outlives
// the current call ("" when it is not: a make, an append to nil, a literal, a parameter).
func sharedStorage(v ssa.Value, fld *types.Var, seen map[ssa.Value]bool) string {
	v = core.Canon(v)
	if seen[v] {
		return ""
	}
	seen[v] = true
	switch x := v.(type) {
	case *ssa.Slice:
		return sharedStorage(x.X, fld, seen)
	case *ssa.Phi:
		for _, e := range x.Edges {
			if why := sharedStorage(e, fld, seen); why != "" {
				return why
			}
		}
	case *ssa.ChangeType:
		return sharedStorage(x.X, fld, seen)
	case *ssa.Convert:
		return sharedStorage(x.X, fld, seen)
	case *ssa.TypeAssert:
		return sharedStorage(x.X, fld, seen)
	case *ssa.Extract:
		return sharedStorage(x.Tuple, fld, seen)
	case *ssa.UnOp:
		if x.Op != token.MUL {
			return ""
		}
		if isFieldOf(x.X, fld) {
			return "a re-slice of the payload the receiver already held"
		}
		if g, ok := x.X.(*ssa.Global); ok {
			return "backed by the package-level variable " + g.Name()
		}
		if fa, ok := x.X.(*ssa.FieldAddr); ok {
			if _, isSlice := fa.Type().(*types.Pointer).Elem().Underlying().(*types.Slice); isSlice {
				return "backed by a buffer kept in a struct field across reads"
			}
		}
	case *ssa.Call:
		if core.MethodCall(x, "sync", "Pool", "Get") {
			return "taken from a sync.Pool"
		}
		if f := x.Call.StaticCallee(); f != nil && f.Name() == "append" {
			return ""
		}
		if b, ok := x.Call.Value.(*ssa.Builtin); ok && b.Name() == "append" && len(x.Call.Args) > 0 {
			return sharedStorage(x.Call.Args[0], fld, seen)
		}
	}
	return ""
}

func ruleNewMessage(c *core.Ctx) {
	const rule = "C01.new-message"
	fn := c.Func("bus/net", "", "NewMessage")
	sizeF := c.Field("bus/net", "Header", "Size")
	if fn == nil || sizeF == nil {
		c.Undecided(rule, "bus/net.NewMessage", token.NoPos, "anchor not found")
		return
	}
	ok := false
	for _, b := range fn.Blocks {
		for _, in := range b.Instrs {
			if st, isSt := in.(*ssa.Store); isSt && isFieldOf(st.Addr, sizeF) {
				if call, isCall := core.StripConv(st.Val).(*ssa.Call); isCall {
					if bi, isB := call.Call.Value.(*ssa.Builtin); isB && bi.Name() == "len" && core.Canon(call.Call.Args[0]) == ssa.Value(fn.Params[1]) {
						ok = true
					}
				}
			}
		}
	}
	c.Check(ok, rule, "bus/net.NewMessage", fn.Pos(), "Header.Size = len(payload)", "NewMessage does not set Header.Size to the payload length: Message.Write refuses the message or the reader desynchronises")
}

// returnsTestedError: the error returned was tested to be non-nil on every way
// to the return (if err := f(); err != nil { return err }).
func returnsTestedError(fn *ssa.Function, ret *ssa.Return) bool {
	if len(ret.Results) == 0 {
		return false
	}
	ev := core.Canon(core.RetVal(ret, len(ret.Results)-1))
	isE := func(v ssa.Value) bool { return core.Canon(v) == ev }
	return core.Guarded(fn, ret, core.Ne(isE, core.IsNilConst))
}

// constLen: v is a constant, or len(x) of a buffer whose length is a constant (the whole of
// a local array, a slice made with a constant length).
func constLen(v ssa.Value) (int64, bool) {
	if k, ok := core.ConstInt(v); ok {
		return k, true
	}
	lc, ok := core.StripConv(v).(*ssa.Call)
	if !ok {
		return 0, false
	}
	bi, ok := lc.Call.Value.(*ssa.Builtin)
	if !ok || bi.Name() != "len" || len(lc.Call.Args) != 1 {
		return 0, false
	}
	switch x := core.Canon(lc.Call.Args[0]).(type) {
	case *ssa.Slice:
		if x.Low != nil || x.High != nil {
			return 0, false
		}
		if pt, ok := x.X.Type().Underlying().(*types.Pointer); ok {
			if at, ok := pt.Elem().Underlying().(*types.Array); ok {
				return at.Len(), true
			}
		}
	case *ssa.MakeSlice:
		return core.ConstInt(x.Len)
	}
	return 0, false
}
