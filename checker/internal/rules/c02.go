package rules

import (
	"fmt"
	"go/token"
	"go/types"
	"sort"
	"strconv"
	"strings"

	"golang.org/x/tools/go/ssa"

	"qicheck/internal/core"
)

func init() {
	register(&Property{
		ID:    "C02",
		Title: "Dynamic values survive encode/decode unchanged, byte for byte",
		Explanation: "Static discharge of the structural clauses of C02: " +
			"(dispatch) every concrete Value type's constant Signature() is a key of NewValue's table and the constructor stored under it returns that type (a value type without a row would decode as an opaque value of another Go type); " +
			"(shape) for each value type, Write emits the signature string followed by exactly the wire shape its constructor reads (same primitives in the same order, length-prefixed repetitions tied to their prefix); " +
			"(readers) every signature-driven TypeReader returns exactly the bytes it consumed — each value read is re-emitted with the dual primitive, sub-reader bytes are appended raw, in order — into a buffer created by that very call; " +
			"(opaque) OpaqueValue.Write emits signature then the stored data, and newOpaque stores the signature it was given with exactly what the reader returned; " +
			"(limits) comparisons with the size limits accept the limit itself everywhere. " +
			"Not decided: equality of decoded and original values for all inputs and depths; float bit patterns; bytes.Buffer.",
		Assumptions: []string{"type/basic primitives are inverse pairs (checked by C01/C03 rule `primitives`)", "bytes.Buffer semantics"},
		Run:         runC02,
	})
}

// valueTypes lists the concrete Value implementations of type/value with
// their Signature and Write methods.
type valueType struct {
	named *types.Named
	sig   *ssa.Function
	write *ssa.Function
	lit   string // constant signature ("" if not constant)
}

func valueTypes(c *core.Ctx) []valueType {
	p := c.Pkg("type/value")
	if p == nil {
		return nil
	}
	var out []valueType
	sc := p.Types.Scope()
	for _, n := range sc.Names() {
		tn, ok := sc.Lookup(n).(*types.TypeName)
		if !ok {
			continue
		}
		nt, ok := tn.Type().(*types.Named)
		if !ok {
			continue
		}
		if _, isIface := nt.Underlying().(*types.Interface); isIface {
			continue
		}
		vt := valueType{named: nt}
		vt.sig = c.Func("type/value", n, "Signature")
		vt.write = c.Func("type/value", n, "Write")
		if vt.sig == nil || vt.write == nil {
			continue
		}
		lits := map[string]bool{}
		constant := true
		for _, r := range core.Returns(vt.sig) {
			if s, ok := core.ConstString(core.RetVal(r, 0)); ok {
				lits[s] = true
			} else {
				constant = false
			}
		}
		if constant && len(lits) == 1 {
			for s := range lits {
				vt.lit = s
			}
		}
		out = append(out, vt)
	}
	sort.Slice(out, func(i, j int) bool { return out[i].named.Obj().Name() < out[j].named.Obj().Name() })
	return out
}

// newValueTable extracts NewValue's dispatch: signature -> constructor (a map
// literal or a switch over the signature, in NewValue or in a helper or
// package-level table it uses).
func newValueTable(c *core.Ctx) (map[string]*ssa.Function, token.Pos) {
	p := c.Pkg("type/value")
	out := map[string]*ssa.Function{}
	var pos token.Pos
	fd := funcDecl(p, "", "NewValue")
	if fd == nil {
		return out, pos
	}
	pos = fd.Pos()
	root := c.Func("type/value", "", "NewValue")
	for _, e := range dispatchTable(p, fd) {
		switch {
		case e.Target != nil:
			out[e.Key] = c.Prog.FuncValue(e.Target)
		case e.LitPos.IsValid() && root != nil:
			// a constructor written as a function literal in the table
			out[e.Key] = nil
			for _, lit := range core.AnonFuncs(root) {
				if lit != root && lit.Pos() == e.LitPos {
					out[e.Key] = lit
				}
			}
		default:
			out[e.Key] = nil
		}
	}
	return out, pos
}

// concreteReturned: the named concrete types a constructor can return in its
// first result.
func concreteReturned(fn *ssa.Function, depth int) map[string]bool {
	out := map[string]bool{}
	if fn == nil || depth > 3 {
		return out
	}
	for _, r := range core.Returns(fn) {
		if len(r.Results) == 0 {
			continue
		}
		v := core.RetVal(r, 0)
		for v != nil {
			switch x := v.(type) {
			case *ssa.MakeInterface:
				if n, ok := x.X.Type().(*types.Named); ok {
					out[n.Obj().Name()] = true
				} else if pt, ok := x.X.Type().(*types.Pointer); ok {
					if n, ok := pt.Elem().(*types.Named); ok {
						out[n.Obj().Name()] = true
					}
				}
				v = nil
			case *ssa.Call:
				if f := x.Call.StaticCallee(); f != nil {
					for k := range concreteReturned(f, depth+1) {
						out[k] = true
					}
				}
				v = nil
			case *ssa.Extract:
				v = x.Tuple
			case *ssa.ChangeInterface:
				v = x.X
			case *ssa.Phi:
				v = nil
			default:
				if c, ok := v.(*ssa.Const); ok && c.Value == nil {
					v = nil
					continue
				}
				v = nil
			}
		}
	}
	return out
}

func runC02(c *core.Ctx) {
	c.Doc("C02.dispatch", "every value type's signature has a row in NewValue's table whose constructor returns that type", 14)
	c.Doc("C02.shape", "Value.Write = signature string + the shape the constructor reads", 14)
	table, tpos := newValueTable(c)
	vts := valueTypes(c)
	if len(table) == 0 || len(vts) == 0 {
		c.Undecided("C02.dispatch", "type/value.NewValue", token.NoPos, "dispatch table or value types not found")
		return
	}
	newValue := c.Func("type/value", "", "NewValue")
	for _, vt := range vts {
		name := vt.named.Obj().Name()
		if vt.lit == "" {
			continue // OpaqueValue: signature is data
		}
		key := "type/value." + name
		ctor, ok := table[vt.lit]
		if !ok {
			c.Fail("C02.dispatch", key, vt.sig.Pos(), fmt.Sprintf("value type %s has signature %q but NewValue's table has no row for it: its encoding decodes as an opaque value (another Go type) or not at all", name, vt.lit))
			continue
		}
		if ctor == nil {
			c.Undecided("C02.dispatch", key, tpos, "cannot resolve the constructor stored under "+strconv.Quote(vt.lit))
			continue
		}
		rets := concreteReturned(ctor, 0)
		c.Check(rets[name] && len(rets) == 1, "C02.dispatch", key, ctor.Pos(), fmt.Sprintf("%q -> %s returns %s", vt.lit, ctor.Name(), name),
			fmt.Sprintf("the constructor stored under %q (%s) returns %v, not %s: the decoded value has another type than the encoded one", vt.lit, ctor.Name(), keysOf(rets), name))

		// shapes
		ws, p1 := shapeOf(c, vt.write, streamParam(vt.write, "Write"))
		rs, p2 := shapeOf(c, ctor, streamParam(ctor, "Read"))
		if p1 != "" || p2 != "" {
			c.Undecided("C02.shape", key, vt.write.Pos(), "cannot extract the wire shape: "+p1+p2)
			continue
		}
		ws, rs = flatten(ws), flatten(rs)
		bad := ""
		if len(ws) == 0 || ws[0].Kind != "prim" || ws[0].Name != "String" {
			bad = "Write does not start with the signature string"
		} else {
			// the string written is this type's Signature()
			sv := core.Canon(ws[0].Val)
			okSig := false
			if s, isConst := core.ConstString(sv); isConst && s == vt.lit {
				okSig = true
			}
			if cr, _ := core.CallResult(sv); cr != nil && core.IsCallTo(cr, vt.sig) {
				okSig = true
			}
			if !okSig {
				bad = "the signature written is not this type's Signature()"
			}
		}
		if bad == "" {
			bad = compareShapes(rs, ws[1:], false)
		}
		c.Check(bad == "", "C02.shape", key, vt.write.Pos(), "Write: "+shapeString(ws)+"  /  "+ctor.Name()+": "+shapeString(rs), "encoder and decoder of "+name+" disagree: "+bad)
	}
	// table rows without a value type
	for _, k := range sortedKeysFn(table) {
		found := k == "m"
		for _, vt := range vts {
			if vt.lit == k {
				found = true
			}
		}
		if k == "m" {
			c.Check(table[k] == newValue, "C02.dispatch", "row:m", tpos, "a value inside a value is decoded by NewValue itself", "the row for nested dynamic values does not point to NewValue")
			continue
		}
		c.Check(found, "C02.dispatch", "row:"+k, tpos, "row has a value type", fmt.Sprintf("NewValue has a row for %q but no value type encodes with that signature", k))
	}

	c.Doc("C02.readers", "every TypeReader returns exactly the bytes it consumed, from a buffer of its own", 4)
	ruleReadersReturnWhatTheyConsume(c, "C02.readers")
	ruleEveryMemberRead(c, "C02.readers")

	c.Doc("C02.opaque", "opaque values: written as signature + stored bytes; stored bytes are what the reader returned", 2)
	ruleOpaque(c)

	c.Doc("C02.constructors", "signature constructors (the readers opaque values are consumed with): letter, reader width, Go type agree; object references use one signature for reader and type", 11)
	ruleConstructorsAs(c, derivePrims(c), "C02.constructors")
	ruleReaderWidthTables(c, "C02.constructors")

	// exact consumption rests on the contract of the retry loop and on its callers keeping it
	c.Doc("C02.readn", "ReadN: nil only when complete, fragments accumulated at the right offset; every call passes the length of the buffer it fills", 6)
	ruleReadNComplete(c, "C02.readn")
	ruleReadNCalls(c, newDecoderSet(c), "C02.readn")
	// "consumes exactly the bytes the encoder produced": a value decoder that reads its
	// source through anything but the repository's decoders (a read-ahead buffer, a fast
	// path for one concrete reader, a length probe on the source) consumes more or less
	// than that depending on the source (rule shared with C03 and C08)
	c.Doc("C02.reader-discipline", "value decoders and signature readers consume their source only through the repository's decoders (no read-ahead, no source-dependent paths)", 20)
	ruleReaderDiscipline(c, newDecoderSet(c), "C02.reader-discipline", func(fn *ssa.Function) bool {
		p := fn.Pkg.Pkg.Path()
		return strings.HasSuffix(p, "/type/value") || strings.HasSuffix(p, "/meta/signature") || strings.HasSuffix(p, "/type/basic") || strings.HasSuffix(p, core.WitnessDirName)
	})
	c.Doc("C02.limits", "size-limit comparisons accept the limit itself (encoder/decoder/reader agree)", 5)
	ruleLimitComparisons(c, "C02.limits")
	// an opaque value is read by the reader of its own signature: a table of readers kept
	// across calls (keyed by wire text, or by less than the whole signature) hands one
	// type's reader to another and grows with every signature ever received
	c.Doc("C02.stateless", "meta/signature and type/value fill no package-level table outside their initialisers", 2)
	rulePackageKeepsNoCache(c, "C02.stateless", "meta/signature")
	rulePackageKeepsNoCache(c, "C02.stateless", "type/value")
}

func keysOf(m map[string]bool) []string {
	var out []string
	for k := range m {
		out = append(out, k)
	}
	sort.Strings(out)
	return out
}

func sortedKeysFn(m map[string]*ssa.Function) []string {
	var out []string
	for k := range m {
		out = append(out, k)
	}
	sort.Strings(out)
	return out
}

func ruleOpaque(c *core.Ctx) {
	const rule = "C02.opaque"
	w := c.Func("type/value", "OpaqueValue", "Write")
	no := c.Func("type/value", "", "newOpaque")
	sigF := fld(c, "type/value", "OpaqueValue", "sig")
	dataF := fld(c, "type/value", "OpaqueValue", "data")
	if w == nil || no == nil || sigF == nil || dataF == nil {
		c.Undecided(rule, "type/value.OpaqueValue", token.NoPos, "anchor not found")
		return
	}
	ws, _ := shapeOf(c, w, streamParam(w, "Write"))
	ws = flatten(ws)
	ok := len(ws) == 2 && ws[0].Name == "String" && ws[0].Field == sigF.Name() && ws[1].Name == "Bytes" && ws[1].Field == dataF.Name()
	c.Check(ok, rule, "type/value.OpaqueValue.Write", w.Pos(), "String(sig) Bytes(data)", "OpaqueValue.Write does not emit its signature followed by exactly its stored bytes: "+shapeString(ws))
	// newOpaque: what ends up in the fields of the value it returns (stored
	// directly, or handed to a constructor that stores its parameters)
	good := false
	bad := ""
	dataVals, sigVals := fieldInits(no, dataF), fieldInits(no, sigF)
	if len(dataVals) == 0 || len(sigVals) == 0 {
		bad = "cannot find where newOpaque fills the opaque value"
	}
	var readerSig ssa.Value // the signature the reader that produced the data was made from
	for _, v := range dataVals {
		v = core.Canon(v)
		e, isE := v.(*ssa.Extract)
		if !isE || e.Index != 0 {
			bad = "the data stored in the opaque value is not directly what the reader returned"
			continue
		}
		call, isCall := e.Tuple.(*ssa.Call)
		if !isCall || !call.Call.IsInvoke() || call.Call.Method.Name() != "Read" {
			bad = "the data stored in the opaque value does not come from the signature-driven reader"
			continue
		}
		if mk, _ := core.CallResult(core.Canon(call.Call.Value)); mk != nil && len(mk.Call.Args) == 1 {
			readerSig = core.Canon(mk.Call.Args[0])
		}
		good = true
	}
	for _, v := range sigVals {
		if readerSig == nil || core.Canon(v) != readerSig {
			bad = "the signature stored in the opaque value is not the one its data was read with"
		}
	}
	c.Check(good && bad == "", rule, "type/value.newOpaque", no.Pos(), "stores its signature argument and exactly the bytes the reader returned", bad)
}
