package rules

import (
	"fmt"
	"go/token"
	"go/types"
	"reflect"
	"sort"
	"strconv"
	"strings"

	"golang.org/x/tools/go/ssa"

	"qicheck/internal/core"
)

func init() {
	register(&Property{
		ID:    "C03",
		Title: "All serializers agree with each other and with the documented layout",
		Explanation: "One codec table is extracted from four independently maintained places and its rows cross-checked: " +
			"(primitives) every type/basic Read/Write pair moves the size of its Go type through binary.LittleEndian (derived from the function bodies), and these widths equal the Serialization section of the documentation; " +
			"(constructors) each scalar constructor of meta/signature/type.go agrees on signature letter, IDL name, signature-reader width, Go type and the primitives named in its marshal/unmarshal templates, and with the documented widths (c,C:1 w,W:2 i,I,f:4 l,L,d:8 b:1); " +
			"(kinds) every scalar reflect.Kind a signature can produce has a case in qiEncoder.value and in qiDecoder.value calling the primitive of its own Go type (Int/Uint as 64-bit), and likewise for the Encode/Decode type switches; " +
			"(composite) slice and map are a 32-bit count followed by count repetitions (key before value), structs a concatenation, on the encoder, the decoder and the signature readers; each decoded element gets fresh storage; " +
			"(pairs) every generated or hand-written readX/writeX pair has the same wire shape field by field (length-prefixed loops tied to their prefix); " +
			"(readers) signature readers return what they consume; (limits) size limits are inclusive everywhere. " +
			"Not decided: equality of values after decode for all inputs; the generator templates themselves (only their checked-in output is analysed).",
		Assumptions: []string{"encoding/binary, reflect and bytes.Buffer behave as documented", "the frozen letter→width oracle comes from the property statement and the doc's Serialization section"},
		Run:         runC03,
	})
}

func runC03(c *core.Ctx) {
	c.Doc("C03.primitives", "each primitive moves the size of its Go type, little endian; widths equal the documentation", 12)
	prims := rulePrimitives(c, "C03.primitives")
	if doc, err := parseDocBasicTypes(c.Repo); err != nil || len(doc) < 6 {
		c.Undecided("C03.primitives", "doc/serialization", token.NoPos, fmt.Sprintf("cannot read the Serialization section (%v, %d entries)", err, len(doc)))
	} else {
		bad := ""
		for goT, w := range doc {
			for pn, gt := range primGoType {
				if gt == goT && primWidth[pn] != w {
					bad = fmt.Sprintf("documentation: %s is %d bytes; code: %d", goT, w, primWidth[pn])
				}
				if gt == goT {
					if rw, _ := resolveWidth(prims, prims["Read"+pn], 0); rw != w {
						bad = fmt.Sprintf("documentation: %s is %d bytes; Read%s consumes %d", goT, w, pn, rw)
					}
				}
			}
		}
		c.Check(bad == "", "C03.primitives", "doc/serialization", token.NoPos, fmt.Sprintf("%d documented scalar widths agree with type/basic", len(doc)), bad)
	}

	rulePrimitiveCopies(c)
	c.Doc("C03.constructors", "signature type constructors: letter ↔ IDL ↔ reader width ↔ Go type ↔ template primitives ↔ documented width", 11)
	ruleConstructors(c, prims)

	c.Doc("C03.kinds", "every scalar kind/type has a case in encoder and decoder calling the primitive of its own type", 40)
	ruleKindSwitches(c)

	c.Doc("C03.composite", "slice/map = 32-bit count + that many elements (key before value); fresh storage per decoded element", 6)
	ruleCompositeShapes(c)

	c.Doc("C03.pairs", "every readX/writeX pair has the same wire shape field by field", 15)
	rulePairs(c)

	c.Doc("C03.readers", "signature readers return exactly what they consume", 4)
	ruleReadersReturnWhatTheyConsume(c, "C03.readers")
	ruleEveryMemberRead(c, "C03.readers")
	ruleReaderConstruction(c)

	// exact consumption rests on the contract of the retry loop and on its callers keeping it
	c.Doc("C03.readn", "ReadN: nil only when complete, fragments accumulated at the right offset; every call passes the length of the buffer it fills", 6)
	ruleReadNComplete(c, "C03.readn")
	ruleReadNCalls(c, newDecoderSet(c), "C03.readn")
	c.Doc("C03.limits", "size-limit comparisons accept the limit itself (encoder/decoder/reader agree)", 5)
	ruleLimitComparisons(c, "C03.limits")

	// a codec that looks at the concrete source (type assertion, wrapping) behaves
	// differently from its siblings for some sources: same closed list as C08
	c.Doc("C03.reader-discipline", "decoders consume their source only through the repository's decoders (no source-dependent paths)", 60)
	ruleReaderDiscipline(c, newDecoderSet(c), "C03.reader-discipline", nil)
	// the signature-driven side answers from the signature alone: a table of readers or
	// types kept across calls is keyed by text that comes from the wire (it grows with every
	// signature ever seen) and, keyed by less than the whole signature, hands one type's
	// reader to another
	c.Doc("C03.stateless", "meta/signature and type/value fill no package-level table outside their initialisers", 2)
	rulePackageKeepsNoCache(c, "C03.stateless", "meta/signature")
	rulePackageKeepsNoCache(c, "C03.stateless", "type/value")
	// the reflection side may memoise per Go type, under the type itself
	c.Doc("C03.cache-keys", "a table kept by the reflection codecs is keyed by the reflect.Type, not by a rendering of it", 1)
	rulePackageCacheKeys(c, "C03.cache-keys", "type/encoding", "type/basic")
	// where the repository itself states a signature next to the Go value it hands to the
	// reflection encoder, the type of that value is the type the signature describes
	c.Doc("C03.stated-types", "bus.NewParams / bus.NewResponse hand the reflection codec Go values of the types the signature next to them describes (rule shared with C05)", 100)
	ruleStatedTypes(c, "C03.stated-types")
}

func ruleConstructors(c *core.Ctx, prims map[string]*primInfo) {
	ruleConstructorsAs(c, prims, "C03.constructors")
	ruleReaderWidthTables(c, "C03.constructors")
}

func ruleConstructorsAs(c *core.Ctx, prims map[string]*primInfo, rule string) {
	rows := ctorTable(c)
	seen := map[string]bool{}
	for _, r := range rows {
		o, scalar := scalarOracle[r.Signature]
		key := "meta/signature." + r.Func
		if !scalar {
			// constructors whose reader and Go type are derived from a signature string:
			// one string for both, and for an object reference the one dynamic values use
			if r.Signature == "o" && r.ReaderSig == "" && r.TypSig == "" {
				c.Undecided(rule, key+"/derived", r.Pos, "cannot see which signature the reader and the Go type of an object reference are derived from")
			}
			if r.ReaderSig != "" || r.TypSig != "" {
				bad := ""
				want := r.Signature
				if r.Signature == "o" {
					want = ""
					if k, ok := c.Object("type/value", "ObjectReferenceSignature").(*types.Const); ok {
						want = constString(k)
					}
				}
				switch {
				case r.ReaderSig == "?" || r.TypSig == "?":
					bad = "cannot resolve the signature strings the reader and the Go type are derived from"
				case r.ReaderSig != r.TypSig:
					bad = fmt.Sprintf("the signature reader is made from %q but the Go type from %q: opaque values of this type are consumed with another layout than the one they are decoded/encoded with", abbrev(r.ReaderSig), abbrev(r.TypSig))
				case want != "" && r.ReaderSig != want:
					bad = fmt.Sprintf("reader and Go type are derived from %q, expected %q", abbrev(r.ReaderSig), abbrev(want))
				}
				c.Check(bad == "", rule, key+"/derived", r.Pos, "reader and Go type derived from one signature string ("+abbrev(r.ReaderSig)+")", bad)
			}
			switch r.Signature {
			case "s":
				c.Check(r.ReaderW == -1 && r.GoType == "string" && strings.HasSuffix(r.Marshal, "WriteString") && r.Unmarshal == "ReadString" && r.IDL == "str", rule, key, r.Pos,
					"s: stringReader, string, WriteString/ReadString, IDL str", fmt.Sprintf("string constructor inconsistent: reader=%s type=%s marshal=%s unmarshal=%s idl=%s", r.ReaderStr, r.GoType, r.Marshal, r.Unmarshal, r.IDL))
				seen["s"] = true
			case "m":
				c.Check(r.ReaderW == -2 && r.Unmarshal == "NewValue" && r.IDL == "any", rule, key, r.Pos, "m: valueReader, value.NewValue, IDL any",
					fmt.Sprintf("dynamic value constructor inconsistent: reader=%s unmarshal=%s idl=%s", r.ReaderStr, r.Unmarshal, r.IDL))
				seen["m"] = true
			case "v":
				c.Check(r.ReaderW == 0, rule, key, r.Pos, "v: zero bytes", "void is not read as zero bytes")
				seen["v"] = true
			}
			continue
		}
		seen[r.Signature] = true
		bad := ""
		rw, _ := resolveWidth(prims, prims["Read"+o.Prim], 0)
		switch {
		case r.ReaderW != o.Width:
			bad = fmt.Sprintf("signature reader consumes %d bytes for '%s', the documented width is %d", r.ReaderW, r.Signature, o.Width)
		case r.GoType != primGoType[o.Prim]:
			bad = fmt.Sprintf("Go type of '%s' is %s, expected %s", r.Signature, r.GoType, primGoType[o.Prim])
		case r.Marshal != "Write"+o.Prim:
			bad = fmt.Sprintf("generated code writes '%s' with basic.%s, expected Write%s", r.Signature, r.Marshal, o.Prim)
		case r.Unmarshal != "Read"+o.Prim:
			bad = fmt.Sprintf("generated code reads '%s' with basic.%s, expected Read%s", r.Signature, r.Unmarshal, o.Prim)
		case r.IDL != o.IDL:
			bad = fmt.Sprintf("IDL name of '%s' is %s, expected %s", r.Signature, r.IDL, o.IDL)
		case rw != o.Width:
			bad = fmt.Sprintf("basic.Read%s consumes %d bytes, '%s' is %d bytes wide", o.Prim, rw, r.Signature, o.Width)
		}
		c.Check(bad == "", rule, key, r.Pos, fmt.Sprintf("'%s': %d byte(s), %s, %s/%s, IDL %s", r.Signature, o.Width, r.GoType, r.Marshal, r.Unmarshal, r.IDL), bad)
	}
	for _, l := range []string{"c", "C", "w", "W", "i", "I", "l", "L", "f", "d", "b", "s", "m"} {
		if !seen[l] {
			c.Fail(rule, "letter:"+l, token.NoPos, "no type constructor declares signature '"+l+"'")
		}
	}
}

// kindCases maps the constants compared with selector value `sel` to the
// basic primitives called on the branch taken when they are equal.
func kindCases(fn *ssa.Function, isSel func(ssa.Value) bool) map[int64][]string {
	out := map[int64][]string{}
	for _, b := range fn.Blocks {
		ifi, ok := b.Instrs[len(b.Instrs)-1].(*ssa.If)
		if !ok {
			continue
		}
		cm, neg := core.CondCmp(ifi.Cond)
		if cm.Op != token.EQL && cm.Op != token.NEQ {
			continue
		}
		var k int64
		var isK bool
		if isSel(cm.X) {
			k, isK = core.ConstInt(cm.Y)
		} else if isSel(cm.Y) {
			k, isK = core.ConstInt(cm.X)
		}
		if !isK {
			continue
		}
		edge := 0
		if (cm.Op == token.NEQ) != neg {
			edge = 1
		}
		out[k] = append(out[k], primsFrom(b.Succs[edge])...)
	}
	return out
}

// primsFrom lists the basic primitives / codec calls made from block b until
// the next branch on the selector (the case body).
func primsFrom(b *ssa.BasicBlock) []string {
	var out []string
	seen := map[*ssa.BasicBlock]bool{}
	var walk func(x *ssa.BasicBlock, depth int)
	walk = func(x *ssa.BasicBlock, depth int) {
		if seen[x] || depth > 6 {
			return
		}
		seen[x] = true
		for _, in := range x.Instrs {
			if call, ok := in.(ssa.CallInstruction); ok {
				if f := core.StaticCallee(call); f != nil {
					if n, dir := basicPrim(f); n != "" {
						out = append(out, map[string]string{"read": "Read", "write": "Write"}[dir]+n)
					} else if f.Pkg != nil && strings.HasPrefix(f.Pkg.Pkg.Path(), core.Module) {
						out = append(out, f.Name())
					}
				}
			}
		}
		// follow error guards and straight-line flow only
		if len(x.Instrs) == 0 {
			return
		}
		switch last := x.Instrs[len(x.Instrs)-1].(type) {
		case *ssa.Jump:
			walk(x.Succs[0], depth+1)
		case *ssa.If:
			if nilEdge, ok := isErrGuard(last); ok {
				walk(x.Succs[nilEdge], depth+1)
			}
		}
	}
	walk(b, 0)
	return out
}

var kindNames = map[int64]string{1: "Bool", 2: "Int", 3: "Int8", 4: "Int16", 5: "Int32", 6: "Int64", 7: "Uint", 8: "Uint8", 9: "Uint16", 10: "Uint32", 11: "Uint64", 13: "Float32", 14: "Float64", 24: "String"}

// the primitive a kind must be encoded with
func kindPrim(kind string) string {
	switch kind {
	case "Int":
		return "Int64"
	case "Uint":
		return "Uint64"
	}
	return kind
}

// ruleKindSetsAgree: the reflection encoder and decoder branch on the same set
// of reflect kinds.  A kind only the encoder handles (an Array written like a
// list) is skipped by the decoder's switch, which has no default: it consumes
// nothing and reports success — the value is not recovered, and an input cut
// inside those bytes is accepted.
func ruleKindSetsAgree(c *core.Ctx, rule string) {
	isKind := func(v ssa.Value) bool {
		cr, _ := core.CallResult(core.StripConv(v))
		return cr != nil && cr.Call.StaticCallee() != nil && core.FuncKey(cr.Call.StaticCallee()) == "reflect.Value.Kind"
	}
	enc := c.Func("type/encoding", "qiEncoder", "value")
	dec := c.Func("type/encoding", "qiDecoder", "value")
	if enc == nil || dec == nil {
		c.Undecided(rule, "type/encoding/kind-sets", token.NoPos, "anchor not found")
		return
	}
	ek, dk := kindCasesWithSiblings(enc, isKind), kindCasesWithSiblings(dec, isKind)
	bad := ""
	var ks []int64
	for k := range ek {
		ks = append(ks, k)
	}
	for k := range dk {
		if _, ok := ek[k]; !ok {
			ks = append(ks, k)
		}
	}
	sort.Slice(ks, func(i, j int) bool { return ks[i] < ks[j] })
	for _, k := range ks {
		_, e := ek[k]
		_, d := dk[k]
		name := reflect.Kind(k).String()
		if e && !d {
			bad = "the encoder has a case for reflect kind " + name + " and the decoder has none: the decoder skips such a field or element without consuming anything and reports success (the value is not recovered; an input cut inside those bytes is accepted)"
		}
		if d && !e {
			bad = "the decoder has a case for reflect kind " + name + " and the encoder has none: the two sides do not handle the same types"
		}
	}
	c.Check(bad == "" && len(ek) >= 14, rule, "type/encoding/kind-sets", dec.Pos(), fmt.Sprintf("encoder and decoder branch on the same %d kinds", len(ek)), bad)
}

func ruleKindSwitches(c *core.Ctx) {
	const rule = "C03.kinds"
	ruleKindSetsAgree(c, rule)
	for _, side := range []struct{ recv, name, pre string }{{"qiEncoder", "value", "Write"}, {"qiDecoder", "value", "Read"}} {
		fn := c.Func("type/encoding", side.recv, side.name)
		if fn == nil {
			c.Undecided(rule, "type/encoding."+side.recv+"."+side.name, token.NoPos, "anchor not found")
			continue
		}
		isKind := func(v ssa.Value) bool {
			cr, _ := core.CallResult(core.StripConv(v))
			return cr != nil && cr.Call.StaticCallee() != nil && core.FuncKey(cr.Call.StaticCallee()) == "reflect.Value.Kind"
		}
		cases := kindCasesWithSiblings(fn, isKind)
		ks := make([]int64, 0, len(kindNames))
		for k := range kindNames {
			ks = append(ks, k)
		}
		sort.Slice(ks, func(i, j int) bool { return ks[i] < ks[j] })
		for _, k := range ks {
			kind := kindNames[k]
			key := fmt.Sprintf("type/encoding.%s.%s/%s", side.recv, side.name, kind)
			want := side.pre + kindPrim(kind)
			got, ok := cases[k]
			switch {
			case !ok:
				c.Fail(rule, key, fn.Pos(), fmt.Sprintf("no case for reflect.%s: a %s field, element or key is silently skipped, shifting everything that follows", kind, strings.ToLower(kind)))
			case len(got) == 0 || got[0] != want:
				c.Fail(rule, key, fn.Pos(), fmt.Sprintf("reflect.%s is handled with %v, expected basic.%s (wrong width or signedness on the wire)", kind, got, want))
			default:
				c.Pass(rule, key, fn.Pos(), "basic."+want)
			}
		}
	}
	// Encode / Decode type switches
	for _, side := range []struct{ recv, name, pre string }{{"qiEncoder", "Encode", "Write"}, {"qiDecoder", "Decode", "Read"}} {
		fn := c.Func("type/encoding", side.recv, side.name)
		if fn == nil {
			c.Undecided(rule, "type/encoding."+side.recv+"."+side.name, token.NoPos, "anchor not found")
			continue
		}
		got := map[string][]string{}
		for _, b := range fn.Blocks {
			for _, in := range b.Instrs {
				ta, ok := in.(*ssa.TypeAssert)
				if !ok || !ta.CommaOk {
					continue
				}
				t := ta.AssertedType
				if p, isP := t.(*types.Pointer); isP {
					t = p.Elem()
				}
				bt, isB := t.(*types.Basic)
				if !isB {
					continue
				}
				// the body: the true edge of the If on the ok flag
				for _, r := range core.Referrers(ta) {
					e, isE := r.(*ssa.Extract)
					if !isE || e.Index != 1 {
						continue
					}
					for _, u := range core.Referrers(e) {
						if ifi, isIf := u.(*ssa.If); isIf {
							got[bt.Name()] = primsFrom(ifi.Block().Succs[0])
						}
					}
				}
			}
		}
		for pn, gt := range primGoType {
			key := fmt.Sprintf("type/encoding.%s.%s/%s", side.recv, side.name, gt)
			want := side.pre + pn
			g, ok := got[gt]
			switch {
			case !ok:
				c.Fail(rule, key, fn.Pos(), "no case for Go type "+gt+": such an argument is refused or takes the wrong path")
			case len(g) == 0 || g[0] != want:
				c.Fail(rule, key, fn.Pos(), fmt.Sprintf("Go type %s is handled with %v, expected basic.%s", gt, g, want))
			default:
				c.Pass(rule, key, fn.Pos(), "basic."+want)
			}
		}
		for _, gt := range []string{"int", "uint"} {
			key := fmt.Sprintf("type/encoding.%s.%s/%s", side.recv, side.name, gt)
			want := side.pre + map[string]string{"int": "Int64", "uint": "Uint64"}[gt]
			g := got[gt]
			c.Check(len(g) > 0 && g[0] == want, rule, key, fn.Pos(), "basic."+want, fmt.Sprintf("Go type %s is handled with %v, expected basic.%s", gt, g, want))
		}
	}
}

func ruleCompositeShapes(c *core.Ctx) {
	const rule = "C03.composite"
	enc := c.Func("type/encoding", "qiEncoder", "value")
	sv := c.Func("type/encoding", "qiDecoder", "sliceValue")
	mv := c.Func("type/encoding", "qiDecoder", "mapValue")
	if enc == nil || sv == nil || mv == nil {
		c.Undecided(rule, "type/encoding", token.NoPos, "anchor not found")
		return
	}
	// decoder: count prim + loop with 1 (slice) / 2 (map) element reads
	for _, d := range []struct {
		fn    *ssa.Function
		elems int
		name  string
	}{{sv, 1, "slice"}, {mv, 2, "map"}} {
		ts, prob := shapeOf(c, d.fn, d.fn.Params[0])
		ts = flatten(ts)
		key := core.FuncKey(d.fn)
		if prob != "" {
			c.Undecided(rule, key, d.fn.Pos(), prob)
			continue
		}
		bad := ""
		var rep *tok
		for i := range ts {
			if ts[i].Kind == "rep" {
				rep = &ts[i]
			}
		}
		switch {
		case len(ts) < 2 || ts[0].Kind != "prim" || (ts[0].Name != "Int32" && ts[0].Name != "Uint32"):
			bad = "does not start with a 32-bit element count: " + shapeString(ts)
		case rep == nil:
			bad = "no loop over the elements"
		default:
			n := 0
			for _, k := range flatten(rep.Kids) {
				if k.Kind == "sub" {
					n++
				}
			}
			if n != d.elems {
				bad = fmt.Sprintf("each iteration decodes %d values, a %s entry has %d", n, d.name, d.elems)
			}
			// loop bound = the count read
			h := loopHeaderOfPos(d.fn, rep.Pos)
			if h != nil {
				ifi := h.Instrs[len(h.Instrs)-1].(*ssa.If)
				cm, _ := core.CondCmp(ifi.Cond)
				if !(core.StripConv(cm.Y) == ts[0].Val || core.StripConv(cm.X) == ts[0].Val) {
					bad = "the loop is not bounded by the count that was read"
				}
			}
		}
		c.Check(bad == "", rule, key, d.fn.Pos(), "32-bit count, then count × "+fmt.Sprint(d.elems)+" element(s)", "reflection decoder "+d.name+": "+bad)
	}
	// encoder: in the Slice and Map cases
	isKind := func(v ssa.Value) bool {
		cr, _ := core.CallResult(core.StripConv(v))
		return cr != nil && cr.Call.StaticCallee() != nil && core.FuncKey(cr.Call.StaticCallee()) == "reflect.Value.Kind"
	}
	for _, d := range []struct {
		kind  int64
		name  string
		elems int
	}{{23, "slice", 1}, {21, "map", 2}} {
		key := "type/encoding.qiEncoder.value/" + d.name
		var body *ssa.BasicBlock
		for _, b := range enc.Blocks {
			ifi, ok := b.Instrs[len(b.Instrs)-1].(*ssa.If)
			if !ok {
				continue
			}
			cm, neg := core.CondCmp(ifi.Cond)
			if cm.Op == token.EQL && !neg && isKind(cm.X) {
				if k, ok := core.ConstInt(cm.Y); ok && k == d.kind {
					body = b.Succs[0]
				}
			}
		}
		if body == nil {
			c.Fail(rule, key, enc.Pos(), "the reflection encoder has no case for "+d.name)
			continue
		}
		s := &shaper{c: c, stream: core.Canon(enc.Params[0])}
		ts := flatten(s.seq(body, nil, map[*ssa.BasicBlock]bool{}))
		// the case body may have been moved into a helper method of the encoder
		if len(ts) == 1 && ts[0].Kind == "sub" && ts[0].Fn != nil && ts[0].Fn != enc && isPrivateHelper(c, ts[0].Fn) && len(ts[0].Fn.Params) > 0 {
			enc2 := ts[0].Fn
			inner, _ := shapeOf(c, enc2, enc2.Params[0])
			ts = flatten(inner)
			body = enc2.Blocks[0]
		}
		bad := ""
		var rep *tok
		for i := range ts {
			if ts[i].Kind == "rep" {
				rep = &ts[i]
			}
		}
		switch {
		case len(ts) < 2 || ts[0].Kind != "prim" || (ts[0].Name != "Int32" && ts[0].Name != "Uint32"):
			bad = "does not start with a 32-bit element count: " + shapeString(ts)
		case rep == nil:
			bad = "no loop over the elements"
		default:
			n := 0
			var subs []tok
			for _, k := range flatten(rep.Kids) {
				if k.Kind == "sub" {
					n++
					subs = append(subs, k)
				}
			}
			if n != d.elems {
				bad = fmt.Sprintf("each iteration encodes %d values, a %s entry has %d", n, d.name, d.elems)
			}
			// count written = len of the collection (Len() / len(keys))
			cv := core.StripConv(ts[0].Val)
			okCount := false
			if call, ok := cv.(*ssa.Call); ok {
				if f := call.Call.StaticCallee(); f != nil && core.FuncKey(f) == "reflect.Value.Len" {
					okCount = true
				}
				if bi, ok := call.Call.Value.(*ssa.Builtin); ok && bi.Name() == "len" {
					okCount = true
				}
			}
			if !okCount {
				bad = "the count written is not the length of the collection"
			}
			// map: key before value — the first sub's argument is the range key, the second MapIndex(k)
			if bad == "" && d.elems == 2 && len(subs) == 2 {
				second := subs[1]
				isMapIndex := false
				if call, ok := second.Pos, true; ok {
					_ = call
				}
				if second.Call != nil {
					for _, a := range second.Call.Common().Args {
						if cr, _ := core.CallResult(a); cr != nil && cr.Call.StaticCallee() != nil && core.FuncKey(cr.Call.StaticCallee()) == "reflect.Value.MapIndex" {
							isMapIndex = true
						}
					}
				}
				if !isMapIndex {
					bad = "map entries are not written key first, value second"
				}
			}
		}
		c.Check(bad == "", rule, key, body.Instrs[0].Pos(), "32-bit count = length, then count × "+fmt.Sprint(d.elems)+" element(s)", "reflection encoder "+d.name+": "+bad)
	}
	// fresh storage per decoded element: readValue allocates with reflect.New per call and is called inside the loops
	rv := c.Func("type/encoding", "qiDecoder", "readValue")
	if rv == nil {
		c.Undecided(rule, "type/encoding.qiDecoder.readValue", token.NoPos, "anchor not found")
		return
	}
	for _, fn := range []*ssa.Function{sv, mv} {
		key := core.FuncKey(fn) + "/fresh-element"
		bad := ""
		n := 0
		// the element loop may have been moved into a private helper of the decoder
		var unitCalls []ssa.CallInstruction
		for _, uf := range unitOf(c, fn) {
			unitCalls = append(unitCalls, core.Calls(uf)...)
		}
		for _, call := range unitCalls {
			f := core.StaticCallee(call)
			if f == nil {
				continue
			}
			k := core.FuncKey(f)
			if k != "reflect.Value.SetMapIndex" && k != "reflect.Value.Set" {
				continue
			}
			in := call.(ssa.Instruction)
			h := loopHeaderOf(in)
			if h == nil {
				continue
			}
			n++
			// every stored value must be produced inside the same loop iteration
			for _, a := range call.Common().Args[1:] {
				src := core.Canon(a)
				// look through reflect accessors: keyEl.Elem() shares storage with keyEl
				for depth := 0; depth < 6; depth++ {
					cl, ok := src.(*ssa.Call)
					if !ok {
						break
					}
					f := cl.Call.StaticCallee()
					if f == nil || len(cl.Call.Args) == 0 {
						break
					}
					switch core.FuncKey(f) {
					case "reflect.Value.Elem", "reflect.Value.Addr", "reflect.Value.Index", "reflect.Value.Field", "reflect.Indirect":
						src = core.Canon(cl.Call.Args[0])
						continue
					}
					break
				}
				var def ssa.Instruction
				if e, ok := src.(*ssa.Extract); ok {
					def, _ = e.Tuple.(ssa.Instruction)
				} else if x, ok := src.(ssa.Instruction); ok {
					def = x
				}
				if def == nil || loopHeaderOf(def) != h {
					bad = "a decoded element/key/value stored at " + c.Pos(call.Pos()) + " is not produced inside the loop iteration that stores it: one holder is reused for every entry, so entries containing slices or maps alias each other"
				}
			}
		}
		if n == 0 {
			bad = "no element store found inside the decoding loop"
		}
		c.Check(bad == "", rule, key, fn.Pos(), "each entry is decoded into storage created in its own iteration", bad)
	}
	// readValue itself allocates per call
	fresh := false
	for _, call := range core.Calls(rv) {
		if f := core.StaticCallee(call); f != nil && core.FuncKey(f) == "reflect.New" {
			fresh = true
		}
	}
	c.Check(fresh, rule, "type/encoding.qiDecoder.readValue/reflect.New", rv.Pos(), "allocates a new value per call", "readValue does not allocate fresh storage for the value it decodes")
}

func loopHeaderOfPos(fn *ssa.Function, pos token.Pos) *ssa.BasicBlock {
	for _, b := range fn.Blocks {
		if !isLoopHeader(b) || len(b.Instrs) == 0 {
			continue
		}
		if ifi, ok := b.Instrs[len(b.Instrs)-1].(*ssa.If); ok && ifi.Pos() == pos {
			return b
		}
	}
	return nil
}

// rulePairs: readX/writeX pairs of every package.
func rulePairs(c *core.Ctx) {
	const rule = "C03.pairs"
	type pair struct{ r, w *ssa.Function }
	pairs := map[string]*pair{}
	for _, fn := range c.RepoFuncs() {
		if fn.Parent() != nil || fn.Signature.Recv() != nil {
			continue
		}
		if c.IsTestFile(fn) && c.Tier != "thorough" {
			continue
		}
		low := strings.ToLower(fn.Name())
		var dir string
		switch {
		case strings.HasPrefix(low, "read") && streamParam(fn, "Read") != nil && hasErrorResult(fn.Signature) >= 0:
			dir = "r"
		case strings.HasPrefix(low, "write") && streamParam(fn, "Write") != nil && hasErrorResult(fn.Signature) >= 0:
			dir = "w"
		default:
			continue
		}
		if fn.Pkg.Pkg.Path() == core.Module+"/type/basic" {
			continue
		}
		k := subBase(core.FuncKey(fn))
		if pairs[k] == nil {
			pairs[k] = &pair{}
		}
		if dir == "r" {
			pairs[k].r = fn
		} else {
			pairs[k].w = fn
		}
	}
	keys := make([]string, 0, len(pairs))
	for k := range pairs {
		keys = append(keys, k)
	}
	sort.Strings(keys)
	for _, k := range keys {
		p := pairs[k]
		if p.r == nil || p.w == nil {
			continue
		}
		rs, p1 := shapeOf(c, p.r, streamParam(p.r, "Read"))
		ws, p2 := shapeOf(c, p.w, streamParam(p.w, "Write"))
		key := k
		if p1 != "" || p2 != "" {
			c.Undecided(rule, key, p.r.Pos(), "cannot extract the wire shape: "+p1+p2)
			continue
		}
		d := compareShapes(rs, ws, true)
		c.Check(d == "", rule, key, p.r.Pos(), shapeString(flatten(rs)), core.FuncKey(p.r)+" and "+core.FuncKey(p.w)+" disagree: "+d)
		// the reflection codec (proxies) walks a struct in declaration order: the generated
		// writer, which follows the signature, must write the fields in that same order, or
		// the two codecs of one type disagree on the wire
		if d == "" {
			if bad := fieldsInDeclarationOrder(p.w, flatten(ws)); bad != "" {
				c.Fail(rule, key+"/field-order", p.w.Pos(), core.FuncKey(p.w)+" writes the fields of its struct in an order that is not the order of their declaration ("+bad+"): the reflection-based encoder and decoder, which proxies use for the same type, walk the declaration order, so the two serializers of this type produce different bytes")
			} else {
				c.Pass(rule, key+"/field-order", p.w.Pos(), "fields written in declaration order (the order the reflection codec walks)")
			}
		}
	}
}

// fieldsInDeclarationOrder: the top-level fields the writer w emits (in order,
// first occurrence of each) are the fields of its struct parameter in
// declaration order.  "" if so, or if w does not write a struct.
func fieldsInDeclarationOrder(w *ssa.Function, toks []tok) string {
	var st *types.Struct
	for _, p := range w.Params {
		t := p.Type()
		if pt, ok := t.(*types.Pointer); ok {
			t = pt.Elem()
		}
		if s, ok := t.Underlying().(*types.Struct); ok {
			if _, named := t.(*types.Named); named {
				st = s
			}
		}
	}
	if st == nil {
		return ""
	}
	var written []string
	seen := map[string]bool{}
	var walk func(ts []tok)
	walk = func(ts []tok) {
		for _, t := range ts {
			if t.Field != "" && !seen[t.Field] {
				seen[t.Field] = true
				written = append(written, t.Field)
			}
			walk(t.Kids)
			for _, a := range t.Arms {
				walk(a)
			}
		}
	}
	walk(toks)
	var declared []string
	for i := 0; i < st.NumFields(); i++ {
		if seen[st.Field(i).Name()] {
			declared = append(declared, st.Field(i).Name())
		}
	}
	if len(declared) < 2 || len(declared) != len(written) {
		return ""
	}
	for i := range declared {
		if declared[i] != written[i] {
			return "written " + strings.Join(written, ", ") + "; declared " + strings.Join(declared, ", ")
		}
	}
	return ""
}

// ruleReaderConstruction: the composite Type.Reader() methods build their
// signature readers with the structure of the type: list = varReader(elem),
// map = varReader(tuple(key, value)) with key first, struct/tuple = members
// in order.
func ruleReaderConstruction(c *core.Ctx) {
	const rule = "C03.readers"
	mr := c.Func("meta/signature", "MapType", "Reader")
	keyF := c.Field("meta/signature", "MapType", "key")
	valF := c.Field("meta/signature", "MapType", "value")
	if mr == nil || keyF == nil || valF == nil {
		c.Undecided(rule, "meta/signature.MapType.Reader", token.NoPos, "anchor not found")
		return
	}
	// the two Reader() invocations: first on m.key, then on m.value, stored at index 0 and 1
	order := []string{}
	for _, call := range core.Calls(mr) {
		cc := call.Common()
		if cc.IsInvoke() && cc.Method.Name() == "Reader" {
			switch {
			case isFieldOf(cc.Value, keyF):
				order = append(order, "key")
			case isFieldOf(cc.Value, valF):
				order = append(order, "value")
			}
		}
	}
	// index of the stores
	idx := map[string]int64{}
	for _, call := range core.Calls(mr) {
		cc := call.Common()
		if !(cc.IsInvoke() && cc.Method.Name() == "Reader") {
			continue
		}
		cv, _ := call.(*ssa.Call)
		which := "value"
		if isFieldOf(cc.Value, keyF) {
			which = "key"
		}
		for _, u := range allUses(cv) {
			if st, ok := u.(*ssa.Store); ok {
				// &t[i].reader
				if fa, ok := st.Addr.(*ssa.FieldAddr); ok {
					if ia, ok := fa.X.(*ssa.IndexAddr); ok {
						if k, ok := core.ConstInt(ia.Index); ok {
							idx[which] = k
						}
					}
				}
			}
		}
	}
	// the entry built by a small constructor that is handed the member type and asks it for
	// its reader: t[0] = newMemberReader("key", m.key)
	for _, b := range mr.Blocks {
		for _, in := range b.Instrs {
			st, ok := in.(*ssa.Store)
			if !ok {
				continue
			}
			ia, ok := st.Addr.(*ssa.IndexAddr)
			if !ok {
				continue
			}
			k, ok := core.ConstInt(ia.Index)
			if !ok {
				continue
			}
			cl, ok := core.Canon(st.Val).(*ssa.Call)
			if !ok {
				continue
			}
			h := cl.Call.StaticCallee()
			if h == nil || !isPrivateHelper(c, h) {
				continue
			}
			for j, a := range cl.Call.Args {
				which := ""
				switch {
				case isFieldOf(a, keyF):
					which = "key"
				case isFieldOf(a, valF):
					which = "value"
				default:
					continue
				}
				// the helper asks that parameter for its Reader
				asks := false
				for _, hc := range core.Calls(h) {
					hcc := hc.Common()
					if hcc.IsInvoke() && hcc.Method.Name() == "Reader" && j < len(h.Params) && core.Canon(hcc.Value) == ssa.Value(h.Params[j]) {
						asks = true
					}
				}
				if asks {
					idx[which] = k
				}
			}
		}
	}
	ki, kok := idx["key"]
	vi, vok := idx["value"]
	c.Check(kok && vok && ki == 0 && vi == 1, rule, "meta/signature.MapType.Reader", mr.Pos(), "map entries are read key first, value second",
		"the signature-driven map reader does not read the key before the value")
	lr := c.Func("meta/signature", "ListType", "Reader")
	if lr != nil {
		ok := false
		for _, ret := range core.Returns(lr) {
			if mi, isMI := core.RetVal(ret, 0).(*ssa.MakeInterface); isMI && core.TypeIs(mi.X.Type(), "meta/signature", "varReader") {
				ok = true
			}
		}
		c.Check(ok, rule, "meta/signature.ListType.Reader", lr.Pos(), "lists are read with the length-prefixed reader", "ListType.Reader does not build a length-prefixed reader")
	}
}

func abbrev(s string) string {
	if len(s) > 48 {
		return s[:20] + "…" + s[len(s)-24:]
	}
	return s
}

func constString(k *types.Const) string {
	s := k.Val().ExactString()
	if u, err := strconv.Unquote(s); err == nil {
		return u
	}
	return s
}

// rulePrimitiveCopies: fixed-size buffers of the primitives hold what is copied into them.
func rulePrimitiveCopies(c *core.Ctx) {
	ruleCopyFits(c, "C03.primitives", "type/basic", "bus/net")
}

// kindCasesWithSiblings: kindCases of fn, plus the kinds handled in a method of
// the same codec that fn hands its own value to (return q.scalarValue(v) after
// the composite cases).
func kindCasesWithSiblings(fn *ssa.Function, isKind func(ssa.Value) bool) map[int64][]string {
	cases := kindCases(fn, isKind)
	for _, call := range core.Calls(fn) {
		h := core.StaticCallee(call)
		if h == nil || h == fn || h.Signature.Recv() == nil || fn.Signature.Recv() == nil ||
			!types.Identical(h.Signature.Recv().Type(), fn.Signature.Recv().Type()) || len(h.Blocks) == 0 {
			continue
		}
		passesValue := false
		args := call.Common().Args
		for _, a := range args[1:] {
			if len(fn.Params) > 1 && core.Canon(a) == ssa.Value(fn.Params[1]) {
				passesValue = true
			}
		}
		if !passesValue {
			continue
		}
		for k, prims := range kindCases(h, isKind) {
			if _, dup := cases[k]; !dup {
				cases[k] = prims
			}
		}
	}
	return cases
}
