package rules

import (
	"fmt"
	"go/token"
	"go/types"
	"path/filepath"
	"sort"
	"strings"

	"golang.org/x/tools/go/ssa"

	"qicheck/internal/core"
)

func init() {
	register(&Property{
		ID:    "C04",
		Title: "Every call gets exactly one answer - its own - and runs its method exactly once",
		Explanation: "Static discharge of structural necessary conditions of C04: " +
			"(types) the generic object stub, which fronts every generated stub, dispatches only across Header.Type ∈ {Call, Post}; raw generated stubs never escape their constructor as an Actor (they are only handed to NewBasicObject) and their methods are only called from their own Receive, so no other message type reaches an implementation method; " +
			"(routing) client.Call's reply filter matches only across equality of service, object, action and message id with the call's own, and is single-shot (keep=false); the handler is registered before the send; " +
			"(ids) the message id counter is only advanced by a positive constant under its mutex and the fresh id is the one put in the header; " +
			"(address) every NewHeader call built from another message's header passes that message's Service/Object/Action/ID in the matching positions; SendReply implementations copy the request header and change only the type; " +
			"(post) in every generated stub method the replies sent after the implementation ran are guarded by Type != Post; " +
			"(delivery) dispatch is the only sender on handler queues, under the mutex, and removes a single-shot handler in the same critical section (shared with C17). " +
			"Known finding: a malformed Post is answered with an Error before the method runs. " +
			"(serial) one goroutine hands an object its messages one at a time, for service objects and client-side objects; (post-errors) no Channel implementation answers an error to anything but a Call. " +
			"Not decided: exactly-once execution and own-result under all interleavings, mailbox FIFO, what the implementation computes.",
		Assumptions: []string{"message-type constants: Call=1, Post=4 (read from bus/net on every run)", "call graph: VTA over go/ssa for the escape rule"},
		Run:         runC04,
	})
}

func runC04(c *core.Ctx) {
	a := getEP(c, "C04.anchors")
	if a == nil {
		return
	}
	lc := core.NewLockCache()
	typeF := c.Field("bus/net", "Header", "Type")
	kCall := constOf(c, "bus/net", "Call")
	kPost := constOf(c, "bus/net", "Post")
	if typeF == nil || kCall < 0 || kPost < 0 {
		c.Undecided("C04.types", "bus/net constants", token.NoPos, "Header.Type / Call / Post not found")
		return
	}
	isType := func(v ssa.Value) bool { return isFieldOf(v, typeF) }
	isK := func(k int64) func(ssa.Value) bool {
		return func(v ssa.Value) bool { x, ok := core.ConstInt(v); return ok && x == k }
	}

	// ------------------------------------------------------------ types
	c.Doc("C04.types", "only Call and Post reach an implementation method", 8)
	recv := c.Func("bus", "stubObject", "Receive")
	if recv == nil {
		c.Undecided("C04.types", "bus.stubObject.Receive", token.NoPos, "anchor not found")
	} else {
		guard := core.AnyOf(core.Eq(isType, isK(kCall)), core.Eq(isType, isK(kPost)))
		n := 0
		bad := ""
		for _, call := range core.Calls(recv) {
			cc := call.Common()
			f := cc.StaticCallee()
			dispatches := false
			if f != nil && f.Signature.Recv() != nil && core.TypeIs(f.Signature.Recv().Type(), "bus", "stubObject") {
				dispatches = true
			}
			if cc.IsInvoke() && cc.Method.Name() == "Receive" {
				dispatches = true
			}
			if !dispatches {
				continue
			}
			n++
			if !core.Guarded(recv, call.(ssa.Instruction), guard) {
				bad = "stubObject.Receive dispatches " + core.CalleeName(call) + " (at " + c.Pos(call.Pos()) + ") without having established that the message is a Call or a Post: a Cancel/Capability/Reply/Error/Event with a method's action id runs the method"
			}
		}
		c.Check(bad == "" && n > 0, "C04.types", "bus.stubObject.Receive/type-guard", recv.Pos(), fmt.Sprintf("%d dispatch sites, all behind Type == Call || Type == Post", n), bad)
	}
	// raw stubs never escape as Actor; stub methods only called from their Receive
	newBasic := c.Func("bus", "", "NewBasicObject")
	nStub := 0
	for _, fn := range c.RepoFuncs() {
		if c.IsTestFile(fn) {
			continue
		}
		for _, b := range fn.Blocks {
			for _, in := range b.Instrs {
				mi, ok := in.(*ssa.MakeInterface)
				if !ok {
					continue
				}
				pt, ok := mi.X.Type().(*types.Pointer)
				if !ok {
					continue
				}
				nt, ok := pt.Elem().(*types.Named)
				if !ok || !strings.HasPrefix(nt.Obj().Name(), "stub") || nt.Obj().Name() == "stubObject" {
					continue
				}
				if _, isStruct := nt.Underlying().(*types.Struct); !isStruct {
					continue
				}
				it, ok := mi.Type().Underlying().(*types.Interface)
				if !ok {
					continue
				}
				hasReceive := false
				for i := 0; i < it.NumMethods(); i++ {
					if it.Method(i).Name() == "Receive" {
						hasReceive = true
					}
				}
				if !hasReceive {
					continue
				}
				nStub++
				key := fmt.Sprintf("raw-stub-as-actor@%s/%s", core.FuncKey(fn), nt.Obj().Name())
				bad := ""
				for _, u := range allUses(mi) {
					call, isCall := u.(ssa.CallInstruction)
					if isCall && core.IsCallTo(call, newBasic) && call.Common().Args[0] == ssa.Value(mi) {
						continue
					}
					bad = "the generated stub is used as an Actor without the generic object wrapper (" + u.String() + "): messages of any type reach its methods"
				}
				c.Check(bad == "", "C04.types", key, mi.Pos(), "only handed to NewBasicObject", bad)
			}
		}
	}
	if nStub == 0 {
		c.Undecided("C04.types", "raw-stub-as-actor", token.NoPos, "no generated stub constructor found")
	}
	for _, m := range stubMethods(c) {
		if len(implCalls(m)) == 0 {
			continue
		}
		key := "stub-method-callers@" + core.FuncKey(m)
		bad := ""
		nCallers := 0
		for _, fn := range c.RepoFuncs() {
			for _, call := range core.Calls(fn) {
				if core.IsCallTo(call, m) {
					nCallers++
					sameRecv := fn.Name() == "Receive" && fn.Signature.Recv() != nil && types.Identical(fn.Signature.Recv().Type(), m.Signature.Recv().Type())
					if !sameRecv && !c.IsTestFile(fn) {
						bad = "called from " + core.FuncKey(fn) + ", not from the stub's own Receive"
					}
				}
			}
		}
		c.Check(bad == "" && nCallers > 0, "C04.types", key, m.Pos(), "only called from its stub's Receive", bad)
	}

	// ------------------------------------------------------------ routing
	c.Doc("C04.routing", "reply filter compares service, object, action and id; single-shot; registered before send", 7)
	cc := getClientCall(c, a, "C04.routing")
	if cc != nil && cc.filter != nil {
		svcF := c.Field("bus/net", "Header", "Service")
		objF := c.Field("bus/net", "Header", "Object")
		actF := c.Field("bus/net", "Header", "Action")
		idF := c.Field("bus/net", "Header", "ID")
		rs := matchedReturns(cc.filter)
		for k, fe := range []struct {
			f    *types.Var
			want string
		}{{svcF, "service"}, {objF, "object"}, {actF, "action"}} {
			ok := len(rs) > 0
			sent0 := core.RootOf(core.Canon(sentMessageArg(cc.send)))
			fld, kk := fe.f, k
			isHdrF := func(v ssa.Value) bool { return isFieldOf(v, fld) && isParamRooted(v) }
			isSentF := func(v ssa.Value) bool {
				return sentHeaderField(cc.subst, sent0, fld, v) && builtWithAPIParams(cc.fn, sent0, kk)
			}
			for _, r := range rs {
				if !core.Guarded(cc.filter, r, hdrFieldEqParam(fe.f, cc.fn, k, cc.subst)) && !core.Guarded(cc.filter, r, core.Eq(isHdrF, isSentF)) {
					ok = false
				}
			}
			c.Check(ok, "C04.routing", "bus.client.Call/filter/"+fe.f.Name(), cc.filter.Pos(), "matched only across hdr."+fe.f.Name()+" == the call's own",
				"the reply filter can match a message whose "+fe.f.Name()+" is not the call's: a caller receives another call's answer")
		}
		// message id: the id of the message built for this call
		isHdrID := func(v ssa.Value) bool { return isFieldOf(v, idF) && isParamRooted(v) }
		// the message this call sends: the first argument of its Send
		sent := core.RootOf(core.Canon(sentMessageArg(cc.send)))
		isOwnID := func(v ssa.Value) bool {
			if sentHeaderField(cc.subst, sent, idF, v) {
				return true // the id field of a copy of the sent message's header
			}
			v = substValue(cc.subst, v) // captured directly, or through the filter's factory / receiver
			if !isFieldOf(v, idF) {
				return false
			}
			// msg.Header.ID of the message handed to Send
			return sent != nil && core.RootOf(v) == sent
		}
		ok := len(rs) > 0
		for _, r := range rs {
			if !core.Guarded(cc.filter, r, core.Eq(isHdrID, isOwnID)) {
				ok = false
			}
		}
		c.Check(ok, "C04.routing", "bus.client.Call/filter/ID", cc.filter.Pos(), "matched only across hdr.ID == the id of the message this call sent",
			"the reply filter does not compare the message id with the id of the message this call sent: two concurrent calls of one method receive each other's results")
		// single shot
		single := len(rs) > 0
		for _, r := range rs {
			keep, isConst := core.ConstBool(core.RetVal(r, 1))
			if !isConst || keep {
				single = false
			}
		}
		c.Check(single, "C04.routing", "bus.client.Call/filter/single-shot", cc.filter.Pos(), "a matching reply removes the handler (keep=false)",
			"the reply handler stays registered after its reply: a duplicated or late reply is delivered to a queue nobody reads, or the slot leaks")
		// the message sent is a message built for this call (not shared, not a parameter)
		cr, _ := core.CallResult(sent)
		sentOK := cr != nil && cr.Parent() == cc.fn
		c.Check(sentOK, "C04.routing", "bus.client.Call/sends-own-message", cc.send.Pos(), "the message sent is one built for this call, and its id is the one the reply filter watches", "the message sent is not built by this call: its id is not the one the reply filter watches")
	}
	ruleHandlerBeforeSend(c, a, "C04.routing")

	// ------------------------------------------------------------ ids
	c.Doc("C04.ids", "message ids: counter advanced by a positive constant under its mutex, fresh id used in the header", 3)
	ruleMessageIDs(c, lc)

	// ------------------------------------------------------------ address
	c.Doc("C04.address", "replies carry the request's service/object/action/id; SendReply only changes the type", 5)
	ruleReplyAddress(c)

	// ------------------------------------------------------------ post
	c.Doc("C04.post", "no reply to a Post after the method ran", 30)
	c.Doc("C04.post-decode-error", "a malformed Post must not be answered either (per generated file)", 4)
	c.Doc("C04.post-errors", "every Channel implementation answers errors to calls only (a post never gets an Error response, whatever path reports the error)", 3)
	rulePostNoReply(c, isType, isK(kPost))
	// the endpoint itself answers only Calls when a queue is full (rule shared with C12)
	c.Doc("C12.dispatch", "the full-queue error of dispatch is sent for Call messages only (a Post produces no response)", 1)
	ruleFullQueueError(c, a)

	// ------------------------------------------------------------ serial handling
	c.Doc("C04.serial", "the messages of one object are handed to it one at a time, each exactly once (mailbox of a service object, queue of a client-side object)", 4)
	ruleMailboxSerial(c, "C04.serial")
	if add := c.Func("bus", "clientService", "Add"); add != nil {
		ruleSerialDrain(c, "C04.serial", add)
	} else {
		c.Undecided("C04.serial", "bus.clientService.Add", token.NoPos, "anchor not found")
	}

	// ------------------------------------------------------------ every request is delivered or answered
	c.Doc("C04.delivered-or-answered", "a message accepted by a service is put into the object's mailbox (blocking send) or answered with an error: no path drops it", 1)
	if fn := c.Func("bus", "serviceImpl", "Receive"); fn == nil {
		c.Undecided("C04.delivered-or-answered", "bus.serviceImpl.Receive", token.NoPos, "anchor not found")
	} else {
		isSend := func(x ssa.Instruction) bool {
			sd, ok := x.(*ssa.Send)
			return ok && core.TypeIs(sd.Chan.Type(), "bus", "MailBox")
		}
		bad := ""
		for _, ret := range core.Returns(fn) {
			if cr, _ := core.CallResult(core.RetVal(ret, 0)); cr != nil && isSendErrorCall(cr) {
				continue
			}
			if !core.MustPassBefore(fn, ret, isSend) {
				bad = "serviceImpl.Receive can return (at " + c.Pos(ret.Pos()) + ") without having put the message into the object's mailbox and without answering it: a call that meets a busy object is dropped and its caller waits forever"
			}
		}
		c.Check(bad == "", "C04.delivered-or-answered", "bus.serviceImpl.Receive", fn.Pos(), "every return follows a blocking send into the mailbox or is the result of SendError", bad)
	}

	// ------------------------------------------------------------ delivery
	c.Doc("C04.delivery", "dispatch is the only sender on handler queues; single-shot handlers are removed in the same critical section", 2)
	ruleSendOwner(c, a, lc, "C04.delivery")
	ruleCloseWithCallers(c, a, lc, "C04.delivery")
	// "each call returns exactly one outcome": a call that registers its handler while the
	// connection is being shut down gets its outcome from the shutdown sweep or from a Send
	// that fails — which requires the stream to be closed before the sweep (rule shared with C11)
	c.Doc("C11.shutdown", "closeWith closes the stream (before taking the handler mutex) and every registered handler with the error — rule shared with C11", 4)
	ruleShutdown(c, a)
	// "its own answer … its own arguments": a request or an answer travels as one write on a
	// connection several callers share; split in two, another caller's message can land
	// between a header and its payload (rule shared with C10)
	c.Doc("C10.single-write", "one stream write per message, header then payload in a private buffer — rule shared with C10", 5)
	ruleSingleWrite(c, a)
}

func constOf(c *core.Ctx, rel, name string) int64 {
	k, ok := c.Object(rel, name).(*types.Const)
	if !ok {
		return -1
	}
	return constInt(k)
}

func isParamRooted(v ssa.Value) bool {
	_, ok := core.RootOf(v).(*ssa.Parameter)
	return ok
}

func ruleMessageIDs(c *core.Ctx, lc *core.LockCache) {
	const rule = "C04.ids"
	idOwner, idF := clientMessageID(c)
	next := c.Func("bus", "client", "nextMessageID")
	newMsg := c.Func("bus", "client", "newMessage")
	newHeader := c.Func("bus/net", "", "NewHeader")
	if idF == nil || next == nil || newMsg == nil || newHeader == nil {
		c.Undecided(rule, "bus.client.messageID", token.NoPos, "anchor not found")
		return
	}
	class := core.LockClass{Owner: "bus.client", Field: "messageIDMutex"}
	if idOwner != nil {
		if cl, ok := guardOf(c, lc, "bus", idOwner, idF, "messageIDMutex"); ok {
			class = cl
		}
	}
	n := 0
	for _, fn := range srcFuncsOfPkg(c, "bus") {
		for _, acc := range fieldAccesses(fn, idF) {
			if !acc.write || acc.fresh {
				continue
			}
			n++
			st, ok := acc.instr.(*ssa.Store)
			key := "messageID-store@" + core.FuncKey(fn)
			held, _ := lc.Get(fn).HeldAt(acc.instr, class, true)
			c.Check(ok && incOfField(st.Val, idF) && held, rule, key, core.InstrPos(acc.instr), "messageID += positive constant under messageIDMutex",
				"the message id counter is not advanced by a positive constant under its mutex: two concurrent calls can carry the same id and receive each other's replies")
		}
	}
	if n == 0 {
		c.Fail(rule, "messageID-store", idF.Pos(), "the message id counter is never advanced")
	}
	// nextMessageID returns the counter read after the increment, under the lock
	// (itself, or the accessor of the counter whose result it hands back)
	impl := next
	for i := 0; i < 3; i++ {
		h := forwardTarget(impl)
		if h == nil {
			break
		}
		impl = h
	}
	ok := true
	for _, ret := range core.Returns(impl) {
		v := core.Canon(core.RetVal(ret, 0))
		isLoad := isFieldOf(v, idF)
		_, isBin := v.(*ssa.BinOp)
		if !isLoad && !(isBin && incOfField(v, idF)) {
			ok = false
		}
		if u, isU := v.(*ssa.UnOp); isU {
			if h, _ := lc.Get(impl).HeldAt(u, class, true); !h {
				ok = false
			}
		}
	}
	c.Check(ok, rule, "bus.client.nextMessageID/result", next.Pos(), "returns the counter read under the mutex after the increment", "nextMessageID does not return the freshly incremented counter read under the mutex")
	// newMessage: the id argument of NewHeader is nextMessageID()
	good := false
	for _, call := range core.Calls(newMsg) {
		if core.IsCallTo(call, newHeader) {
			cr, _ := core.CallResult(call.Common().Args[4])
			good = cr != nil && core.IsCallTo(cr, next)
		}
	}
	c.Check(good, rule, "bus.client.newMessage/id", newMsg.Pos(), "the header id is a fresh nextMessageID()", "newMessage does not put a fresh message id in the header")
}

// ruleReplyAddress: argument agreement at NewHeader call sites and SendReply.
func ruleReplyAddress(c *core.Ctx) {
	const rule = "C04.address"
	newHeader := c.Func("bus/net", "", "NewHeader")
	if newHeader == nil {
		c.Undecided(rule, "bus/net.NewHeader", token.NoPos, "anchor not found")
		return
	}
	want := []string{"", "Service", "Object", "Action", "ID"}
	hdrT := c.Named("bus/net", "Header")
	n := 0
	for _, fn := range c.RepoFuncs("bus") {
		if c.IsTestFile(fn) {
			continue
		}
		for i, call := range core.Calls(fn) {
			if !core.IsCallTo(call, newHeader) {
				continue
			}
			args := call.Common().Args
			// only sites that build a header from another message's header
			fromHeader := 0
			for k := 1; k <= 4; k++ {
				p := core.AccessPath(args[k])
				if len(p.Fields) >= 1 && hdrT != nil && fieldOwner(p.Fields[len(p.Fields)-1]) == hdrT.Obj().Name() {
					fromHeader++
				}
			}
			if fromHeader == 0 {
				continue
			}
			n++
			key := fmt.Sprintf("NewHeader@%s#%d", core.FuncKey(fn), i)
			bad := ""
			var root ssa.Value
			for k := 1; k <= 4; k++ {
				p := core.AccessPath(args[k])
				if len(p.Fields) == 0 || fieldOwner(p.Fields[len(p.Fields)-1]) != "Header" {
					bad = fmt.Sprintf("argument %d (%s) is not taken from the request's header", k, want[k])
					continue
				}
				if p.Fields[len(p.Fields)-1].Name() != want[k] {
					bad = fmt.Sprintf("argument %d of NewHeader should be the request's %s but is its %s: the answer is addressed to the wrong call", k, want[k], p.Fields[len(p.Fields)-1].Name())
				}
				r := core.RootOf(args[k])
				if root == nil {
					root = r
				} else if root != r {
					bad = "the header fields come from different messages"
				}
			}
			c.Check(bad == "", rule, key, call.Pos(), "Service, Object, Action, ID of one request, in the positions of the parameters of the same name", bad)
		}
	}
	if n < 2 {
		c.Undecided(rule, "NewHeader", newHeader.Pos(), fmt.Sprintf("only %d NewHeader call sites built from a request header found (error answers and the full-queue answer of dispatch expected)", n))
	}
	// signalHandler.newHeader(typ, action, id): NewHeader(typ, o.serviceID, o.objectID, action, id)
	sh := c.Func("bus", "signalHandler", "newHeader")
	if sh != nil {
		ok := false
		for _, call := range core.Calls(sh) {
			if core.IsCallTo(call, newHeader) {
				a := call.Common().Args
				ok = core.Canon(a[0]) == ssa.Value(sh.Params[1]) && core.Canon(a[3]) == ssa.Value(sh.Params[2]) && core.Canon(a[4]) == ssa.Value(sh.Params[3]) &&
					strings.Contains(strings.ToLower(core.AccessPath(a[1]).String()), "service") && strings.Contains(strings.ToLower(core.AccessPath(a[2]).String()), "object")
			}
		}
		c.Check(ok, rule, "bus.signalHandler.newHeader", sh.Pos(), "event headers: (type, own service, own object, action, id)", "signalHandler.newHeader mixes up service/object/action/id: events reach the wrong subscription")
	}
	// SendReply implementations
	nr := 0
	for _, fn := range srcFuncsOfPkg(c, "bus") {
		if fn.Name() != "SendReply" || fn.Signature.Recv() == nil || fn.Parent() != nil {
			continue
		}
		nr++
		key := core.FuncKey(fn)
		bad := ""
		typeStores := 0
		// the reply may be built by a helper that is handed the request (newReplyMessage(msg, …))
		builder := fn
		for _, call := range core.Calls(fn) {
			g := core.StaticCallee(call)
			if g == nil || g == fn || !inRepo(g) || len(g.Blocks) == 0 || g.Signature.Recv() != nil {
				continue
			}
			for i, a := range call.Common().Args {
				if pr, ok := core.Canon(a).(*ssa.Parameter); ok && pr.Parent() == fn && core.TypeIs(derefType(pr.Type()), "bus/net", "Message") && i < len(g.Params) {
					for _, gc := range core.Calls(g) {
						if f := core.StaticCallee(gc); f != nil && f.Name() == "NewMessage" {
							builder = g
						}
					}
				}
			}
		}
		for _, b := range builder.Blocks {
			for _, in := range b.Instrs {
				st, ok := in.(*ssa.Store)
				if !ok {
					continue
				}
				p := core.AccessPath(st.Addr)
				if len(p.Fields) == 0 || fieldOwner(p.Fields[len(p.Fields)-1]) != "Header" {
					continue
				}
				f := p.Fields[len(p.Fields)-1].Name()
				if f == "Type" {
					typeStores++
					if k, ok := core.ConstInt(st.Val); !ok || k != constOf(c, "bus/net", "Reply") {
						bad = "the reply's type is not Reply"
					}
				} else {
					bad = "SendReply modifies header field " + f + " of the reply: the answer no longer carries the request's address/id"
				}
			}
		}
		// the header given to NewMessage derives from msg.Header
		derived := false
		for _, call := range core.Calls(builder) {
			if f := core.StaticCallee(call); f != nil && f.Name() == "NewMessage" {
				p := core.AccessPath(call.Common().Args[0])
				if len(p.Fields) == 1 && p.Fields[0].Name() == "Header" {
					if pr, ok := p.Root.(*ssa.Parameter); ok && pr.Parent() == builder {
						derived = true
					}
				}
			}
		}
		if bad == "" && (!derived || typeStores != 1) {
			bad = "the reply header is not a copy of the request header with only its type changed"
		}
		c.Check(bad == "", rule, key, fn.Pos(), "reply header = request header with Type = Reply", bad)
	}
	if nr < 3 {
		c.Undecided(rule, "SendReply", token.NoPos, fmt.Sprintf("only %d SendReply implementations found", nr))
	}
}

func fieldOwner(f *types.Var) string {
	// the struct a field belongs to is not directly available; use the
	// position-independent heuristic of the enclosing named type in its package
	if f == nil || f.Pkg() == nil {
		return ""
	}
	sc := f.Pkg().Scope()
	for _, n := range sc.Names() {
		tn, ok := sc.Lookup(n).(*types.TypeName)
		if !ok {
			continue
		}
		st, ok := tn.Type().Underlying().(*types.Struct)
		if !ok {
			continue
		}
		for i := 0; i < st.NumFields(); i++ {
			if st.Field(i) == f {
				return tn.Name()
			}
		}
	}
	return ""
}

// rulePostNoReply: in every generated stub method, SendReply/SendError after
// the impl call are guarded by Type != Post; SendError before it (decode
// errors) answering a Post is reported once per generated file.
// sendErrorOnlyAnswersCalls: every implementation of Channel.SendError in
// package bus sends (or builds) the error message only across Type == Call.
// One obligation per implementation is recorded under C04.post-errors.
func sendErrorOnlyAnswersCalls(c *core.Ctx, isType func(ssa.Value) bool) (all bool, n int, why string) {
	const rule = "C04.post-errors"
	all = true
	kCall := constOf(c, "bus/net", "Call")
	isCall := func(v ssa.Value) bool { k, ok := core.ConstInt(v); return ok && k == kCall }
	for _, fn := range srcFuncsOfPkg(c, "bus") {
		if fn.Parent() != nil || fn.Name() != "SendError" || fn.Signature.Recv() == nil || len(fn.Blocks) == 0 {
			continue
		}
		// a wrapper that only delegates to another Channel's SendError inherits its behaviour
		sends := 0
		delegates := 0
		bad := ""
		// the method and the private helpers it hands the work to (sendErrorWith(c.Send, msg, err))
		for _, uf := range unitOf(c, fn) {
			for _, call := range core.Calls(uf) {
				cc := call.Common()
				name := ""
				if cc.IsInvoke() {
					name = cc.Method.Name()
				} else if f := cc.StaticCallee(); f != nil {
					name = f.Name()
				} else if p, isParam := core.Canon(cc.Value).(*ssa.Parameter); isParam && uf != fn {
					// the helper was handed the channel's Send as a function value
					if _, isFunc := p.Type().Underlying().(*types.Signature); isFunc {
						name = "Send"
					}
				}
				switch name {
				case "SendError":
					if uf == fn {
						delegates++
					}
				case "Send", "NewMessage", "NewHeader":
					sends++
					in := call.(ssa.Instruction)
					guarded := core.Guarded(uf, in, core.Eq(isType, isCall))
					if !guarded && uf != fn {
						guarded = guardedUp(c, uf, in, core.Eq(isType, isCall))
					}
					if !guarded {
						bad = "an error answer is built or sent (at " + c.Pos(call.Pos()) + ") without the request having been checked to be a Call: a one-way post (or a reply, an event, a cancel) is answered with an Error message"
					}
				}
			}
		}
		if sends == 0 && delegates == 0 {
			continue
		}
		n++
		if bad != "" {
			all = false
			why = bad
		}
		c.Check(bad == "", rule, core.FuncKey(fn), fn.Pos(), "answers only messages of type Call", bad)
	}
	if n == 0 {
		all = false
	}
	return all, n, why
}

func rulePostNoReply(c *core.Ctx, isType func(ssa.Value) bool, isPost func(ssa.Value) bool) {
	notPost := core.Ne(isType, isPost)
	perFile := map[string][]string{}
	filePos := map[string]token.Pos{}
	for _, fn := range stubMethods(c) {
		var impl ssa.Instruction
		for _, ic := range implCalls(fn) {
			if ic.Parent() == fn {
				impl = ic.(ssa.Instruction)
			}
		}
		if impl == nil {
			continue
		}
		file := filepath.Base(c.Fset.Position(fn.Pos()).Filename)
		bad := ""
		n := 0
		for _, call := range core.Calls(fn) {
			in := call.(ssa.Instruction)
			if !isSendErrorCall(in) && !isSendReplyCall(in) {
				continue
			}
			if core.Dominates(impl, in) && in != impl {
				n++
				if !core.Guarded(fn, in, notPost) {
					bad = "a reply is sent (at " + c.Pos(call.Pos()) + ") after the method ran without checking that the request was not a Post: a one-way post produces a response"
				}
			} else if !core.Guarded(fn, in, notPost) {
				perFile[file] = append(perFile[file], core.FuncKey(fn))
				filePos[file] = call.Pos()
			}
		}
		// forwarding methods (RegisterEvent/UnregisterEvent hand the message to the implementation) have no reply here
		if n == 0 {
			continue
		}
		c.Check(bad == "", "C04.post", core.FuncKey(fn), fn.Pos(), fmt.Sprintf("%d replies after the call, all behind Type != Post", n), bad)
	}
	files := make([]string, 0, len(perFile))
	for f := range perFile {
		files = append(files, f)
	}
	sort.Strings(files)
	// error answers are built by the Channel implementations: when each of them
	// refuses to answer anything but a Call, an unconditional SendError in a stub
	// cannot produce a response to a Post
	refused, nImpl, why := sendErrorOnlyAnswersCalls(c, isType)
	for _, f := range files {
		if refused {
			c.Pass("C04.post-decode-error", f, filePos[f], fmt.Sprintf("the decode error is handed to Channel.SendError, all %d implementations of which answer calls only", nImpl))
			continue
		}
		_ = why
		ms := perFile[f]
		sort.Strings(ms)
		uniq := ms[:0]
		for i, m := range ms {
			if i == 0 || ms[i-1] != m {
				uniq = append(uniq, m)
			}
		}
		c.Fail("C04.post-decode-error", f, filePos[f], fmt.Sprintf("a Post whose arguments cannot be decoded is answered with an Error message (%d stub methods send the decode error without testing the message type)", len(uniq)))
	}
}

func derefType(t types.Type) types.Type {
	if p, ok := t.(*types.Pointer); ok {
		return p.Elem()
	}
	return t
}
