package rules

import (
	"fmt"
	"go/ast"
	"go/parser"
	"go/token"
	"go/types"
	"regexp"
	"strconv"
	"strings"

	"golang.org/x/tools/go/packages"
	"golang.org/x/tools/go/ssa"

	"qicheck/internal/core"
)

func init() {
	register(&Property{
		ID:    "C05",
		Title: "Generated proxy and stub code compiles and the two halves are mutual inverses",
		Explanation: "Decides, on the code GENERATOR itself (the functions of meta/signature, meta/stub and meta/idl that build the generated source with the jen library), the structural clauses without which the two generated halves cannot be inverses for any IDL: " +
			"(scalar-pairs) every scalar type constructor names the Write and the Read primitive of its own signature letter in its marshal / unmarshal emitters; " +
			"(codec-pairs) for every composite type (list, map, tuple, struct, enum) the sequence of wire operations emitted by Marshal is the dual of the one emitted by Unmarshal: same primitives, same members in the same order, generated loops in the same places, a 32-bit count in front of list and map elements, struct read/write functions declared under the names the call sites use and covering every member in declaration order; " +
			"(stub-body, proxy-body) the generated stub decodes every declared parameter, in declaration order, with the emitter of the parameter's own type, passes all of them to the implementation and encodes the result with the emitter of the return type; the generated proxy passes one argument per declared parameter in declaration order and decodes the response with the return type; " +
			"(signals-properties) signal and property helpers encode the event with the same tuple/type the subscriber side decodes. " +
			"The emitted operations are read off the generator's syntax tree (jen call chains, string fragments naming basic.ReadX / basic.WriteX, calls of Type.Marshal / Type.Unmarshal, Go loops over Members / Params) in source order. " +
			"On the generated code checked into the repository (stated-types, stated-shapes, stated-events): every signature string such code states is parsed (letter table read from the constructors of meta/signature) and compared with what the code does with the bytes — the static Go types handed to the reflection codec at bus.NewParams / bus.NewResponse, the wire shape each stub method decodes and encodes for the action its meta-object advertises, what signal / property emitters, typed subscribers, property accessors and validator hooks encode or decode. " +
			"Not decided: that the generated text compiles for every IDL (identifier hygiene, imports, name collisions), that the fragments are syntactically well formed, and equality of values end to end; the generator is not run.",
		Assumptions: []string{"within one emitter function, source order of the jen calls is emission order (true of jen call chains and of slices appended to in order)", "the jen library renders what it is given"},
		Run:         runC05,
	})
}

// etok is one emitted wire operation, read off the generator's syntax tree.
type etok struct {
	Kind   string // prim | sub | fn | rep | each
	Dir    string // read | write | ""
	Name   string // prim: Uint32 …; sub: member key; fn: suffix expression; each: ranged expression
	Kids   []etok
	Pos    token.Pos
	InCond bool   // emitted under a Go-level condition of the generator
	Arg    string // sub: the non-constant part of the Go expression encoded from / decoded into ("" if constant)
}

func (t etok) String() string {
	switch t.Kind {
	case "prim":
		return t.Name
	case "sub":
		return "<" + t.Name + ">"
	case "fn":
		return "fn(" + t.Name + ")"
	case "rep":
		return "loop(" + etokString(t.Kids) + ")"
	case "each":
		return "each " + t.Name + "(" + etokString(t.Kids) + ")"
	}
	return "?"
}

func etokString(ts []etok) string {
	var parts []string
	for _, t := range ts {
		parts = append(parts, t.String())
	}
	return strings.Join(parts, " ")
}

var basicCallRe = regexp.MustCompile(`basic\.(Read|Write)([A-Za-z0-9]+)`)

type emitWalker struct {
	p    *packages.Package
	info *types.Info
	// isType reports whether a static type is (an implementation of) the signature Type interface
	typeIface *types.Interface
	depth     int
	inline    bool                      // follow helper functions of the generator's package
	defs      map[types.Object]ast.Expr // local variables with exactly one definition (x := e) -> e
}

// localDef returns the defining expression of a local variable that is
// defined exactly once (name := s.name()), nil otherwise.
func (w *emitWalker) localDef(o types.Object) ast.Expr {
	if w.defs == nil {
		w.defs = map[types.Object]ast.Expr{}
		count := map[types.Object]int{}
		for _, f := range w.p.Syntax {
			ast.Inspect(f, func(n ast.Node) bool {
				as, ok := n.(*ast.AssignStmt)
				if !ok || len(as.Lhs) != len(as.Rhs) {
					return true
				}
				for i, l := range as.Lhs {
					if id, ok := l.(*ast.Ident); ok {
						if obj := w.info.ObjectOf(id); obj != nil {
							count[obj]++
							w.defs[obj] = as.Rhs[i]
						}
					}
				}
				return true
			})
		}
		for o, n := range count {
			if n != 1 {
				delete(w.defs, o)
			}
		}
	}
	return w.defs[o]
}

// helperToks: the operations emitted by a helper function of the generator's
// own package (writeContainerSize(id, w)), nil if fo is not one.
func (w *emitWalker) helperToks(fo *types.Func) []etok {
	if !w.inline || fo == nil || fo.Pkg() != w.p.Types || w.depth > 3 {
		return nil
	}
	fd := funcDeclOf(w.p, fo)
	if fd == nil || fd.Body == nil {
		return nil
	}
	w.depth++
	defer func() { w.depth-- }()
	return w.block(fd.Body.List)
}

// memberKey names the receiver of a Marshal/Unmarshal call independently of
// local variable names: named type of the root variable + selected fields.
func (w *emitWalker) memberKey(e ast.Expr) string {
	switch x := e.(type) {
	case *ast.SelectorExpr:
		return w.memberKey(x.X) + "." + x.Sel.Name
	case *ast.Ident:
		if o := w.info.ObjectOf(x); o != nil {
			if v, isVar := o.(*types.Var); isVar && !v.IsField() && w.depth < 6 {
				if def := w.localDef(o); def != nil {
					_, isCall := def.(*ast.CallExpr)
					if b, ok := o.Type().Underlying().(*types.Basic); (ok && b.Info()&types.IsString != 0) || isCall {
						w.depth++
						k := w.memberKey(def)
						w.depth--
						return k
					}
				}
			}
			t := o.Type()
			if pt, ok := t.(*types.Pointer); ok {
				t = pt.Elem()
			}
			if n, ok := t.(*types.Named); ok {
				return n.Obj().Name()
			}
			return types.TypeString(t, func(*types.Package) string { return "" })
		}
		return x.Name
	case *ast.CallExpr:
		var args []string
		for _, a := range x.Args {
			args = append(args, w.memberKey(a))
		}
		if id, ok := x.Fun.(*ast.Ident); ok {
			return id.Name + "(" + strings.Join(args, ",") + ")"
		}
		if sel, ok := x.Fun.(*ast.SelectorExpr); ok {
			if id, ok := sel.X.(*ast.Ident); ok {
				if _, isPkg := w.info.Uses[id].(*types.PkgName); isPkg {
					return id.Name + "." + sel.Sel.Name + "(" + strings.Join(args, ",") + ")"
				}
			}
			return w.memberKey(sel.X) + "." + sel.Sel.Name + "(" + strings.Join(args, ",") + ")"
		}
	case *ast.BasicLit:
		return x.Value
	case *ast.IndexExpr:
		return w.memberKey(x.X) + "[]"
	case *ast.ParenExpr:
		return w.memberKey(x.X)
	case *ast.StarExpr:
		return w.memberKey(x.X)
	}
	return "?"
}

// isTypeValue: expression e has a static type implementing the signature
// Type interface (or is that interface).
func (w *emitWalker) isTypeValue(e ast.Expr) bool {
	t := w.info.TypeOf(e)
	if t == nil || w.typeIface == nil {
		return false
	}
	if types.Implements(t, w.typeIface) {
		return true
	}
	if _, isPtr := t.(*types.Pointer); !isPtr {
		return types.Implements(types.NewPointer(t), w.typeIface)
	}
	return false
}

func (w *emitWalker) constString(e ast.Expr) (string, bool) {
	if tv, ok := w.info.Types[e]; ok && tv.Value != nil && tv.Value.Kind().String() == "String" {
		return stringLit(w.info, e), true
	}
	return "", false
}

// stringPieces returns the constant pieces of a string-typed expression
// (literal, concatenation, fmt.Sprintf format) in order, and the text of the
// first non-constant operand.
func (w *emitWalker) stringPieces(e ast.Expr) (consts []string, dyn string) {
	if s, ok := w.constString(e); ok {
		return []string{s}, ""
	}
	switch x := e.(type) {
	case *ast.BinaryExpr:
		if x.Op == token.ADD {
			c1, d1 := w.stringPieces(x.X)
			c2, d2 := w.stringPieces(x.Y)
			if d1 == "" {
				d1 = d2
			}
			return append(c1, c2...), d1
		}
	case *ast.ParenExpr:
		return w.stringPieces(x.X)
	case *ast.CallExpr:
		if sel, ok := x.Fun.(*ast.SelectorExpr); ok && sel.Sel.Name == "Sprintf" && len(x.Args) > 0 {
			return w.stringPieces(x.Args[0])
		}
	}
	if t := w.info.TypeOf(e); t != nil {
		if b, ok := t.Underlying().(*types.Basic); ok && b.Info()&types.IsString != 0 {
			return nil, w.memberKey(e)
		}
	}
	return nil, ""
}

// lastDyn: the last non-constant operand of the string expression e.
func (w *emitWalker) lastDyn(e ast.Expr) string {
	switch x := e.(type) {
	case *ast.BinaryExpr:
		if x.Op == token.ADD {
			if d := w.lastDyn(x.Y); d != "" {
				return d
			}
			return w.lastDyn(x.X)
		}
	case *ast.ParenExpr:
		return w.lastDyn(x.X)
	}
	if _, isConst := w.constString(e); isConst {
		return ""
	}
	if t := w.info.TypeOf(e); t != nil {
		if b, ok := t.Underlying().(*types.Basic); ok && b.Info()&types.IsString != 0 {
			return w.memberKey(e)
		}
	}
	return ""
}

// chainDyn: the last non-constant string operand among the arguments of the
// jen call chain e (the Go expression a decoded value is assigned to).
func (w *emitWalker) chainDyn(e ast.Expr) string {
	out := ""
	ast.Inspect(e, func(n ast.Node) bool {
		call, ok := n.(*ast.CallExpr)
		if !ok {
			return true
		}
		if sel, ok := call.Fun.(*ast.SelectorExpr); ok && (sel.Sel.Name == "Marshal" || sel.Sel.Name == "Unmarshal") {
			return false
		}
		if t := w.info.TypeOf(call); t != nil {
			if b, ok := t.Underlying().(*types.Basic); ok && b.Info()&types.IsString != 0 {
				return false // a string-valued call is an operand, not part of the chain
			}
		}
		for _, a := range call.Args {
			if t := w.info.TypeOf(a); t != nil {
				if b, ok := t.Underlying().(*types.Basic); ok && b.Info()&types.IsString != 0 {
					if d := w.lastDyn(a); d != "" {
						out = d
					}
				}
			}
		}
		return true
	})
	return out
}

func (w *emitWalker) expr(e ast.Expr) []etok {
	if e == nil {
		return nil
	}
	// string fragments
	if t := w.info.TypeOf(e); t != nil {
		if b, ok := t.Underlying().(*types.Basic); ok && b.Info()&types.IsString != 0 {
			consts, dyn := w.stringPieces(e)
			var out []etok
			for _, s := range consts {
				for _, m := range basicCallRe.FindAllStringSubmatch(s, -1) {
					out = append(out, etok{Kind: "prim", Dir: strings.ToLower(m[1]), Name: m[2], Pos: e.Pos()})
				}
			}
			// "read"+s.name() / "write"+s.name(): a generated per-struct function
			if len(consts) > 0 && dyn != "" {
				switch consts[0] {
				case "read":
					out = append(out, etok{Kind: "fn", Dir: "read", Name: dyn, Pos: e.Pos()})
				case "write":
					out = append(out, etok{Kind: "fn", Dir: "write", Name: dyn, Pos: e.Pos()})
				}
			}
			return out
		}
	}
	switch x := e.(type) {
	case *ast.ParenExpr:
		return w.expr(x.X)
	case *ast.UnaryExpr:
		return w.expr(x.X)
	case *ast.BinaryExpr:
		return append(w.expr(x.X), w.expr(x.Y)...)
	case *ast.CompositeLit:
		var out []etok
		for _, el := range x.Elts {
			if kv, ok := el.(*ast.KeyValueExpr); ok {
				out = append(out, w.expr(kv.Value)...)
			} else {
				out = append(out, w.expr(el)...)
			}
		}
		return out
	case *ast.FuncLit:
		return w.block(x.Body.List)
	case *ast.CallExpr:
		sel, _ := x.Fun.(*ast.SelectorExpr)
		if sel == nil {
			var out []etok
			if id, ok := x.Fun.(*ast.Ident); ok {
				if fo, ok := w.info.Uses[id].(*types.Func); ok {
					out = append(out, w.helperToks(fo)...)
				}
			}
			for _, a := range x.Args {
				out = append(out, w.expr(a)...)
			}
			return out
		}
		name := sel.Sel.Name
		if name != "Marshal" && name != "Unmarshal" && name != "TypeDeclaration" {
			// a helper method of the generator's own package
			if fo, ok := w.info.Uses[sel.Sel].(*types.Func); ok && fo.Pkg() == w.p.Types {
				out := w.helperToks(fo)
				for _, a := range x.Args {
					out = append(out, w.expr(a)...)
				}
				if len(out) > 0 {
					return out
				}
			}
		}
		if (name == "Marshal" || name == "Unmarshal") && w.isTypeValue(sel.X) {
			dir := "write"
			if name == "Unmarshal" {
				dir = "read"
			}
			t := etok{Kind: "sub", Dir: dir, Name: w.memberKey(sel.X), Pos: x.Pos()}
			if dir == "write" && len(x.Args) > 0 {
				t.Arg = w.lastDyn(x.Args[0])
			}
			return []etok{t}
		}
		prefix := w.expr(sel.X)
		if name == "Qual" && len(x.Args) == 2 {
			pkg, _ := w.constString(x.Args[0])
			fn, _ := w.constString(x.Args[1])
			if strings.HasSuffix(pkg, "type/basic") {
				if m := regexp.MustCompile(`^(Read|Write)([A-Za-z0-9]+)$`).FindStringSubmatch(fn); m != nil {
					return append(prefix, etok{Kind: "prim", Dir: strings.ToLower(m[1]), Name: m[2], Pos: x.Pos()})
				}
			}
			return prefix
		}
		var args []etok
		for _, a := range x.Args {
			args = append(args, w.expr(a)...)
		}
		// x.Add(T.Unmarshal(r)): the chain before Add names what the value is decoded into
		if name == "Add" && len(args) == 1 && args[0].Kind == "sub" && args[0].Dir == "read" && args[0].Arg == "" {
			args[0].Arg = w.chainDyn(sel.X)
		}
		if name == "For" && w.isJen(sel.X) {
			// marker: the loop body is the Block(...) that follows in the chain
			return append(prefix, etok{Kind: "rep", Name: "pending", Kids: args, Pos: x.Pos()})
		}
		if name == "Block" && len(prefix) > 0 && prefix[len(prefix)-1].Kind == "rep" && prefix[len(prefix)-1].Name == "pending" {
			rep := prefix[len(prefix)-1]
			rep.Name = ""
			rep.Kids = append(rep.Kids, args...)
			return append(prefix[:len(prefix)-1], rep)
		}
		return append(prefix, args...)
	}
	return nil
}

// isJen: expression is the jen package or a jen statement.
func (w *emitWalker) isJen(e ast.Expr) bool {
	if id, ok := e.(*ast.Ident); ok {
		if pn, ok := w.info.Uses[id].(*types.PkgName); ok {
			return strings.HasSuffix(pn.Imported().Path(), "/jen")
		}
	}
	if t := w.info.TypeOf(e); t != nil {
		return strings.Contains(t.String(), "jen.Statement")
	}
	return false
}

func (w *emitWalker) block(stmts []ast.Stmt) []etok {
	var out []etok
	for _, s := range stmts {
		out = append(out, w.stmt(s)...)
	}
	return out
}

func markCond(ts []etok) []etok {
	for i := range ts {
		ts[i].InCond = true
		ts[i].Kids = markCond(ts[i].Kids)
	}
	return ts
}

func (w *emitWalker) stmt(s ast.Stmt) []etok {
	switch x := s.(type) {
	case *ast.ExprStmt:
		return w.expr(x.X)
	case *ast.AssignStmt:
		var out []etok
		for _, r := range x.Rhs {
			out = append(out, w.expr(r)...)
		}
		return out
	case *ast.DeclStmt:
		var out []etok
		if gd, ok := x.Decl.(*ast.GenDecl); ok {
			for _, sp := range gd.Specs {
				if vs, ok := sp.(*ast.ValueSpec); ok {
					for _, v := range vs.Values {
						out = append(out, w.expr(v)...)
					}
				}
			}
		}
		return out
	case *ast.ReturnStmt:
		var out []etok
		for _, r := range x.Results {
			out = append(out, w.expr(r)...)
		}
		return out
	case *ast.BlockStmt:
		return w.block(x.List)
	case *ast.IfStmt:
		var out []etok
		if x.Init != nil {
			out = append(out, w.stmt(x.Init)...)
		}
		body := w.block(x.Body.List)
		if x.Else != nil {
			els := w.stmt(x.Else)
			if etokString(body) == etokString(els) {
				// both branches emit the same operations: unconditional
				return append(out, body...)
			}
			out = append(out, markCond(body)...)
			return append(out, markCond(els)...)
		}
		out = append(out, markCond(body)...)
		return out
	case *ast.SwitchStmt:
		var out []etok
		for _, cs := range x.Body.List {
			if cc, ok := cs.(*ast.CaseClause); ok {
				out = append(out, markCond(w.block(cc.Body))...)
			}
		}
		return out
	case *ast.TypeSwitchStmt:
		var out []etok
		for _, cs := range x.Body.List {
			if cc, ok := cs.(*ast.CaseClause); ok {
				out = append(out, markCond(w.block(cc.Body))...)
			}
		}
		return out
	case *ast.RangeStmt:
		kids := w.block(x.Body.List)
		if len(kids) == 0 {
			return nil
		}
		return []etok{{Kind: "each", Name: w.memberKey(x.X), Kids: kids, Pos: x.Pos()}}
	case *ast.ForStmt:
		kids := w.block(x.Body.List)
		if len(kids) == 0 {
			return nil
		}
		over := "?"
		if be, ok := x.Cond.(*ast.BinaryExpr); ok {
			if call, ok := be.Y.(*ast.CallExpr); ok && len(call.Args) == 1 {
				over = w.memberKey(call.Args[0])
			}
		}
		return []etok{{Kind: "each", Name: over, Kids: kids, Pos: x.Pos()}}
	}
	return nil
}

// project keeps the operations of one direction (and the loops containing some).
func project(ts []etok, dir string) []etok {
	var out []etok
	for _, t := range ts {
		switch t.Kind {
		case "rep", "each":
			k := project(t.Kids, dir)
			if len(k) > 0 {
				t.Kids = k
				out = append(out, t)
			}
		default:
			if t.Dir == dir {
				out = append(out, t)
			}
		}
	}
	return out
}

// compareEmitted: the write side and the read side emit dual sequences.
func compareEmitted(wr, rd []etok) string {
	if len(wr) != len(rd) {
		return fmt.Sprintf("the write side emits %d operations (%s), the read side %d (%s)", len(wr), etokString(wr), len(rd), etokString(rd))
	}
	for i := range wr {
		a, b := wr[i], rd[i]
		if a.Kind != b.Kind {
			return fmt.Sprintf("operation %d: write side %s, read side %s", i+1, a, b)
		}
		switch a.Kind {
		case "prim", "sub", "fn":
			if a.Name != b.Name {
				return fmt.Sprintf("operation %d: the write side emits %s where the read side emits %s", i+1, a, b)
			}
			if a.InCond != b.InCond {
				return fmt.Sprintf("operation %d (%s): emitted conditionally on one side only", i+1, a)
			}
			if a.Arg != "" && b.Arg != "" && a.Arg != b.Arg {
				return fmt.Sprintf("operation %d (%s): the write side encodes the Go expression built from %s, the read side decodes into the one built from %s", i+1, a, a.Arg, b.Arg)
			}
		case "each":
			if a.Name != b.Name {
				return fmt.Sprintf("operation %d: the write side iterates over %s, the read side over %s", i+1, a.Name, b.Name)
			}
			if d := compareEmitted(a.Kids, b.Kids); d != "" {
				return fmt.Sprintf("operation %d (for each %s): %s", i+1, a.Name, d)
			}
		case "rep":
			if d := compareEmitted(a.Kids, b.Kids); d != "" {
				return fmt.Sprintf("operation %d (generated loop): %s", i+1, d)
			}
		}
	}
	return ""
}

func runC05(c *core.Ctx) {
	sp := c.Pkg("meta/signature")
	if sp == nil {
		c.Undecided("C05.codec-pairs", "meta/signature", token.NoPos, "package not loaded")
		return
	}
	var typeIface *types.Interface
	if o, ok := sp.Types.Scope().Lookup("Type").(*types.TypeName); ok {
		typeIface, _ = o.Type().Underlying().(*types.Interface)
	}
	if typeIface == nil {
		c.Undecided("C05.codec-pairs", "meta/signature.Type", token.NoPos, "the Type interface was not found")
		return
	}

	// ------------------------------------------------------------ scalar pairs
	c.Doc("C05.scalar-pairs", "each scalar constructor's marshal / unmarshal emitters name the Write / Read primitive of its own letter", 11)
	ruleConstructorsAs(c, derivePrims(c), "C05.scalar-pairs")

	// ------------------------------------------------------------ composite pairs
	c.Doc("C05.codec-pairs", "Marshal and Unmarshal emitters of every composite type are duals; struct read/write functions cover every member", 4)
	w := &emitWalker{p: sp, info: sp.TypesInfo, typeIface: typeIface, inline: true}
	nPairs := 0
	sc := sp.Types.Scope()
	for _, tn := range sc.Names() {
		o, ok := sc.Lookup(tn).(*types.TypeName)
		if !ok {
			continue
		}
		if _, isStruct := o.Type().Underlying().(*types.Struct); !isStruct {
			continue
		}
		if !types.Implements(types.NewPointer(o.Type()), typeIface) {
			continue
		}
		m, u := funcDecl(sp, tn, "Marshal"), funcDecl(sp, tn, "Unmarshal")
		if m == nil || u == nil {
			continue
		}
		mt, ut := project(w.block(m.Body.List), "write"), project(w.block(u.Body.List), "read")
		key := "meta/signature." + tn
		if len(mt) == 0 && len(ut) == 0 {
			// delegates to function-valued fields (the scalar constructors, checked above)
			continue
		}
		nPairs++
		bad := compareEmitted(mt, ut)
		// a read operation in Marshal or a write in Unmarshal is a slip
		if bad == "" {
			if x := project(w.block(m.Body.List), "read"); len(x) > 0 {
				bad = "Marshal emits a read operation: " + etokString(x)
			}
			if x := project(w.block(u.Body.List), "write"); len(x) > 0 {
				bad = "Unmarshal emits a write operation: " + etokString(x)
			}
		}
		// containers: 32-bit count, then a generated loop over the elements
		if bad == "" {
			for _, side := range [][]etok{mt, ut} {
				hasLoop := false
				for i, t := range side {
					if t.Kind == "rep" {
						hasLoop = true
						if i == 0 || side[i-1].Kind != "prim" || side[i-1].Name != "Uint32" {
							bad = "the generated loop over the elements is not preceded by a 32-bit count"
						}
						if len(t.Kids) == 0 {
							bad = "the generated loop emits no element operation"
						}
					}
				}
				_ = hasLoop
			}
		}
		// the element of an emitted loop is named by a variable of that loop, not by an
		// expression built from the container and the emitted index: the emitter of the
		// element type is the same function one level down, and re-declares that index
		if bad == "" {
			bad = elementNamedByContainer(sp, m)
		}
		c.Check(bad == "", "C05.codec-pairs", key, m.Pos(), "Marshal: "+etokString(mt)+"  /  Unmarshal: "+etokString(ut), "the generated encoder and decoder of "+tn+" are not inverses: "+bad)

		// declaration of per-type functions
		if td := funcDecl(sp, tn, "TypeDeclaration"); td != nil {
			all := w.block(td.Body.List)
			wr, rd := project(all, "write"), project(all, "read")
			if len(wr) == 0 && len(rd) == 0 {
				continue
			}
			nPairs++
			bad := compareEmitted(stripFn(wr), stripFn(rd))
			// names declared = names called
			declW, declR := fnNames(wr), fnNames(rd)
			callW, callR := fnNames(mt), fnNames(ut)
			if bad == "" && (len(declW) != 1 || len(declR) != 1 || len(callW) != 1 || len(callR) != 1 || declW[0] != callW[0] || declR[0] != callR[0] || declW[0] != declR[0]) {
				bad = fmt.Sprintf("the functions declared (write%v / read%v) are not the ones the call sites use (write%v / read%v)", declW, declR, callW, callR)
			}
			// every member, unconditionally
			if bad == "" {
				for _, side := range [][]etok{stripFn(wr), stripFn(rd)} {
					if len(side) != 1 || side[0].Kind != "each" || !strings.HasSuffix(side[0].Name, ".Members") {
						bad = "the member operations are not emitted by one loop over the members: " + etokString(side)
					} else {
						for _, k := range side[0].Kids {
							if k.InCond {
								bad = "a member operation is emitted conditionally: some members are skipped on one side"
							}
						}
					}
				}
			}
			c.Check(bad == "", "C05.codec-pairs", key+".TypeDeclaration", td.Pos(), "write: "+etokString(wr)+"  /  read: "+etokString(rd), "the generated read and write functions of "+tn+" are not inverses: "+bad)
		}
	}
	if nPairs == 0 {
		c.Undecided("C05.codec-pairs", "meta/signature", token.NoPos, "no composite Marshal/Unmarshal emitter found")
	}

	// ------------------------------------------------------------ stub and proxy bodies
	c.Doc("C05.param-loops", "every emitter that encodes or decodes a list of parameters does so once per declared parameter, in declaration order, with the parameter's own type", 2)
	c.Doc("C05.stub-body", "the generated stub decodes the parameters before calling the implementation with all of them and encodes the result afterwards", 1)
	ruleParamLoops(c, typeIface)
	c.Doc("C05.advertised", "the parameter signature the stub advertises for a method and the one the proxy sends with a call are the same expression of the method", 1)
	ruleAdvertisedSignature(c, typeIface)
	c.Doc("C05.proxy-body", "the generated proxy passes one argument per parameter in order", 1)
	ruleProxyBody(c, typeIface)
	c.Doc("C05.name-space", "method, signal and property names of one interface are made unique within one set", 1)
	ruleOneNameSpace(c, "C05.name-space")
	c.Doc("C05.forward-loop", "the emitted subscription goroutine leaves its loop early only on a closed payload channel and on a decoding error", 1)
	ruleForwardLoop(c, "C05.forward-loop")
	c.Doc("C05.mode-flag", "a generator mode flag read by an emitter is lowered again before the declarations shared by both halves are rendered", 1)
	ruleModeFlagScoped(c, "C05.mode-flag")
	c.Doc("C05.proxy-resolve", "the generic proxy resolves a call by method name and parameter signature (overloads kept apart)", 2)
	ruleProxyResolvesBySignature(c, "C05.proxy-resolve")
	// the signal helpers the stubs generate end in signalHandler.UpdateSignal (rule shared with C13)
	c.Doc("C13.sequential", "a signal emitted through the generated helper is written to every subscriber, in order, by the emitting goroutine", 1)
	ruleEmitSequential(c, "C13.sequential")
	// the generated proxy encodes its arguments and decodes the returned value with the
	// reflection codec (bus.NewParams / Proxy.Call2): what the caller gets back equals what
	// the stub encoded only if that decoder gives every element storage of its own and
	// handles every kind with the primitive of its type (rules shared with C03)
	c.Doc("C03.composite", "reflection codec used by the generated proxies: slice/map = 32-bit count + that many elements (key before value); fresh storage per decoded element — rule shared with C03", 6)
	ruleCompositeShapes(c)
	c.Doc("C03.kinds", "reflection codec used by the generated proxies: every scalar kind/type has a case in encoder and decoder calling the primitive of its own type — rule shared with C03", 40)
	ruleKindSwitches(c)
	// the generated code checked into the repository: what each site states in a signature
	// string is what it does with the bytes
	c.Doc("C05.stated-types", "bus.NewParams / bus.NewResponse hand the reflection codec Go values of the types the signature next to them describes", 100)
	ruleStatedTypes(c, "C05.stated-types")
	c.Doc("C05.stated-shapes", "a stub method decodes the parameters and encodes the result its meta-object advertises for the action it is dispatched for", 30)
	ruleStatedShapes(c, "C05.stated-shapes")
	c.Doc("C05.stated-events", "generated signal / property emitters encode, and generated subscribers decode, the signature advertised or asked for under that name", 10)
	ruleStatedEmitters(c, "C05.stated-events")
	ruleStatedSubscribers(c, "C05.stated-events")
	ruleStatedAccessors(c, "C05.stated-events")
	ruleValidatorDecodesDeclared(c, "C05.stated-events")
	c.Doc("C05.references", "a generated stub answering with an object reference takes service id and object id from the object it designates", 1)
	ruleReferenceOfReturnedObject(c, "C05.references")
}

func stripFn(ts []etok) []etok {
	var out []etok
	for _, t := range ts {
		if t.Kind != "fn" {
			out = append(out, t)
		}
	}
	return out
}

func fnNames(ts []etok) []string {
	var out []string
	for _, t := range ts {
		if t.Kind == "fn" {
			out = append(out, t.Name)
		}
		out = append(out, fnNames(t.Kids)...)
	}
	return out
}

// emittersCalling lists the package-level functions of p (non-test) whose
// body emits operation kind/dir on a receiver matching pred.
func emittersWith(w *emitWalker, pred func(ts []etok) bool) []*ast.FuncDecl {
	var out []*ast.FuncDecl
	for _, f := range w.p.Syntax {
		if strings.HasSuffix(w.p.Fset.Position(f.Pos()).Filename, "_test.go") {
			continue
		}
		for _, d := range f.Decls {
			fd, ok := d.(*ast.FuncDecl)
			if !ok || fd.Body == nil {
				continue
			}
			if pred(w.block(fd.Body.List)) {
				out = append(out, fd)
			}
		}
	}
	return out
}

func findTok(ts []etok, pred func(etok) bool) *etok {
	for i := range ts {
		if pred(ts[i]) {
			return &ts[i]
		}
		if k := findTok(ts[i].Kids, pred); k != nil {
			return k
		}
	}
	return nil
}

// ruleParamLoops: every emitter of meta/stub and meta/idl with a Go loop over
// Params / Members that emits an encode or decode operation per element.
func ruleParamLoops(c *core.Ctx, typeIface *types.Interface) {
	n := 0
	for _, rel := range []string{"meta/stub", "meta/idl"} {
		p := c.Pkg(rel)
		if p == nil {
			c.Undecided("C05.param-loops", rel, token.NoPos, "package not loaded")
			continue
		}
		w := &emitWalker{p: p, info: p.TypesInfo, typeIface: typeIface}
		isParamLoop := func(t etok) bool {
			return t.Kind == "each" && (strings.HasSuffix(t.Name, ".Params") || strings.HasSuffix(t.Name, ".Members")) &&
				findTok(t.Kids, func(k etok) bool { return k.Kind == "sub" }) != nil
		}
		for _, fd := range emittersWith(w, func(ts []etok) bool { return findTok(ts, isParamLoop) != nil }) {
			ts := w.block(fd.Body.List)
			key := rel + "." + fd.Name.Name
			loop := findTok(ts, isParamLoop)
			n++
			bad := ""
			nOps, dir := 0, ""
			for _, k := range loop.Kids {
				if k.Kind != "sub" {
					continue
				}
				nOps++
				if dir != "" && dir != k.Dir {
					bad = "the loop mixes encoding and decoding operations"
				}
				dir = k.Dir
				if k.InCond {
					bad = "a parameter is encoded/decoded only under a condition of the generator: the other side still expects it, and everything after it is read from the wrong offset"
				}
				if !strings.HasSuffix(k.Name, ".Type") && !strings.HasSuffix(k.Name, ".Type()") {
					bad = "a parameter is encoded/decoded with " + k.Name + ", not with the emitter of the parameter's own type"
				}
			}
			if nOps != 1 && bad == "" {
				bad = fmt.Sprintf("%d encode/decode operations per parameter (expected one)", nOps)
			}
			if bad == "" {
				bad = stubArgsComplete(c, rel, fd.Name.Name)
			}
			c.Check(bad == "", "C05.param-loops", key, fd.Pos(), "each "+loop.Name+": "+etokString(loop.Kids)+", once per iteration", "the generated code does not transfer every declared parameter: "+bad)

			// the stub's method body: decode, call, encode
			if rel == "meta/stub" && dir == "read" {
				bad := ""
				isEnc := func(k etok) bool { return k.Kind == "sub" && k.Dir == "write" }
				enc := findTok(ts, isEnc)
				if enc == nil {
					// the body split into two emitters (one reads the arguments, one answers): look at
					// the emitter that calls this one, helpers followed, in emission order
					wi := &emitWalker{p: p, info: p.TypesInfo, typeIface: typeIface, inline: true}
					for _, f := range p.Syntax {
						for _, d := range f.Decls {
							g, ok := d.(*ast.FuncDecl)
							if !ok || g.Body == nil || g == fd || enc != nil {
								continue
							}
							callsFd := false
							ast.Inspect(g.Body, func(nd ast.Node) bool {
								if ce, ok := nd.(*ast.CallExpr); ok {
									if id, ok := ce.Fun.(*ast.Ident); ok && id.Name == fd.Name.Name {
										callsFd = true
									}
								}
								return !callsFd
							})
							if !callsFd {
								continue
							}
							var flat []etok
							var walk func(ts []etok)
							walk = func(ts []etok) {
								for _, t := range ts {
									flat = append(flat, t)
									walk(t.Kids)
								}
							}
							walk(wi.block(g.Body.List))
							iLoop, iEnc := -1, -1
							for i, t := range flat {
								if iLoop < 0 && isParamLoop(t) {
									iLoop = i
								}
								if iLoop >= 0 && iEnc < 0 && i > iLoop && isEnc(t) && !(t.Pos >= loop.Pos && t.Pos <= fd.End()) {
									iEnc = i
								}
							}
							if iLoop >= 0 && iEnc > iLoop {
								e := flat[iEnc]
								enc = &e
								enc.Pos = loop.Pos + 1 // emitted after the loop (order established on the flattened list)
							}
						}
					}
				}
				if enc == nil {
					bad = "the result of the implementation is never encoded"
				} else if enc.Pos < loop.Pos {
					bad = "the result is encoded before the parameters are decoded"
				}
				c.Check(bad == "", "C05.stub-body", key, fd.Pos(), "parameters decoded, then the implementation is called, then <"+encName(enc)+"> is encoded", "the generated stub does not answer with the implementation's result: "+bad)
			}
		}
	}
	if n == 0 {
		c.Undecided("C05.param-loops", "meta/stub", token.NoPos, "no emitter looping over parameters was found")
	}
}

func encName(t *etok) string {
	if t == nil {
		return "?"
	}
	return t.Name
}

// stubArgsComplete: in the SSA of the emitter, the loop that decodes the
// parameters also appends one entry per iteration to the slice that becomes
// the implementation call's argument list (no iteration skips it).
func stubArgsComplete(c *core.Ctx, rel, name string) string {
	fn := c.Func(rel, "", name)
	if fn == nil {
		return ""
	}
	// appends inside loops: group by loop header
	type ap struct {
		call *ssa.Call
		h    *ssa.BasicBlock
	}
	var aps []ap
	for _, b := range fn.Blocks {
		for _, in := range b.Instrs {
			call, ok := in.(*ssa.Call)
			if !ok {
				continue
			}
			if bi, ok := call.Call.Value.(*ssa.Builtin); ok && bi.Name() == "append" {
				if h := loopHeaderOf(call); h != nil {
					aps = append(aps, ap{call, h})
				}
			}
		}
	}
	if len(aps) == 0 {
		return "the emitter appends nothing per parameter"
	}
	// every append in a loop must be executed on every iteration: from the loop
	// body entry, the header is not reachable again without passing it, unless a
	// sibling append to the same slice is passed instead
	for _, a := range aps {
		h := a.h
		body := h.Succs[0]
		sameSlice := func(x ssa.Instruction) bool {
			c2, ok := x.(*ssa.Call)
			if !ok {
				return false
			}
			bi, ok := c2.Call.Value.(*ssa.Builtin)
			return ok && bi.Name() == "append" && sameAppendTarget(c2, a.call)
		}
		r := core.ReachFrom(core.Point{B: body, I: 0}, sameSlice, nil)
		if len(h.Instrs) > 0 && r.Has(h.Instrs[0]) {
			return "an iteration of the loop over the parameters can skip appending to one of the emitted lists (at " + c.Pos(a.call.Pos()) + "): a declared parameter is missing from the generated code"
		}
	}
	return ""
}

// sameAppendTarget: both appends extend the same slice variable.
func sameAppendTarget(a, b *ssa.Call) bool {
	return a.Type().String() == b.Type().String() && appendRoot(a) == appendRoot(b)
}

func appendRoot(c *ssa.Call) ssa.Value {
	v := c.Call.Args[0]
	for i := 0; i < 16; i++ {
		switch x := v.(type) {
		case *ssa.Phi:
			// the loop-carried slice: follow the edge that is not an append of this loop
			var next ssa.Value
			for _, e := range x.Edges {
				if cl, ok := e.(*ssa.Call); ok {
					if bi, ok := cl.Call.Value.(*ssa.Builtin); ok && bi.Name() == "append" {
						continue
					}
				}
				if _, ok := e.(*ssa.Phi); ok {
					continue
				}
				next = e
			}
			if next == nil {
				return x
			}
			v = next
		case *ssa.Call:
			if bi, ok := x.Call.Value.(*ssa.Builtin); ok && bi.Name() == "append" {
				v = x.Call.Args[0]
				continue
			}
			return x
		default:
			return v
		}
	}
	return v
}

// ruleProxyBody: in meta/idl, the emitter of a proxy method body.
func ruleProxyBody(c *core.Ctx, typeIface *types.Interface) {
	const rule = "C05.proxy-body"
	p := c.Pkg("meta/idl")
	if p == nil {
		c.Undecided(rule, "meta/idl", token.NoPos, "package not loaded")
		return
	}
	n := 0
	for _, fn := range srcFuncsOfPkg(c, "meta/idl") {
		if fn.Parent() != nil {
			continue
		}
		// emitters taking the parameter tuple and building an argument list in a loop over its members
		membersLoop := false
		for _, b := range fn.Blocks {
			for _, in := range b.Instrs {
				if fa, ok := in.(*ssa.FieldAddr); ok {
					if st, ok := fa.X.Type().Underlying().(*types.Pointer); ok {
						if s, ok := st.Elem().Underlying().(*types.Struct); ok && s.Field(fa.Field).Name() == "Members" && loopUses(fn, fa) {
							membersLoop = true
						}
					}
				}
			}
		}
		if !membersLoop || !strings.Contains(strings.ToLower(fn.Name()), "method") {
			continue
		}
		// only emitters whose result is a statement block (bodies), with per-member appends
		bad := stubArgsComplete(c, "meta/idl", fn.Name())
		if bad == "the emitter appends nothing per parameter" {
			continue
		}
		n++
		c.Check(bad == "", rule, "meta/idl."+fn.Name(), fn.Pos(), "one argument per declared parameter, in declaration order", "the generated proxy does not send the arguments it was given: "+bad)
	}
	if n == 0 {
		c.Undecided(rule, "meta/idl.methodBody", token.NoPos, "no proxy method emitter with a loop over the parameters was found")
	}
}

// loopUses: the field address is used (loaded) in a block that belongs to a loop or feeds a range.
func loopUses(fn *ssa.Function, fa *ssa.FieldAddr) bool {
	for _, r := range core.Referrers(fa) {
		if ld, ok := r.(*ssa.UnOp); ok {
			for _, u := range core.Referrers(ld) {
				switch u.(type) {
				case *ssa.IndexAddr, *ssa.Index, *ssa.Range:
					return true
				case *ssa.Call:
					return true // len(x.Members)
				}
			}
		}
	}
	return false
}

// ruleAdvertisedSignature: the stub's generated meta-object advertises, for
// each method, ParametersSignature = E(method); the generated proxy names the
// method it calls by (name, F(method)).  The object resolves a call by exact
// match of that pair, so E and F must be the same expression of the method.
func ruleAdvertisedSignature(c *core.Ctx, typeIface *types.Interface) {
	const rule = "C05.advertised"
	sp, ip := c.Pkg("meta/stub"), c.Pkg("meta/idl")
	if sp == nil || ip == nil {
		c.Undecided(rule, "meta/stub", token.NoPos, "package not loaded")
		return
	}
	// stub side: jen.Id("ParametersSignature"): jen.Lit(E)
	ws := &emitWalker{p: sp, info: sp.TypesInfo, typeIface: typeIface}
	stubKey, stubPos := "", token.NoPos
	for _, f := range sp.Syntax {
		ast.Inspect(f, func(n ast.Node) bool {
			kv, ok := n.(*ast.KeyValueExpr)
			if !ok {
				return true
			}
			kc, ok := kv.Key.(*ast.CallExpr)
			if !ok || len(kc.Args) != 1 {
				return true
			}
			if s, isConst := ws.constString(kc.Args[0]); !isConst || s != "ParametersSignature" {
				return true
			}
			if vc, ok := kv.Value.(*ast.CallExpr); ok && len(vc.Args) == 1 {
				stubKey, stubPos = ws.memberKey(vc.Args[0]), kv.Pos()
			}
			return true
		})
	}
	// proxy side: the string literal given to bus.NewParams in the emitter of a proxy
	// method body is params.Signature(), params being what the caller passes
	wi := &emitWalker{p: ip, info: ip.TypesInfo, typeIface: typeIface}
	proxyKey, proxyPos := "", token.NoPos
	for _, f := range ip.Syntax {
		for _, d := range f.Decls {
			fd, ok := d.(*ast.FuncDecl)
			if !ok || fd.Body == nil {
				continue
			}
			usesNewParams := false
			ast.Inspect(fd.Body, func(n ast.Node) bool {
				if call, ok := n.(*ast.CallExpr); ok {
					if sel, ok := call.Fun.(*ast.SelectorExpr); ok && sel.Sel.Name == "Qual" && len(call.Args) == 2 {
						if s, _ := wi.constString(call.Args[1]); s == "NewParams" {
							usesNewParams = true
						}
					}
				}
				return true
			})
			if !usesNewParams {
				continue
			}
			// first jen.Lit(x.Signature()) of the function whose receiver x is a parameter
			ast.Inspect(fd.Body, func(n ast.Node) bool {
				call, ok := n.(*ast.CallExpr)
				if !ok || proxyKey != "" {
					return true
				}
				sel, ok := call.Fun.(*ast.SelectorExpr)
				if !ok || sel.Sel.Name != "Lit" || len(call.Args) != 1 {
					return true
				}
				sc, ok := call.Args[0].(*ast.CallExpr)
				if !ok {
					return true
				}
				ss, ok := sc.Fun.(*ast.SelectorExpr)
				if !ok || ss.Sel.Name != "Signature" {
					return true
				}
				id, ok := ss.X.(*ast.Ident)
				if !ok {
					return true
				}
				obj := wi.info.ObjectOf(id)
				// which parameter of fd is it, and what do the callers pass there?
				idx := -1
				k := 0
				for _, fl := range fd.Type.Params.List {
					for _, nm := range fl.Names {
						if wi.info.Defs[nm] == obj {
							idx = k
						}
						k++
					}
				}
				if idx < 0 {
					return true
				}
				fobj := wi.info.Defs[fd.Name]
				for _, f2 := range ip.Syntax {
					ast.Inspect(f2, func(m ast.Node) bool {
						c2, ok := m.(*ast.CallExpr)
						if !ok {
							return true
						}
						if cid, ok := c2.Fun.(*ast.Ident); ok && wi.info.Uses[cid] == fobj && idx < len(c2.Args) {
							proxyKey, proxyPos = wi.memberKey(c2.Args[idx])+".Signature()", c2.Pos()
						}
						return true
					})
				}
				return true
			})
		}
	}
	if stubKey == "" || proxyKey == "" {
		c.Undecided(rule, "meta/stub+meta/idl", token.NoPos, fmt.Sprintf("cannot find the two expressions (stub %q, proxy %q)", stubKey, proxyKey))
		return
	}
	_ = proxyPos
	c.Check(stubKey == proxyKey, rule, "ParametersSignature", stubPos, "stub advertises and proxy sends "+stubKey,
		fmt.Sprintf("the generated stub advertises a method's parameters as %s while the generated proxy calls it with %s: the object matches (name, signature) exactly, so a call falls back to another overload of the same name, or is refused", stubKey, proxyKey))
}

// elementNamedByContainer: inside the emitted `for` of a Marshal emitter, the
// expression handed to a member's own emitter mentions the emitter's
// container parameter (id + "[i]"): nested containers then emit ret[i][i],
// the inner loop re-declaring the index the outer element was named with.
func elementNamedByContainer(p *packages.Package, fd *ast.FuncDecl) string {
	params := map[types.Object]bool{}
	if fd.Type.Params != nil {
		for _, fl := range fd.Type.Params.List {
			for _, n := range fl.Names {
				params[p.TypesInfo.Defs[n]] = true
			}
		}
	}
	bad := ""
	var inFor func(n ast.Node, within bool)
	inFor = func(n ast.Node, within bool) {
		ast.Inspect(n, func(x ast.Node) bool {
			call, ok := x.(*ast.CallExpr)
			if !ok {
				return true
			}
			sel, isSel := call.Fun.(*ast.SelectorExpr)
			// jen.For(...).Block(args...): everything under Block is in the emitted loop
			if isSel && sel.Sel.Name == "Block" {
				if inner, ok := sel.X.(*ast.CallExpr); ok {
					if s2, ok := inner.Fun.(*ast.SelectorExpr); ok && s2.Sel.Name == "For" {
						for _, a := range call.Args {
							inFor(a, true)
						}
						return false
					}
				}
			}
			if within && isSel && sel.Sel.Name == "Marshal" && len(call.Args) > 0 {
				ast.Inspect(call.Args[0], func(y ast.Node) bool {
					if id, ok := y.(*ast.Ident); ok && params[p.TypesInfo.Uses[id]] {
						bad = "inside the emitted loop the element handed to the member's emitter is named through the container parameter " + id.Name + " and the emitted loop index: a container nested in a container re-declares that index, and the inner elements are taken from the wrong row"
					}
					return true
				})
			}
			return true
		})
	}
	if fd.Body != nil {
		inFor(fd.Body, false)
	}
	return bad
}

// ruleModeFlagScoped: a package-level boolean that an emitter of the generator
// reads (idl.InterfaceTypeForStub: "render the stub flavour of this type") is a
// mode of the whole process.  The function that raises it lowers it again
// before the declarations shared by both halves are rendered
// (TypeSet.Declare, jen's File.Render): a flag still raised there — reset by a
// defer, or after the loop — puts the stub's decoding of an object reference
// (which names the stub's receiver) into the proxy half.
func ruleModeFlagScoped(c *core.Ctx, rule string) {
	// mode flags: boolean globals of the generator read by a function that returns generated code
	flags := map[*ssa.Global]bool{}
	for _, fn := range c.RepoFuncs("meta") {
		if c.IsTestFile(fn) {
			continue
		}
		res := fn.Signature.Results()
		emits := false
		for i := 0; i < res.Len(); i++ {
			if strings.HasSuffix(res.At(i).Type().String(), "jen.Statement") {
				emits = true
			}
		}
		if !emits {
			continue
		}
		for _, f := range core.AnonFuncs(fn) {
			for _, b := range f.Blocks {
				for _, in := range b.Instrs {
					if ld, ok := in.(*ssa.UnOp); ok && ld.Op == token.MUL {
						if g, ok := ld.X.(*ssa.Global); ok && types.Identical(ld.Type().Underlying(), types.Typ[types.Bool]) && strings.HasPrefix(g.Pkg.Pkg.Path(), core.Module) {
							flags[g] = true
						}
					}
				}
			}
		}
	}
	if len(flags) == 0 {
		c.PassTrivial(rule, "generator", token.NoPos, "no emitter of the generator reads a package-level mode flag")
		return
	}
	isRenderer := func(call ssa.CallInstruction) bool {
		f := core.StaticCallee(call)
		if f == nil || f.Signature.Recv() == nil {
			return false
		}
		rt := f.Signature.Recv().Type().String()
		return (f.Name() == "Declare" && strings.HasSuffix(rt, "signature.TypeSet")) || (f.Name() == "Render" && strings.HasSuffix(rt, "jen.File"))
	}
	n := 0
	for g := range flags {
		storeOf := func(in ssa.Instruction, want bool) bool {
			st, ok := in.(*ssa.Store)
			if !ok || st.Addr != ssa.Value(g) {
				return false
			}
			k, isK := core.ConstBool(st.Val)
			if !isK {
				return want // a computed value may be either
			}
			return k == want
		}
		for _, fn := range c.RepoFuncs("meta") {
			if c.IsTestFile(fn) || fn.Name() == "init" {
				continue
			}
			for _, b := range fn.Blocks {
				for _, in := range b.Instrs {
					if !storeOf(in, true) {
						continue
					}
					n++
					key := fmt.Sprintf("%s@%s", g.Name(), core.FuncKey(fn))
					if fn.Parent() != nil {
						c.Fail(rule, key, in.Pos(), "the mode flag "+g.Name()+" is raised inside a function literal: where it is lowered again cannot be followed")
						continue
					}
					reach := core.ReachFrom(core.After(in), func(x ssa.Instruction) bool { return storeOf(x, false) }, nil)
					bad := ""
					for _, call := range core.Calls(fn) {
						if isRenderer(call) && reach.Has(call.(ssa.Instruction)) {
							bad = "the mode flag " + g.Name() + " raised at " + c.Pos(in.Pos()) + " can still be raised when the declarations shared by both halves are rendered (at " + c.Pos(call.Pos()) + "): the stub flavour of a type's decoder, which names the stub's receiver, is emitted into the proxy half — the generated package does not compile for an interface carried by a signal or property"
						}
					}
					c.Check(bad == "", rule, key, in.Pos(), "lowered again on every path before the shared declarations are rendered", bad)
				}
			}
		}
	}
	if n == 0 {
		c.PassTrivial(rule, "generator", token.NoPos, "the mode flags of the emitters are never raised")
	}
}

// ruleOneNameSpace: the names the generator gives to the methods, signals and
// properties of one interface are made unique within ONE set: the generated
// proxy turns a signal X and a property X both into SubscribeX, so separate
// sets let two declarations of the same Go method through and the generated
// package does not compile.
func ruleOneNameSpace(c *core.Ctx, rule string) {
	fn := c.Func("type/object", "MetaObject", "ForEachMethodAndSignal")
	if fn == nil {
		c.Undecided(rule, "type/object.MetaObject.ForEachMethodAndSignal", token.NoPos, "anchor not found")
		return
	}
	var sets []ssa.Value
	var helper *ssa.Function
	// the set as the entry point sees it: a parameter of a private helper
	// (forEachSignal(names, …)) stands for what its call sites pass
	var roots func(v ssa.Value, depth int) []ssa.Value
	roots = func(v ssa.Value, depth int) []ssa.Value {
		v = core.Canon(v)
		p, isP := v.(*ssa.Parameter)
		if !isP || depth > 3 || p.Parent() == fn || !isPrivateHelper(c, p.Parent()) {
			return []ssa.Value{v}
		}
		all, _ := c.CallSites()
		var out []ssa.Value
		for _, cs := range all[p.Parent()] {
			for i, q := range p.Parent().Params {
				if q == p && i < len(cs.Common().Args) {
					out = append(out, roots(cs.Common().Args[i], depth+1)...)
				}
			}
		}
		if len(out) == 0 {
			return []ssa.Value{v}
		}
		return out
	}
	for _, f := range unitOf(c, fn) {
		for _, call := range core.Calls(f) {
			h := core.StaticCallee(call)
			if h == nil || !isPrivateHelper(c, h) || len(call.Common().Args) != 2 || h.Signature.Recv() != nil {
				continue
			}
			if _, isMap := call.Common().Args[1].Type().Underlying().(*types.Map); !isMap {
				continue
			}
			if bt, isB := call.Common().Args[0].Type().Underlying().(*types.Basic); !isB || bt.Kind() != types.String {
				continue
			}
			helper = h
			sets = append(sets, roots(call.Common().Args[1], 0)...)
		}
	}
	if len(sets) < 3 {
		c.Undecided(rule, "type/object.MetaObject.ForEachMethodAndSignal", fn.Pos(), "the three calls that make a member name unique were not found")
		return
	}
	same := true
	for _, s := range sets[1:] {
		if s != sets[0] {
			same = false
		}
	}
	c.Check(same, rule, "type/object.MetaObject.ForEachMethodAndSignal/one-set", fn.Pos(), fmt.Sprintf("%d calls of %s share one set of names", len(sets), helper.Name()),
		"the names of methods, signals and properties are made unique in separate sets: a signal and a property (or a method) of the same name both get the Go name the generator derives from it (SubscribeX), and the generated package declares it twice")
}

// ruleForwardLoop: the goroutine the generator emits for a typed subscription
// (`for { payload, ok := <-chPay … ch <- e }`) hands every payload it receives to
// the decoder and the decoded event to the subscriber: the emitted loop body is
// left early only where the payload channel is closed (`!ok`) and where decoding
// failed (`err != nil`). Any other emitted exit — a `continue` for an empty
// payload, a `break` on a flag — silently drops events that the emitting half
// legitimately sends (a signal without parameters has an empty payload). The
// emitted statements are read off the generator's syntax tree: jen calls are
// rendered token by token, raw fragments given to jen.Id are parsed as Go.
func ruleForwardLoop(c *core.Ctx, rule string) {
	n := 0
	allowed := map[string]bool{"!ok": true, "err != nil": true, "err!=nil": true, "nil!=err": true, "ok==false": true}
	for _, rel := range []string{"meta/idl", "meta/stub"} {
		p := c.Pkg(rel)
		if p == nil {
			continue
		}
		isJen := func(id *ast.Ident) bool {
			o := p.TypesInfo.Uses[id]
			return o != nil && o.Pkg() != nil && strings.HasSuffix(o.Pkg().Path(), "jennifer/jen")
		}
		// chainHas reports whether the call chain under e contains a call of the jen method/function name
		var chainHas func(e ast.Expr, name string) bool
		chainHas = func(e ast.Expr, name string) bool {
			call, ok := e.(*ast.CallExpr)
			if !ok {
				return false
			}
			sel, ok := call.Fun.(*ast.SelectorExpr)
			if !ok {
				return false
			}
			if sel.Sel.Name == name && isJen(sel.Sel) {
				return true
			}
			return chainHas(sel.X, name)
		}
		// render a condition built with jen calls: Id("err").Op("!=").Nil() -> "err != nil"
		var render func(e ast.Expr) string
		render = func(e ast.Expr) string {
			call, ok := e.(*ast.CallExpr)
			if !ok {
				return "?"
			}
			sel, ok := call.Fun.(*ast.SelectorExpr)
			if !ok {
				return "?"
			}
			prefix := ""
			if _, isCall := sel.X.(*ast.CallExpr); isCall {
				prefix = render(sel.X) + " "
			}
			tok := "?"
			switch sel.Sel.Name {
			case "Id", "Op":
				if len(call.Args) == 1 {
					if bl, ok := call.Args[0].(*ast.BasicLit); ok && bl.Kind == token.STRING {
						tok, _ = strconv.Unquote(bl.Value)
					}
				}
			case "Nil":
				tok = "nil"
			case "Err":
				tok = "err"
			case "Lit":
				tok = "lit"
			}
			return prefix + tok
		}
		for _, f := range p.Syntax {
			var encl *ast.FuncDecl
			ast.Inspect(f, func(nd ast.Node) bool {
				if fd, ok := nd.(*ast.FuncDecl); ok {
					encl = fd
				}
				call, ok := nd.(*ast.CallExpr)
				if !ok {
					return true
				}
				sel, ok := call.Fun.(*ast.SelectorExpr)
				if !ok || sel.Sel.Name != "Block" || !isJen(sel.Sel) {
					return true
				}
				// For().Block(…): the receiver chain ends with For and nothing else (no condition)
				rc, ok := sel.X.(*ast.CallExpr)
				if !ok {
					return true
				}
				rs, ok := rc.Fun.(*ast.SelectorExpr)
				if !ok || rs.Sel.Name != "For" || !isJen(rs.Sel) || len(rc.Args) != 0 {
					return true
				}
				n++
				fname := "?"
				if encl != nil {
					fname = encl.Name.Name
				}
				key := fmt.Sprintf("%s.%s/emitted-loop#%d", rel, fname, n)
				bad := ""
				var badPos token.Pos
				for i, a := range call.Args {
					last := i == len(call.Args)-1
					ac, ok := a.(*ast.CallExpr)
					if !ok {
						continue
					}
					// raw fragment: jen.Id(`…`)
					if as, ok := ac.Fun.(*ast.SelectorExpr); ok && as.Sel.Name == "Id" && len(ac.Args) == 1 {
						if bl, ok := ac.Args[0].(*ast.BasicLit); ok && bl.Kind == token.STRING {
							txt, _ := strconv.Unquote(bl.Value)
							if !strings.Contains(txt, "continue") && !strings.Contains(txt, "break") && !strings.Contains(txt, "return") && !strings.Contains(txt, "goto") {
								continue
							}
							src := "package p\nfunc _() {\nfor {\n" + txt + "\n}\n}\n"
							pf, err := parser.ParseFile(token.NewFileSet(), "fragment.go", src, 0)
							if err != nil {
								bad, badPos = "an emitted fragment of the loop that leaves it cannot be parsed on its own: "+err.Error(), a.Pos()
								continue
							}
							var conds []string
							var visit func(nd ast.Node, conds []string)
							visit = func(nd ast.Node, conds []string) {
								switch x := nd.(type) {
								case *ast.IfStmt:
									cs := append(append([]string{}, conds...), types.ExprString(x.Cond))
									visit(x.Body, cs)
									if x.Else != nil {
										visit(x.Else, append(append([]string{}, conds...), "!("+types.ExprString(x.Cond)+")"))
									}
									return
								case *ast.BranchStmt, *ast.ReturnStmt:
									ok := false
									for _, cd := range conds {
										if allowed[cd] || allowed[strings.ReplaceAll(cd, " ", "")] {
											ok = true
										}
									}
									if !ok && !(last && len(conds) == 0) {
										what := "unconditionally"
										if len(conds) > 0 {
											what = "when " + strings.Join(conds, " && ")
										}
										bad, badPos = "the emitted loop is left early "+what, a.Pos()
									}
									return
								case *ast.FuncLit:
									return
								}
								ast.Inspect(nd, func(ch ast.Node) bool {
									if ch == nd || ch == nil {
										return true
									}
									switch ch.(type) {
									case *ast.IfStmt, *ast.BranchStmt, *ast.ReturnStmt, *ast.FuncLit:
										visit(ch, conds)
										return false
									}
									return true
								})
							}
							_ = conds
							// the statements of the wrapped for body
							fd := pf.Decls[0].(*ast.FuncDecl)
							visit(fd.Body.List[0].(*ast.ForStmt).Body, nil)
							continue
						}
					}
					// jen.If(cond).Block(… jen.Continue() / Return() / Break() …)
					if chainHas(a, "If") && (containsJenCall(a, isJen, "Continue") || containsJenCall(a, isJen, "Return") || containsJenCall(a, isJen, "Break")) {
						cond := "?"
						ast.Inspect(a, func(x ast.Node) bool {
							if cc, ok := x.(*ast.CallExpr); ok {
								if s, ok := cc.Fun.(*ast.SelectorExpr); ok && s.Sel.Name == "If" && isJen(s.Sel) && len(cc.Args) == 1 {
									cond = render(cc.Args[0])
								}
							}
							return true
						})
						if !allowed[strings.ReplaceAll(cond, " ", "")] {
							bad, badPos = "the emitted loop is left early when "+cond, a.Pos()
						}
						continue
					}
					if !last && (containsJenCall(a, isJen, "Continue") || containsJenCall(a, isJen, "Break")) && !chainHas(a, "If") {
						bad, badPos = "the emitted loop is left early unconditionally", a.Pos()
					}
				}
				if bad == "" {
					c.Pass(rule, key, call.Pos(), "the emitted loop is left early only on a closed payload channel (!ok) and on a decoding error (err != nil)")
				} else {
					c.Fail(rule, key, badPos, bad+": payloads the emitting half legitimately sends (the empty payload of a signal without parameters) never reach the subscriber, which is told nothing")
				}
				return true
			})
		}
	}
	if n == 0 {
		c.Undecided(rule, "emitted-loop", token.NoPos, "the generator no longer emits a forwarding loop with jen.For().Block(…): the shape of the subscription goroutine is not recognised")
	}
}

func containsJenCall(e ast.Node, isJen func(*ast.Ident) bool, name string) bool {
	found := false
	ast.Inspect(e, func(x ast.Node) bool {
		if cc, ok := x.(*ast.CallExpr); ok {
			if s, ok := cc.Fun.(*ast.SelectorExpr); ok && s.Sel.Name == name && isJen(s.Sel) {
				found = true
			}
		}
		return !found
	})
	return found
}
