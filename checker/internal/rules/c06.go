package rules

import (
	"fmt"
	"go/token"
	"go/types"
	"strings"

	"golang.org/x/tools/go/ssa"

	"qicheck/internal/core"
)

func init() {
	register(&Property{
		ID:    "C06",
		Title: "Only connections that presented accepted credentials reach any service",
		Explanation: "All clauses of C06 are structural and are decided from the source: " +
			"(gate) every call of Router.Receive fed from a connection is guarded by firewall(msg, ctx)==nil for the same message and channel; on the other edge an error is sent and the stream closed before the loop is left; nothing else hands connection traffic to the router or a service; " +
			"(predicate) firewall returns nil only across Authenticated()!=false or Header.Service==0, whatever the message type; Authenticated() is true only when the map's state entry equals StateDone; service 0 dispatches only the authenticate action; " +
			"(who-authenticates) SetAuthenticated has a closed list of callers: serviceAuthenticate.Authenticate (only across the true edge of the Authenticator's verdict on user/token obtained by checked StringValue assertions), server.handle (only across its `authenticated` parameter, whose call sites pass constants) and the in-process DirectClient; the state key is written nowhere else on the server side; " +
			"(client-map) the client-supplied capability map is used only for lookups of the user and token keys: never iterated, stored, merged, returned or passed on; no store targets the map held by a Channel outside SetAuthenticated; the reply is the server's own map or an error map; " +
			"(per-connection) the channel created per connection gets its capability from DefaultCap(), whose result is a fresh map literal on every call. " +
			"Not decided: correctness of a user-supplied Authenticator; TLS.",
		Assumptions: []string{"the Authenticator implementation is trusted", "Go map and interface semantics"},
		Run:         runC06,
	})
}

func runC06(c *core.Ctx) {
	c.Doc("C06.gate", "Router.Receive only behind firewall()==nil; refusal sends an error and closes the stream", 3)
	c.Doc("C06.predicate", "firewall/Authenticated/service-0 predicates", 3)
	c.Doc("C06.who-authenticates", "closed list of SetAuthenticated callers and state-key writers, each guarded", 6)
	c.Doc("C06.client-map", "client capability map only looked up for user/token; server map never written from it", 4)
	c.Doc("C06.per-connection", "per-connection channel gets a fresh DefaultCap() map", 3)
	c.Doc("C06.state-guarded", "the authentication state of a connection is read and written under a mutex of its channel (written by the authentication service's goroutine, read by the connection's)", 2)
	ruleAuthStateGuarded(c, core.NewLockCache(), "C06.state-guarded")

	firewall := c.Func("bus", "", "firewall")
	routerRecv := c.Func("bus", "Router", "Receive")
	handle := c.Func("bus", "server", "handle")
	capMap := c.Named("bus", "CapabilityMap")
	chanCap := fld(c, "bus", "channel", "capability")
	if firewall == nil || routerRecv == nil || handle == nil || capMap == nil || chanCap == nil {
		c.Undecided("C06.gate", "anchors", token.NoPos, "firewall / Router.Receive / server.handle / CapabilityMap / channel.capability not found")
		return
	}
	bus := srcFuncsOfPkg(c, "bus")

	// ------------------------------------------------------------ gate
	nSites := 0
	for _, fn := range c.RepoFuncs() {
		if c.IsTestFile(fn) {
			continue
		}
		for i, call := range core.Calls(fn) {
			if !core.IsCallTo(call, routerRecv) {
				continue
			}
			nSites++
			key := fmt.Sprintf("Router.Receive-call@%s#%d", core.FuncKey(fn), i)
			in := call.(ssa.Instruction)
			msg, ctx := call.Common().Args[1], call.Common().Args[2]
			isFw := func(v ssa.Value) bool {
				cr, _ := core.CallResult(v)
				if cr == nil || !core.IsCallTo(cr, firewall) {
					return false
				}
				return core.SameValue(cr.Call.Args[0], msg) && core.SameValue(cr.Call.Args[1], ctx)
			}
			if !core.Guarded(fn, in, core.Eq(isFw, core.IsNilConst)) {
				c.Fail("C06.gate", key, call.Pos(), "a message is handed to the router without firewall(msg, context)==nil having been established for that message and that connection: unauthenticated traffic reaches services")
				continue
			}
			c.Pass("C06.gate", key, call.Pos(), "guarded by firewall(msg, context) == nil on the same message and channel")
			// refusal edge: SendError and stream Close before leaving
			var fwCall *ssa.Call
			for _, cc := range core.Calls(fn) {
				if core.IsCallTo(cc, firewall) {
					fwCall, _ = cc.(*ssa.Call)
				}
			}
			if fwCall == nil {
				continue
			}
			isErr := func(v ssa.Value) bool { return core.Canon(v) == ssa.Value(fwCall) }
			cut := core.CutEstablishing(core.Eq(isErr, core.IsNilConst))
			isClose := func(x ssa.Instruction) bool {
				k, ok := x.(ssa.CallInstruction)
				if !ok {
					return false
				}
				cm := k.Common()
				return cm.IsInvoke() && cm.Method.Name() == "Close"
			}
			// the refusal sequence may live in a private helper (s.reject(msg, context, stream, err)):
			// a call of a helper every path of which performs the step counts as the step
			through := func(step func(ssa.Instruction) bool) func(ssa.Instruction) bool {
				return func(x ssa.Instruction) bool {
					if step(x) {
						return true
					}
					k, ok := x.(*ssa.Call)
					if !ok {
						return false
					}
					h := k.Call.StaticCallee()
					if h == nil || !isPrivateHelper(c, h) || len(h.Blocks) == 0 {
						return false
					}
					rets := core.Returns(h)
					if len(rets) == 0 {
						return false
					}
					for _, r := range rets {
						if !core.MustPassBefore(h, r, step) {
							return false
						}
					}
					return true
				}
			}
			rClose := core.ReachFrom(core.After(fwCall), through(isClose), cut)
			rErr := core.ReachFrom(core.After(fwCall), through(isSendErrorCall), cut)
			bad := ""
			for _, ret := range core.Returns(fn) {
				if rClose.Has(ret) {
					bad = "a refused connection is not closed"
				}
				if rErr.Has(ret) {
					bad = "a refused message is not answered with an error"
				}
			}
			if rClose.Has(fwCall) || rErr.Has(fwCall) {
				bad = "after a refusal the connection keeps being served"
			}
			c.Check(bad == "", "C06.gate", "refusal@"+core.FuncKey(fn), fwCall.Pos(), "refusal ⇒ SendError, stream.Close, loop left", bad)
		}
	}
	if nSites == 0 {
		c.Fail("C06.gate", "Router.Receive-call", routerRecv.Pos(), "no call of Router.Receive found: connection traffic reaches services some other way")
	}
	// nothing else feeds services from a connection: ServiceReceiver.Receive / Router.services only used by Router
	servicesF := fld(c, "bus", "Router", "services")
	for _, fn := range bus {
		for _, acc := range fieldAccesses(fn, servicesF) {
			if acc.fresh {
				continue
			}
			root := fn
			for root.Parent() != nil {
				root = root.Parent()
			}
			ok := strings.HasPrefix(core.FuncKey(root), "bus.Router.")
			if !ok {
				c.Fail("C06.gate", "Router.services@"+core.FuncKey(fn), core.InstrPos(acc.instr), "the router's service table is accessed outside Router's methods: services can be reached around the firewall")
			}
		}
	}
	c.Pass("C06.gate", "Router.services-private", servicesF.Pos(), "Router.services is only used by Router's own methods")

	// ------------------------------------------------------------ predicate
	serviceF := c.Field("bus/net", "Header", "Service")
	isAuthCall := func(v ssa.Value) bool {
		cr, _ := core.CallResult(v)
		if cr == nil {
			return false
		}
		cc := cr.Common()
		return cc.IsInvoke() && cc.Method.Name() == "Authenticated" && core.Canon(cc.Value) == ssa.Value(firewall.Params[1])
	}
	isService := func(v ssa.Value) bool {
		return isFieldOf(v, serviceF) && core.RootOf(v) == ssa.Value(firewall.Params[0])
	}
	is0 := func(v ssa.Value) bool { k, ok := core.ConstInt(v); return ok && k == 0 }
	okPred := true
	n := 0
	for _, ret := range core.Returns(firewall) {
		if !successReturn(ret) {
			continue
		}
		n++
		if !core.Guarded(firewall, ret, core.AnyOf(core.IsTrue(isAuthCall), core.Eq(isService, is0))) {
			okPred = false
		}
	}
	c.Check(okPred && n > 0, "C06.predicate", "bus.firewall", firewall.Pos(),
		"nil only across Authenticated()==true or Header.Service==0", "firewall can let a message through although the connection is not authenticated and the target is not service 0 (some message type, object or action bypasses authentication)")

	// Authenticated(): true only if state == StateDone
	authd := c.Func("bus", "CapabilityMap", "Authenticated")
	keyState, _ := c.Object("bus", "KeyState").(*types.Const)
	stateDone, _ := c.Object("bus", "StateDone").(*types.Const)
	if authd == nil || keyState == nil || stateDone == nil {
		c.Undecided("C06.predicate", "bus.CapabilityMap.Authenticated", token.NoPos, "anchor not found")
	} else {
		ks := constStr(keyState)
		sd := constInt(stateDone)
		good := true
		why := ""
		nTrue := 0
		derivesFromState := func(v ssa.Value) bool { return derivedFromLookup(v, authd.Params[0], ks, 0) }
		isDone := func(v ssa.Value) bool { k, ok := core.ConstInt(v); return ok && k == sd }
		for _, ret := range core.Returns(authd) {
			b, isConst := core.ConstBool(core.RetVal(ret, 0))
			if isConst && !b {
				continue
			}
			nTrue++
			if !isConst {
				// returns an expression: whenever it is true, state == StateDone must hold
				if !core.AltsEstablish(core.ValueAlts(core.RetVal(ret, 0), true), core.Eq(derivesFromState, isDone)) {
					good = false
					why = "Authenticated() returns a value that can be true without the state entry being equal to StateDone"
				}
				continue
			}
			if !core.Guarded(authd, ret, core.Eq(derivesFromState, isDone)) {
				good = false
				why = "Authenticated() can return true without the state entry being equal to StateDone"
			}
		}
		c.Check(good && nTrue > 0, "C06.predicate", "bus.CapabilityMap.Authenticated", authd.Pos(), "true only across state == StateDone on the entry read under the state key", why)
	}
	// service 0: only the authenticate action
	saRecv := c.Func("bus", "serviceAuthenticate", "Receive")
	wrap := c.Func("bus", "serviceAuthenticate", "wrapAuthenticate")
	actionF := c.Field("bus/net", "Header", "Action")
	authID, _ := c.Object("type/object", "AuthenticateActionID").(*types.Const)
	if saRecv == nil || wrap == nil || authID == nil {
		c.Undecided("C06.predicate", "bus.serviceAuthenticate.Receive", token.NoPos, "anchor not found")
	} else {
		id := constInt(authID)
		isAction := func(v ssa.Value) bool { return isFieldOf(v, actionF) }
		isID := func(v ssa.Value) bool { k, ok := core.ConstInt(v); return ok && k == id }
		good := true
		for _, call := range core.Calls(saRecv) {
			if core.IsCallTo(call, wrap) && !core.Guarded(saRecv, call.(ssa.Instruction), core.Eq(isAction, isID)) {
				good = false
			}
		}
		// and nothing else of interest is called: every call is wrapAuthenticate, SendError or SendReply
		for _, call := range core.Calls(saRecv) {
			in := call.(ssa.Instruction)
			if core.IsCallTo(call, wrap) || isSendErrorCall(in) || isSendReplyCall(in) {
				continue
			}
			if f := core.StaticCallee(call); f != nil && !strings.HasPrefix(core.FuncKey(f), "bus.") {
				continue
			}
			good = false
		}
		c.Check(good, "C06.predicate", "bus.serviceAuthenticate.Receive", saRecv.Pos(), "service 0 runs the authenticate procedure only for AuthenticateActionID and does nothing else", "service 0 (reachable without authentication) does something for actions other than authenticate")
	}

	// ------------------------------------------------------------ who authenticates
	setAuthMap := c.Func("bus", "CapabilityMap", "SetAuthenticated")
	setAuthChan := c.Func("bus", "channel", "SetAuthenticated")
	saAuth := c.Func("bus", "serviceAuthenticate", "Authenticate")
	direct := c.Func("bus", "", "DirectClient")
	for _, fn := range c.RepoFuncs() {
		if c.IsTestFile(fn) {
			continue
		}
		p := fn.Pkg.Pkg.Path()
		if strings.Contains(p, "/examples/") || strings.Contains(p, "/cmd/") {
			continue
		}
		for i, call := range core.Calls(fn) {
			cc := call.Common()
			isSet := false
			if cc.IsInvoke() && cc.Method.Name() == "SetAuthenticated" {
				isSet = true
			} else if f := cc.StaticCallee(); f != nil && (f == setAuthMap || f == setAuthChan) {
				isSet = true
			}
			if !isSet {
				continue
			}
			key := fmt.Sprintf("SetAuthenticated-call@%s#%d", core.FuncKey(fn), i)
			in := call.(ssa.Instruction)
			switch {
			case fn == setAuthChan:
				c.Pass("C06.who-authenticates", key, call.Pos(), "channel.SetAuthenticated forwards to its own map")
			case fn == saAuth:
				isVerdict := func(v ssa.Value) bool {
					cr, _ := core.CallResult(v)
					if cr == nil {
						return false
					}
					k := cr.Common()
					if !(k.IsInvoke() && k.Method.Name() == "Authenticate" && core.TypeIs(k.Value.Type(), "bus", "Authenticator")) {
						return false
					}
					// both arguments derive from checked StringValue assertions on the user / token entries
					return len(k.Args) == 2 && credentialArg(k.Args[0], fn, "auth_user") && credentialArg(k.Args[1], fn, "auth_token")
				}
				c.Check(core.Guarded(fn, in, core.IsTrue(isVerdict)), "C06.who-authenticates", key, call.Pos(),
					"only across Authenticator.Authenticate(user, token) == true with user/token from checked string entries",
					"the connection is marked authenticated without the Authenticator having accepted the user/token taken (as checked strings) from the request")
			case fn == handle:
				isParam := func(v ssa.Value) bool {
					p, ok := core.Canon(v).(*ssa.Parameter)
					return ok && p.Parent() == handle && types.Identical(p.Type(), types.Typ[types.Bool])
				}
				c.Check(core.Guarded(fn, in, core.IsTrue(isParam)), "C06.who-authenticates", key, call.Pos(),
					"only across the `authenticated` parameter", "server.handle marks a new connection authenticated unconditionally")
			case fn == direct:
				c.Pass("C06.who-authenticates", key, call.Pos(), "in-process pipe of DirectClient (no network peer)")
			default:
				// a private helper of the server that pre-authenticates the stream it is handed
				// (handleAuthenticated(stream)): legitimate when its only caller is server.Client
				// and the stream is one end of a fresh in-process pipe
				if isPrivateHelper(c, fn) {
					all, _ := c.CallSites()
					sites := all[fn]
					okAll := len(sites) > 0
					for _, cs := range sites {
						if core.FuncKey(cs.Parent()) != "bus.server.Client" {
							okAll = false
							continue
						}
						okPipe := false
						for _, a := range cs.Common().Args {
							if cr, _ := core.CallResult(core.Canon(a)); cr != nil && len(cr.Call.Args) > 0 {
								if e, ok := core.Canon(cr.Call.Args[0]).(*ssa.Extract); ok {
									if pc, ok := e.Tuple.(*ssa.Call); ok && pc.Call.StaticCallee() != nil && core.FuncKey(pc.Call.StaticCallee()) == "net.Pipe" {
										okPipe = true
									}
								}
							}
						}
						if !okPipe {
							okAll = false
						}
					}
					if okAll {
						c.Pass("C06.who-authenticates", key, call.Pos(), "pre-authenticating helper only called by server.Client() on one end of a fresh net.Pipe()")
						continue
					}
				}
				// a private constructor of the connection's context that is told whether to
				// start authenticated (newConnectionContext(authenticated)): the call sits
				// behind its own bool parameter, and the only callers are server.handle
				// passing handle's own `authenticated` parameter
				if isPrivateHelper(c, fn) && handle != nil {
					var flag *ssa.Parameter
					for _, p := range fn.Params {
						p := p
						if types.Identical(p.Type(), types.Typ[types.Bool]) &&
							core.Guarded(fn, in, core.IsTrue(func(v ssa.Value) bool { return core.Canon(v) == ssa.Value(p) })) {
							flag = p
						}
					}
					if flag != nil {
						idx := -1
						for i, p := range fn.Params {
							if p == flag {
								idx = i
							}
						}
						all, _ := c.CallSites()
						okAll := len(all[fn]) > 0
						for _, cs := range all[fn] {
							args := cs.Common().Args
							if cs.Parent() != handle || idx >= len(args) {
								okAll = false
								continue
							}
							ap, isP := core.Canon(args[idx]).(*ssa.Parameter)
							if !isP || ap.Parent() != handle || !types.Identical(ap.Type(), types.Typ[types.Bool]) {
								okAll = false
							}
						}
						if okAll {
							c.Pass("C06.who-authenticates", key, call.Pos(), "only across the helper's flag, which server.handle fills with its `authenticated` parameter")
							continue
						}
					}
				}
				c.Fail("C06.who-authenticates", key, call.Pos(), "SetAuthenticated is called from "+core.FuncKey(fn)+", which is not one of the three legitimate places: a connection can become authenticated without credentials")
			}
		}
	}
	// call sites of handle: constants only; true only from Client()
	for _, fn := range bus {
		for i, call := range core.Calls(fn) {
			if !core.IsCallTo(call, handle) {
				continue
			}
			key := fmt.Sprintf("handle-call@%s#%d", core.FuncKey(fn), i)
			if len(call.Common().Args) < 3 {
				// handle has no `authenticated` parameter (any more): who pre-authenticates
				// is decided at the callers of SetAuthenticated above
				c.Pass("C06.who-authenticates", key, call.Pos(), "accepted connections start unauthenticated (handle takes no authentication flag)")
				continue
			}
			b, isConst := core.ConstBool(call.Common().Args[2])
			switch {
			case !isConst:
				c.Fail("C06.who-authenticates", key, call.Pos(), "server.handle is called with a non-constant `authenticated` argument")
			case b && core.FuncKey(fn) != "bus.server.Client":
				c.Fail("C06.who-authenticates", key, call.Pos(), "a connection is pre-authenticated outside the in-process server.Client() pipe")
			case b:
				// the stream must be one end of a fresh in-process pipe
				okPipe := false
				if cr, _ := core.CallResult(core.Canon(call.Common().Args[1])); cr != nil {
					if len(cr.Call.Args) > 0 {
						if e, ok := core.Canon(cr.Call.Args[0]).(*ssa.Extract); ok {
							if pc, ok := e.Tuple.(*ssa.Call); ok && pc.Call.StaticCallee() != nil && core.FuncKey(pc.Call.StaticCallee()) == "net.Pipe" {
								okPipe = true
							}
						}
					}
				}
				c.Check(okPipe, "C06.who-authenticates", key, call.Pos(), "pre-authenticated stream is one end of a fresh net.Pipe()", "the pre-authenticated stream is not an in-process pipe")
			default:
				c.Pass("C06.who-authenticates", key, call.Pos(), "accepted connections start unauthenticated")
			}
		}
	}
	// writes of the state key
	if keyState != nil {
		ks := constStr(keyState)
		for _, fn := range bus {
			for _, b := range fn.Blocks {
				for _, in := range b.Instrs {
					mu, ok := in.(*ssa.MapUpdate)
					if !ok {
						continue
					}
					s, isConst := core.ConstString(mu.Key)
					if isConst && s != ks {
						continue
					}
					if !isCapMapType(mu.Map.Type(), capMap) {
						continue
					}
					key := "state-write@" + core.FuncKey(fn)
					k := core.FuncKey(fn)
					switch {
					case !isConst:
						// dynamic key into a capability map: only allowed on a fresh map being decoded
						if _, fresh := core.Canon(mu.Map).(*ssa.MakeMap); fresh {
							continue
						}
						if k == "bus.authenticateContinue" || k == "bus.ClientCap" {
							continue
						}
						c.Fail("C06.who-authenticates", key, mu.Pos(), "a capability map is written under a non-constant key: the authentication state entry can be forged")
					case k == "bus.CapabilityMap.SetAuthenticated" || k == "bus.authenticateCall":
						c.Pass("C06.who-authenticates", key, mu.Pos(), "state written by "+k+" (server: SetAuthenticated; client: its own view of the reply)")
					default:
						if _, fresh := core.Canon(mu.Map).(*ssa.MakeMap); fresh {
							c.Pass("C06.who-authenticates", key, mu.Pos(), "state entry of a fresh map literal")
							continue
						}
						c.Fail("C06.who-authenticates", key, mu.Pos(), "the authentication state entry is written outside SetAuthenticated")
					}
				}
			}
		}
	}

	// ------------------------------------------------------------ client map
	ruleClientMap(c, capMap, chanCap)

	// ------------------------------------------------------------ per connection
	defCap := c.Func("bus", "", "DefaultCap")
	if defCap == nil {
		c.Undecided("C06.per-connection", "bus.DefaultCap", token.NoPos, "anchor not found")
		return
	}
	fresh := true
	for _, ret := range core.Returns(defCap) {
		if _, ok := core.Canon(core.RetVal(ret, 0)).(*ssa.MakeMap); !ok {
			fresh = false
		}
	}
	c.Check(fresh, "C06.per-connection", "bus.DefaultCap", defCap.Pos(), "every call returns a fresh map literal", "DefaultCap returns a shared map: connections share their authentication state")
	// stores into channel.capability
	nStores := 0
	for _, fn := range bus {
		for _, acc := range fieldAccesses(fn, chanCap) {
			st, ok := acc.instr.(*ssa.Store)
			if !acc.write || !ok {
				continue
			}
			nStores++
			key := "channel.capability-store@" + core.FuncKey(fn)
			v := core.Canon(st.Val)
			okSrc := false
			why := "the capability map of a connection's channel is not a fresh DefaultCap() (nor the constructor argument of a client-side channel): connections can share authentication state"
			if cr, _ := core.CallResult(v); cr != nil && core.IsCallTo(cr, defCap) {
				okSrc = true
			}
			if p, isP := v.(*ssa.Parameter); isP && core.FuncKey(fn) == "bus.NewChannel" && p.Parent() == fn {
				okSrc = true // client-side constructor; its server-side call sites are checked below
			}
			if !acc.fresh {
				okSrc = false
				why = "channel.capability is reassigned after construction"
			}
			c.Check(okSrc, "C06.per-connection", key, st.Pos(), "fresh DefaultCap() map (or NewChannel's argument)", why)
		}
	}
	if nStores == 0 {
		c.Undecided("C06.per-connection", "channel.capability-store", chanCap.Pos(), "no initialisation of channel.capability found")
	}
	// the channel used by handle's gate is allocated in handle
	for _, call := range core.Calls(handle) {
		_ = call
	}
	for _, fn := range core.AnonFuncs(handle) {
		for _, call := range core.Calls(fn) {
			if !core.IsCallTo(call, firewall) {
				continue
			}
			ctx := core.Canon(call.Common().Args[1])
			al, ok := core.RootOf(ctx).(*ssa.Alloc)
			good := ok && al.Parent() == handle && core.TypeIs(al.Type(), "bus", "channel")
			c.Check(good, "C06.per-connection", "gate-channel@"+core.FuncKey(fn), call.Pos(), "the channel checked by the gate is allocated per call of server.handle", "the channel consulted by the firewall is not allocated per connection")
		}
	}
	// NewChannel server-side call sites must pass a fresh map
	newChan := c.Func("bus", "", "NewChannel")
	for _, fn := range bus {
		if !strings.HasPrefix(core.FuncKey(fn), "bus.server.") {
			continue
		}
		for i, call := range core.Calls(fn) {
			if core.IsCallTo(call, newChan) {
				cr, _ := core.CallResult(core.Canon(call.Common().Args[1]))
				c.Check(cr != nil && core.IsCallTo(cr, defCap), "C06.per-connection", fmt.Sprintf("NewChannel@%s#%d", core.FuncKey(fn), i), call.Pos(),
					"fresh DefaultCap()", "a channel created by the server shares its capability map")
			}
		}
	}
}

func constStr(k *types.Const) string {
	s := k.Val().ExactString()
	if len(s) >= 2 && s[0] == '"' {
		s = s[1 : len(s)-1]
	}
	return s
}

func constInt(k *types.Const) int64 {
	var i int64
	fmt.Sscan(k.Val().ExactString(), &i)
	return i
}

func isCapMapType(t types.Type, capMap *types.Named) bool {
	return types.Identical(t, capMap)
}

// derivedFromLookup: v is computed (type assertions, conversions, method
// Value(), phi) from m[key] where m is the given map value.
func derivedFromLookup(v ssa.Value, m ssa.Value, key string, depth int) bool {
	if depth > 8 {
		return false
	}
	v = core.StripConv(v)
	switch x := v.(type) {
	case *ssa.Lookup:
		s, ok := core.ConstString(x.Index)
		if !ok && keyResolver != nil {
			s, ok = keyResolver(x.Index)
		}
		return ok && s == key && core.Canon(x.X) == core.Canon(m)
	case *ssa.Extract:
		if call, ok := x.Tuple.(*ssa.Call); ok {
			if ok2, handled := derivedThroughHelper(call, x.Index, m, key, depth); handled {
				return ok2
			}
			if j, ok := decodesParam(call, x.Index); ok {
				return derivedFromLookup(call.Call.Args[j], m, key, depth+1)
			}
		}
		return derivedFromLookup(x.Tuple, m, key, depth+1)
	case *ssa.TypeAssert:
		return derivedFromLookup(x.X, m, key, depth+1)
	case *ssa.Phi:
		for _, e := range x.Edges {
			if !derivedFromLookup(e, m, key, depth+1) {
				return false
			}
		}
		return len(x.Edges) > 0
	case *ssa.Call:
		if f := x.Call.StaticCallee(); f != nil && f.Name() == "Value" && len(x.Call.Args) == 1 {
			return derivedFromLookup(x.Call.Args[0], m, key, depth+1)
		}
		if ok2, handled := derivedThroughHelper(x, 0, m, key, depth); handled {
			return ok2
		}
		if j, ok := decodesParam(x, 0); ok {
			return derivedFromLookup(x.Call.Args[j], m, key, depth+1)
		}
	case *ssa.UnOp:
		if x.Op == token.MUL {
			if d := core.Canon(x); d != ssa.Value(x) {
				return derivedFromLookup(d, m, key, depth+1)
			}
		}
	}
	return false
}

// credentialArg: v is "" or the Value() of a checked StringValue assertion of
// cap[key], cap being the capability-map parameter of fn.
func credentialArg(v ssa.Value, fn *ssa.Function, key string) bool {
	var capParam ssa.Value
	for _, p := range fn.Params {
		if n, ok := p.Type().(*types.Named); ok && n.Obj().Name() == "CapabilityMap" {
			capParam = p
		}
	}
	if capParam == nil {
		return false
	}
	var walk func(v ssa.Value, depth int) bool
	walk = func(v ssa.Value, depth int) bool {
		if depth > 6 {
			return false
		}
		// element k of a local array filled by a loop over a constant table of keys
		// (credentials[i] = checked string of cap[keys[i]])
		if ld, ok := v.(*ssa.UnOp); ok && ld.Op == token.MUL {
			if ia, ok := ld.X.(*ssa.IndexAddr); ok {
				if al, ok := ia.X.(*ssa.Alloc); ok && al.Parent() == fn {
					if k, isK := core.ConstInt(ia.Index); isK {
						return arrayElem(al, k, func(val, idx ssa.Value) bool {
							if idx == nil {
								return walk(val, depth+1)
							}
							old := keyResolver
							keyResolver = func(kv ssa.Value) (string, bool) { return constTableEntry(kv, idx, k) }
							defer func() { keyResolver = old }()
							return walk(val, depth+1)
						})
					}
				}
			}
		}
		v = core.Canon(v)
		switch x := v.(type) {
		case *ssa.Const:
			s, ok := core.ConstString(x)
			return ok && s == ""
		case *ssa.Phi:
			for _, e := range x.Edges {
				if !walk(e, depth+1) {
					return false
				}
			}
			return true
		case *ssa.Call:
			f := x.Call.StaticCallee()
			if f == nil || f.Name() != "Value" || len(x.Call.Args) != 1 {
				return false
			}
			e, ok := core.Canon(x.Call.Args[0]).(*ssa.Extract)
			if !ok || e.Index != 0 {
				return false
			}
			ta, ok := e.Tuple.(*ssa.TypeAssert)
			if !ok || !ta.CommaOk || !core.TypeIs(ta.AssertedType, "type/value", "StringValue") {
				return false
			}
			// the use must be guarded by the assertion's ok
			isOK := func(y ssa.Value) bool {
				e2, ok := core.Canon(y).(*ssa.Extract)
				return ok && e2.Tuple == ssa.Value(ta) && e2.Index == 1
			}
			if !core.Guarded(fn, x, core.IsTrue(isOK)) {
				return false
			}
			return derivedFromLookup(ta.X, capParam, key, 0)
		case *ssa.Convert:
			return walk(x.X, depth+1)
		case *ssa.Extract:
			// (str, valid) := helper(cap, key): used only across valid == true, and the
			// helper returns "" or the checked string of cap[key] whenever valid is true
			call, ok := x.Tuple.(*ssa.Call)
			if !ok || x.Index != 0 {
				return false
			}
			h := call.Call.StaticCallee()
			if h == nil || h.Pkg != fn.Pkg || len(h.Blocks) == 0 {
				return false
			}
			isValid := func(y ssa.Value) bool {
				e2, ok := core.Canon(y).(*ssa.Extract)
				return ok && e2.Tuple == ssa.Value(call) && e2.Index == 1
			}
			// every use of the result in fn that reaches the verdict must be behind valid == true:
			// check at the Authenticator call sites
			for _, cc := range core.Calls(fn) {
				k := cc.Common()
				if k.IsInvoke() && k.Method.Name() == "Authenticate" && core.TypeIs(k.Value.Type(), "bus", "Authenticator") {
					uses := false
					for _, a := range k.Args {
						if core.Canon(a) == ssa.Value(x) {
							uses = true
						}
					}
					if uses && !core.Guarded(fn, cc.(ssa.Instruction), core.IsTrue(isValid)) {
						return false
					}
				}
			}
			ok2, handled := derivedThroughHelper(call, 0, capParam, key, 0)
			if !handled || !ok2 {
				return false
			}
			// inside the helper the string comes from a checked StringValue assertion
			for _, b := range h.Blocks {
				for _, in := range b.Instrs {
					if ta, isTA := in.(*ssa.TypeAssert); isTA && core.TypeIs(ta.AssertedType, "type/value", "StringValue") && !ta.CommaOk {
						return false
					}
				}
			}
			return true
		}
		return false
	}
	return walk(v, 0)
}

// ruleClientMap: the map decoded from the request is only looked up with the
// user/token keys; the server's channel map is never written from it.
func ruleClientMap(c *core.Ctx, capMap *types.Named, chanCap *types.Var) {
	const rule = "C06.client-map"
	wrap := c.Func("bus", "serviceAuthenticate", "wrapAuthenticate")
	saAuth := c.Func("bus", "serviceAuthenticate", "Authenticate")
	readCap := c.Func("bus", "", "ReadCapabilityMap")
	if wrap == nil || saAuth == nil || readCap == nil {
		c.Undecided(rule, "bus.serviceAuthenticate", token.NoPos, "anchor not found")
		return
	}
	// in wrapAuthenticate: the decoded map is only passed to s.Authenticate
	for _, call := range core.Calls(wrap) {
		if !core.IsCallTo(call, readCap) {
			continue
		}
		cv, _ := call.(*ssa.Call)
		var m ssa.Value
		for _, u := range core.Referrers(cv) {
			if e, ok := u.(*ssa.Extract); ok && e.Index == 0 {
				m = e
			}
		}
		bad := ""
		if m != nil {
			for _, u := range allUses(m) {
				k, isCall := u.(ssa.CallInstruction)
				if isCall && core.IsCallTo(k, saAuth) && len(k.Common().Args) == 3 && core.Canon(k.Common().Args[2]) == core.Canon(m) {
					continue
				}
				bad = "the client-supplied map is used by " + u.String() + " in wrapAuthenticate"
			}
		}
		c.Check(bad == "", rule, "bus.serviceAuthenticate.wrapAuthenticate/client-map", call.Pos(), "the decoded client map is only handed to Authenticate", bad)
	}
	// in Authenticate: only Lookups with the constant credential keys
	var capParam ssa.Value
	for _, p := range saAuth.Params {
		if isCapMapType(p.Type(), capMap) {
			capParam = p
		}
	}
	if capParam == nil {
		c.Undecided(rule, "bus.serviceAuthenticate.Authenticate/param", saAuth.Pos(), "no CapabilityMap parameter")
		return
	}
	bad := ""
	nLookups := 0
	credKey := func(s string) bool { return s == "auth_user" || s == "auth_token" }
	var scan func(fn *ssa.Function, m ssa.Value, keyParams map[ssa.Value]bool, depth int)
	scan = func(fn *ssa.Function, m ssa.Value, keyParams map[ssa.Value]bool, depth int) {
		for _, u := range allUses(m) {
			if u.Parent() != fn {
				continue
			}
			if lk, ok := u.(*ssa.Lookup); ok && core.Canon(lk.X) == m {
				if s, isConst := core.ConstString(lk.Index); isConst && credKey(s) {
					nLookups++
					continue
				}
				if keyParams[core.Canon(lk.Index)] {
					nLookups++
					continue
				}
				if rows := constTableAll(lk.Index, credKey); rows > 0 {
					nLookups += rows // one lookup per row of the constant table of keys
					continue
				}
				bad = "the client map is looked up under a key other than the user/token keys (at " + c.Pos(lk.Pos()) + ")"
				continue
			}
			// handed to a private helper together with a constant credential key
			if call, ok := u.(*ssa.Call); ok && depth < 2 {
				if h := call.Call.StaticCallee(); h != nil && isPrivateHelper(c, h) && h.Pkg == fn.Pkg {
					kp := map[ssa.Value]bool{}
					mi := -1
					okArgs := true
					for i, a := range call.Call.Args {
						switch {
						case core.Canon(a) == m:
							mi = i
						default:
							if s, isConst := core.ConstString(a); isConst {
								if credKey(s) {
									kp[h.Params[i]] = true
								} else if types.Identical(a.Type().Underlying(), types.Typ[types.String]) {
									okArgs = false
								}
							}
						}
					}
					if mi >= 0 && okArgs && len(kp) > 0 {
						scan(h, h.Params[mi], kp, depth+1)
						continue
					}
				}
			}
			bad = "the client-supplied capability map is used for more than credential lookups: " + u.String() + " at " + c.Pos(u.Pos()) + " (iterated, stored, merged, returned or passed on)"
		}
	}
	scan(saAuth, capParam, map[ssa.Value]bool{}, 0)
	c.Check(bad == "" && nLookups >= 2, rule, "bus.serviceAuthenticate.Authenticate/client-map", saAuth.Pos(), "only cap[KeyUser] and cap[KeyToken] lookups", bad)
	// the reply: server's map or an error map, never the client's
	capErr := c.Func("bus", "serviceAuthenticate", "capError")
	good := true
	for _, ret := range core.Returns(saAuth) {
		v := core.Canon(core.RetVal(ret, 0))
		cr, _ := core.CallResult(v)
		if cr == nil {
			good = false
			continue
		}
		k := cr.Common()
		if core.IsCallTo(cr, capErr) {
			continue
		}
		if k.IsInvoke() && k.Method.Name() == "Cap" {
			continue
		}
		good = false
	}
	c.Check(good, rule, "bus.serviceAuthenticate.Authenticate/reply", saAuth.Pos(), "replies with the server's own map or an error map", "the authenticate reply is not the server's own capability map nor the error map")
	// no store into a Channel's map outside SetAuthenticated
	n := 0
	for _, fn := range srcFuncsOfPkg(c, "bus") {
		for _, b := range fn.Blocks {
			for _, in := range b.Instrs {
				mu, ok := in.(*ssa.MapUpdate)
				if !ok {
					continue
				}
				m := core.Canon(mu.Map)
				fromChannel := isFieldOf(m, chanCap)
				if cr, _ := core.CallResult(m); cr != nil {
					if k := cr.Common(); k.IsInvoke() && k.Method.Name() == "Cap" {
						fromChannel = true
					}
					if f := cr.Call.StaticCallee(); f != nil && f.Name() == "Cap" {
						fromChannel = true
					}
				}
				if !fromChannel {
					continue
				}
				n++
				c.Fail(rule, "channel-map-store@"+core.FuncKey(fn), mu.Pos(), "a connection's capability map (the one holding its authentication state) is written outside SetAuthenticated: client-controlled entries can reach it")
			}
		}
	}
	if n == 0 {
		c.Pass(rule, "channel-map-store", chanCap.Pos(), "no store into a Channel's capability map outside CapabilityMap.SetAuthenticated")
	}
}

// derivedThroughHelper: result idx of a call to a helper of package bus that
// receives the map m: every value it can return there (on returns whose
// boolean companion, if any, is not constant false) derives from m[key] inside
// the helper.  The key may be a constant in the helper or a parameter bound to
// the constant at the call site.
func derivedThroughHelper(call *ssa.Call, idx int, m ssa.Value, key string, depth int) (bool, bool) {
	h := call.Call.StaticCallee()
	if h == nil || len(h.Blocks) == 0 || h.Pkg == nil || !strings.HasSuffix(h.Pkg.Pkg.Path(), "/bus") || depth > 6 {
		return false, false
	}
	if h.Name() == "Value" {
		return false, false
	}
	mi := -1
	for i, a := range call.Call.Args {
		if core.Canon(a) == core.Canon(m) && i < len(h.Params) {
			mi = i
		}
	}
	if mi < 0 {
		return false, false
	}
	// key parameters bound to the constant at this call site
	keyParams := map[ssa.Value]bool{}
	for i, a := range call.Call.Args {
		if s, ok := core.ConstString(a); ok && s == key && i < len(h.Params) {
			keyParams[h.Params[i]] = true
		}
	}
	n := 0
	for _, r := range core.Returns(h) {
		if idx >= len(r.Results) {
			return false, true
		}
		// skip returns whose ok companion is constant false
		skip := false
		for j := range r.Results {
			if j == idx {
				continue
			}
			if b, isConst := core.ConstBool(core.RetVal(r, j)); isConst && !b {
				skip = true
			}
		}
		if skip {
			continue
		}
		n++
		if !derivedInHelper(core.RetVal(r, idx), h.Params[mi], key, keyParams, depth+1) {
			return false, true
		}
	}
	return n > 0, true
}

func derivedInHelper(v ssa.Value, m ssa.Value, key string, keyParams map[ssa.Value]bool, depth int) bool {
	if depth > 10 {
		return false
	}
	v = core.StripConv(v)
	switch x := v.(type) {
	case *ssa.Const:
		// zero value returned together with "absent": acceptable (empty credential / no state)
		if s, ok := core.ConstString(x); ok {
			return s == ""
		}
		return false
	case *ssa.Lookup:
		if core.Canon(x.X) != core.Canon(m) {
			return false
		}
		if s, ok := core.ConstString(x.Index); ok {
			return s == key
		}
		return keyParams[core.Canon(x.Index)]
	case *ssa.Extract:
		return derivedInHelper(x.Tuple, m, key, keyParams, depth+1)
	case *ssa.TypeAssert:
		return derivedInHelper(x.X, m, key, keyParams, depth+1)
	case *ssa.Phi:
		for _, e := range x.Edges {
			if !derivedInHelper(e, m, key, keyParams, depth+1) {
				return false
			}
		}
		return len(x.Edges) > 0
	case *ssa.Call:
		if f := x.Call.StaticCallee(); f != nil && f.Name() == "Value" && len(x.Call.Args) == 1 {
			return derivedInHelper(x.Call.Args[0], m, key, keyParams, depth+1)
		}
	case *ssa.UnOp:
		if x.Op == token.MUL {
			if d := core.Canon(x); d != ssa.Value(x) {
				return derivedInHelper(d, m, key, keyParams, depth+1)
			}
		}
	}
	return false
}

// decodesParam: result idx of the call to a helper of package bus is, on every
// return that does not report failure, one of the helper's parameters seen
// through type assertions, Value() accessors and conversions (stateOf(v)
// decoding the integer held by a value): the index of that parameter.
func decodesParam(call *ssa.Call, idx int) (int, bool) {
	h := call.Call.StaticCallee()
	if h == nil || len(h.Blocks) == 0 || h.Pkg == nil || !strings.HasSuffix(h.Pkg.Pkg.Path(), "/bus") || h.Name() == "Value" {
		return 0, false
	}
	var origin func(v ssa.Value, depth int) ssa.Value
	origin = func(v ssa.Value, depth int) ssa.Value {
		if depth > 8 {
			return nil
		}
		v = core.StripConv(v)
		switch x := v.(type) {
		case *ssa.Parameter:
			return x
		case *ssa.Extract:
			return origin(x.Tuple, depth+1)
		case *ssa.TypeAssert:
			return origin(x.X, depth+1)
		case *ssa.Call:
			if f := x.Call.StaticCallee(); f != nil && f.Name() == "Value" && len(x.Call.Args) == 1 {
				return origin(x.Call.Args[0], depth+1)
			}
		case *ssa.Phi:
			var o ssa.Value
			for _, e := range x.Edges {
				oe := origin(e, depth+1)
				if oe == nil || (o != nil && o != oe) {
					return nil
				}
				o = oe
			}
			return o
		case *ssa.UnOp:
			if x.Op == token.MUL {
				if d := core.Canon(x); d != ssa.Value(x) {
					return origin(d, depth+1)
				}
			}
		}
		return nil
	}
	var param ssa.Value
	for _, r := range core.Returns(h) {
		if idx >= len(r.Results) {
			return 0, false
		}
		skip := false
		for j := range r.Results {
			if j == idx {
				continue
			}
			if b, isConst := core.ConstBool(core.RetVal(r, j)); isConst && !b {
				skip = true
			}
		}
		if skip {
			continue
		}
		o := origin(core.RetVal(r, idx), 0)
		if o == nil || (param != nil && param != o) {
			return 0, false
		}
		param = o
	}
	for i, hp := range h.Params {
		if ssa.Value(hp) == param && i < len(call.Call.Args) {
			return i, true
		}
	}
	return 0, false
}

// keyResolver, when set, resolves a lookup key that is not a constant by
// itself (an entry of a constant table indexed by a loop counter bound to a
// known row).
var keyResolver func(ssa.Value) (string, bool)

// arrayElem: every store that can fill element k of local array al satisfies
// ok (called with idx == nil for a store at constant index k, with the index
// value for a store at a computed index, which then stands for k).
func arrayElem(al *ssa.Alloc, k int64, ok func(val, idx ssa.Value) bool) bool {
	if _, isArr := al.Type().Underlying().(*types.Pointer).Elem().Underlying().(*types.Array); !isArr {
		return false
	}
	for _, r := range core.Referrers(al) {
		ia, isIA := r.(*ssa.IndexAddr)
		if !isIA {
			if _, isLoad := r.(*ssa.UnOp); isLoad {
				continue
			}
			if _, isDbg := r.(*ssa.DebugRef); isDbg {
				continue
			}
			return false // the array escapes or is overwritten as a whole
		}
		for _, u := range core.Referrers(ia) {
			st, isStore := u.(*ssa.Store)
			if !isStore || st.Addr != ssa.Value(ia) {
				if _, isLoad := u.(*ssa.UnOp); isLoad {
					continue
				}
				return false
			}
			if ck, isK := core.ConstInt(ia.Index); isK {
				if ck == k && !ok(st.Val, nil) {
					return false
				}
				continue
			}
			if !ok(st.Val, ia.Index) {
				return false
			}
		}
	}
	return true
}

// constTableEntry: kv is table[idx] of a local array of constant strings;
// returns its row k.
func constTableEntry(kv, idx ssa.Value, k int64) (string, bool) {
	var base ssa.Value
	switch x := kv.(type) {
	case *ssa.Index:
		if x.Index != idx {
			return "", false
		}
		base = x.X
	case *ssa.UnOp:
		ia, ok := x.X.(*ssa.IndexAddr)
		if !ok || x.Op != token.MUL || ia.Index != idx {
			return "", false
		}
		base = ia.X
	default:
		return "", false
	}
	if ld, ok := base.(*ssa.UnOp); ok && ld.Op == token.MUL {
		base = ld.X
	}
	al, ok := base.(*ssa.Alloc)
	if !ok {
		return "", false
	}
	out, found := "", false
	good := arrayElem(al, k, func(val, i ssa.Value) bool {
		if i != nil {
			return false // the table is not constant
		}
		s, isS := core.ConstString(val)
		if !isS {
			return false
		}
		out, found = s, true
		return true
	})
	return out, good && found
}

// constTableAll: kv is an entry of a local array that only ever holds constant
// strings satisfying pred.
func constTableAll(kv ssa.Value, pred func(string) bool) int {
	var base ssa.Value
	switch x := kv.(type) {
	case *ssa.Index:
		base = x.X
	case *ssa.UnOp:
		ia, ok := x.X.(*ssa.IndexAddr)
		if !ok || x.Op != token.MUL {
			return 0
		}
		base = ia.X
	default:
		return 0
	}
	if ld, ok := base.(*ssa.UnOp); ok && ld.Op == token.MUL {
		base = ld.X
	}
	al, ok := base.(*ssa.Alloc)
	if !ok {
		return 0
	}
	arr, isArr := al.Type().Underlying().(*types.Pointer).Elem().Underlying().(*types.Array)
	if !isArr {
		return 0
	}
	n := int64(0)
	for k := int64(0); k < arr.Len(); k++ {
		found := false
		good := arrayElem(al, k, func(val, i ssa.Value) bool {
			s, isS := core.ConstString(val)
			found = true
			return i == nil && isS && pred(s)
		})
		if !good || !found {
			return 0
		}
		n++
	}
	return int(n)
}
