package rules

import (
	"fmt"
	"go/token"
	"go/types"
	"strings"

	"golang.org/x/tools/go/ssa"

	"qicheck/internal/core"
)

func init() {
	register(&Property{
		ID:    "C07",
		Title: "Decoders and parsers are total and resource-bounded on arbitrary input",
		Explanation: "Decides the one clause of C07 that is visible in the shape of the code: no allocation size and no loop bound is taken from an integer read off the wire without a constant upper bound (and a lower bound when the value went through a signed type and the sink panics on negatives). Wire-integer taint over SSA: sources are the integer results of decoder calls (computed decoder set, see C08) and Header.Size; propagation through conversions, arithmetic, phi and local variables; sinks are make (len/cap/size hint), reflect.MakeSlice / MakeMapWithSize / Value.SetLen and the bound of a loop whose body is not proved to consume at least one byte per iteration (a callee consumes ≥1 byte if every success path passes a ReadN of constant positive length, computed recursively); sanitiser = guarded reachability against a comparison with a constant. Also: explicit panic statements reachable from the decoder entry points (call graph); the arity of parallel slices indexed by one loop variable in the parsers; unchecked type assertions in the parsers' node builders are limited to the functions that have them today. " +
			"Allocation sinks are followed into callees through integer parameters; integers returned by a helper that bounded them count as bounded; (backtracking) no two alternatives of an ordered choice in the signature and IDL grammars share a prefix containing a non-terminal. " +
			"Not decided: absence of implicit panics (index, nil, type assertion inside parsec callbacks) in general, hangs in general, time/memory as a multiple of input length: these need execution.",
		Assumptions: []string{"64-bit int (int(uint32) is non-negative)", "reflect.MakeMapWithSize tolerates a negative hint", "call graph: VTA"},
		Run:         runC07,
	})
}

// wireSource reports whether v is an integer read from the wire: the integer
// result of a decoder call, or a load of Header.Size.
// extraSources: values treated as wire integers while a callee is summarised
// (its integer parameters, one at a time).
var extraSources map[ssa.Value]bool

func wireSource(d *decoderSet, sizeF *types.Var, v ssa.Value) bool {
	if extraSources[v] {
		return true
	}
	if in, ok := v.(ssa.Instruction); ok && sizeF != nil && in.Parent() != nil && !d.member[in.Parent()] {
		sizeF = nil // Header.Size is a wire value only where the header was just decoded
	}
	if _, ok := v.Type().Underlying().(*types.Basic); !ok {
		return false
	}
	if b := v.Type().Underlying().(*types.Basic); b.Info()&types.IsInteger == 0 {
		return false
	}
	if sizeF != nil && isFieldOf(v, sizeF) {
		if _, isLoad := v.(*ssa.UnOp); isLoad {
			return true
		}
	}
	var call *ssa.Call
	switch x := v.(type) {
	case *ssa.Extract:
		call, _ = x.Tuple.(*ssa.Call)
		if x.Index != 0 {
			return false
		}
	case *ssa.Call:
		call = x
	}
	if call == nil {
		return false
	}
	f := call.Call.StaticCallee()
	// an integer assembled by hand from bytes a decoder read (binary.LittleEndian.Uint32(prefix))
	if call.Parent() != nil && d.member[call.Parent()] {
		name := ""
		if f != nil && f.Pkg != nil && f.Pkg.Pkg.Path() == "encoding/binary" {
			name = f.Name()
		} else if call.Call.IsInvoke() && core.TypeIs(call.Call.Value.Type(), "encoding/binary", "ByteOrder") {
			name = call.Call.Method.Name()
		}
		switch name {
		case "Uint16", "Uint32", "Uint64":
			return true
		}
	}
	if f == nil || !d.member[f] {
		return false
	}
	return true
}

// taintOf computes, for every value of fn, the wire source it derives from
// (nil if none) and whether it passed through a signed narrowing.
type taintInfo struct {
	src    ssa.Value
	signed bool
	arith  bool
}

// allocParams summarises, for the functions of the repository, which integer
// parameters (receivers of integer kind included) size an allocation in the
// callee without having been compared with a constant limit there: handing a
// wire integer to such a parameter is an allocation sink at the call site.
func allocParams(c *core.Ctx, d *decoderSet) map[*ssa.Function]map[int]bool {
	out := map[*ssa.Function]map[int]bool{}
	isInt := func(t types.Type) bool {
		b, ok := t.Underlying().(*types.Basic)
		return ok && b.Info()&types.IsInteger != 0
	}
	var cands []*ssa.Function
	for _, fn := range c.RepoFuncs() {
		if c.IsTestFile(fn) || len(fn.Blocks) == 0 || !notExample(fn) {
			continue
		}
		for _, p := range fn.Params {
			if isInt(p.Type()) {
				cands = append(cands, fn)
				break
			}
		}
	}
	for iter := 0; iter < 3; iter++ {
		changed := false
		for _, fn := range cands {
			for i, p := range fn.Params {
				if !isInt(p.Type()) || out[fn][i] {
					continue
				}
				extraSources = map[ssa.Value]bool{p: true}
				taint := computeTaint(fn, d, nil)
				extraSources = nil
				isP := func(v ssa.Value) bool {
					v = core.StripConv(v)
					ti, ok := taint[v]
					return v == ssa.Value(p) || (ok && ti.src == ssa.Value(p) && !ti.arith)
				}
				hit := false
				sink := func(in ssa.Instruction, v ssa.Value) {
					if v == nil {
						return
					}
					if _, ok := taint[core.StripConv(v)]; !ok && core.StripConv(v) != ssa.Value(p) {
						return
					}
					if !core.Guarded(fn, in, core.AnyOf(core.UpperBound(isP, 0), boundedByExisting(isP))) {
						hit = true
					}
				}
				for _, b := range fn.Blocks {
					for _, in := range b.Instrs {
						switch x := in.(type) {
						case *ssa.MakeSlice:
							sink(in, x.Len)
							sink(in, x.Cap)
						case *ssa.MakeMap:
							sink(in, x.Reserve)
						case *ssa.MakeChan:
							sink(in, x.Size)
						case *ssa.Call:
							f := x.Call.StaticCallee()
							if f == nil {
								continue
							}
							switch core.FuncKey(f) {
							case "reflect.MakeSlice", "reflect.MakeMapWithSize", "bytes.Buffer.Grow":
								sink(in, x.Call.Args[1])
							default:
								for j, a := range x.Call.Args {
									if out[f][j] {
										sink(in, a)
									}
								}
							}
						}
					}
				}
				if hit {
					if out[fn] == nil {
						out[fn] = map[int]bool{}
					}
					out[fn][i] = true
					changed = true
				}
			}
		}
		if !changed {
			break
		}
	}
	return out
}

// intSize is the size in bytes of int/uint/uintptr on the platform the
// repository was loaded for (4 when loaded with GOARCH=386).
var intSize int64 = 8

func computeTaint(fn *ssa.Function, d *decoderSet, sizeF *types.Var) map[ssa.Value]taintInfo {
	t := map[ssa.Value]taintInfo{}
	isSigned := func(ty types.Type) bool {
		b, ok := ty.Underlying().(*types.Basic)
		return ok && b.Info()&types.IsInteger != 0 && b.Info()&types.IsUnsigned == 0
	}
	size := func(ty types.Type) int64 {
		b, ok := ty.Underlying().(*types.Basic)
		if !ok {
			return 8
		}
		switch b.Kind() {
		case types.Int8, types.Uint8:
			return 1
		case types.Int16, types.Uint16:
			return 2
		case types.Int32, types.Uint32:
			return 4
		case types.Int, types.Uint, types.Uintptr:
			return intSize
		}
		return 8
	}
	for changed, iter := true, 0; changed && iter < 20; iter++ {
		changed = false
		set := func(v ssa.Value, ti taintInfo) {
			if old, ok := t[v]; !ok || (ti.signed && !old.signed) || (ti.arith && !old.arith) {
				if ok {
					ti.signed = ti.signed || old.signed
					ti.arith = ti.arith || old.arith
					ti.src = old.src
				}
				t[v] = ti
				changed = true
			}
		}
		for _, b := range fn.Blocks {
			for _, in := range b.Instrs {
				v, ok := in.(ssa.Value)
				if !ok {
					// stores into local cells
					if st, isSt := in.(*ssa.Store); isSt {
						if ti, ok := t[st.Val]; ok {
							if al, isAl := st.Addr.(*ssa.Alloc); isAl {
								set(al, ti)
							}
						}
					}
					continue
				}
				if wireSource(d, sizeF, v) {
					set(v, taintInfo{src: v, signed: isSigned(v.Type())})
					continue
				}
				switch x := in.(type) {
				case *ssa.Convert:
					if ti, ok := t[x.X]; ok {
						n := ti
						if isSigned(x.Type()) && !isSigned(x.X.Type()) && size(x.Type()) <= size(x.X.Type()) {
							n.signed = true
						}
						if isSigned(x.X.Type()) {
							n.signed = true
						}
						set(v, n)
					}
				case *ssa.ChangeType:
					if ti, ok := t[x.X]; ok {
						set(v, ti)
					}
				case *ssa.BinOp:
					switch x.Op {
					case token.ADD, token.SUB, token.MUL, token.SHL, token.OR, token.XOR:
						for _, op := range []ssa.Value{x.X, x.Y} {
							if ti, ok := t[op]; ok {
								n := ti
								n.arith = true
								set(v, n)
							}
						}
					}
				case *ssa.Phi:
					for _, e := range x.Edges {
						if ti, ok := t[e]; ok {
							set(v, ti)
						}
					}
				case *ssa.UnOp:
					if x.Op == token.MUL {
						if al, isAl := x.X.(*ssa.Alloc); isAl {
							if ti, ok := t[al]; ok {
								set(v, ti)
							}
						}
					}
				}
			}
		}
	}
	return t
}

// boundedByExisting matches "v <= cap/len of something that already exists"
// (v.Cap(), len(x), cap(x)): the wire integer is bounded by memory already
// allocated.
func boundedByExisting(isV func(ssa.Value) bool) core.EdgeMatcher {
	isExisting := func(v ssa.Value) bool {
		call, ok := core.StripConv(v).(*ssa.Call)
		if !ok {
			return false
		}
		if bi, ok := call.Call.Value.(*ssa.Builtin); ok {
			return bi.Name() == "len" || bi.Name() == "cap"
		}
		if f := call.Call.StaticCallee(); f != nil {
			k := core.FuncKey(f)
			return k == "reflect.Value.Cap" || k == "reflect.Value.Len"
		}
		return false
	}
	return boundedBy(isV, isExisting)
}

// boundedBy matches "v <= y" (in any of its spellings) where isBound(y).
func boundedBy(isV, isExisting func(ssa.Value) bool) core.EdgeMatcher {
	return func(cm core.Cmp) (bool, bool) {
		if isV(cm.X) && isExisting(cm.Y) {
			switch cm.Op {
			case token.LSS, token.LEQ:
				return true, false
			case token.GTR, token.GEQ:
				return false, true
			}
		}
		if isExisting(cm.X) && isV(cm.Y) {
			switch cm.Op {
			case token.GTR, token.GEQ:
				return true, false
			case token.LSS, token.LEQ:
				return false, true
			}
		}
		return false, false
	}
}

// resultBounded: the integer that call returns (first result of the repository
// function h) is, on every success return of h, behind a comparison with a
// constant or with a parameter of h for which this call passes a constant
// (readBoundedSize(r, limit, err)).
func resultBounded(call *ssa.Call) bool {
	h := call.Call.StaticCallee()
	if h == nil || len(h.Blocks) == 0 || !inRepo(h) {
		return false
	}
	constParam := map[*ssa.Parameter]bool{}
	for i, a := range call.Call.Args {
		if _, ok := core.ConstInt(core.StripConv(a)); ok && i < len(h.Params) {
			constParam[h.Params[i]] = true
		}
	}
	n := 0
	for _, r := range core.Returns(h) {
		if !successReturn(r) || len(r.Results) == 0 {
			continue
		}
		v := core.StripConv(core.Canon(core.RetVal(r, 0)))
		if _, isConst := v.(*ssa.Const); isConst {
			continue
		}
		n++
		isV := func(x ssa.Value) bool { return core.StripConv(core.Canon(x)) == v }
		isP := func(y ssa.Value) bool {
			p, ok := core.StripConv(y).(*ssa.Parameter)
			return ok && constParam[p]
		}
		if !core.Guarded(h, r, core.AnyOf(core.UpperBound(isV, 0), boundedBy(isV, isP))) {
			return false
		}
	}
	return n > 0
}

// consumesOne: every success path of f passes a decoder call that consumes at
// least one byte (base: ReadN with a constant positive length).
type consume struct {
	d    *decoderSet
	memo map[*ssa.Function]int // 0 unknown, 1 yes, 2 no, 3 in progress
}

func (cs *consume) callConsumes(call ssa.CallInstruction) bool {
	f := core.StaticCallee(call)
	if f == nil {
		return false
	}
	if f == cs.d.readN {
		k, ok := core.ConstInt(call.Common().Args[2])
		return ok && k >= 1
	}
	if !cs.d.member[f] {
		return false
	}
	// readExact(r, n): a helper that reads as many bytes as its parameter says consumes
	// when the call site gives it a positive constant
	if j, ok := movesParamBytes(f, cs.d.readN, nil); ok {
		args := call.Common().Args
		if k, isK := core.ConstInt(args[j]); !isK || k < 1 {
			return false
		}
		isRead := func(in ssa.Instruction) bool {
			c2, ok := in.(ssa.CallInstruction)
			return ok && core.IsCallTo(c2, cs.d.readN)
		}
		for _, ret := range core.Returns(f) {
			if !successReturn(ret) && errorReturnConst(ret) {
				continue
			}
			if !core.MustPassBefore(f, ret, isRead) {
				return false
			}
		}
		return true
	}
	return cs.fn(f)
}

func (cs *consume) fn(f *ssa.Function) bool {
	switch cs.memo[f] {
	case 1:
		return true
	case 2, 3:
		return false
	}
	cs.memo[f] = 3
	isC := func(in ssa.Instruction) bool {
		call, ok := in.(ssa.CallInstruction)
		if !ok {
			return false
		}
		if _, isGo := in.(*ssa.Go); isGo {
			return false
		}
		// immediately invoked function literal
		if mc, ok := call.Common().Value.(*ssa.MakeClosure); ok {
			if lit, ok := mc.Fn.(*ssa.Function); ok {
				return cs.fn(lit)
			}
		}
		return cs.callConsumes(call)
	}
	ok := true
	n := 0
	for _, ret := range core.Returns(f) {
		if !successReturn(ret) {
			// returns of (value, err) with err variable: treat as possible success
			if errorReturnConst(ret) {
				continue
			}
		}
		n++
		if !core.MustPassBefore(f, ret, isC) {
			ok = false
		}
	}
	if n == 0 {
		ok = false
	}
	if ok {
		cs.memo[f] = 1
	} else {
		cs.memo[f] = 2
	}
	return ok
}

func runC07(c *core.Ctx) {
	d := newDecoderSet(c)
	if d.readN == nil {
		c.Undecided("C07.alloc", "type/basic.ReadN", token.NoPos, "anchor not found")
		return
	}
	c.Doc("C07.alloc", "no allocation size from an unchecked wire integer", 8)
	c.Doc("C07.loop", "no loop bounded by an unchecked wire integer unless every iteration consumes input", 15)
	nSinks, nLoops := wireIntegerSinks(c, d, "C07.alloc", "C07.loop", false)
	c.Note("wire-integer sinks examined: %d allocations, %d loops", nSinks, nLoops)

	c.Doc("C07.wire-index", "an integer read from the input indexes or slices only behind a comparison with the length of what is indexed", 1)
	ruleWireIntegerIndex(c, d, "C07.wire-index")

	c.Doc("C07.panic", "no explicit panic reachable from a decoder entry point", 1)
	ruleNoPanicInDecoders(c, d)
	c.Doc("C07.parsers", "parser node builders: parallel slices indexed together have checked equal lengths; unchecked assertions confined to today's sites", 3)
	ruleParserShapes(c)
	ruleIndexResultChecked(c, "C07.parsers", "meta/idl", "meta/signature")
	c.Doc("C07.index", "a string or byte slice read from the input is indexed with a constant only after its length was tested", 1)
	ruleWireStringIndex(c, d, "C07.index")
	c.Doc("C07.shared-state", "decoders keep no shared map that is written with only a read lock held (a decoder that aborts the process is not total)", 1)
	ruleSharedMapWritesExclusive(c, core.NewLockCache(), "C07.shared-state", "meta/signature", "type/value", "type/encoding", "type/basic", "type/object", "bus/net")
	c.Doc("C18.recursion", "IDL parser: a type reference is followed only while marked as being visited and refuses to resolve while marked (a recursive struct is an error, not a fatal stack overflow) — rule shared with C18", 4)
	ruleReferenceRecursionGuard(c, "C18.recursion")
	c.Doc("C07.nil-map", "no map that can be nil (the zero result of a decoder for an input announcing no entries) is written", 1)
	ruleNoNilMapWrite(c, "C07.nil-map", "bus", "type", "meta/signature")
	c.Doc("C07.nil-on-error", "a value returned next to a decoding error is not dereferenced on the paths where the error is set (it is nil there: the use panics)", 1)
	ruleNilOnError(c, d, "C07.nil-on-error")
	c.Doc("C07.backtracking", "no two alternatives of an ordered choice share a prefix containing a non-terminal (re-parsed per alternative at every nesting level: exponential time)", 2)
	ruleBacktracking(c, "C07.backtracking")
}

// ruleNoPanicInDecoders: explicit panics reachable (VTA) from members of D.
func ruleNoPanicInDecoders(c *core.Ctx, d *decoderSet) {
	const rule = "C07.panic"
	cg := c.VTA()
	seen := map[*ssa.Function]bool{}
	var q []*ssa.Function
	for _, f := range d.members() {
		if !notExample(f) || c.IsTestFile(f) {
			continue
		}
		seen[f] = true
		q = append(q, f)
	}
	for _, name := range []string{"Parse"} {
		if f := c.Func("meta/signature", "", name); f != nil && !seen[f] {
			seen[f] = true
			q = append(q, f)
		}
	}
	nroots := len(q)
	for len(q) > 0 {
		f := q[0]
		q = q[1:]
		node := cg.Nodes[f]
		if node == nil {
			continue
		}
		for _, e := range node.Out {
			callee := e.Callee.Func
			if callee == nil || callee.Pkg == nil || !strings.HasPrefix(callee.Pkg.Pkg.Path(), core.Module) || seen[callee] {
				continue
			}
			p := callee.Pkg.Pkg.Path()
			if strings.Contains(p, "/examples/") || strings.Contains(p, "/cmd/") || c.IsTestFile(callee) {
				continue
			}
			seen[callee] = true
			q = append(q, callee)
		}
	}
	allowed := map[string]string{
		"meta/signature.NewMetaObjectType": "panics only if the compile-time constant MetaObjectSignature does not parse",
		"meta/idl.InterfaceType.Reader":    "call-graph artefact (InterfaceType values only exist in the IDL generator; signature.Parse never yields one)",
		"meta/idl.InterfaceType.Type":      "same as InterfaceType.Reader",
	}
	n := 0
	for fn := range seen {
		for _, b := range fn.Blocks {
			for _, in := range b.Instrs {
				pn, ok := in.(*ssa.Panic)
				if !ok {
					continue
				}
				if mi, ok := pn.X.(*ssa.MakeInterface); ok {
					if s, ok := core.ConstString(mi.X); ok && strings.HasPrefix(s, "blocking select") {
						continue
					}
				}
				n++
				key := "panic@" + core.FuncKey(fn)
				if why, ok := allowed[core.FuncKey(fn)]; ok {
					c.Pass(rule, key, pn.Pos(), "accepted: "+why)
					continue
				}
				c.Fail(rule, key, pn.Pos(), "explicit panic reachable from a decoder: hostile input crashes the process instead of yielding an error")
			}
		}
	}
	c.Pass(rule, "reachable-set", token.NoPos, fmt.Sprintf("%d functions reachable from %d decoders scanned, %d explicit panics", len(seen), nroots, n))
}

// ruleParserShapes: in meta/signature and meta/idl node builders,
//   - an index expression X[i] where i ranges over another slice Y requires a
//     dominating test len(X) == len(Y) (or != leading away);
//   - type assertions without comma-ok are confined to the functions that have
//     them on the confirmed tree (each relies on a goparsec node-shape invariant).
func ruleParserShapes(c *core.Ctx) {
	const rule = "C07.parsers"
	// confirmed by reading: the grammar guarantees the node shape at these sites
	uncheckedOK := map[string]string{
		"meta/signature.nodifyBasicType": "nodes[0] of an Atom choice is always a *parsec.Terminal",
	}
	n := 0
	for _, rel := range []string{"meta/signature"} {
		for _, fn := range srcFuncsOfPkg(c, rel) {
			for _, b := range fn.Blocks {
				for _, in := range b.Instrs {
					switch x := in.(type) {
					case *ssa.TypeAssert:
						if x.CommaOk {
							continue
						}
						if !strings.Contains(fn.Name(), "nodify") && !strings.Contains(fn.Name(), "extract") && fn.Name() != "Parse" {
							continue
						}
						n++
						key := "unchecked-assert@" + core.FuncKey(fn)
						if why, ok := uncheckedOK[core.FuncKey(fn)]; ok {
							c.Pass(rule, key, x.Pos(), "accepted: "+why)
							continue
						}
						c.Fail(rule, key, x.Pos(), "type assertion without comma-ok on a parser node: an input the grammar shapes differently (an error node nested in a container) panics instead of being rejected")
					case *ssa.IndexAddr:
						// X[i] with i the index of a range over Y (Y != X), in the node builders
						// and in the private helpers only they call
						if !isNodeBuilderOrHelper(c, fn, 0) {
							continue
						}
						idxPhi, ok := core.Canon(x.Index).(*ssa.BinOp)
						if !ok || idxPhi.Op != token.ADD {
							continue
						}
						h := loopHeaderOf(x)
						if h == nil {
							continue
						}
						// the loop bound: len(Y)
						ifi, ok := h.Instrs[len(h.Instrs)-1].(*ssa.If)
						if !ok {
							continue
						}
						cm, _ := core.CondCmp(ifi.Cond)
						lenY, ok := core.Canon(cm.Y).(*ssa.Call)
						if !ok {
							continue
						}
						bi, ok := lenY.Call.Value.(*ssa.Builtin)
						if !ok || bi.Name() != "len" {
							continue
						}
						y := core.Canon(lenY.Call.Args[0])
						xs := core.Canon(x.X)
						if xs == y || sameLen(xs, y) {
							continue
						}
						// X was made with len(Y)? (make([]T, len(Y)))
						if mk, ok := xs.(*ssa.MakeSlice); ok {
							if lc, ok := core.Canon(mk.Len).(*ssa.Call); ok {
								if b2, ok := lc.Call.Value.(*ssa.Builtin); ok && b2.Name() == "len" && (core.Canon(lc.Call.Args[0]) == y || sameLen(lc.Call.Args[0], y)) {
									continue
								}
							}
						}
						n++
						key := fmt.Sprintf("parallel-index@%s", core.FuncKey(fn))
						isLen := func(of ssa.Value) func(ssa.Value) bool {
							return func(v ssa.Value) bool {
								lc, ok := core.Canon(v).(*ssa.Call)
								if !ok {
									return false
								}
								b2, ok := lc.Call.Value.(*ssa.Builtin)
								if !ok || b2.Name() != "len" {
									return false
								}
								a := core.Canon(lc.Call.Args[0])
								if a == of {
									return true
								}
								// X = make([]T, len(Z)) : len(X) == len(Z)
								if mk, ok := of.(*ssa.MakeSlice); ok {
									if l2, ok := core.Canon(mk.Len).(*ssa.Call); ok {
										if b3, ok := l2.Call.Value.(*ssa.Builtin); ok && b3.Name() == "len" && core.Canon(l2.Call.Args[0]) == a {
											return true
										}
									}
								}
								return false
							}
						}
						ok2 := core.Guarded(fn, x, core.Eq(isLen(xs), isLen(y))) || lenEqAtCallers(c, fn, xs, y)
						c.Check(ok2, rule, key, x.Pos(), "indexed slice and ranged slice have checked equal lengths",
							"a slice is indexed with the loop variable of a range over another slice without a check that the two have the same length: a signature with fewer names than types indexes out of range, or leaves members of the list made for them without a type (panic, then or at the first use)")
					}
				}
			}
		}
	}
	if n == 0 {
		c.Undecided(rule, "meta/signature", token.NoPos, "no parser node builder site found")
	}
}

// wireIntegerSinks runs the wire-integer taint analysis.  With negOnly only
// the "negative length panics" class is reported (used by C12: a panic in a
// decoder takes the whole server down).
func wireIntegerSinks(c *core.Ctx, d *decoderSet, ruleAlloc, ruleLoop string, negOnly bool) (int, int) {
	intSize = 8
	for _, p := range c.Pkgs {
		if p.TypesSizes != nil {
			intSize = p.TypesSizes.Sizeof(types.Typ[types.Int])
			break
		}
	}
	sizeF := c.Field("bus/net", "Header", "Size")
	cs := &consume{d: d, memo: map[*ssa.Function]int{}}
	nSinks, nLoops := 0, 0
	allocP := allocParams(c, d)
	for _, fn := range d.funcs {
		if !notExample(fn) {
			continue
		}
		// only functions that read from the wire: members of D, their literals, and decoder roots
		if len(d.decoderCallsIn(fn)) == 0 && !(sizeF != nil && d.member[fn] && len(fieldAccesses(fn, sizeF)) > 0) {
			continue
		}
		taint := computeTaint(fn, d, sizeF)
		if len(taint) == 0 {
			continue
		}
		same := func(src ssa.Value) func(ssa.Value) bool {
			return func(v ssa.Value) bool {
				v = core.StripConv(v)
				if v == src {
					return true
				}
				if ti, ok := taint[v]; ok && ti.src == src && !ti.arith {
					return true
				}
				// repeated loads of the same field (m.Header.Size)
				return sameLen(v, src)
			}
		}
		check := func(in ssa.Instruction, v ssa.Value, what string, panicsOnNeg bool, ord *int) {
			if ruleAlloc == "" {
				return // loops only
			}
			ti, ok := taint[v]
			if !ok {
				if ti2, ok2 := taint[core.StripConv(v)]; ok2 {
					ti, ok = ti2, true
				}
			}
			if !ok {
				return
			}
			*ord++
			nSinks++
			key := fmt.Sprintf("%s/%s#%d", core.FuncKey(fn), what, *ord)
			upper := core.Guarded(fn, in, core.AnyOf(core.UpperBound(same(ti.src), 0), boundedByExisting(same(ti.src))))
			if !upper && isFieldOf(ti.src, sizeF) && isPrivateHelper(c, fn) {
				// a private helper entered only after its callers compared the same header field
				upper = guardedUp(c, fn, in, core.UpperBound(func(v ssa.Value) bool { return isFieldOf(core.StripConv(v), sizeF) }, 0))
			}
			if srcCall, _ := core.CallResult(ti.src); !upper && srcCall != nil && resultBounded(srcCall) {
				upper = true // the helper that read the integer compared it with a limit before returning it
			}
			if what == "reflect.Value.SetLen" {
				upper = true // SetLen allocates nothing; it only panics on a negative or over-capacity length
			}
			if !upper && negOnly {
				upper = true
			}
			if !upper {
				c.Fail(ruleAlloc, key, in.Pos(), what+" sized by an integer read from the input ("+c.Pos(ti.src.Pos())+") that is not compared with a constant limit first: a few bytes of input request an arbitrarily large allocation")
				return
			}
			if panicsOnNeg && ti.signed {
				if !core.Guarded(fn, in, core.LowerBound0(same(ti.src))) && !core.Guarded(fn, in, core.LowerBound0(func(x ssa.Value) bool { t2, ok := taint[core.StripConv(x)]; return ok && t2.src == ti.src })) {
					c.Fail(ruleAlloc, key, in.Pos(), what+" sized by a wire integer that went through a signed type without a lower-bound check: a length field >= 2^31 becomes negative and "+what+" panics")
					return
				}
			}
			c.Pass(ruleAlloc, key, in.Pos(), "bounded by a constant before use")
		}
		ord := 0
		for _, b := range fn.Blocks {
			for _, in := range b.Instrs {
				switch x := in.(type) {
				case *ssa.MakeSlice:
					check(in, x.Len, "make-slice", true, &ord)
					if x.Cap != x.Len {
						check(in, x.Cap, "make-slice-cap", true, &ord)
					}
				case *ssa.MakeMap:
					if x.Reserve != nil {
						check(in, x.Reserve, "make-map-hint", false, &ord)
					}
				case *ssa.MakeChan:
					check(in, x.Size, "make-chan", true, &ord)
				case *ssa.Call:
					f := x.Call.StaticCallee()
					if f == nil {
						continue
					}
					switch core.FuncKey(f) {
					case "reflect.MakeSlice":
						check(in, x.Call.Args[1], "reflect.MakeSlice", true, &ord)
					case "reflect.MakeMapWithSize":
						check(in, x.Call.Args[1], "reflect.MakeMapWithSize", false, &ord)
					case "reflect.Value.SetLen", "reflect.Value.SetCap":
						check(in, x.Call.Args[1], "reflect.Value.SetLen", true, &ord)
					case "bytes.Buffer.Grow":
						check(in, x.Call.Args[1], "Buffer.Grow", true, &ord)
					default:
						// a callee that sizes an allocation by this argument
						for j, a := range x.Call.Args {
							if allocP[f][j] {
								check(in, a, "alloc-in:"+core.FuncKey(f), true, &ord)
							}
						}
					}
				}
			}
		}
		// loops
		lord := 0
		for _, h := range fn.Blocks {
			if negOnly {
				break
			}
			back := false
			for _, p := range h.Preds {
				if h.Dominates(p) {
					back = true
				}
			}
			if !back || len(h.Instrs) == 0 {
				continue
			}
			ifi, ok := h.Instrs[len(h.Instrs)-1].(*ssa.If)
			if !ok {
				continue
			}
			cm, _ := core.CondCmp(ifi.Cond)
			var bound ssa.Value
			if ti, ok := taint[core.StripConv(cm.Y)]; ok && ti.src != nil {
				bound = cm.Y
			} else if ti, ok := taint[core.StripConv(cm.X)]; ok && ti.src != nil {
				bound = cm.X
			}
			if bound == nil {
				// range over a slice whose length is tainted is bounded by the allocation rule
				continue
			}
			ti := taint[core.StripConv(bound)]
			lord++
			nLoops++
			key := fmt.Sprintf("%s/loop#%d", core.FuncKey(fn), lord)
			if core.Guarded(fn, ifi, core.AnyOf(core.UpperBound(same(ti.src), 0), boundedByExisting(same(ti.src)))) {
				c.Pass(ruleLoop, key, ifi.Pos(), "trip count bounded by a constant or by the capacity of existing storage")
				continue
			}
			// every iteration consumes input
			isC := func(in ssa.Instruction) bool {
				call, ok := in.(ssa.CallInstruction)
				if !ok {
					return false
				}
				if mc, ok := call.Common().Value.(*ssa.MakeClosure); ok {
					if lit, ok := mc.Fn.(*ssa.Function); ok {
						return cs.fn(lit)
					}
				}
				return cs.callConsumes(call)
			}
			// an iteration also counts as consuming on the edges where the bytes a
			// signature reader returned are known to be non-empty: readers return
			// exactly what they consumed (rule C02/C03.readers)
			isReadLen := func(v ssa.Value) bool {
				cl, ok := core.StripConv(v).(*ssa.Call)
				if !ok {
					return false
				}
				bi, ok := cl.Call.Value.(*ssa.Builtin)
				if !ok || bi.Name() != "len" {
					return false
				}
				isReadResult := func(v ssa.Value) bool {
					src, idx := core.CallResult(core.Canon(v))
					if src == nil || idx != 0 {
						return false
					}
					cc := src.Common()
					return cc.IsInvoke() && cc.Method.Name() == "Read" && len(cc.Args) == 1
				}
				// the test moved into a predicate helper (isEmpty(data)): the parameter stands
				// for what every call site passes
				if p, isP := core.Canon(cl.Call.Args[0]).(*ssa.Parameter); isP && p.Parent() != nil && isPrivateHelper(c, p.Parent()) {
					sites, _ := c.CallSites()
					pj := -1
					for j, fp := range p.Parent().Params {
						if fp == p {
							pj = j
						}
					}
					if pj < 0 || len(sites[p.Parent()]) == 0 {
						return false
					}
					for _, site := range sites[p.Parent()] {
						if pj >= len(site.Common().Args) || !isReadResult(site.Common().Args[pj]) {
							return false
						}
					}
					return true
				}
				return isReadResult(cl.Call.Args[0])
			}
			nonEmpty := core.CutEstablishing(core.NonZero(isReadLen))
			// body entry: the successor from which the header is reachable again
			// can the loop go round without consuming?  (a flag set in the body that
			// makes the loop condition false ends the loop like a break)
			consumes := !core.SearchCycleThrough(h, isC, nonEmpty)
			c.Check(consumes, ruleLoop, key, ifi.Pos(), "every iteration consumes at least one input byte (iterations <= input length)",
				"the loop runs as many times as an integer read from the input says ("+c.Pos(ti.src.Pos())+"), with no constant limit and without a guarantee that each iteration consumes input: a count of 0xFFFFFFFF over zero-width elements spins for minutes on a few bytes")
		}
	}
	return nSinks, nLoops
}

// ruleBacktracking: grammar-level time bound of the signature and IDL parsers.
func ruleBacktracking(c *core.Ctx, rule string) {
	for _, rel := range []string{"meta/signature", "meta/idl"} {
		p := c.Pkg(rel)
		if p == nil {
			c.Undecided(rule, rel, token.NoPos, "package not loaded")
			continue
		}
		amb, n := choiceAmbiguities(p)
		if n == 0 {
			c.Undecided(rule, rel, token.NoPos, "no ordered choice found in the grammar")
			continue
		}
		for _, a := range amb {
			c.Fail(rule, "backtracking@"+rel+":"+strings.TrimPrefix(a.A, "&")+"|"+strings.TrimPrefix(a.B, "&"), a.Pos,
				fmt.Sprintf("the alternatives %s and %s of one ordered choice both start with %s: when the first fails after that prefix the parser parses the prefix again for the second, at every nesting level, so parse time doubles with each level of nesting (a 41-byte signature of 20 nested tuples takes 22 s; the signature of a dynamic value arrives on the wire)", a.A, a.B, strings.Join(a.Prefix, " ")))
		}
		c.Pass(rule, rel+"/choices", token.NoPos, fmt.Sprintf("%d ordered choices analysed, %d ambiguous prefixes", n, len(amb)))
	}
}

// ruleNilOnError: for every decoder call returning (value, error) with a
// pointer-like value, the value is not dereferenced (method invoked on an
// interface, field or element accessed, unchecked assertion) on a path on
// which the error may be non-nil.
func ruleNilOnError(c *core.Ctx, d *decoderSet, rule string) {
	n := 0
	for _, fn := range d.funcs {
		if !notExample(fn) || c.IsTestFile(fn) {
			continue
		}
		ord := 0
		for _, dc := range d.decoderCallsIn(fn) {
			cv, ok := dc.call.(*ssa.Call)
			if !ok || dc.errIdx < 0 {
				continue
			}
			e := errValueOf(dc)
			if e == nil {
				continue
			}
			isE := func(v ssa.Value) bool { return core.Canon(v) == e }
			var reach *core.Reach
			for _, r := range core.Referrers(cv) {
				x, ok := r.(*ssa.Extract)
				if !ok || x.Index == dc.errIdx {
					continue
				}
				switch x.Type().Underlying().(type) {
				case *types.Interface, *types.Pointer, *types.Map:
				default:
					continue
				}
				n++
				for _, u := range core.Referrers(x) {
					deref := false
					switch y := u.(type) {
					case ssa.CallInstruction:
						cc := y.Common()
						deref = cc.IsInvoke() && cc.Value == ssa.Value(x)
					case *ssa.FieldAddr:
						deref = y.X == ssa.Value(x)
					case *ssa.UnOp:
						deref = y.Op == token.MUL && y.X == ssa.Value(x)
					case *ssa.TypeAssert:
						deref = !y.CommaOk && y.X == ssa.Value(x)
					case *ssa.MapUpdate:
						deref = y.Map == ssa.Value(x)
					}
					if !deref {
						continue
					}
					if reach == nil {
						reach = core.ReachFrom(core.After(cv), nil, core.CutEstablishing(core.Eq(isE, core.IsNilConst)))
					}
					if reach.Has(u) {
						ord++
						c.Fail(rule, fmt.Sprintf("%s/%s#%d", core.FuncKey(fn), dc.callee, ord), u.Pos(),
							"the value returned by "+dc.callee+" is used (at "+c.Pos(u.Pos())+") on a path where its error may be set: decoders return a nil value with an error, so malformed input panics here instead of being reported")
					}
				}
			}
		}
	}
	c.Pass(rule, "decoder results", token.NoPos, fmt.Sprintf("%d pointer-like results of decoder calls examined", n))
}

// isNodeBuilderOrHelper: a node builder of the signature parser (nodify…,
// extract…) or an unexported function every static caller of which is one.
func isNodeBuilderOrHelper(c *core.Ctx, fn *ssa.Function, depth int) bool {
	if strings.Contains(fn.Name(), "nodify") || strings.Contains(fn.Name(), "extract") {
		return true
	}
	if depth > 2 || fn.Object() == nil || fn.Object().Exported() || fn.Signature.Recv() != nil {
		return false
	}
	sites, taken := c.CallSites()
	if taken[fn] || len(sites[fn]) == 0 {
		return false
	}
	for _, s := range sites[fn] {
		if !isNodeBuilderOrHelper(c, s.Parent(), depth+1) {
			return false
		}
	}
	return true
}

// lenEqAtCallers: xs and y are parameters of the private helper fn, and every
// call site of fn is behind a comparison of the lengths of the two arguments
// (the check stayed in the caller when the loop was extracted).
func lenEqAtCallers(c *core.Ctx, fn *ssa.Function, xs, y ssa.Value) bool {
	px, okx := xs.(*ssa.Parameter)
	py, oky := y.(*ssa.Parameter)
	if !okx || !oky || px.Parent() != fn || py.Parent() != fn || !isPrivateHelper(c, fn) {
		return false
	}
	ix, iy := -1, -1
	for i, p := range fn.Params {
		if p == px {
			ix = i
		}
		if p == py {
			iy = i
		}
	}
	sites, taken := c.CallSites()
	if ix < 0 || iy < 0 || taken[fn] || len(sites[fn]) == 0 {
		return false
	}
	lenOf := func(of ssa.Value) func(ssa.Value) bool {
		of = core.Canon(of)
		return func(v ssa.Value) bool {
			lc, ok := core.Canon(v).(*ssa.Call)
			if !ok {
				return false
			}
			b, ok := lc.Call.Value.(*ssa.Builtin)
			return ok && b.Name() == "len" && core.Canon(lc.Call.Args[0]) == of
		}
	}
	for _, cs := range sites[fn] {
		args := cs.Common().Args
		if ix >= len(args) || iy >= len(args) {
			return false
		}
		if !core.Guarded(cs.Parent(), cs.(ssa.Instruction), core.Eq(lenOf(args[ix]), lenOf(args[iy]))) {
			return false
		}
	}
	return true
}
