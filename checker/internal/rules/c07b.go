package rules

import (
	"fmt"
	"go/token"
	"go/types"
	"sort"
	"strings"

	"golang.org/x/tools/go/ssa"

	"qicheck/internal/core"
)

// ruleWireIntegerIndex: an integer read from the input (or computed from one)
// is used as an index, or as a bound of a slice expression, only behind a
// comparison with the length (or capacity) of the very thing that is indexed
// or sliced — or, for an array, with a constant that fits.  buf[n], buf[:n],
// table[kind] with n or kind taken from the wire panic with "index out of
// range" / "slice bounds out of range" in the goroutine that decodes when the
// peer sends a value one past what the code expects.
func ruleWireIntegerIndex(c *core.Ctx, d *decoderSet, rule string) {
	sizeF := c.Field("bus/net", "Header", "Size")
	n := 0
	for _, fn := range d.funcs {
		if !notExample(fn) || c.IsTestFile(fn) {
			continue
		}
		if len(d.decoderCallsIn(fn)) == 0 && !(sizeF != nil && d.member[fn] && len(fieldAccesses(fn, sizeF)) > 0) {
			continue
		}
		taint := computeTaint(fn, d, sizeF)
		if len(taint) == 0 {
			continue
		}
		tainted := func(v ssa.Value) (taintInfo, bool) {
			if v == nil {
				return taintInfo{}, false
			}
			if ti, ok := taint[v]; ok {
				return ti, true
			}
			ti, ok := taint[core.StripConv(v)]
			return ti, ok
		}
		ord := 0
		check := func(in ssa.Instruction, base, idx ssa.Value, strict bool, what string) {
			ti, ok := tainted(idx)
			if !ok {
				return
			}
			n++
			ord++
			key := fmt.Sprintf("%s/%s#%d", core.FuncKey(fn), what, ord)
			iv := core.StripConv(idx)
			isIdx := func(v ssa.Value) bool {
				v = core.StripConv(v)
				if v == iv || v == idx {
					return true
				}
				if ti.arith {
					return false // a bound on the source says nothing about a value computed from it
				}
				if v == ti.src {
					return true
				}
				t2, ok := taint[v]
				return ok && t2.src == ti.src && !t2.arith
			}
			b0 := core.StripConv(core.Canon(base))
			isLenOfBase := func(v ssa.Value) bool {
				cl, ok := core.StripConv(v).(*ssa.Call)
				if !ok {
					return false
				}
				bi, ok := cl.Call.Value.(*ssa.Builtin)
				if !ok || (bi.Name() != "len" && !(bi.Name() == "cap" && !strict)) {
					return false
				}
				a := core.StripConv(core.Canon(cl.Call.Args[0]))
				return a == b0 || sameLen(a, b0)
			}
			// idx < len(base) (index) or idx <= len(base) (slice bound)
			within := func(cm core.Cmp) (bool, bool) {
				x, y, op := cm.X, cm.Y, cm.Op
				if isLenOfBase(x) && isIdx(y) {
					x, y = y, x
					switch op {
					case token.LSS:
						op = token.GTR
					case token.LEQ:
						op = token.GEQ
					case token.GTR:
						op = token.LSS
					case token.GEQ:
						op = token.LEQ
					}
				}
				if !isIdx(x) || !isLenOfBase(y) {
					return false, false
				}
				switch op {
				case token.LSS:
					return true, false
				case token.LEQ:
					return !strict, false
				case token.GEQ:
					return false, true
				case token.GTR:
					return false, !strict
				}
				return false, false
			}
			// make([]T, n) ... buf[:n]: the storage was made with this very length
			if mk, ok := b0.(*ssa.MakeSlice); ok && !strict {
				if l := core.StripConv(mk.Len); l == iv || (!ti.arith && isIdx(l)) {
					c.Pass(rule, key, in.Pos(), "the slice was made with this length")
					return
				}
			}
			guard := core.EdgeMatcher(within)
			// arrays (and pointers to arrays): a constant bound that fits
			bt := base.Type().Underlying()
			if p, ok := bt.(*types.Pointer); ok {
				bt = p.Elem().Underlying()
			}
			if arr, ok := bt.(*types.Array); ok {
				lim := arr.Len()
				if strict {
					lim--
				}
				if lim >= 0 {
					guard = core.AnyOf(guard, func(cm core.Cmp) (bool, bool) {
						// idx <= K with K <= lim, idx < K with K <= lim+1
						x, y, op := cm.X, cm.Y, cm.Op
						if isIdx(y) {
							x, y = y, x
							switch op {
							case token.LSS:
								op = token.GTR
							case token.LEQ:
								op = token.GEQ
							case token.GTR:
								op = token.LSS
							case token.GEQ:
								op = token.LEQ
							}
						}
						k, isK := core.ConstInt(y)
						if !isIdx(x) || !isK {
							return false, false
						}
						switch op {
						case token.LSS:
							return k <= lim+1, false
						case token.LEQ:
							return k <= lim, false
						case token.GEQ:
							return false, k <= lim+1
						case token.GTR:
							return false, k <= lim
						}
						return false, false
					})
				}
				// idx = x & mask / x % K with a constant that fits
				if bo, ok := iv.(*ssa.BinOp); ok {
					if k, isK := core.ConstInt(bo.Y); isK {
						if (bo.Op == token.AND && k >= 0 && k <= lim) || (bo.Op == token.REM && k > 0 && k-1 <= lim && !ti.signed) {
							c.Pass(rule, key, in.Pos(), "masked to the size of the array")
							return
						}
					}
				}
			}
			if !core.Guarded(fn, in, guard) {
				c.Fail(rule, key, in.Pos(), what+" taken from an integer read from the input ("+c.Pos(ti.src.Pos())+") without a comparison with the length of what is indexed: a value one past the end, which any peer can send, panics (index or slice bounds out of range) in the goroutine that decodes")
				return
			}
			if ti.signed {
				lower := core.LowerBound0(isIdx)
				if !core.Guarded(fn, in, lower) {
					c.Fail(rule, key, in.Pos(), what+" taken from a wire integer that went through a signed type without a lower-bound check: a field >= 2^31 becomes negative and the expression panics")
					return
				}
			}
			c.Pass(rule, key, in.Pos(), "compared with the length of the indexed value first")
		}
		for _, b := range fn.Blocks {
			for _, in := range b.Instrs {
				switch x := in.(type) {
				case *ssa.IndexAddr:
					check(in, x.X, x.Index, true, "index")
				case *ssa.Index:
					check(in, x.X, x.Index, true, "index")
				case *ssa.Lookup:
					if bt, ok := x.X.Type().Underlying().(*types.Basic); ok && bt.Info()&types.IsString != 0 {
						check(in, x.X, x.Index, true, "index")
					}
				case *ssa.Slice:
					check(in, x.X, x.Low, false, "slice-low")
					check(in, x.X, x.High, false, "slice-high")
					check(in, x.X, x.Max, false, "slice-max")
				}
			}
		}
	}
	if n == 0 {
		c.PassTrivial(rule, "wire-integer-index", token.NoPos, "no decoder indexes or slices with an integer read from the input")
	}
}

// ruleDecoderRoots: functions outside the decoder set that decode — from a
// reader they build over bytes they were given (decoder roots: stub methods,
// proxies, handlers), or from a reader handed to them although they have no
// error result — look at the error of every decoding step: an error that is
// dropped there accepts a truncated encoding exactly like one dropped inside
// a decoder.
func ruleDecoderRoots(c *core.Ctx, d *decoderSet, rule string) int {
	n := 0
	for _, fn := range d.funcs {
		if d.member[fn] || !notExample(fn) || c.IsTestFile(fn) {
			continue
		}
		ord := map[string]int{}
		for _, dc := range d.decoderCallsIn(fn) {
			if _, isAlloc := core.Canon(dc.reader).(*ssa.Alloc); isAlloc && !dc.prop {
				// a buffer that starts empty in this function: what is read back from
				// it was written by the function itself (value.Bytes strips the
				// signature it has just encoded), and the encoders that fill it are
				// not decoding steps
				continue
			}
			ord[dc.callee]++
			key := fmt.Sprintf("%s/root-call:%s#%d", core.FuncKey(fn), dc.callee, ord[dc.callee])
			n++
			if _, isGo := dc.call.(*ssa.Go); isGo {
				c.Fail(rule, key, dc.call.Pos(), "a decoding step runs asynchronously: its error cannot be acted upon")
				continue
			}
			e := errValueOf(dc)
			if e == nil {
				c.Fail(rule, key, dc.call.Pos(), "the error returned by "+dc.callee+" is discarded: a truncated input is accepted and the rest is left zero-filled")
				continue
			}
			tested := false
			for _, u := range allUses(e) {
				switch x := u.(type) {
				case *ssa.BinOp:
					if x.Op == token.NEQ || x.Op == token.EQL {
						tested = true
					}
				case *ssa.Return:
					tested = true
				case ssa.CallInstruction:
					tested = true // handed on (SendError, a callback, a wrapper)
				case *ssa.Store, *ssa.Send, *ssa.MakeInterface:
					tested = true
				}
			}
			c.Check(tested, rule, key, dc.call.Pos(), "the error of the decoding step is looked at", "the error returned by "+dc.callee+" is never looked at (overwritten or ignored): a truncated input is accepted as if decoding had succeeded")
		}
	}
	return n
}

// ruleStructGoFieldNames: the Go representation of a struct type (and of a
// tuple) names its fields after the members: every reflect.StructField built
// by StructType.Type / TupleType.Type — directly, or in the functions of the
// package they hand the members to — takes its Name from the Name of a member.
// type/conversion matches struct fields by name; a representation with
// positional or fabricated names converts to a zero value without an error.
func ruleStructGoFieldNames(c *core.Ctx, rule string) {
	member := c.Named("meta/signature", "MemberType")
	if member == nil {
		c.Undecided(rule, "meta/signature.MemberType", token.NoPos, "anchor not found")
		return
	}
	isMemberName := func(v ssa.Value) bool {
		var st types.Type
		var idx int
		switch x := v.(type) {
		case *ssa.Field:
			st, idx = x.X.Type(), x.Field
		case *ssa.UnOp:
			fa, ok := x.X.(*ssa.FieldAddr)
			if !ok || x.Op != token.MUL {
				return false
			}
			st, idx = fa.X.Type().Underlying().(*types.Pointer).Elem(), fa.Field
		default:
			return false
		}
		if !types.Identical(st, member) {
			return false
		}
		s, _ := member.Underlying().(*types.Struct)
		return s != nil && idx < s.NumFields() && s.Field(idx).Name() == "Name"
	}
	var derives func(v ssa.Value, depth int) bool
	derives = func(v ssa.Value, depth int) bool {
		if depth > 6 {
			return false
		}
		v = core.Canon(v)
		if isMemberName(v) {
			return true
		}
		switch x := v.(type) {
		case *ssa.Call:
			for _, a := range x.Call.Args {
				if derives(a, depth+1) {
					return true
				}
			}
		case *ssa.Phi:
			for _, e := range x.Edges {
				if !derives(e, depth+1) {
					return false
				}
			}
			return len(x.Edges) > 0
		case *ssa.BinOp:
			return derives(x.X, depth+1) || derives(x.Y, depth+1)
		case *ssa.Convert:
			return derives(x.X, depth+1)
		case *ssa.ChangeType:
			return derives(x.X, depth+1)
		case *ssa.Extract:
			return derives(x.Tuple, depth+1)
		case *ssa.Parameter:
			// a helper's parameter: every static call site passes a member name
			fn := x.Parent()
			if !isPrivateHelper(c, fn) {
				return false
			}
			all, _ := c.CallSites()
			sites := all[fn]
			pi := -1
			for i, p := range fn.Params {
				if p == x {
					pi = i
				}
			}
			if len(sites) == 0 || pi < 0 {
				return false
			}
			for _, cs := range sites {
				if pi >= len(cs.Common().Args) || !derives(cs.Common().Args[pi], depth+1) {
					return false
				}
			}
			return true
		}
		return false
	}
	n := 0
	for _, recv := range []string{"StructType", "TupleType"} {
		root := c.Func("meta/signature", recv, "Type")
		if root == nil {
			c.Undecided(rule, "meta/signature."+recv+".Type", token.NoPos, "anchor not found")
			continue
		}
		// the function and the functions of its package it calls (two levels)
		unit := []*ssa.Function{root}
		seen := map[*ssa.Function]bool{root: true}
		for i := 0; i < len(unit) && i < 12; i++ {
			for _, call := range core.Calls(unit[i]) {
				f := core.StaticCallee(call)
				if f == nil || seen[f] || f.Pkg != root.Pkg || len(f.Blocks) == 0 {
					continue
				}
				// only callees that take part in building the representation
				res := f.Signature.Results()
				if res.Len() == 0 {
					continue
				}
				takes := false
				for j := 0; j < res.Len(); j++ {
					if core.TypeIs(res.At(j).Type(), "reflect", "Type") || core.TypeIs(res.At(j).Type(), "reflect", "StructField") || strings.Contains(res.At(j).Type().String(), "reflect.StructField") {
						takes = true
					}
				}
				if !takes {
					continue
				}
				// the Type() of a member type is another type's representation, not this one's
				if f.Name() == "Type" && f != root && !(recv == "StructType" && f == c.Func("meta/signature", "TupleType", "Type")) {
					continue
				}
				seen[f] = true
				unit = append(unit, f)
			}
		}
		found := 0
		for _, fn := range unit {
			for _, b := range fn.Blocks {
				for _, in := range b.Instrs {
					st, ok := in.(*ssa.Store)
					if !ok {
						continue
					}
					fa, ok := st.Addr.(*ssa.FieldAddr)
					if !ok {
						continue
					}
					pt, ok := fa.X.Type().Underlying().(*types.Pointer)
					if !ok || !core.TypeIs(pt.Elem(), "reflect", "StructField") {
						continue
					}
					sf, _ := pt.Elem().Underlying().(*types.Struct)
					if sf == nil || sf.Field(fa.Field).Name() != "Name" {
						continue
					}
					found++
					n++
					key := fmt.Sprintf("meta/signature.%s.Type/field-name@%s#%d", recv, core.FuncKey(fn), found)
					c.Check(derives(st.Val, 0), rule, key, st.Pos(), "the Go field is named after the member",
						"the Go representation of a "+recv+" names a field with something that does not come from the member's name: the struct type conversion matches fields by name, so a value converted into the declared struct comes out zero without an error, and the representation no longer agrees with the signature's member names")
				}
			}
		}
		if found == 0 {
			c.Undecided(rule, "meta/signature."+recv+".Type", root.Pos(), "no reflect.StructField is built by "+recv+".Type or the functions it hands its members to: the rule cannot see how the fields are named")
		}
	}
	_ = n
}

// ---------------------------------------------------------------- nil maps

type nilMapAnalysis struct {
	memo map[*ssa.Function]map[int]int // 0 unknown/in progress, 1 may be nil, 2 never nil
}

// nonNilEdge: the value e reaches phi through predecessor i on an edge that
// established e != nil (if e == nil { e = make(...) } joins on the false edge).
func nonNilEdge(phi *ssa.Phi, i int, e ssa.Value) bool {
	if i >= len(phi.Block().Preds) {
		return false
	}
	p := phi.Block().Preds[i]
	// walk up through single-predecessor chains to the deciding If
	for hops := 0; hops < 4; hops++ {
		if len(p.Instrs) > 0 {
			if ifi, ok := p.Instrs[len(p.Instrs)-1].(*ssa.If); ok {
				cm, neg := core.CondCmp(ifi.Cond)
				isE := func(v ssa.Value) bool { return core.Canon(v) == core.Canon(e) }
				var other ssa.Value
				if isE(cm.X) {
					other = cm.Y
				} else if isE(cm.Y) {
					other = cm.X
				}
				if other != nil && core.IsNilConst(other) {
					// which successor leads to phi's block?
					next := phi.Block()
					if hops > 0 {
						return false
					}
					tEdge := p.Succs[0] == next
					eq := cm.Op == token.EQL
					if neg {
						eq = !eq
					}
					// e == nil: true edge is the nil side
					if eq {
						return !tEdge
					}
					return tEdge
				}
				return false
			}
		}
		if len(p.Preds) != 1 {
			return false
		}
		p = p.Preds[0]
	}
	return false
}

func (a *nilMapAnalysis) mayBeNil(v ssa.Value, depth int, seen map[ssa.Value]bool) bool {
	if depth > 8 || v == nil {
		return false
	}
	v = core.Canon(v)
	if seen[v] {
		return false
	}
	seen[v] = true
	switch x := v.(type) {
	case *ssa.Const:
		return x.IsNil()
	case *ssa.MakeMap:
		return false
	case *ssa.Phi:
		for i, e := range x.Edges {
			if nonNilEdge(x, i, e) {
				continue
			}
			if a.mayBeNil(e, depth+1, seen) {
				return true
			}
		}
		return false
	case *ssa.Extract:
		if call, ok := x.Tuple.(*ssa.Call); ok {
			return a.callMayReturnNil(call, x.Index, depth)
		}
	case *ssa.Call:
		return a.callMayReturnNil(x, 0, depth)
	case *ssa.ChangeType:
		return a.mayBeNil(x.X, depth+1, seen)
	}
	return false
}

func (a *nilMapAnalysis) callMayReturnNil(call *ssa.Call, idx int, depth int) bool {
	f := call.Call.StaticCallee()
	if f == nil || !inRepo(f) || len(f.Blocks) == 0 {
		return false
	}
	if a.memo[f] == nil {
		a.memo[f] = map[int]int{}
	}
	switch a.memo[f][idx] {
	case 1:
		return true
	case 2:
		return false
	}
	a.memo[f][idx] = 2 // recursion: assume fine
	res := false
	for _, r := range core.Returns(f) {
		if errorReturnConst(r) || idx >= len(r.Results) {
			continue // a failure return: the caller does not use the value
		}
		if a.mayBeNil(core.RetVal(r, idx), depth+1, map[ssa.Value]bool{}) {
			res = true
		}
	}
	if res {
		a.memo[f][idx] = 1
	}
	return res
}

// ruleNoNilMapWrite: no map that can be nil is written.  A decoder (or any
// function of the repository) that can hand back a nil map on a success path —
// the zero value of a named result when the announced count is zero — and a
// caller that stores into the result: assignment to entry in nil map panics in
// the goroutine that decodes, for the input with no entries.
func ruleNoNilMapWrite(c *core.Ctx, rule string, rels ...string) {
	a := &nilMapAnalysis{memo: map[*ssa.Function]map[int]int{}}
	n, bad := 0, 0
	for _, rel := range withExamples(rels) {
		for _, fn := range c.RepoFuncs(rel) {
			if c.IsTestFile(fn) || !notExample(fn) {
				continue
			}
			for _, b := range fn.Blocks {
				for _, in := range b.Instrs {
					mu, ok := in.(*ssa.MapUpdate)
					if !ok {
						continue
					}
					n++
					if a.mayBeNil(mu.Map, 0, map[ssa.Value]bool{}) {
						// a dominating m != nil test protects the write
						m0 := core.Canon(mu.Map)
						isM := func(v ssa.Value) bool { return core.Canon(v) == m0 }
						if core.Guarded(fn, mu, core.Ne(isM, core.IsNilConst)) {
							continue
						}
						bad++
						c.Fail(rule, fmt.Sprintf("nil-map-write@%s#%d", core.FuncKey(fn), bad), mu.Pos(), "the map written here can be nil: it is the result of a function that returns the zero map on a success path (no entry announced) or a variable that is only made on some paths; assignment to an entry in a nil map panics, for the input with no entries, in the goroutine that decodes")
					}
				}
			}
		}
	}
	c.Pass(rule, "map-writes", token.NoPos, fmt.Sprintf("%d map writes examined, %d on a possibly nil map", n, bad))
}

// reentrantThroughCalls: while a function holds a mutex (class = struct type +
// field), nothing it calls — statically, through an interface or through a
// registered callback (call graph: CHA, `go` edges excluded) — comes back to
// an acquisition of a mutex of that class.  The registration of a connection
// handler whose closer unregisters the subscriber is the case in point:
// RemoveHandler runs the closer, the closer takes the lock its caller holds.
// Classes are not objects: a path that provably concerns another object of
// the class (none on the tree) would need an exception with its reason.
func reentrantThroughCalls(c *core.Ctx, lc *core.LockCache, rule string, fns []*ssa.Function, skip map[core.LockClass]string) int {
	cg := c.VTA() // function values by type flow: CHA resolves a func() field to every func() of the program
	acquires := map[*ssa.Function]map[core.LockClass]bool{}
	for _, fn := range c.RepoFuncs() {
		if c.IsTestFile(fn) {
			continue
		}
		for _, call := range core.Calls(fn) {
			if _, isDefer := call.(*ssa.Defer); isDefer {
				continue
			}
			if op, ok := core.LockOpOf(call); ok && (op.Kind == core.OpLock || op.Kind == core.OpRLock) {
				if acquires[fn] == nil {
					acquires[fn] = map[core.LockClass]bool{}
				}
				acquires[fn][op.Class] = true
			}
		}
	}
	n := 0
	for _, fn := range fns {
		lf := lc.Get(fn)
		if lf.Ops == 0 {
			continue
		}
		node := cg.Nodes[fn]
		if node == nil {
			continue
		}
		for _, e := range node.Out {
			site, plain := e.Site.(*ssa.Call)
			if !plain || e.Callee.Func == nil {
				continue
			}
			if _, isOp := core.LockOpOf(site); isOp {
				continue
			}
			held := map[core.LockClass]bool{}
			for k := range lf.MayHeld(site) {
				if skip[k] == "" {
					held[k] = true
				}
			}
			if len(held) == 0 {
				continue
			}
			n++
			// BFS from the callee
			type item struct {
				fn   *ssa.Function
				path []string
			}
			start := e.Callee.Func
			if start.Pkg == nil || !strings.HasPrefix(start.Pkg.Pkg.Path(), core.Module) || strings.Contains(start.Pkg.Pkg.Path(), "/examples/") || strings.Contains(start.Pkg.Pkg.Path(), "/cmd/") {
				continue
			}
			seen := map[*ssa.Function]bool{start: true}
			q := []item{{start, []string{core.FuncKey(start)}}}
			for len(q) > 0 {
				it := q[0]
				q = q[1:]
				hit := false
				for k := range held {
					if acquires[it.fn][k] {
						c.Fail(rule, fmt.Sprintf("reentrant-through@%s->%s/%s", core.FuncKey(fn), core.FuncKey(it.fn), k.Field), site.Pos(),
							fmt.Sprintf("%s is held across this call, which can come back to an acquisition of it: %s (a plain mutex, or a read lock with a writer waiting, dead-locks the goroutine — the object's mailbox or the connection's reader — for good)", k, strings.Join(it.path, " -> ")))
						hit = true
					}
				}
				if hit || len(it.path) > 8 {
					continue
				}
				nd := cg.Nodes[it.fn]
				if nd == nil {
					continue
				}
				var outs []*ssa.Function
				for _, e2 := range nd.Out {
					if _, isGo := e2.Site.(*ssa.Go); isGo {
						continue
					}
					g := e2.Callee.Func
					if g == nil || g.Pkg == nil || !strings.HasPrefix(g.Pkg.Pkg.Path(), core.Module) || seen[g] {
						continue
					}
					if c.IsTestFile(g) || strings.Contains(g.Pkg.Pkg.Path(), "/examples/") || strings.Contains(g.Pkg.Pkg.Path(), "/cmd/") {
						continue
					}
					seen[g] = true
					outs = append(outs, g)
				}
				sort.Slice(outs, func(i, j int) bool { return core.FuncKey(outs[i]) < core.FuncKey(outs[j]) })
				for _, g := range outs {
					q = append(q, item{g, append(append([]string{}, it.path...), core.FuncKey(g))})
				}
			}
		}
	}
	return n
}

// ruleNoStaleElementPointer: a pointer to an element of a table held in a
// struct field (p := &t.list[i]) is not read through after an element of that
// table has been overwritten in the same function (t.list[i] = t.list[last]):
// what it designates is then another entry.  Removing a subscriber and then
// reading "its" handler id through such a pointer drops the handler of the
// entry that was swapped in.  Copies taken before the store (for i, e := range
// t.list) are not concerned.
func ruleNoStaleElementPointer(c *core.Ctx, rule string, fns []*ssa.Function) int {
	n := 0
	for _, fn := range fns {
		// element stores per table field
		type estore struct {
			in  *ssa.Store
			fld *types.Var
		}
		var stores []estore
		fieldOfSlice := func(sl ssa.Value) *types.Var {
			p := core.AccessPath(sl)
			if len(p.Fields) == 0 {
				return nil
			}
			return p.Fields[len(p.Fields)-1]
		}
		for _, b := range fn.Blocks {
			for _, in := range b.Instrs {
				st, ok := in.(*ssa.Store)
				if !ok {
					continue
				}
				ia, ok := st.Addr.(*ssa.IndexAddr)
				if !ok {
					continue
				}
				if _, isSlice := ia.X.Type().Underlying().(*types.Slice); !isSlice {
					continue
				}
				if f := fieldOfSlice(ia.X); f != nil {
					stores = append(stores, estore{st, f})
				}
			}
		}
		if len(stores) == 0 {
			continue
		}
		for _, b := range fn.Blocks {
			for _, in := range b.Instrs {
				ia, ok := in.(*ssa.IndexAddr)
				if !ok {
					continue
				}
				if _, isSlice := ia.X.Type().Underlying().(*types.Slice); !isSlice {
					continue
				}
				f := fieldOfSlice(ia.X)
				if f == nil {
					continue
				}
				// reads through the pointer: loads of it, or of a field address derived from it
				var reads []ssa.Instruction
				var walk func(v ssa.Value, depth int)
				walk = func(v ssa.Value, depth int) {
					if depth > 3 {
						return
					}
					for _, r := range core.Referrers(v) {
						switch x := r.(type) {
						case *ssa.UnOp:
							if x.Op == token.MUL {
								reads = append(reads, x)
							}
						case *ssa.FieldAddr:
							walk(x, depth+1)
						}
					}
				}
				walk(ia, 0)
				if len(reads) == 0 {
					continue
				}
				for _, es := range stores {
					if es.fld != f || es.in.Addr == ssa.Value(ia) {
						continue
					}
					// the store happens after the pointer was taken, and a read follows the store
					afterPtr := core.ReachFrom(core.After(ia), nil, nil)
					if !afterPtr.Has(es.in) {
						continue
					}
					afterStore := core.ReachFrom(core.After(es.in), func(x ssa.Instruction) bool { return x == ssa.Instruction(ia) }, nil)
					for _, rd := range reads {
						if afterStore.Has(rd) {
							n++
							c.Fail(rule, fmt.Sprintf("stale-element-pointer@%s/%s#%d", core.FuncKey(fn), f.Name(), n), rd.Pos(),
								fmt.Sprintf("an entry of %s is read through a pointer taken before another entry was written over it (%s): the pointer now designates the entry that was moved there, so the wrong subscriber's handler, id or channel is used", f.Name(), c.Pos(es.in.Pos())))
							break
						}
					}
				}
			}
		}
	}
	return n
}

// ruleNoLoopVarAddressKept: under the loop semantics this module compiles with
// (go.mod: a `go` version before 1.22 gives one variable for all iterations),
// the address of a loop variable is not stored into a map, a slice, a field or
// a goroutine's closure inside the loop: every entry then designates the one
// variable, i.e. the element visited last.  Decided on SSA, where such a
// variable is one heap cell allocated outside the loop and stored into on
// every iteration — so the rule is silent by construction once the module
// moves to per-iteration variables.
func ruleNoLoopVarAddressKept(c *core.Ctx, rule string, rels ...string) {
	n, bad := 0, 0
	for _, rel := range withExamples(rels) {
		for _, fn := range srcFuncsOfPkg(c, rel) {
			inLoop := map[*ssa.BasicBlock]bool{}
			for _, b := range fn.Blocks {
				// b is in a cycle if it is reachable from one of its successors
				seen := map[*ssa.BasicBlock]bool{}
				var q []*ssa.BasicBlock
				q = append(q, b.Succs...)
				for len(q) > 0 {
					x := q[0]
					q = q[1:]
					if seen[x] {
						continue
					}
					seen[x] = true
					if x == b {
						inLoop[b] = true
						break
					}
					q = append(q, x.Succs...)
				}
			}
			for _, b := range fn.Blocks {
				for _, in := range b.Instrs {
					al, ok := in.(*ssa.Alloc)
					if !ok || !al.Heap || inLoop[al.Block()] {
						continue
					}
					storedInLoop := false
					var kept ssa.Instruction
					for _, r := range core.Referrers(al) {
						if !inLoop[r.Block()] {
							continue
						}
						switch x := r.(type) {
						case *ssa.Store:
							if x.Addr == ssa.Value(al) {
								storedInLoop = true
							} else if x.Val == ssa.Value(al) {
								kept = x
							}
						case *ssa.MapUpdate:
							if x.Value == ssa.Value(al) || x.Key == ssa.Value(al) {
								kept = x
							}
						case *ssa.MakeInterface:
							// boxed, then stored
							for _, r2 := range core.Referrers(x) {
								switch y := r2.(type) {
								case *ssa.Store:
									kept = y
								case *ssa.MapUpdate:
									kept = y
								}
							}
						case *ssa.MakeClosure:
							for _, r2 := range core.Referrers(x) {
								if _, isGo := r2.(*ssa.Go); isGo {
									kept = r2
								}
							}
						}
					}
					if !storedInLoop {
						continue
					}
					n++
					if kept != nil {
						bad++
						c.Fail(rule, fmt.Sprintf("loop-variable-address@%s#%d", core.FuncKey(fn), bad), kept.Pos(),
							"the address of a variable that is shared by all iterations of the loop (this module's go version gives one variable per loop) is kept beyond the iteration: every entry stored designates the same variable, which ends up holding the element visited last — with two or more elements all entries print as the last one")
					}
				}
			}
		}
	}
	c.Pass(rule, "loop-variables", token.NoPos, fmt.Sprintf("%d loop-carried heap variables examined, %d whose address is kept beyond the iteration", n, bad))
}

// ruleParserKeepsNoState: the entry points of a parser package (and the
// functions of the package they reach) use no package-level variable that is
// modified after initialisation, nor one initialised from such a variable: a
// context, scope or cache shared between two parses makes the result of the
// second depend on the first (a struct name resolved to the definition of an
// earlier, unrelated input).  Read-only tables are fine.
func ruleParserKeepsNoState(c *core.Ctx, rule, rel string, entries ...string) {
	sp := c.SSAPkg(rel)
	if sp == nil {
		c.Undecided(rule, rel, token.NoPos, "package not loaded")
		return
	}
	fns := srcFuncsOfPkg(c, rel)
	isInit := func(fn *ssa.Function) bool {
		for fn.Parent() != nil {
			fn = fn.Parent()
		}
		return fn.Name() == "init" || strings.HasPrefix(fn.Name(), "init#")
	}
	globalRoot := func(v ssa.Value) *ssa.Global {
		for depth := 0; depth < 8; depth++ {
			switch x := v.(type) {
			case *ssa.Global:
				if x.Pkg == sp {
					return x
				}
				return nil
			case *ssa.FieldAddr:
				v = x.X
			case *ssa.IndexAddr:
				v = x.X
			case *ssa.UnOp:
				v = x.X
			case *ssa.Field:
				v = x.X
			default:
				return nil
			}
		}
		return nil
	}
	mutable := map[*ssa.Global]token.Pos{}
	initFrom := map[*ssa.Global][]*ssa.Global{} // g initialised by an expression using these globals
	var initFns []*ssa.Function
	if f := sp.Func("init"); f != nil {
		initFns = append(initFns, f)
	}
	for _, fn := range append(fns, initFns...) {
		for _, b := range fn.Blocks {
			for _, in := range b.Instrs {
				switch x := in.(type) {
				case *ssa.Store:
					g := globalRoot(x.Addr)
					if g == nil {
						continue
					}
					if !isInit(fn) {
						mutable[g] = x.Pos()
					} else if direct, ok := x.Addr.(*ssa.Global); ok && direct == g {
						// g = <expr>: which globals does the expression use?
						seen := map[ssa.Value]bool{}
						var walk func(v ssa.Value, depth int)
						walk = func(v ssa.Value, depth int) {
							if v == nil || seen[v] || depth > 6 {
								return
							}
							seen[v] = true
							if g2 := globalRoot(v); g2 != nil && g2 != g {
								initFrom[g] = append(initFrom[g], g2)
							}
							if vi, ok := v.(ssa.Instruction); ok {
								for _, op := range vi.Operands(nil) {
									walk(*op, depth+1)
								}
							}
						}
						walk(x.Val, 0)
					}
				case *ssa.MapUpdate:
					if g := globalRoot(x.Map); g != nil && !isInit(fn) {
						mutable[g] = x.Pos()
					}
				}
			}
		}
	}
	for changed := true; changed; {
		changed = false
		for g, from := range initFrom {
			if _, ok := mutable[g]; ok {
				continue
			}
			for _, g2 := range from {
				if p, ok := mutable[g2]; ok {
					mutable[g] = p
					changed = true
				}
			}
		}
	}
	// the unit of the entry points
	var unit []*ssa.Function
	seen := map[*ssa.Function]bool{}
	for _, name := range entries {
		if f := sp.Func(name); f != nil {
			unit = append(unit, f)
			seen[f] = true
		} else {
			c.Undecided(rule, rel+"."+name, token.NoPos, "anchor not found")
		}
	}
	for i := 0; i < len(unit); i++ {
		for _, f := range core.AnonFuncs(unit[i]) {
			for _, call := range core.Calls(f) {
				g := core.StaticCallee(call)
				if g == nil || seen[g] || g.Pkg != sp || len(g.Blocks) == 0 {
					continue
				}
				seen[g] = true
				unit = append(unit, g)
			}
		}
	}
	bad := 0
	for _, fn := range unit {
		for _, f := range core.AnonFuncs(fn) {
			for _, b := range f.Blocks {
				for _, in := range b.Instrs {
					for _, op := range in.Operands(nil) {
						g, ok := (*op).(*ssa.Global)
						if !ok || g.Pkg != sp {
							continue
						}
						if p, isMut := mutable[g]; isMut {
							bad++
							c.Fail(rule, fmt.Sprintf("%s.%s/shared-state:%s", rel, fn.Name(), g.Name()), in.Pos(),
								fmt.Sprintf("the parser uses the package-level variable %s, which is modified after initialisation (%s) or was built from one that is: two parses share it, so what the first one declared (a struct of the same name, a scope) leaks into the result of the second", g.Name(), c.Pos(p)))
						}
					}
				}
			}
		}
	}
	if bad == 0 {
		c.Pass(rule, rel+"/stateless", token.NoPos, fmt.Sprintf("%d functions reached from %s use no package-level variable that changes after initialisation (%d such variables in the package)", len(unit), strings.Join(entries, ", "), len(mutable)))
	}
}

// ruleReferenceRecursionGuard: a type reference of the IDL (RefType) that
// hands a question on to the type it designates (Signature, SignatureIDL,
// Type, Reader, Marshal …) does so with the reference marked as being visited,
// and refuses to resolve while it is marked.  Without that, `struct A a: A
// end` makes the question go round for ever: a fatal stack overflow on a few
// bytes of text, in the parser's own goroutine.
func ruleReferenceRecursionGuard(c *core.Ctx, rule string) {
	ref := c.Named("meta/idl", "RefType")
	typeIface := c.Named("meta/signature", "Type")
	if ref == nil || typeIface == nil {
		c.Undecided(rule, "meta/idl.RefType", token.NoPos, "anchor not found")
		return
	}
	st, _ := ref.Underlying().(*types.Struct)
	isFlag := func(v ssa.Value) bool {
		p := core.AccessPath(v)
		if len(p.Fields) != 1 || st == nil {
			return false
		}
		f := p.Fields[0]
		b, ok := f.Type().Underlying().(*types.Basic)
		if !ok || b.Kind() != types.Bool {
			return false
		}
		for i := 0; i < st.NumFields(); i++ {
			if st.Field(i) == f {
				_, isParam := core.RootOf(v).(*ssa.Parameter)
				return isParam
			}
		}
		return false
	}
	marks := func(fn *ssa.Function) bool {
		// stores true into a flag of the receiver, on every path
		var sts []ssa.Instruction
		for _, b := range fn.Blocks {
			for _, in := range b.Instrs {
				if s, ok := in.(*ssa.Store); ok {
					if k, isConst := core.ConstBool(s.Val); isConst && k && isFlag(s.Addr) {
						sts = append(sts, s)
					}
				}
			}
		}
		if len(sts) == 0 {
			return false
		}
		for _, r := range core.Returns(fn) {
			if !core.MustPassBefore(fn, r, func(x ssa.Instruction) bool {
				for _, s := range sts {
					if s == x {
						return true
					}
				}
				return false
			}) {
				return false
			}
		}
		return true
	}
	isRefMethod := func(f *ssa.Function) bool {
		if f == nil || f.Signature.Recv() == nil {
			return false
		}
		t := f.Signature.Recv().Type()
		if p, ok := t.(*types.Pointer); ok {
			t = p.Elem()
		}
		return types.Identical(t, ref)
	}
	n := 0
	for _, fn := range srcFuncsOfPkg(c, "meta/idl") {
		if fn.Parent() != nil || !isRefMethod(fn) {
			continue
		}
		for i, call := range core.Calls(fn) {
			cc := call.Common()
			if !cc.IsInvoke() || !types.Identical(cc.Value.Type(), typeIface) {
				continue
			}
			// the designated type: the first result of a lookup
			lk, idx := core.CallResult(core.Canon(cc.Value))
			if lk == nil || idx > 0 {
				continue
			}
			in, ok := call.(*ssa.Call)
			if !ok {
				continue
			}
			// only where the lookup succeeded: what is done with the (nil) type of a failed
			// lookup is another matter
			isLkErr := func(v ssa.Value) bool {
				e, ok := core.Canon(v).(*ssa.Extract)
				return ok && e.Tuple == ssa.Value(lk) && e.Index == 1
			}
			if !core.Guarded(fn, in, core.Eq(isLkErr, core.IsNilConst)) {
				continue
			}
			n++
			key := fmt.Sprintf("meta/idl.RefType.%s/delegates:%s#%d", fn.Name(), cc.Method.Name(), i)
			// (1) the lookup refuses while the reference is being visited
			refuses := false
			if h := lk.Call.StaticCallee(); h != nil && isRefMethod(h) && len(h.Blocks) > 0 {
				refuses = true
				nOK := 0
				for _, r := range core.Returns(h) {
					if errorReturnConst(r) {
						continue
					}
					nOK++
					if !core.Guarded(h, r, core.IsFalse(isFlag)) {
						refuses = false
					}
				}
				if nOK == 0 {
					refuses = false
				}
			} else if core.Guarded(fn, in, core.IsFalse(isFlag)) {
				refuses = true
			}
			// (2) the reference is marked before the question is handed on
			marked := core.MustPassBefore(fn, in, func(x ssa.Instruction) bool {
				if s, ok := x.(*ssa.Store); ok {
					if k, isConst := core.ConstBool(s.Val); isConst && k && isFlag(s.Addr) {
						return true
					}
				}
				if c2, ok := x.(*ssa.Call); ok {
					if h := c2.Call.StaticCallee(); h != nil && isRefMethod(h) && len(h.Blocks) > 0 && marks(h) {
						return true
					}
				}
				return false
			})
			switch {
			case !refuses:
				c.Fail(rule, key, in.Pos(), "the reference is resolved and the question handed on to the designated type without a test that this reference is not already being visited: a type that refers to itself (struct A a: A end) recurses until the stack overflows (fatal, not recoverable) on a few bytes of IDL text")
			case !marked:
				c.Fail(rule, key, in.Pos(), "the question is handed on to the designated type without the reference having been marked as being visited: the test that refuses a recursive type never fires")
			default:
				c.Pass(rule, key, in.Pos(), "marked as being visited while the designated type answers; resolution refused while marked")
			}
		}
	}
	if n == 0 {
		c.Undecided(rule, "meta/idl.RefType", ref.Obj().Pos(), "no method of RefType hands a question on to the type it designates: the rule cannot see how references are followed")
	}
}

// ruleAuthStateGuarded: the authentication state of a connection lives in the
// capability map held by its channel.  It is written by the authentication
// service from the goroutine of its mailbox and read by the goroutine of the
// connection for every incoming message: wherever the map held in a field of a
// struct is asked Authenticated() or told SetAuthenticated(), a mutex of that
// struct is held (exclusively for the write).  A Go map written and read
// concurrently aborts the process, and a server that can be aborted by a
// client that sends a message right behind its authenticate request does not
// stay up.
func ruleAuthStateGuarded(c *core.Ctx, lc *core.LockCache, rule string) {
	read := c.Func("bus", "CapabilityMap", "Authenticated")
	write := c.Func("bus", "CapabilityMap", "SetAuthenticated")
	if read == nil || write == nil {
		c.Undecided(rule, "bus.CapabilityMap", token.NoPos, "anchor not found (Authenticated / SetAuthenticated)")
		return
	}
	n := 0
	for _, fn := range srcFuncsOfPkg(c, "bus") {
		for i, call := range core.Calls(fn) {
			isW := core.IsCallTo(call, write)
			if !isW && !core.IsCallTo(call, read) {
				continue
			}
			recv := call.Common().Args[0]
			p := core.AccessPath(recv)
			if len(p.Fields) == 0 {
				continue // a map of the function's own (a client negotiating, a fresh map being prepared)
			}
			if _, shared := core.RootOf(recv).(*ssa.Parameter); !shared {
				if _, fv := core.RootOf(recv).(*ssa.FreeVar); !fv {
					continue
				}
			}
			n++
			what := "read"
			if isW {
				what = "written"
			}
			key := fmt.Sprintf("auth-state@%s#%d", core.FuncKey(fn), i)
			lf := lc.Get(fn)
			ok := false
			for class := range lf.MayHeld(call.(ssa.Instruction)) {
				held, _ := lf.HeldAt(call.(ssa.Instruction), class, isW)
				if held {
					ok = true
				}
			}
			c.Check(ok, rule, key, call.Pos(), "the authentication state is "+what+" with a mutex of its owner held",
				"the authentication state kept in "+p.Fields[len(p.Fields)-1].Name()+" is "+what+" without a mutex: the connection's goroutine reads it for every message while the authentication service writes it from its own goroutine; a concurrent map read and map write aborts the whole server")
		}
	}
	if n == 0 {
		c.Undecided(rule, "bus.channel", token.NoPos, "no access to the authentication state of a channel found")
	}
}

// ruleNoLockCopies: a method that takes or releases a mutex of its receiver
// has a pointer receiver.  With a value receiver the struct — mutex included —
// is copied on every call: the lock is taken on a private copy while the maps
// and slices behind it stay shared, so readers and writers are no longer kept
// apart (concurrent map read and map write aborts the process), and a mutex
// copied in its locked state blocks the caller for ever.
func ruleNoLockCopies(c *core.Ctx, rule string, fns []*ssa.Function) int {
	n := 0
	for _, fn := range fns {
		if fn.Signature.Recv() == nil || fn.Parent() != nil || len(fn.Params) == 0 {
			continue
		}
		rt := fn.Signature.Recv().Type()
		if _, isPtr := rt.(*types.Pointer); isPtr {
			continue
		}
		st, ok := rt.Underlying().(*types.Struct)
		if !ok {
			continue
		}
		for _, call := range core.Calls(fn) {
			op, isOp := core.LockOpOf(call)
			if !isOp {
				continue
			}
			// the mutex operated on lives in the receiver (the copy)
			root := core.RootOf(call.Common().Args[0])
			if root != ssa.Value(fn.Params[0]) {
				if al, isAl := root.(*ssa.Alloc); !isAl || core.SingleDef(al) != ssa.Value(fn.Params[0]) {
					continue
				}
			}
			_ = st
			n++
			c.Fail(rule, fmt.Sprintf("lock-copied@%s", core.FuncKey(fn)), call.Pos(), fmt.Sprintf("%s has a value receiver and operates on %s of that receiver: the struct and its mutex are copied on every call, so the lock protects nothing (the maps behind it are shared: a read overlapping a write aborts the process) and a mutex copied while held blocks for ever", core.FuncKey(fn), op.Class))
			break
		}
	}
	return n
}

// ruleNoErrorBuiltAndDropped: an error value that is constructed (fmt.Errorf,
// errors.New) is used — returned, sent, logged, stored.  One that is built and
// never looked at is the trace of an assignment to a shadowed variable
// (if err := f(); err != nil { err = fmt.Errorf(…) } … return err): the
// failure it describes is not reported and the caller goes on with a zero
// result.
func ruleNoErrorBuiltAndDropped(c *core.Ctx, rule string, rels ...string) int {
	n, bad := 0, 0
	for _, rel := range withExamples(rels) {
		for _, fn := range c.RepoFuncs(rel) {
			if c.IsTestFile(fn) || !notExample(fn) {
				continue
			}
			for i, call := range core.Calls(fn) {
				cv, ok := call.(*ssa.Call)
				if !ok {
					continue
				}
				f := cv.Call.StaticCallee()
				if f == nil {
					continue
				}
				k := core.FuncKey(f)
				if k != "fmt.Errorf" && k != "errors.New" {
					continue
				}
				n++
				if len(core.Referrers(cv)) == 0 {
					bad++
					c.Fail(rule, fmt.Sprintf("dropped-error@%s#%d", core.FuncKey(fn), i), cv.Pos(), "an error is built here and never used: it was assigned to a variable that shadows the one returned (or to nothing), so the failure it describes is not reported and the caller goes on with a zero or partial result")
				}
			}
		}
	}
	c.Pass(rule, "errors-built/"+strings.Join(rels, ","), token.NoPos, fmt.Sprintf("%d constructed errors examined, %d never used", n, bad))
	return bad
}
