package rules

import (
	"strings"

	"golang.org/x/tools/go/ssa"

	"qicheck/internal/core"
)

func init() {
	register(&Property{
		ID:    "C08",
		Title: "A truncated encoding is never accepted",
		Explanation: "Argument: every decoder consumes its input through basic.ReadN; a strict prefix of a valid encoding makes some ReadN fall short; so truncation is reported iff (a) ReadN reports every shortfall and (b) every decoder on the way up propagates it and (c) nothing reads the stream around ReadN. Decided from the source: " +
			"(a) ReadN returns nil only across size == length, accumulates exactly what Read returned into buf[size:], and every ReadN call passes the length of the buffer it fills; " +
			"(b) the decoder set D is computed by reader-argument flow from ReadN (a function is a decoder if it has an error result and passes a reader it was given to a decoder); for every decoder call inside a member of D the error is used, and on every path where it may be non-nil every return carries a non-nil error derived from it (SSA error-flow); " +
			"(c) a reader handed to a decoder is only passed to decoders of the repository: it is not type-asserted to a concrete reader, wrapped, or given to io.Copy/LimitReader/bufio, which do not report short input. " +
			"Not decided: that each valid encoding is consumed exactly (taken from the shape rules of C01–C03).",
		Assumptions: []string{"io.Reader contract; bytes.Buffer semantics", "decoders of the repository are the only consumers of wire bytes (closed world checked by the reader-discipline rule)"},
		Run:         runC08,
	})
}

func notExample(fn *ssa.Function) bool {
	p := fn.Pkg.Pkg.Path()
	return !strings.Contains(p, "/examples/")
}

func runC08(c *core.Ctx) {
	d := newDecoderSet(c)
	if d.readN == nil {
		c.Undecided("C08.readn", "type/basic.ReadN", 0, "anchor not found")
		return
	}
	c.Doc("C08.readn", "ReadN: nil only when complete; accumulates into buf[size:]; data+EOF is a success", 3)
	ruleReadNComplete(c, "C08.readn")
	c.Doc("C08.readn-calls", "every ReadN call passes the length of the buffer it fills", 3)
	ruleReadNCalls(c, d, "C08.readn-calls")
	c.Doc("C08.error-flow", "every decoder call inside the decoder set propagates its error to a non-nil error return", 180)
	n := ruleErrorFlow(c, d, "C08.error-flow", nil)
	c.Note("decoder set: %d functions, %d decoder call sites", len(d.member), n)
	c.Doc("C08.roots", "functions outside the decoder set that decode (from a reader they build, or without an error result of their own) look at the error of every decoding step", 20)
	nr := ruleDecoderRoots(c, d, "C08.roots")
	c.Note("decoder roots: %d decoding steps outside the decoder set", nr)
	c.Doc("C08.errors-reported", "no error is built and then dropped in the codec packages (an error assigned to a shadowed variable: the truncation is detected and then forgotten)", 1)
	ruleNoErrorBuiltAndDropped(c, "C08.errors-reported", "type", "meta/signature", "bus/net")
	c.Doc("C08.reader-discipline", "readers are only consumed through the repository's decoders", 60)
	ruleReaderDiscipline(c, d, "C08.reader-discipline", nil)
	// what the reflection encoder writes the reflection decoder has a case for: a kind the
	// decoder's switch does not know is skipped without consuming and without an error
	c.Doc("C08.kind-sets", "reflection encoder and decoder branch on the same reflect kinds (the decoder skips an unknown kind silently)", 1)
	ruleKindSetsAgree(c, "C08.kind-sets")
}
