package rules

import (
	"fmt"
	"go/ast"
	"go/token"
	"go/types"
	"strings"

	"golang.org/x/tools/go/ssa"

	"qicheck/internal/core"
)

func init() {
	register(&Property{
		ID:    "C09",
		Title: "Type signatures round-trip through the parser",
		Explanation: "Static discharge of structural necessary conditions of C09 on meta/signature: " +
			"(atoms) every letter offered by the grammar's basicType() has a nodifyBasicType case and vice versa, and the constructor each case calls declares that letter as its signature; " +
			"(tokens) the literal tokens each composite Signature() printer emits are, in order, the Atoms of the grammar production built for that type in init() ('[' ']', '{' '}', '(' ')', '(' ')' '<' ',' '>'), and the struct printer joins member names with the separator the member-list production parses; the two struct-name patterns accept the same identifiers inside and outside the template brackets; " +
			"(parse) Parse succeeds only if the scanner reached the end of the input and exactly one type came back; it keeps no package-level state besides the grammar (a memoised result would return a tree that RegisterTo renames in place); " +
			"(no-crash) node builders assert unchecked only to scanner terminals and index parallel slices only after comparing their lengths. " +
			"Not decided: identity for all nested signatures, fixed point for arbitrary accepted input, rejection of every other string, absence of crashes inside goparsec (the PEG's behaviour on unbounded input is not derivable from the combinator construction without interpreting it).",
		Assumptions: []string{"goparsec combinators behave as documented; Atom matches its literal exactly"},
		Run:         runC09,
	})
}

func runC09(c *core.Ctx) {
	p := c.Pkg("meta/signature")
	if p == nil {
		c.Undecided("C09.atoms", "meta/signature", token.NoPos, "package not loaded")
		return
	}
	info := p.TypesInfo

	// ------------------------------------------------------------ atoms
	c.Doc("C09.atoms", "grammar letters = rows of the basic-type builder = constructor signatures", 16)
	prods := productionsOf(p)
	var basic *production
	for i := range prods {
		if prods[i].Kind == "OrdChoice" && prods[i].AllAtom && len(prods[i].Atoms) >= 2 {
			basic = &prods[i]
		}
	}
	if basic == nil || funcDeclOf(p, basic.Builder) == nil {
		c.Undecided("C09.atoms", "meta/signature.basicType", token.NoPos, "the production of the basic types (an ordered choice of atoms with a node builder) was not found")
	} else {
		nb := funcDeclOf(p, basic.Builder)
		atoms := map[string]bool{}
		for _, a := range basic.Atoms {
			atoms[a] = true
		}
		cases := map[string]string{}
		for _, e := range dispatchTable(p, nb) {
			if e.Target != nil {
				cases[e.Key] = e.Target.Name()
			} else {
				cases[e.Key] = ""
			}
		}
		ctors := map[string]ctorRow{}
		for _, r := range ctorTable(c) {
			ctors[r.Func] = r
		}
		for _, a := range sortedStrings(atoms) {
			key := "letter:" + a
			ctor, ok := cases[a]
			switch {
			case !ok:
				c.Fail("C09.atoms", key, basic.Pos, fmt.Sprintf("the grammar accepts %q but %s has no row for it: a grammar-valid signature is rejected", a, nb.Name.Name))
			case ctors[ctor].Signature != a:
				c.Fail("C09.atoms", key, nb.Pos(), fmt.Sprintf("%q is parsed into %s, whose Signature() is %q: the printed form differs from the input", a, ctor, ctors[ctor].Signature))
			default:
				c.Pass("C09.atoms", key, nb.Pos(), fmt.Sprintf("%q -> %s -> %q", a, ctor, ctors[ctor].Signature))
			}
		}
		for k := range cases {
			if !atoms[k] {
				c.Fail("C09.atoms", "case:"+k, nb.Pos(), fmt.Sprintf("%s has a row %q that the grammar never produces", nb.Name.Name, k))
			}
		}
	}

	// ------------------------------------------------------------ tokens
	c.Doc("C09.tokens", "printer tokens = grammar tokens for list, map, tuple, struct; struct-name patterns consistent", 5)
	{
		// the production of a composite type is the sequence whose node builder constructs that type
		built := map[string][]production{}
		for _, pr := range prods {
			if pr.Kind != "And" {
				continue
			}
			bf := c.Prog.FuncValue(pr.Builder)
			for _, tn := range keysOf(concreteReturned(bf, 0)) {
				built[tn] = append(built[tn], pr)
			}
		}
		renderings := map[string]string{}
		sharedProd := map[string]token.Pos{}
		for _, typ := range []string{"ListType", "MapType", "TupleType", "StructType"} {
			fd := funcDecl(p, typ, "Signature")
			key := "meta/signature." + typ + ".Signature"
			if fd == nil {
				c.Undecided("C09.tokens", key, token.NoPos, "printer not found")
				continue
			}
			if len(built[typ]) != 1 {
				c.Undecided("C09.tokens", key, fd.Pos(), fmt.Sprintf("%d grammar productions build a %s (expected one sequence with a node builder returning it)", len(built[typ]), typ))
				continue
			}
			want := built[typ][0].Atoms
			must := built[typ][0].mandatory()
			prodName := built[typ][0].Builder.Name()
			// printer tokens: every format / literal of the function; each distinct print statement must be a
			// (possibly partial) rendering of the production: all of it, or all of it but optional parts
			lits := stringLitsIn(info, fd.Body)
			ok := true
			why := ""
			full := false
			rendering := ""
			isFull := func(g string) bool {
				noComma := func(x string) string { return strings.ReplaceAll(x, ",", "") }
				return noComma(g) == noComma(glue(want)) || noComma(g) == noComma(glue(must))
			}
			var acc []string // accumulated single-token literals ("(" … ")")
			for _, l := range lits {
				if !strings.Contains(l, "%") {
					if strings.TrimSpace(l) != "" {
						acc = append(acc, l)
					}
					continue
				}
				toks := formatLiterals(l)
				g := glue(toks)
				// must be a subsequence of the grammar's tokens (optional parts may be omitted, e.g. no members)
				if !isSubsequence(g, glue(want)) {
					ok = false
					why = fmt.Sprintf("the printer emits %q, the grammar production built by %s expects tokens %s", l, prodName, fmtSet(want))
				}
				if isFull(g) {
					full = true
					if len(g) > len(rendering) {
						rendering = g
					}
				}
			}
			if len(acc) > 0 {
				g := glue(acc)
				if !isSubsequence(g, glue(want)) && g != "," {
					ok = false
					why = fmt.Sprintf("the printer emits the tokens %s, the grammar production built by %s expects %s", fmtSet(acc), prodName, fmtSet(want))
				}
				if isFull(g) {
					full = true
					if len(g) > len(rendering) {
						rendering = g
					}
				}
			}
			if ok && !full {
				ok = false
				why = fmt.Sprintf("no print statement renders the whole production built by %s (%s, optional parts %s)", prodName, fmtSet(must), fmtSet(want))
			}
			renderings[typ] = strings.ReplaceAll(rendering, ",", "")
			sharedProd[typ] = built[typ][0].Pos
			c.Check(ok, "C09.tokens", key, fd.Pos(), "prints "+fmtSet(want), why)
		}
		// types built by one production (a sequence with an optional part) print differently
		for _, a := range []string{"ListType", "MapType", "TupleType", "StructType"} {
			for _, b := range []string{"ListType", "MapType", "TupleType", "StructType"} {
				if a < b && sharedProd[a] != token.NoPos && sharedProd[a] == sharedProd[b] && renderings[a] == renderings[b] {
					c.Fail("C09.tokens", "meta/signature."+a+"+"+b, sharedProd[a], a+" and "+b+" are built by one grammar production but print the same tokens: one of them does not parse back to itself")
				}
			}
		}
	}
	// struct name patterns
	sn := funcDecl(p, "", "structName")
	if sn == nil {
		// by role: the function building the ordered token scanner
		for _, f := range p.Syntax {
			for _, d := range f.Decls {
				if fd, ok := d.(*ast.FuncDecl); ok && fd.Body != nil && sn == nil {
					ast.Inspect(fd.Body, func(n ast.Node) bool {
						if call, ok := n.(*ast.CallExpr); ok && isParsecCall(info, call, "OrdTokens") {
							sn = fd
						}
						return true
					})
				}
			}
		}
	}
	if sn == nil {
		c.Undecided("C09.tokens", "meta/signature.structName", token.NoPos, "structName not found")
	} else {
		var pats []string
		for _, l := range stringLitsIn(info, sn.Body) {
			if strings.ContainsAny(l, "[]") {
				pats = append(pats, l)
			}
		}
		bad := ""
		var plain, templ string
		for _, ptn := range pats {
			if strings.Contains(ptn, "<") {
				templ = ptn
			} else {
				plain = ptn
			}
		}
		if plain == "" || templ == "" {
			bad = "expected one plain and one template-style (Name<Arg>) pattern"
		} else {
			pc, _, e1 := classRanges(plain)
			tc, tl, e2 := classRanges(templ)
			switch {
			case e1 != nil || e2 != nil:
				bad = "pattern does not compile"
			case len(pc) != 2 || len(tc) != 4:
				bad = fmt.Sprintf("unrecognised pattern structure (%d and %d character classes)", len(pc), len(tc))
			case !sameRunes(tc[0], pc[0]) || !sameRunes(tc[1], pc[1]) || !sameRunes(tc[2], pc[0]) || !sameRunes(tc[3], pc[1]):
				bad = "the template-style struct name does not accept the same identifiers as the plain name, before and inside the angle brackets: a grammar-valid name such as Vec<float32> is rejected or printed differently"
			case strings.Join(tl, "") != "<>":
				bad = "the template brackets are not '<' and '>'"
			}
		}
		c.Check(bad == "", "C09.tokens", "meta/signature.structName", sn.Pos(), "Name and Name<Arg> with the same identifier pattern", bad)
	}

	// ------------------------------------------------------------ Go representation and IDL name
	c.Doc("C09.go-fields", "the Go representation of a struct or tuple names each field after the member it stands for", 2)
	ruleStructGoFieldNames(c, "C09.go-fields")
	c.Doc("C09.constructors", "each constructor's Go type, IDL name and reader agree with its signature letter; derived types use one signature string", 11)
	ruleConstructorsAs(c, derivePrims(c), "C09.constructors")

	// ------------------------------------------------------------ parse
	c.Doc("C09.parse", "Parse: success only at end of input with exactly one type; no package state besides the grammar", 3)
	ruleParseEntry(c)

	// ------------------------------------------------------------ no crash
	// a type answers from its own members: a table kept across calls in the signature package
	// (types by input text, Go representations by struct name) hands out what was computed for
	// another definition, or an object a caller has since renamed in place
	c.Doc("C09.stateless", "meta/signature fills no package-level table outside its initialiser", 2)
	rulePackageKeepsNoCache(c, "C09.stateless", "meta/signature")
	c.Doc("C09.no-crash", "node builders: unchecked assertions only on terminals; parallel slices length-checked", 3)
	n := ruleUncheckedAssertions(c, "C09.no-crash", "meta/signature", map[string]string{})
	c.Pass("C09.no-crash", "unchecked-assertions", token.NoPos, fmt.Sprintf("%d unchecked assertions on parser nodes, all on scanner terminals", n))
	ruleParserShapesInto(c, "C09.no-crash")
	ruleIndexResultChecked(c, "C09.no-crash", "meta/signature")
	ruleNoFabricatedOperands(c, "C09.parse")
}

func isSubsequence(a, b string) bool {
	i := 0
	for j := 0; i < len(a) && j < len(b); j++ {
		if a[i] == b[j] {
			i++
		}
	}
	return i == len(a)
}

func ruleParseEntry(c *core.Ctx) {
	const rule = "C09.parse"
	fn := c.Func("meta/signature", "", "Parse")
	if fn == nil {
		c.Undecided(rule, "meta/signature.Parse", token.NoPos, "anchor not found")
		return
	}
	isEndof := func(v ssa.Value) bool {
		cr, _ := core.CallResult(v)
		return cr != nil && cr.Common().IsInvoke() && cr.Common().Method.Name() == "Endof"
	}
	isLen := func(v ssa.Value) bool {
		cl, ok := core.Canon(v).(*ssa.Call)
		if !ok {
			return false
		}
		bi, ok := cl.Call.Value.(*ssa.Builtin)
		return ok && bi.Name() == "len"
	}
	is1 := func(v ssa.Value) bool { k, ok := core.ConstInt(v); return ok && k == 1 }
	okEnd, n := successGuarded(c, fn, core.IsTrue(isEndof), 0)
	okOne, _ := successGuarded(c, fn, core.Eq(isLen, is1), 0)
	c.Check(okEnd && n > 0, rule, "meta/signature.Parse/end-of-input", fn.Pos(), "success only when the scanner is at the end of the input", "Parse accepts a signature followed by unparsed text: the printed form is not the input")
	c.Check(okOne && n > 0, rule, "meta/signature.Parse/one-type", fn.Pos(), "success only when exactly one type was parsed", "Parse accepts an input that yields zero or several types")
	// no package-level state besides the grammar
	bad := ""
	for _, b := range fn.Blocks {
		for _, in := range b.Instrs {
			for _, op := range in.Operands(nil) {
				if g, ok := (*op).(*ssa.Global); ok && g.Pkg == fn.Pkg {
					if pt, isPtr := g.Type().(*types.Pointer); !isPtr || !core.TypeIs(pt.Elem(), "goparsec", "Parser") {
						bad = "Parse uses the package-level variable " + g.Name() + " (at " + c.Pos(in.Pos()) + "): a cached result is shared between callers, and RegisterTo renames struct types in place, so a later Parse of the same string prints differently"
					}
				}
			}
		}
	}
	c.Check(bad == "", rule, "meta/signature.Parse/stateless", fn.Pos(), "only reads the grammar", bad)
}

// ruleParserShapesInto re-keys the C07 parser rule under another rule name.
var parallelCtx *core.Ctx

func ruleParserShapesInto(c *core.Ctx, rule string) {
	parallelCtx = c
	for _, fn := range srcFuncsOfPkg(c, "meta/signature") {
		if !isNodeBuilderOrHelper(c, fn, 0) {
			continue
		}
		for _, b := range fn.Blocks {
			for _, in := range b.Instrs {
				x, ok := in.(*ssa.IndexAddr)
				if !ok {
					continue
				}
				if bad, checked := parallelIndexUnchecked(fn, x); checked {
					c.Check(!bad, rule, "parallel-index@"+core.FuncKey(fn), x.Pos(), "indexed slice and ranged slice have checked equal lengths",
						"a slice is indexed with the loop variable of a range over another slice without a check that the two have the same length: a struct signature with fewer names than types indexes out of range, or leaves members of the list made for them without a type (panic, then or at the first use)")
				}
			}
		}
	}
}

// parallelIndexUnchecked: x = X[i] where i ranges over another slice Y.
// checked=false if x is not such an access.
func parallelIndexUnchecked(fn *ssa.Function, x *ssa.IndexAddr) (bad bool, checked bool) {
	idx, ok := core.Canon(x.Index).(*ssa.BinOp)
	if !ok || idx.Op != token.ADD {
		return false, false
	}
	h := loopHeaderOf(x)
	if h == nil {
		return false, false
	}
	ifi, ok := h.Instrs[len(h.Instrs)-1].(*ssa.If)
	if !ok {
		return false, false
	}
	cm, _ := core.CondCmp(ifi.Cond)
	lenY, ok := core.Canon(cm.Y).(*ssa.Call)
	if !ok {
		return false, false
	}
	bi, ok := lenY.Call.Value.(*ssa.Builtin)
	if !ok || bi.Name() != "len" {
		return false, false
	}
	y := core.Canon(lenY.Call.Args[0])
	xs := core.Canon(x.X)
	if xs == y || sameLen(xs, y) {
		return false, false
	}
	lenOfMade := func(v ssa.Value) ssa.Value {
		if mk, ok := v.(*ssa.MakeSlice); ok {
			if lc, ok := core.Canon(mk.Len).(*ssa.Call); ok {
				if b2, ok := lc.Call.Value.(*ssa.Builtin); ok && b2.Name() == "len" {
					return core.Canon(lc.Call.Args[0])
				}
			}
		}
		return nil
	}
	if a := lenOfMade(xs); a != nil && (a == y || sameLen(a, y)) {
		return false, false
	}
	isLenOf := func(of ssa.Value) func(ssa.Value) bool {
		return func(v ssa.Value) bool {
			lc, ok := core.Canon(v).(*ssa.Call)
			if !ok {
				return false
			}
			b2, ok := lc.Call.Value.(*ssa.Builtin)
			if !ok || b2.Name() != "len" {
				return false
			}
			a := core.Canon(lc.Call.Args[0])
			if a == of || sameLen(a, of) {
				return true
			}
			if m := lenOfMade(of); m != nil && (m == a || sameLen(m, a)) {
				return true
			}
			return false
		}
	}
	if core.Guarded(fn, x, core.Eq(isLenOf(xs), isLenOf(y))) {
		return false, true
	}
	return !(parallelCtx != nil && lenEqAtCallers(parallelCtx, fn, xs, y)), true
}

var _ = types.Typ
