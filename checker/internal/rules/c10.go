package rules

import (
	"fmt"
	"go/token"
	"go/types"
	"strings"

	"golang.org/x/tools/go/ssa"

	"qicheck/internal/core"
)

func init() {
	register(&Property{
		ID:    "C10",
		Title: "Concurrent senders never corrupt the stream; each message arrives once, in order",
		Explanation: "Static discharge of the structural clauses of C10: " +
			"(single-write) Message.Write passes its writer to exactly one call, once on every success path, with the bytes of a private buffer that received the header and then the payload; it refuses len(Payload)!=Size; endPoint.Send only forwards to it; " +
			"(stream-owner) the endpoint's stream is only used by Send→Message.Write, process→Message.Read, Close and String; io.Reader.Read/io.Writer.Write are invoked only by basic.ReadN/WriteN and the Stream forwarders; " +
			"(order) process reads one message and dispatches it synchronously (plain call) before the next read; dispatch enqueues under handlersMutex with a non-blocking select, on a queue only if that handler's own filter matched (shared with C17). " +
			"(write-whole) WriteN hands the whole remaining buffer to each Write; a handler slot is found and filled in one critical section. " +
			"Not decided: atomicity of one Write on each transport, per-sender order under all schedules.",
		Assumptions: []string{"a single Write call on net.Conn / tls.Conn / os.File is not interleaved with another goroutine's Write", "bytes.Buffer semantics"},
		Run:         runC10,
	})
}

func runC10(c *core.Ctx) {
	a := getEP(c, "C10.anchors")
	if a == nil {
		return
	}
	lc := core.NewLockCache()
	c.Doc("C10.single-write", "one stream write per message with header+payload in one private buffer; size mismatch refused; Send forwards", 5)
	ruleSingleWrite(c, a)
	c.Doc("C10.stream-owner", "the stream is only used through Message.Write/Read, Close, String; raw Read/Write only in ReadN/WriteN and Stream forwarders", 4)
	ruleStreamOwner(c, a)
	c.Doc("C10.write-whole", "WriteN hands the whole remaining buffer to each Write (one Write per message unless the transport is short)", 3)
	ruleRetryLoop(c, "C10.write-whole", "WriteN", "Write")
	c.Doc("C17.table", "a handler is registered in a free slot found and filled in one critical section (rule shared with C17)", 2)
	ruleSlotFill(c, a, lc, "C17.table")
	c.Doc("C10.consumer-serial", "AddHandler's queue is drained by one goroutine calling the consumer one message at a time (arrival order)", 2)
	ruleSerialDrain(c, "C10.consumer-serial", a.addHandler)
	c.Doc("C10.order", "process dispatches synchronously between two reads", 2)
	ruleProcessOrder(c, a)
	c.Doc("C10.enqueue", "enqueue is non-blocking, under handlersMutex, only after the handler's own filter matched; every handler is offered every message", 2)
	ruleSendOwner(c, a, lc, "C10.enqueue")
	ruleDispatchVisitsAll(c, a, "C10.enqueue")
	c.Doc("C10.fresh-message", "every message is read into a Message allocated for that read (queues hold pointers)", 1)
	ruleFreshMessagePerRead(c, a, "C10.fresh-message")
	// a message arrives intact or not at all: the reader takes exactly the announced bytes
	// off the stream with the exact reader (a copy that stops at end of stream would hand a
	// short payload to the handlers) — rule shared with C01
	c.Doc("C01.exact-reads", "Message.Read hands the stream to exactly two ReadN calls; the payload is storage of that read alone (rule shared with C01)", 3)
	ruleMessageReads(c)
}

// ruleDispatchVisitsAll: dispatch offers the message to every registered
// handler: once the loop over the table is entered, the function returns only
// through the loop's exit (no early return from inside the loop body).
func ruleDispatchVisitsAll(c *core.Ctx, a *epAnchors, rule string) {
	fn := a.dispatch
	// loop headers: blocks with a back edge whose condition involves len(handlers)
	var header *ssa.BasicBlock
	for _, b := range fn.Blocks {
		back := false
		for _, p := range b.Preds {
			if b.Dominates(p) {
				back = true
			}
		}
		if !back || len(b.Instrs) == 0 {
			continue
		}
		if _, ok := b.Instrs[len(b.Instrs)-1].(*ssa.If); ok {
			header = b
		}
	}
	key := "bus/net.endPoint.dispatch/visits-all"
	if header == nil {
		c.Fail(rule, key, fn.Pos(), "dispatch has no loop over the handler table")
		return
	}
	// the filter call must be inside the loop
	var filterCall ssa.Instruction
	for _, call := range core.Calls(fn) {
		cc := call.Common()
		if !cc.IsInvoke() && cc.StaticCallee() == nil && isFieldOf(cc.Value, a.hFilter) {
			filterCall = call.(ssa.Instruction)
		}
	}
	if filterCall == nil {
		// the loop body may live in a private helper handed the handler of the slot
		// (offer(h, msg, status), visit(i, h, msg)): the filter is evaluated there
		for _, call := range core.Calls(fn) {
			h := core.StaticCallee(call)
			if h == nil || !isPrivateHelper(c, h) || !header.Dominates(call.(ssa.Instruction).Block()) {
				continue
			}
			for _, u := range unitOf(c, h) {
				for _, c2 := range core.Calls(u) {
					cc := c2.Common()
					if !cc.IsInvoke() && cc.StaticCallee() == nil && isFieldOf(cc.Value, a.hFilter) {
						filterCall = call.(ssa.Instruction)
					}
				}
			}
		}
	}
	if filterCall == nil || !header.Dominates(filterCall.Block()) {
		c.Fail(rule, key, fn.Pos(), "the handler filters are not evaluated inside the loop over the handler table")
		return
	}
	// from the body entry, no return is reachable without coming back to the header
	body := header.Succs[0]
	r := core.ReachFrom(core.Point{B: body, I: 0}, func(in ssa.Instruction) bool { return in.Block() == header }, nil)
	bad := ""
	for _, ret := range core.Returns(fn) {
		if r.Has(ret) {
			bad = "dispatch can return from inside the loop over the handlers (at " + c.Pos(ret.Pos()) + "): the handlers in later slots never see a message their filter selects"
		}
	}
	c.Check(bad == "", rule, key, header.Instrs[0].Pos(), "the loop over the handler table has no early exit: every handler's filter sees every message", bad)
}

func usesValue(call ssa.CallInstruction, v ssa.Value) bool {
	cc := call.Common()
	if cc.IsInvoke() && core.Canon(cc.Value) == v {
		return true
	}
	for _, arg := range cc.Args {
		if core.Canon(arg) == v {
			return true
		}
	}
	return false
}

func ruleSingleWrite(c *core.Ctx, a *epAnchors) {
	const rule = "C10.single-write"
	fn := c.Func("bus/net", "Message", "Write")
	hdrWrite := c.Func("bus/net", "Header", "Write")
	writeN := c.Func("type/basic", "", "WriteN")
	payloadF := c.Field("bus/net", "Message", "Payload")
	sizeF := c.Field("bus/net", "Header", "Size")
	if fn == nil || hdrWrite == nil || writeN == nil || payloadF == nil || sizeF == nil || len(fn.Params) < 2 {
		c.Undecided(rule, "bus/net.Message.Write", token.NoPos, "anchor not found")
		return
	}
	w := ssa.Value(fn.Params[1])
	var wcalls []ssa.CallInstruction
	for _, call := range core.Calls(fn) {
		if usesValue(call, w) {
			wcalls = append(wcalls, call)
		}
	}
	key := "bus/net.Message.Write/stream-calls"
	if len(wcalls) != 1 {
		var where []string
		for _, x := range wcalls {
			where = append(where, c.Pos(x.Pos()))
		}
		c.Fail(rule, key, fn.Pos(), fmt.Sprintf("the stream writer is passed to %d calls (%s): header and payload of one message can be separated by another sender's bytes", len(wcalls), strings.Join(where, ", ")))
		return
	}
	final := wcalls[0]
	fin := final.(ssa.Instruction)
	if !core.IsCallTo(final, writeN) {
		c.Fail(rule, key, final.Pos(), "the stream is not written through basic.WriteN (short writes would be lost)")
		return
	}
	if _, isGo := final.(*ssa.Go); isGo {
		c.Fail(rule, key, final.Pos(), "the stream write is asynchronous")
		return
	}
	if core.CanReach(fin, func(x ssa.Instruction) bool { return x == fin }) != nil {
		c.Fail(rule, key, final.Pos(), "the stream write sits in a loop: one message is written in several operations")
		return
	}
	c.Pass(rule, key, final.Pos(), "the writer parameter is used by exactly one WriteN call, outside any loop")

	// every success return passes it
	ok := true
	for _, r := range core.Returns(fn) {
		if successReturn(r) && !core.MustPassBefore(fn, r, func(x ssa.Instruction) bool { return x == fin }) {
			ok = false
		}
	}
	c.Check(ok, rule, "bus/net.Message.Write/success-writes", final.Pos(), "every success return passes the stream write", "Message.Write can report success without writing to the stream")

	// the buffer: buf.Bytes() of a local bytes.Buffer that received header then payload
	bufKey := "bus/net.Message.Write/buffer"
	args := final.Common().Args
	bcall, _ := core.CallResult(core.Canon(args[1]))
	var buf ssa.Value
	asm := fn                        // the function that assembles the buffer
	var asmEnd ssa.Instruction = fin // where the assembled bytes leave it
	var appendedPayload ssa.Instruction
	if bcall != nil {
		// append(head.Bytes(), m.Payload...): the payload joined to the header bytes of the
		// private buffer in one slice
		if bi, isB := bcall.Call.Value.(*ssa.Builtin); isB && bi.Name() == "append" && len(bcall.Call.Args) == 2 && isFieldOf(bcall.Call.Args[1], payloadF) {
			if inner, _ := core.CallResult(core.Canon(bcall.Call.Args[0])); inner != nil {
				if g := inner.Call.StaticCallee(); g != nil && g.Name() == "Bytes" && g.Signature.Recv() != nil && core.TypeIs(g.Signature.Recv().Type(), "bytes", "Buffer") {
					appendedPayload = bcall
					bcall = inner
				}
			}
		}
		if f := bcall.Call.StaticCallee(); f != nil && f.Name() == "Bytes" && f.Signature.Recv() != nil && core.TypeIs(f.Signature.Recv().Type(), "bytes", "Buffer") {
			buf = core.Canon(bcall.Call.Args[0])
		} else if f != nil && isPrivateHelper(c, f) && len(f.Blocks) > 0 && !usesValue(bcall, w) {
			// data, err := m.marshal(): a private helper that packs header and payload and
			// hands the bytes back; the order is then checked inside it
			var inner *ssa.Call
			var lastRet *ssa.Return
			single := true
			for _, r := range core.Returns(f) {
				if !successReturn(r) || len(r.Results) == 0 {
					continue
				}
				bc, _ := core.CallResult(core.Canon(core.RetVal(r, 0)))
				if bc == nil || (inner != nil && bc != inner) {
					single = false
					continue
				}
				inner, lastRet = bc, r
			}
			if single && inner != nil {
				if g := inner.Call.StaticCallee(); g != nil && g.Name() == "Bytes" && g.Signature.Recv() != nil && core.TypeIs(g.Signature.Recv().Type(), "bytes", "Buffer") {
					buf = core.Canon(inner.Call.Args[0])
					asm, asmEnd, bcall = f, lastRet, inner
				}
			}
		}
	}
	if buf == nil {
		c.Fail(rule, bufKey, final.Pos(), "the bytes written to the stream are not the content of a bytes.Buffer assembled in Message.Write")
		return
	}
	local := false
	switch x := buf.(type) {
	case *ssa.Alloc:
		local = true
	case *ssa.Call:
		if f := x.Call.StaticCallee(); f != nil && (core.FuncKey(f) == "bytes.NewBuffer" || core.FuncKey(f) == "bytes.NewBufferString") {
			local = true
		} else if f != nil && isPrivateHelper(c, f) && len(f.Blocks) > 0 {
			// a small constructor of the package: every return is a buffer made on the spot
			local = true
			for _, r := range core.Returns(f) {
				if len(r.Results) != 1 {
					local = false
					continue
				}
				switch y := core.Canon(core.RetVal(r, 0)).(type) {
				case *ssa.Alloc:
				case *ssa.Call:
					if g := y.Call.StaticCallee(); g == nil || (core.FuncKey(g) != "bytes.NewBuffer" && core.FuncKey(g) != "bytes.NewBufferString") {
						local = false
					}
				default:
					local = false
				}
			}
		}
	}
	if !local {
		c.Fail(rule, bufKey, final.Pos(), "the assembly buffer is not private to the call (shared buffers interleave concurrent senders)")
		return
	}
	var hw, pw ssa.Instruction
	for _, call := range core.Calls(asm) {
		if core.IsCallTo(call, hdrWrite) && len(call.Common().Args) == 2 && core.Canon(call.Common().Args[1]) == buf {
			hw = call.(ssa.Instruction)
		}
		if core.IsCallTo(call, writeN) && call != final && core.Canon(call.Common().Args[0]) == buf && isFieldOf(call.Common().Args[1], payloadF) {
			pw = call.(ssa.Instruction)
		}
	}
	if pw == nil && appendedPayload != nil {
		pw = appendedPayload
	}
	if hw == nil || pw == nil {
		c.Fail(rule, bufKey, final.Pos(), "the buffer written to the stream does not receive both the header (Header.Write) and the payload (WriteN of m.Payload)")
		return
	}
	if !(core.Dominates(hw, pw) && core.Dominates(pw, asmEnd)) {
		c.Fail(rule, bufKey, final.Pos(), "header, payload and stream write are not in this order on every path")
		return
	}
	// nothing else writes into the buffer
	extra := ""
	for _, call := range core.Calls(asm) {
		in := call.(ssa.Instruction)
		if in == hw || in == pw || call == final || ssa.Instruction(bcall) == in {
			continue
		}
		if usesValue(call, buf) {
			if f := call.Common().StaticCallee(); f != nil && (f.Name() == "Len" || f.Name() == "Cap") {
				continue
			}
			extra = c.Pos(call.Pos())
		}
	}
	if extra != "" {
		c.Fail(rule, bufKey, final.Pos(), "the assembly buffer is also written/used at "+extra+": bytes other than header+payload reach the wire")
		return
	}
	c.Pass(rule, bufKey, final.Pos(), "private bytes.Buffer: Header.Write, then WriteN(Payload), then one WriteN to the stream")

	// size check
	isLenPayload := func(v ssa.Value) bool {
		call, ok := core.StripConv(v).(*ssa.Call)
		if !ok {
			return false
		}
		bi, ok := call.Call.Value.(*ssa.Builtin)
		return ok && bi.Name() == "len" && isFieldOf(call.Call.Args[0], payloadF)
	}
	isSize := func(v ssa.Value) bool { return isFieldOf(core.StripConv(v), sizeF) }
	c.Check(core.Guarded(fn, fin, core.Eq(isLenPayload, isSize)), rule, "bus/net.Message.Write/size-check", fin.Pos(),
		"the stream write is guarded by len(Payload) == Header.Size", "a message whose Header.Size differs from len(Payload) is written: the reader desynchronises")

	// endPoint.Send forwards
	sk := "bus/net.endPoint.Send"
	// … directly, or through one private method of the end point that is itself exactly that
	// forward (`return e.write(&m)` with `write` being `return m.Write(e.stream)`)
	var forwards func(f *ssa.Function, depth int) bool
	forwards = func(f *ssa.Function, depth int) bool {
		calls := core.Calls(f)
		if len(calls) != 1 {
			return false
		}
		if _, isCall := calls[0].(*ssa.Call); !isCall {
			return false
		}
		for _, r := range core.Returns(f) {
			if len(r.Results) == 0 {
				return false
			}
			if cr, _ := core.CallResult(core.RetVal(r, 0)); cr == nil || ssa.CallInstruction(cr) != calls[0] {
				return false
			}
		}
		if core.IsCallTo(calls[0], fn) && isFieldOf(calls[0].Common().Args[1], a.stream) {
			return true
		}
		g := calls[0].Common().StaticCallee()
		return depth < 2 && g != nil && g != f && isPrivateHelper(c, g) && g.Pkg == f.Pkg && forwards(g, depth+1)
	}
	good := forwards(a.send, 0)
	c.Check(good, rule, sk, a.send.Pos(), "Send is exactly `return m.Write(e.stream)`", "endPoint.Send does more than forwarding the message to Message.Write(e.stream) and returning its error")
}

func ruleStreamOwner(c *core.Ctx, a *epAnchors) {
	const rule = "C10.stream-owner"
	msgWrite := c.Func("bus/net", "Message", "Write")
	msgRead := c.Func("bus/net", "Message", "Read")
	n := 0
	sendUnit, processUnit := exclusiveUnit(c, a.send), exclusiveUnit(c, a.process)
	nRead, nWrite := 0, 0
	for _, fn := range srcFuncsOfPkg(c, "bus/net") {
		for _, acc := range fieldAccesses(fn, a.stream) {
			if acc.write || acc.fresh {
				if acc.write && !acc.fresh {
					c.Fail(rule, "stream-assign@"+core.FuncKey(fn), core.InstrPos(acc.instr), "endPoint.stream is reassigned after construction")
				}
				continue
			}
			ld, ok := acc.instr.(*ssa.UnOp)
			if !ok {
				continue
			}
			for _, u := range allUses(ld) {
				n++
				key := fmt.Sprintf("stream-use@%s#%d", core.FuncKey(fn), n)
				call, ok := u.(ssa.CallInstruction)
				if !ok {
					if _, isCI := u.(*ssa.ChangeInterface); isCI {
						n--
						continue
					}
					c.Fail(rule, key, u.Pos(), "the endpoint's stream escapes (stored or returned): a second reader/writer path becomes possible")
					continue
				}
				cc := call.Common()
				switch {
				case cc.IsInvoke() && (cc.Method.Name() == "Close" || cc.Method.Name() == "String" || cc.Method.Name() == "Context"):
					c.Pass(rule, key, u.Pos(), cc.Method.Name()+"()")
				case core.IsCallTo(call, msgWrite) && (sendUnit[fn] || (isPrivateHelper(c, fn) && streamWriters(c, a)[fn])):
					nWrite++
					c.Check(nWrite == 1, rule, key, u.Pos(), "Message.Write from Send", "Send writes to the stream at more than one place")
				case core.IsCallTo(call, msgRead) && processUnit[fn]:
					nRead++
					c.Check(nRead == 1, rule, key, u.Pos(), "Message.Read from process", "process reads the stream at more than one place")
				default:
					c.Fail(rule, key, u.Pos(), "the endpoint's stream is used by "+core.CalleeName(call)+" in "+core.FuncKey(fn)+": only Send→Message.Write and process→Message.Read may touch it (a second writer path can interleave partial messages, a second reader steals bytes)")
				}
			}
		}
	}
	// ChangeInterface results are followed by allUses only through listed wrappers; do it explicitly
	if n == 0 {
		c.Undecided(rule, "stream-use", a.send.Pos(), "no use of endPoint.stream found")
	}
	// Write methods of the stream implementations hand on the whole buffer they are given
	for _, fn := range srcFuncsOfPkg(c, "bus/net") {
		if fn.Parent() != nil || fn.Name() != "Write" || fn.Signature.Recv() == nil || len(fn.Params) != 2 {
			continue
		}
		if sl, ok := fn.Params[1].Type().Underlying().(*types.Slice); !ok || !types.Identical(sl.Elem(), types.Typ[types.Byte]) {
			continue
		}
		for i, call := range core.Calls(fn) {
			cc := call.Common()
			var arg ssa.Value
			switch {
			case cc.IsInvoke() && cc.Method.Name() == "Write" && len(cc.Args) == 1:
				arg = cc.Args[0]
			case cc.StaticCallee() != nil && cc.StaticCallee().Name() == "Write" && len(cc.Args) == 2:
				arg = cc.Args[1]
			default:
				continue
			}
			pr, ok := core.Canon(arg).(*ssa.Parameter)
			c.Check(ok && pr.Parent() == fn, rule, fmt.Sprintf("whole-write@%s#%d", core.FuncKey(fn), i), call.Pos(), "the buffer is handed on whole",
				"the stream's Write does not hand the whole buffer it was given to the underlying writer (it writes a part and lets the caller retry): one message becomes several writes, and concurrent senders' chunks interleave")
		}
	}
	// raw Read/Write invocations
	for _, fn := range c.RepoFuncs("bus", "type", "meta/signature") {
		if c.IsTestFile(fn) {
			continue
		}
		for i, call := range core.Calls(fn) {
			cc := call.Common()
			if !cc.IsInvoke() {
				continue
			}
			m := cc.Method.Name()
			if m != "Read" && m != "Write" {
				continue
			}
			sig := cc.Method.Type().(*types.Signature)
			// io.Reader.Read / io.Writer.Write shape: ([]byte) (int, error)
			if sig.Params().Len() != 1 || sig.Results().Len() != 2 {
				continue
			}
			if sl, ok := sig.Params().At(0).Type().Underlying().(*types.Slice); !ok || !types.Identical(sl.Elem(), types.Typ[types.Byte]) {
				continue
			}
			key := fmt.Sprintf("raw-%s@%s#%d", m, core.FuncKey(fn), i)
			k := core.FuncKey(fn)
			allowed := k == "type/basic.ReadN" || k == "type/basic.WriteN"
			if fn.Parent() != nil {
				// the transfer written as a function literal of ReadN / WriteN and handed to
				// the loop (that the loop retries it is the retry-loop rule's business)
				pk := core.FuncKey(fn.Parent())
				if (pk == "type/basic.ReadN" || pk == "type/basic.WriteN") && fn.Parent().Parent() == nil {
					allowed = true
				}
			}
			if !allowed && fn.Signature.Recv() != nil && fn.Name() == m {
				// forwarder method of a Stream implementation
				allowed = true
			}
			c.Check(allowed, rule, key, call.Pos(), "raw "+m+" inside the retry loop / a Stream forwarder",
				"io "+m+" is invoked directly in "+k+": short reads/writes are not retried and the message boundary is lost")
		}
	}
}

func ruleProcessOrder(c *core.Ctx, a *epAnchors) {
	const rule = "C10.order"
	fn := a.process
	rs := a.readSite(c)
	var read, disp ssa.CallInstruction
	nd := 0
	for _, call := range core.Calls(fn) {
		if core.IsCallTo(call, a.dispatch) {
			disp = call
			nd++
		}
	}
	if rs.problem == "" && disp == nil && rs.dispatchInHelper != nil {
		// receive() reads one message and dispatches it: the order is decided inside it
		h := rs.helper
		d := rs.dispatchInHelper
		_, plainD := d.(*ssa.Call)
		_, plainH := rs.call.(*ssa.Call)
		nd2 := 0
		for _, call := range core.Calls(h) {
			if core.IsCallTo(call, a.dispatch) {
				nd2++
			}
		}
		c.Check(plainD && plainH && nd2 == 1 && loopHeaderOf(d.(ssa.Instruction)) == nil, rule, "bus/net.endPoint.process/dispatch-sync", d.Pos(),
			"dispatch is a plain synchronous call", "dispatch is started with `go`/defer (or more than once): messages can overtake each other")
		iv := rs.inner.(*ssa.Call)
		isRErr := func(v ssa.Value) bool { return core.Canon(v) == ssa.Value(iv) }
		// on the success edge of the read every return of the helper passes the dispatch
		cut := core.CutEstablishing(core.Ne(isRErr, core.IsNilConst))
		r := core.ReachFrom(core.After(iv), func(x ssa.Instruction) bool { return x == d.(ssa.Instruction) }, cut)
		lost := false
		for _, ret := range core.Returns(h) {
			if r.Has(ret) {
				lost = true
			}
		}
		c.Check(!lost, rule, "bus/net.endPoint.process/read-dispatch-read", iv.Pos(),
			"every successfully read message is dispatched before the next read", "a message can be read and the loop continue without dispatching it (message lost)")
		c.Pass(rule, "bus/net.endPoint.process/same-message", d.Pos(), "dispatch receives the message just read")
		return
	}
	if rs.problem != "" || disp == nil {
		why := rs.problem
		if why == "" {
			why = "process does not hand the message to dispatch"
		}
		c.Fail(rule, "bus/net.endPoint.process", fn.Pos(), why)
		return
	}
	read = rs.call
	_, plain := disp.(*ssa.Call)
	c.Check(plain && nd == 1, rule, "bus/net.endPoint.process/dispatch-sync", disp.Pos(),
		"dispatch is a plain synchronous call", "dispatch is started with `go`/defer (or more than once): messages can overtake each other")
	// between two reads there is a dispatch: from after read, reaching read again must pass dispatch (on the no-error edge)
	cut := core.CutEstablishing(core.Ne(rs.isErr, core.IsNilConst))
	r := core.ReachFrom(core.After(read.(ssa.Instruction)), func(x ssa.Instruction) bool { return x == disp.(ssa.Instruction) }, cut)
	c.Check(!r.Has(read.(ssa.Instruction)), rule, "bus/net.endPoint.process/read-dispatch-read", read.Pos(),
		"every successfully read message is dispatched before the next read", "a message can be read and the loop continue without dispatching it (message lost)")
	// the message dispatched is the one just read
	same := rs.isMsg(disp.Common().Args[1])
	c.Check(same, rule, "bus/net.endPoint.process/same-message", disp.Pos(), "dispatch receives the message just read", "dispatch does not receive the message object that was just read")
}

// streamWriters: the functions through which a message reaches the stream — Send, and a
// private method of the end point that is exactly `return m.Write(e.stream)` (Send and the
// other senders of the package then go through it).
func streamWriters(c *core.Ctx, a *epAnchors) map[*ssa.Function]bool {
	out := map[*ssa.Function]bool{}
	if a.send != nil {
		out[a.send] = true
	}
	msgWrite := c.Func("bus/net", "Message", "Write")
	for _, f := range srcFuncsOfPkg(c, "bus/net") {
		if f.Parent() != nil || !isPrivateHelper(c, f) {
			continue
		}
		calls := core.Calls(f)
		if len(calls) != 1 || !core.IsCallTo(calls[0], msgWrite) || len(calls[0].Common().Args) < 2 || !isFieldOf(calls[0].Common().Args[1], a.stream) {
			continue
		}
		ok := true
		for _, r := range core.Returns(f) {
			if len(r.Results) != 1 {
				ok = false
				continue
			}
			if cr, _ := core.CallResult(core.RetVal(r, 0)); cr == nil || ssa.CallInstruction(cr) != calls[0] {
				ok = false
			}
		}
		if ok {
			out[f] = true
		}
	}
	return out
}
