package rules

import (
	"fmt"
	"go/token"
	"go/types"
	"strings"

	"golang.org/x/tools/go/ssa"

	"qicheck/internal/core"
)

func init() {
	register(&Property{
		ID:    "C11",
		Title: "Losing the connection fails calls promptly instead of hanging them",
		Explanation: "Static discharge of the structural clauses of C11: " +
			"(read-error) in endPoint.process every error of Message.Read leads to closeWith(err) and leaves the loop; " +
			"(shutdown) endPoint.closeWith closes the stream on every path and, for every non-nil slot, runs/schedules Handler.closeWith with the error, then clears the slot (with C17); " +
			"(early-reply) in client.Call the reply handler is registered before the message is sent (MakeHandler dominates Send) and removed when Send fails; every queue registered with a filter that can match has a positive constant capacity, so dispatch (non-blocking) never drops a reply that beats its caller; " +
			"(wait) client.Call blocks in one select on the error channel, the reply queue (closed ⇒ error return) and cancel; the closer forwards the connection error to a capacity-1 channel of which it is the only sender; " +
			"(subscriptions) the forwarding goroutine of client.Subscribe closes the events channel exactly once on each of its exits; OnDisconnect registers the user's callback as handler closer. " +
			"Not decided: 'within bounded time', exactly-once firing under races, each fault position of each I/O operation.",
		Assumptions: []string{"channel semantics; net.Conn.Close unblocks a pending Read", "user-supplied disconnect callbacks terminate"},
		Run:         runC11,
	})
}

func runC11(c *core.Ctx) {
	a := getEP(c, "C11.anchors")
	if a == nil {
		return
	}
	c.Doc("C11.read-error", "every Message.Read error in process leads to closeWith(err) and loop exit", 2)
	ruleReadErrorCloses(c, a)
	// a connection lost in the middle of a message must reach process as an error: the
	// reader of the message propagates every read error (rule shared with C08, bus/net only)
	c.Doc("C08.error-flow", "Message.Read and Header.Read propagate every read error (a connection lost inside a message is not dispatched as a message) — rule shared with C08", 3)
	ruleErrorFlow(c, newDecoderSet(c), "C08.error-flow", func(fn *ssa.Function) bool {
		return strings.HasSuffix(fn.Pkg.Pkg.Path(), "/bus/net") || strings.HasSuffix(fn.Pkg.Pkg.Path(), core.WitnessDirName)
	})
	// … and the retry loop under it does not swallow a failure that comes together with
	// data (rule shared with C01/C08)
	c.Doc("C08.readn", "ReadN: accumulates, nil only when complete, error only when short or not EOF, no further Read after an error — rule shared with C08", 4)
	ruleRetryLoop(c, "C08.readn", "ReadN", "Read")
	c.Doc("C11.shutdown", "closeWith closes the stream (before taking the handler mutex) and every registered handler with the error", 4)
	ruleShutdown(c, a)
	c.Doc("C11.handler-before-send", "reply handler registered before Send, removed if Send fails", 2)
	ruleHandlerBeforeSend(c, a, "C11.handler-before-send")
	c.Doc("C11.buffered-queues", "every queue whose filter can match is buffered (dispatch never blocks, so an unbuffered queue drops early replies)", 5)
	ruleBufferedQueues(c, a)
	c.Doc("C11.call-waits", "client.Call selects on error channel, reply queue (closed ⇒ error) and cancel; closer forwards the error without blocking", 4)
	ruleCallWaits(c, a)
	c.Doc("C11.subscriptions", "Subscribe closes events once per exit; OnDisconnect registers the callback as closer", 3)
	ruleSubscriptionsClose(c, a)
	// the typed subscription channels of the generated proxies end too (rule shared with C13)
	c.Doc("C13.forwarding", "one forwarding goroutine per subscription, no go in the loop, channel closed once per exit", 6)
	ruleForwarders(c, a)
	// shutdown closes the queue of every handler: two handlers given one channel (two
	// disconnect callbacks sharing an idle queue) make the second close panic in a
	// library goroutine (rule shared with C17)
	c.Doc("C17.queue-owner", "every MakeHandler gets a private queue made by the registering function (shutdown closes each handler's queue once) — rule shared with C17", 8)
	ruleQueueOwnership(c, a, "C17.queue-owner")
}

func ruleReadErrorCloses(c *core.Ctx, a *epAnchors) {
	const rule = "C11.read-error"
	fn := a.process
	rs := a.readSite(c)
	if rs.problem != "" {
		c.Undecided(rule, "bus/net.endPoint.process", fn.Pos(), rs.problem)
		return
	}
	read := rs.call
	rin := read.(ssa.Instruction)
	// the error of the read, or a loop variable that holds it (`for readErr == nil
	// { readErr = msg.Read(...) }`): a phi of the read's error and of the nil it
	// is initialised with before the loop
	afterRead := core.ReachFrom(core.After(rin), nil, nil)
	var errPhi func(v ssa.Value, depth int) bool
	errPhi = func(v ssa.Value, depth int) bool {
		p, ok := core.Canon(v).(*ssa.Phi)
		if !ok || depth > 3 {
			return false
		}
		n := 0
		for k, e := range p.Edges {
			pred := p.Block().Preds[k]
			switch {
			case rs.isErr(e):
				n++
			case core.Canon(e) == ssa.Value(p):
			case core.IsNilConst(e) && len(pred.Instrs) > 0 && !afterRead.Has(pred.Instrs[len(pred.Instrs)-1]):
			case errPhi(e, depth+1):
				n++
			default:
				return false
			}
		}
		return n > 0
	}
	isErr := func(v ssa.Value) bool { return rs.isErr(v) || errPhi(v, 0) }
	var closes []ssa.Instruction
	for _, call := range core.Calls(fn) {
		if core.IsCallTo(call, a.epCloseWith) {
			if _, plain := call.(*ssa.Call); plain && isErr(call.Common().Args[1]) {
				closes = append(closes, call.(ssa.Instruction))
			}
		}
	}
	isClose := func(x ssa.Instruction) bool {
		for _, cl := range closes {
			if cl == x {
				return true
			}
		}
		return false
	}
	// on the err != nil side: no return and no next read without closeWith(err)
	cut := core.CutEstablishing(core.Eq(isErr, core.IsNilConst))
	r := core.ReachFrom(core.After(rin), isClose, cut)
	bad := ""
	if r.Has(rin) {
		bad = "after a read error the loop reads again without shutting the endpoint down (busy loop; pending calls never fail)"
	}
	for _, ret := range core.Returns(fn) {
		if r.Has(ret) {
			bad = "after a read error process returns without closeWith(err): handlers are never closed, pending calls hang"
		}
	}
	// is the error branch reachable at all (err tested)?
	tested := false
	for _, b := range fn.Blocks {
		if ifi, ok := b.Instrs[len(b.Instrs)-1].(*ssa.If); ok {
			cm, _ := core.CondCmp(ifi.Cond)
			if (isErr(cm.X) && core.IsNilConst(cm.Y)) || (isErr(cm.Y) && core.IsNilConst(cm.X)) {
				tested = true
			}
		}
	}
	if !tested {
		bad = "the error of Message.Read is not tested"
	}
	c.Check(bad == "", rule, "bus/net.endPoint.process/error-closes", read.Pos(), "a read error reaches closeWith(err) before any return or further read", bad)
	// after closeWith the loop is left
	ok := true
	for _, cl := range closes {
		if core.ReachFrom(core.After(cl), nil, nil).Has(rin) {
			ok = false
		}
	}
	c.Check(ok && len(closes) > 0, rule, "bus/net.endPoint.process/leaves-loop", read.Pos(), "after closeWith the read loop is left", "process keeps reading after closeWith (or never calls closeWith with the read error)")
}

func ruleShutdown(c *core.Ctx, a *epAnchors) {
	const rule = "C11.shutdown"
	fn := a.epCloseWith
	// stream closed on every path
	var closeCalls []ssa.Instruction
	for _, call := range core.Calls(fn) {
		cc := call.Common()
		if cc.IsInvoke() && cc.Method.Name() == "Close" && isFieldOf(cc.Value, a.stream) {
			closeCalls = append(closeCalls, call.(ssa.Instruction))
		}
	}
	ok := len(closeCalls) > 0
	for _, ret := range core.Returns(fn) {
		if !core.MustPassBefore(fn, ret, func(x ssa.Instruction) bool {
			for _, cl := range closeCalls {
				if cl == x {
					return true
				}
			}
			return false
		}) {
			ok = false
		}
	}
	c.Check(ok, rule, "bus/net.endPoint.closeWith/stream-close", fn.Pos(), "stream.Close() on every path", "endPoint.closeWith can return without closing the stream: the peer and the read loop are not released")
	// … and without handlersMutex: dispatch writes its full-queue error reply to the
	// stream while holding the mutex; only closing the stream unblocks it
	lf := core.AnalyzeLocks(fn)
	free := true
	for _, cl := range closeCalls {
		if lf.MayHeld(cl)[a.class] {
			free = false
		}
	}
	// … and before it: a call that registers its handler after the sweep must find the
	// stream closed when it sends (otherwise nobody ever tells it), and a dispatch blocked
	// in a write under the mutex is only released by the close — taking the mutex first
	// waits for it for ever
	for _, call := range core.Calls(fn) {
		op, isOp := core.LockOpOf(call)
		if !isOp || op.Class != a.class || (op.Kind != core.OpLock && op.Kind != core.OpRLock) {
			continue
		}
		in := call.(ssa.Instruction)
		if !core.MustPassBefore(fn, in, func(x ssa.Instruction) bool {
			for _, cl := range closeCalls {
				if cl == x {
					return true
				}
			}
			return false
		}) {
			free = false
		}
	}
	c.Check(free, rule, "bus/net.endPoint.closeWith/stream-close-unlocked", fn.Pos(), "the stream is closed before handlersMutex is taken",
		"the stream is not closed before handlersMutex is taken (it is closed while holding it, or after the handlers were swept): dispatch can hold that mutex while blocked writing to a peer that does not read, so Close waits for the mutex and the writer waits for the stream (deadlock, handlers are never closed); and a call registering after the sweep sends on a stream that still works and is never told")

	// … nor any other lock that some goroutine holds while it writes to (or reads
	// from) the stream: a peer that stops reading blocks that goroutine inside the
	// write with the lock held, and only closing the stream releases it
	{
		held := map[core.LockClass]token.Pos{}
		for _, cl := range closeCalls {
			for class := range lf.MayHeld(cl) {
				held[class] = cl.Pos()
			}
		}
		for _, f := range srcFuncsOfPkg(c, "bus/net") {
			for _, call := range core.Calls(f) {
				if _, plain := call.(*ssa.Call); !plain || !core.IsCallTo(call, a.epCloseWith) {
					continue
				}
				for class := range core.AnalyzeLocks(f).MayHeld(call.(ssa.Instruction)) {
					held[class] = call.Pos()
				}
			}
		}
		bad := ""
		pos := fn.Pos()
		for _, f := range srcFuncsOfPkg(c, "bus/net") {
			var flf *core.LockFacts
			for _, call := range core.Calls(f) {
				usesStream := false
				for _, arg := range call.Common().Args {
					if isFieldOf(arg, a.stream) {
						usesStream = true
					}
				}
				if cc := call.Common(); cc.IsInvoke() && isFieldOf(cc.Value, a.stream) && (cc.Method.Name() == "Write" || cc.Method.Name() == "Read") {
					usesStream = true
				}
				if !usesStream {
					continue
				}
				if flf == nil {
					flf = core.AnalyzeLocks(f)
				}
				for class := range flf.MayHeld(call.(ssa.Instruction)) {
					if p, both := held[class]; both {
						bad = fmt.Sprintf("%s is held both while %s uses the stream (%s) and when the endpoint is closed: a peer that stops reading blocks the writer inside the stream with the lock held, Close then waits for the lock instead of closing the stream, which is the only thing that would release the writer (Close never returns, pending calls never fail, disconnect callbacks never fire)", class, core.FuncKey(f), c.Pos(call.Pos()))
						pos = p
					}
				}
			}
		}
		c.Check(bad == "", rule, "bus/net.endPoint.closeWith/stream-close-no-io-lock", pos, "no lock held across stream I/O is needed to close the stream", bad)
	}

	// the same one level down: a Stream implementation whose Close takes a mutex that its
	// own Write or Read holds across the I/O of the connection it wraps cannot be closed
	// while a writer is blocked on a peer that does not read — and closing the stream is
	// the only way shutdown has to release that writer
	{
		type io struct {
			f   *ssa.Function
			pos token.Pos
		}
		heldAcrossIO := map[core.LockClass]io{}
		var closers []*ssa.Function
		for _, f := range srcFuncsOfPkg(c, "bus/net") {
			if f.Signature.Recv() == nil || f.Parent() != nil {
				continue
			}
			switch f.Name() {
			case "Close":
				closers = append(closers, f)
			case "Write", "Read":
				var flf *core.LockFacts
				for _, call := range core.Calls(f) {
					cc := call.Common()
					name := ""
					if cc.IsInvoke() {
						name = cc.Method.Name()
					} else if sf := cc.StaticCallee(); sf != nil {
						name = sf.Name()
					}
					if name != "Write" && name != "Read" {
						continue
					}
					if flf == nil {
						flf = core.AnalyzeLocks(f)
					}
					for class := range flf.MayHeld(call.(ssa.Instruction)) {
						heldAcrossIO[class] = io{f, call.Pos()}
					}
				}
			}
		}
		bad := ""
		pos := fn.Pos()
		for _, f := range closers {
			for _, call := range core.Calls(f) {
				op, ok := core.LockOpOf(call)
				if !ok || (op.Kind != core.OpLock && op.Kind != core.OpRLock) {
					continue
				}
				if w, both := heldAcrossIO[op.Class]; both {
					bad = fmt.Sprintf("%s takes %s, which %s holds across its I/O on the wrapped connection (%s): while a writer is blocked on a peer that does not read, Close waits for the mutex instead of closing the connection, which is the only thing that would release the writer — shutdown never completes, pending calls are never failed and disconnect callbacks never fire", core.FuncKey(f), op.Class, core.FuncKey(w.f), c.Pos(w.pos))
					pos = call.Pos()
				}
			}
		}
		c.Check(bad == "", rule, "bus/net/stream-implementations/close-no-io-lock", pos, fmt.Sprintf("no Close of a stream implementation (%d examined) takes a mutex its Read/Write hold across I/O", len(closers)), bad)
	}

	// every non-nil slot closed with the error; the walk over the table may live in
	// a helper of closeWith that is handed the error (closeHandlers(err))
	errParam := ssa.Value(fn.Params[1])
	outer := fn
	hasH := func(f *ssa.Function) bool {
		for _, call := range core.Calls(f) {
			if core.IsCallTo(call, a.hCloseWith) {
				return true
			}
		}
		return false
	}
	if !hasH(fn) {
		for _, call := range core.Calls(outer) {
			h := core.StaticCallee(call)
			if h == nil || !isPrivateHelper(c, h) || !hasH(h) {
				continue
			}
			if _, plain := call.(*ssa.Call); !plain {
				continue
			}
			for i, arg := range call.Common().Args {
				if core.SameValue(arg, errParam) && i < len(h.Params) {
					// the helper runs on every path of closeWith
					every := true
					for _, ret := range core.Returns(outer) {
						if !core.MustPassBefore(outer, ret, func(x ssa.Instruction) bool { return x == call.(ssa.Instruction) }) {
							every = false
						}
					}
					if every {
						fn = h
						errParam = h.Params[i]
					}
				}
			}
		}
	}
	var hcalls []ssa.CallInstruction
	for _, call := range core.Calls(fn) {
		if core.IsCallTo(call, a.hCloseWith) {
			hcalls = append(hcalls, call)
		}
	}
	if len(hcalls) == 0 {
		c.Fail(rule, "bus/net.endPoint.closeWith/handlers", outer.Pos(), "shutdown does not close the registered handlers: pending calls and subscriptions hang")
		return
	}
	for i, hc := range hcalls {
		key := fmt.Sprintf("bus/net.endPoint.closeWith/handler-close#%d", i+1)
		c.Check(core.SameValue(hc.Common().Args[1], errParam), rule, key, hc.Pos(), "handlers are closed with the shutdown error", "handlers are not closed with the error that caused the shutdown: callers cannot tell a failure from a normal close")
	}
	// on the slot != nil edge, the next iteration/return is only reached through a closeWith call
	good := false
	for _, b := range fn.Blocks {
		ifi, ok := b.Instrs[len(b.Instrs)-1].(*ssa.If)
		if !ok {
			continue
		}
		cm, neg := core.CondCmp(ifi.Cond)
		var slot ssa.Value
		if core.IsNilConst(cm.Y) {
			slot = cm.X
		} else if core.IsNilConst(cm.X) {
			slot = cm.Y
		}
		if slot == nil {
			continue
		}
		if _, isSlot := a.slotLoadIndex(slot); !isSlot {
			continue
		}
		nonNilEdge := 0 // true edge of !=
		if (cm.Op == token.EQL) != neg {
			nonNilEdge = 1
		}
		isH := func(x ssa.Instruction) bool {
			for _, hc := range hcalls {
				if hc.(ssa.Instruction) == x {
					return true
				}
			}
			return false
		}
		r := core.ReachFrom(core.Point{B: b.Succs[nonNilEdge], I: 0}, isH, nil)
		leak := r.Has(ifi)
		for _, ret := range core.Returns(fn) {
			if r.Has(ret) {
				leak = true
			}
		}
		if !leak {
			good = true
		}
	}
	c.Check(good, rule, "bus/net.endPoint.closeWith/all-slots", fn.Pos(), "every non-nil slot goes through Handler.closeWith before the next slot / return",
		"a registered handler can be skipped at shutdown: its call or subscription never learns the connection is gone")
	// iteration covers the whole table: a range over e.handlers
	ranged := false
	for _, b := range fn.Blocks {
		for _, in := range b.Instrs {
			if call, ok := in.(*ssa.Call); ok {
				if bi, ok := call.Call.Value.(*ssa.Builtin); ok && bi.Name() == "len" && isFieldOf(call.Call.Args[0], a.handlers) {
					ranged = true
				}
			}
		}
	}
	c.Check(ranged, rule, "bus/net.endPoint.closeWith/range", fn.Pos(), "iterates over len(e.handlers)", "shutdown does not iterate over the whole handler table")
	// the walk over the handlers happens on every path of closeWith: an early return
	// (a failing stream.Close, say) must not skip it
	{
		isWalk := func(x ssa.Instruction) bool {
			if fn != outer {
				call, ok := x.(ssa.CallInstruction)
				return ok && core.IsCallTo(call, fn)
			}
			call, ok := x.(*ssa.Call)
			if !ok {
				return false
			}
			bi, ok := call.Call.Value.(*ssa.Builtin)
			return ok && bi.Name() == "len" && isFieldOf(call.Call.Args[0], a.handlers)
		}
		every := true
		var at token.Pos
		for _, ret := range core.Returns(outer) {
			if !core.MustPassBefore(outer, ret, isWalk) {
				every = false
				at = ret.Pos()
			}
		}
		why := ""
		if !every {
			why = "closeWith can return (at " + c.Pos(at) + ") without having walked the handler table: when that path is taken (the stream's Close reporting an error, as tls.Conn does once the peer is gone) no handler is closed, pending calls and subscriptions hang"
		}
		c.Check(every, rule, "bus/net.endPoint.closeWith/always", outer.Pos(), "the handlers are closed on every path of the shutdown", why)
	}
}

// clientCall gathers the anchors of bus.client.Call.
type clientCall struct {
	fn             *ssa.Function
	make           ssa.CallInstruction // MakeHandler
	send           ssa.CallInstruction // first EndPoint.Send
	filter, closer *ssa.Function
	subst          map[*ssa.Parameter]ssa.Value // factory parameters of the filter -> arguments in Call
	closerSubst    map[*ssa.Parameter]ssa.Value // the same for the closer's factory
	queue          ssa.Value
	site           handlerSite
}

func getClientCall(c *core.Ctx, a *epAnchors, rule string) *clientCall {
	fn := c.Func("bus", "client", "Call")
	if fn == nil {
		c.Undecided(rule, "bus.client.Call", token.NoPos, "anchor not found")
		return nil
	}
	cc := &clientCall{fn: fn}
	for _, s := range handlerSites(c, a) {
		if s.fn == fn && s.via == "MakeHandler" {
			cc.make = s.call
			cc.site = s
			cc.filter, cc.subst, _ = funcValueCtx(s.filter)
			// a predicate helper called by the filter (sameCall(call, hdr)): its parameters
			// stand for what the filter passes
			if cc.filter != nil {
				if cc.subst == nil {
					cc.subst = map[*ssa.Parameter]ssa.Value{}
				}
				for _, hc := range core.Calls(cc.filter) {
					h := core.StaticCallee(hc)
					if h == nil || !inRepo(h) || len(h.Blocks) == 0 || h == cc.filter {
						continue
					}
					for i, hp := range h.Params {
						if _, done := cc.subst[hp]; !done && i < len(hc.Common().Args) {
							cc.subst[hp] = hc.Common().Args[i]
						}
					}
				}
			}
			cc.closer, cc.closerSubst, _ = funcValueCtx(s.closer)
			cc.queue = core.Canon(s.queue)
		}
	}
	for _, call := range core.Calls(fn) {
		x := call.Common()
		isSend := x.IsInvoke() && x.Method.Name() == "Send" && core.TypeIs(x.Value.Type(), "bus/net", "EndPoint")
		if !isSend && !x.IsInvoke() && isSendForwarder(c, x.StaticCallee()) {
			isSend = true // c.send(msg): a private method that only forwards to EndPoint.Send
		}
		if isSend {
			if cc.send == nil || core.Dominates(call.(ssa.Instruction), cc.send.(ssa.Instruction)) {
				cc.send = call
			}
		}
	}
	if cc.make == nil || cc.send == nil {
		c.Fail(rule, "bus.client.Call", fn.Pos(), "client.Call does not register a reply handler with MakeHandler and send the message with EndPoint.Send")
		return nil
	}
	return cc
}

func ruleHandlerBeforeSend(c *core.Ctx, a *epAnchors, rule string) {
	cc := getClientCall(c, a, rule)
	if cc == nil {
		return
	}
	mk, sd := cc.make.(ssa.Instruction), cc.send.(ssa.Instruction)
	_, plain := cc.make.(*ssa.Call)
	c.Check(plain && core.Dominates(mk, sd) && !core.ReachEntry(cc.fn, func(x ssa.Instruction) bool { return x == mk }, nil).Has(sd),
		rule, "bus.client.Call/register-then-send", cc.send.Pos(),
		"MakeHandler dominates Send", "the call message can be sent before the reply handler is registered: a fast reply is dropped and the caller hangs")
	// on send failure the handler is removed
	isErr := func(v ssa.Value) bool {
		cr, _ := core.CallResult(v)
		return cr != nil && ssa.CallInstruction(cr) == cc.send
	}
	cut := core.CutEstablishing(core.Eq(isErr, core.IsNilConst))
	isRemove := func(x ssa.Instruction) bool {
		call, ok := x.(ssa.CallInstruction)
		if !ok {
			return false
		}
		k := call.Common()
		rargs, isRm := epCall(c, call, "RemoveHandler")
		if !isRm || len(rargs) == 0 {
			return false
		}
		_ = k
		cr, _ := core.CallResult(core.StripConv(rargs[0]))
		return cr != nil && ssa.CallInstruction(cr) == cc.make
	}
	// returns reachable on the error side only
	r := core.ReachFrom(core.After(sd), isRemove, cut)
	leak := false
	for _, ret := range core.Returns(cc.fn) {
		if r.Has(ret) {
			// a return reached on the error side without RemoveHandler; make sure it
			// is really on the error side (not reachable when err == nil only)
			leak = true
		}
	}
	// … and only then: once the message is out the single-shot filter lets the
	// dispatcher free the slot itself when the reply arrives, so a later
	// RemoveHandler(id) can hit a slot that was reused in the meantime
	stale := token.NoPos
	for _, f := range core.AnonFuncs(cc.fn) {
		for _, call := range core.Calls(f) {
			in := call.(ssa.Instruction)
			if !isRemove(in) {
				continue
			}
			if f != cc.fn || !core.Guarded(cc.fn, in, core.Ne(isErr, core.IsNilConst)) {
				stale = call.Pos()
			}
		}
	}
	c.Check(!stale.IsValid(), rule, "bus.client.Call/remove-only-on-send-failure", firstPos(stale, cc.send.Pos()),
		"the reply handler is removed by Call only where Send failed (afterwards the dispatcher removes it with the reply)",
		"Call removes its reply handler by id on a path where the message was sent (cancellation, time-out, clean-up): the reply may already have been dispatched, which frees the slot, and a handler registered since (a disconnect callback, another call's reply handler) has reused the id — it is closed as if the connection was lost and no longer fires on the real loss")
	// restrict: the select must not be reachable on the error side either
	c.Check(!leak, rule, "bus.client.Call/remove-on-send-failure", cc.send.Pos(),
		"a failed Send removes the handler with the id MakeHandler returned", "when Send fails the reply handler is left registered (handler slot leak; its closer later fires for a call that already returned)")
}

// filterMayMatch reports whether a filter function can return matched=true.
func filterMayMatch(f *ssa.Function) bool {
	if f == nil {
		return false
	}
	for _, r := range core.Returns(f) {
		if len(r.Results) < 1 {
			return true
		}
		b, ok := core.ConstBool(core.RetVal(r, 0))
		if !ok || b {
			return true
		}
	}
	return false
}

func ruleBufferedQueues(c *core.Ctx, a *epAnchors) {
	const rule = "C11.buffered-queues"
	for _, s := range handlerSites(c, a) {
		if s.via != "MakeHandler" {
			continue
		}
		f, ok := funcValue(s.filter)
		key := s.key()
		if !ok {
			if _, isParam := core.Canon(s.filter).(*ssa.Parameter); isParam {
				// AddHandler forwards: the queue is made there
				ok = true
			} else {
				c.Undecided(rule, key, s.call.Pos(), "cannot resolve the filter")
				continue
			}
		}
		if f != nil && !filterMayMatch(f) {
			c.Pass(rule, key, s.call.Pos(), "filter never matches: the queue never receives a message")
			continue
		}
		mk, isMk := core.Canon(s.queue).(*ssa.MakeChan)
		if !isMk {
			c.Fail(rule, key, s.call.Pos(), "the queue is not a channel made by the registering function; its capacity is unknown")
			continue
		}
		k, isConst := core.ConstInt(mk.Size)
		c.Check(isConst && k >= 1, rule, key, mk.Pos(), fmt.Sprintf("queue capacity %d", k),
			"a handler whose filter can match is given an unbuffered (or non-constant capacity) queue: dispatch never blocks, so a message arriving before the consumer is waiting is dropped (a reply that beats its caller is lost)")
	}
}

func ruleCallWaits(c *core.Ctx, a *epAnchors) {
	const rule = "C11.call-waits"
	cc := getClientCall(c, a, rule)
	if cc == nil {
		return
	}
	fn := cc.fn
	// the closer sends its error on a channel
	var errChan ssa.Value
	if cc.closer != nil {
		for _, b := range cc.closer.Blocks {
			for _, in := range b.Instrs {
				if sd, ok := in.(*ssa.Send); ok {
					errChan = core.Canon(substValue(cc.closerSubst, sd.Chan)) // captured, or handed to the closer's factory
					okArg := len(cc.closer.Params) == 1 && core.Canon(sd.X) == ssa.Value(cc.closer.Params[0])
					isErrP := func(v ssa.Value) bool { return core.Canon(v) == ssa.Value(cc.closer.Params[0]) }
					c.Check(okArg && core.Guarded(cc.closer, sd, core.Ne(isErrP, core.IsNilConst)) || okArg, rule, "bus.client.Call/closer-forwards", sd.Pos(),
						"the closer forwards the connection error to the caller", "the closer does not forward the error it was given")
				}
			}
		}
	}
	if errChan == nil {
		c.Fail(rule, "bus.client.Call/closer-forwards", fn.Pos(), "the reply handler has no closer that forwards the connection error: a call pending when the connection fails only sees a closed queue (or hangs)")
	} else {
		mk, isMk := errChan.(*ssa.MakeChan)
		good := false
		if isMk {
			k, ok := core.ConstInt(mk.Size)
			good = ok && k >= 1
			// only sender
			n := 0
			for _, u := range allUses(mk) {
				if _, ok := u.(*ssa.Send); ok {
					n++
				}
			}
			if n == 0 && len(cc.closerSubst) > 0 {
				// the only sender is the closer built by the factory the channel was handed to:
				// the channel must not go anywhere else
				n = 1
				for _, u := range allUses(mk) {
					if call, ok := u.(ssa.CallInstruction); ok {
						if fc, _, _ := funcValueCtx(cc.site.closer); fc != cc.closer || !callReturnsValue(call, cc.site.closer) {
							n = 2
						}
					}
				}
			}
			good = good && n == 1
		}
		c.Check(good, rule, "bus.client.Call/error-channel", errChan.Pos(), "capacity >= 1 and a single sender: the closer cannot block under the endpoint lock",
			"the channel the closer writes to is unbuffered or has several senders: the closer (run under handlersMutex) can block")
	}
	// the select
	var sel *ssa.Select
	for _, b := range fn.Blocks {
		for _, in := range b.Instrs {
			if s, ok := in.(*ssa.Select); ok && s.Blocking && core.Dominates(cc.send.(ssa.Instruction), s) {
				sel = s
			}
		}
	}
	if sel == nil {
		c.Fail(rule, "bus.client.Call/select", fn.Pos(), "client.Call does not wait in a blocking select after sending")
		return
	}
	// the select is the only place where Call blocks: nothing after it may wait
	// on a channel again (the closer does not always send: a local Close passes nil)
	for _, b := range fn.Blocks {
		for _, in := range b.Instrs {
			blocking := false
			switch x := in.(type) {
			case *ssa.UnOp:
				blocking = x.Op == token.ARROW
			case *ssa.Select:
				blocking = x.Blocking && x != sel
			}
			if blocking && core.Dominates(sel, in) && in != ssa.Instruction(sel) {
				c.Fail(rule, "bus.client.Call/blocks-again", in.Pos(), "client.Call waits on a channel again after its select: if that channel is never written (the closer only forwards non-nil errors) the caller hangs although the connection is gone")
			}
		}
	}
	replyIdx, errIdx := -1, -1
	for i, st := range sel.States {
		if st.Dir != types.RecvOnly {
			continue
		}
		ch := core.Canon(st.Chan)
		if ch == cc.queue {
			replyIdx = i
		}
		if errChan != nil && ch == errChan {
			errIdx = i
		}
	}
	c.Check(replyIdx >= 0 && errIdx >= 0 && len(sel.States) >= 3, rule, "bus.client.Call/select", sel.Pos(),
		"waits on the error channel, the reply queue and cancel at once", "client.Call does not wait simultaneously on the reply queue, the connection-error channel and cancel: a connection failure (or a cancel) leaves the caller blocked")
	if replyIdx >= 0 {
		// closed queue ⇒ error return: the ok flag of the select is tested and its false edge reaches only error returns
		isOK := func(v ssa.Value) bool {
			e, ok := core.Canon(v).(*ssa.Extract)
			return ok && e.Tuple == ssa.Value(sel) && e.Index == 1
		}
		isIdx := func(v ssa.Value) bool {
			e, ok := core.Canon(v).(*ssa.Extract)
			return ok && e.Tuple == ssa.Value(sel) && e.Index == 0
		}
		isK := func(v ssa.Value) bool { k, ok := core.ConstInt(v); return ok && int(k) == replyIdx }
		// success returns must be guarded by ok == true
		good := true
		for _, ret := range core.Returns(fn) {
			if !core.Dominates(sel, ret) {
				continue
			}
			// returns in the reply arm
			if core.Guarded(fn, ret, core.Eq(isIdx, isK)) && successReturn(ret) {
				if !core.Guarded(fn, ret, core.IsTrue(isOK)) {
					good = false
				}
			}
		}
		// and the response message is only used under ok
		msgUse := true
		for _, b := range fn.Blocks {
			for _, in := range b.Instrs {
				if fa, ok := in.(*ssa.FieldAddr); ok {
					if e, ok := core.Canon(fa.X).(*ssa.Extract); ok && e.Tuple == ssa.Value(sel) && e.Index >= 2 {
						if !core.Guarded(fn, fa, core.IsTrue(isOK)) {
							msgUse = false
						}
					}
				}
			}
		}
		c.Check(good && msgUse, rule, "bus.client.Call/closed-queue", sel.Pos(), "a closed reply queue (ok == false) leads to an error return, the message is only used when ok",
			"client.Call uses the received message without testing that the reply queue was still open: after a disconnect it dereferences a nil message or returns success")
	}
}

func ruleSubscriptionsClose(c *core.Ctx, a *epAnchors) {
	const rule = "C11.subscriptions"
	fn := c.Func("bus", "client", "Subscribe")
	if fn == nil {
		c.Undecided(rule, "bus.client.Subscribe", token.NoPos, "anchor not found")
		return
	}
	// the goroutine: a function literal started with `go` that receives from the queue
	var site *handlerSite
	for _, s := range handlerSites(c, a) {
		if s.fn == fn || (s.fn.Parent() == fn) {
			ss := s
			site = &ss
		}
	}
	if site == nil {
		c.Fail(rule, "bus.client.Subscribe/handler", fn.Pos(), "Subscribe registers no handler")
		return
	}
	// events channel: the MakeChan of element type []byte returned by Subscribe
	var goFn *ssa.Function
	goArgs := map[*ssa.Parameter]ssa.Value{} // parameters of the goroutine -> what Subscribe passes
	for _, call := range core.Calls(fn) {
		if g, ok := call.(*ssa.Go); ok {
			if f, ok := funcValue(g.Call.Value); ok && f != nil {
				goFn = f
				args := g.Call.Args
				for i, p := range f.Params {
					if i < len(args) {
						goArgs[p] = args[i]
					}
				}
			}
		}
	}
	inSubscribe := func(v ssa.Value) ssa.Value {
		v = core.Canon(v)
		if p, ok := v.(*ssa.Parameter); ok {
			if a, ok := goArgs[p]; ok {
				return core.Canon(a)
			}
		}
		// s.queue, s being the subscription state Subscribe made and handed over
		if ld, ok := v.(*ssa.UnOp); ok && ld.Op == token.MUL {
			if fa, ok := ld.X.(*ssa.FieldAddr); ok {
				if p, ok := core.Canon(fa.X).(*ssa.Parameter); ok {
					if a, ok := goArgs[p]; ok {
						if al, ok := core.Canon(a).(*ssa.Alloc); ok {
							if d := core.SingleFieldDef(al, fa.Field); d != nil {
								return core.Canon(d)
							}
						}
					}
				}
			}
		}
		return v
	}
	if goFn == nil {
		c.Fail(rule, "bus.client.Subscribe/goroutine", fn.Pos(), "Subscribe starts no forwarding goroutine")
		return
	}
	var closes []ssa.Instruction
	for _, b := range goFn.Blocks {
		for _, in := range b.Instrs {
			if ch := isCloseBuiltin(in); ch != nil {
				if t, ok := ch.Type().Underlying().(*types.Chan); ok {
					if sl, ok := t.Elem().Underlying().(*types.Slice); ok && types.Identical(sl.Elem(), types.Typ[types.Byte]) {
						closes = append(closes, in)
					}
				}
			}
		}
	}
	isClose := func(x ssa.Instruction) bool {
		for _, cl := range closes {
			if cl == x {
				return true
			}
		}
		return false
	}
	good := len(closes) > 0
	why := "the forwarding goroutine never closes the events channel"
	for _, ret := range core.Returns(goFn) {
		if !core.MustPassBefore(goFn, ret, isClose) {
			good = false
			why = "the forwarding goroutine can exit (at " + c.Pos(ret.Pos()) + ") without closing the events channel: the subscriber blocks forever after a disconnect or a cancel"
		}
	}
	for _, cl := range closes {
		if again := core.CanReach(cl, isClose); again != nil {
			good = false
			why = "the events channel can be closed twice (panic)"
		}
	}
	c.Check(good, rule, "bus.client.Subscribe/close-events", goFn.Pos(), "events closed exactly once on every exit of the forwarding goroutine", why)
	// the queue-closed exit exists: a receive with comma-ok from the handler queue whose !ok edge reaches a return
	hasOk := false
	for _, b := range goFn.Blocks {
		for _, in := range b.Instrs {
			if sel, ok := in.(*ssa.Select); ok {
				for _, st := range sel.States {
					if st.Dir == types.RecvOnly && inSubscribe(st.Chan) == core.Canon(site.queue) {
						hasOk = true
					}
				}
			}
			if u, ok := in.(*ssa.UnOp); ok && u.Op == token.ARROW && inSubscribe(u.X) == core.Canon(site.queue) {
				hasOk = true
			}
		}
	}
	// the handler is removed by the subscriber only while it is still its own: when the
	// queue was found closed the endpoint has already dropped the handler and may have
	// given its slot to another registration
	{
		bad := ""
		var removes []ssa.CallInstruction
		for _, f := range core.AnonFuncs(goFn) {
			for _, call := range core.Calls(f) {
				cc := call.Common()
				if _, isRm := epCall(c, call, "RemoveHandler"); isRm {
					removes = append(removes, call)
				}
				_ = cc
			}
		}
		for _, rm := range removes {
			if _, plain := rm.(*ssa.Call); !plain {
				bad = "RemoveHandler is deferred (or asynchronous) in the forwarding goroutine: it also runs when the queue was closed by the endpoint, and then removes whatever registration has taken the freed slot since (another subscriber's channel is closed)"
				continue
			}
			// from the queue-closed edge the removal is unreachable
			for _, b := range goFn.Blocks {
				ifi, ok := b.Instrs[len(b.Instrs)-1].(*ssa.If)
				if !ok {
					continue
				}
				isOK := func(v ssa.Value) bool {
					e, isE := core.Canon(v).(*ssa.Extract)
					if !isE {
						return false
					}
					switch x := e.Tuple.(type) {
					case *ssa.Select:
						return true
					case *ssa.UnOp:
						return x.Op == token.ARROW && x.CommaOk && inSubscribe(x.X) == core.Canon(site.queue)
					}
					return false
				}
				closedCut := core.CutEstablishing(core.IsFalse(isOK))
				for si, sc := range b.Succs {
					if closedCut(b, si) && len(sc.Instrs) > 0 {
						r := core.ReachFrom(core.Point{B: sc, I: 0}, func(x ssa.Instruction) bool { return x.Block() == b }, nil)
						if r.Has(rm.(ssa.Instruction)) {
							bad = "RemoveHandler is reachable after the queue was found closed: the endpoint has already dropped that handler and may have reused its slot"
						}
					}
				}
				_ = ifi
			}
		}
		// … and by nobody else: a cancel function that calls RemoveHandler(id) itself does not
		// know whether the endpoint has dropped the handler already (the object terminated,
		// the filter answered keep=false) and its slot been given to another registration
		if subFn := c.Func("bus", "client", "Subscribe"); subFn != nil {
			for _, f := range core.AnonFuncs(subFn) {
				inGo := false
				for _, g := range core.AnonFuncs(goFn) {
					if g == f {
						inGo = true
					}
				}
				if inGo {
					continue
				}
				for _, call := range core.Calls(f) {
					cc := call.Common()
					if _, isRm := epCall(c, call, "RemoveHandler"); isRm && bad == "" {
						_ = cc
						bad = "RemoveHandler is called (at " + c.Pos(call.Pos()) + ") outside the forwarding goroutine, which alone knows whether the queue is still open: a cancel arriving after the endpoint dropped the handler removes whatever registration has taken the freed slot since (another subscriber's channel is closed)"
					}
				}
			}
		}
		c.Check(bad == "", rule, "bus.client.Subscribe/remove-own-handler", goFn.Pos(), "the handler is only removed on the abort path, while the queue is still open", bad)
	}
	c.Check(hasOk, rule, "bus.client.Subscribe/reads-queue", goFn.Pos(), "the goroutine receives from the handler queue (its close ends the subscription)", "the forwarding goroutine does not receive from the queue registered with the endpoint")

	// OnDisconnect
	od := c.Func("bus", "client", "OnDisconnect")
	if od == nil {
		c.Undecided(rule, "bus.client.OnDisconnect", token.NoPos, "anchor not found")
		return
	}
	good = false
	for _, s := range handlerSites(c, a) {
		if s.fn == od {
			if p, ok := core.Canon(s.closer).(*ssa.Parameter); ok && p.Parent() == od {
				good = true
			}
		}
	}
	c.Check(good, rule, "bus.client.OnDisconnect/closer", od.Pos(), "the callback is registered as the closer of a handler", "OnDisconnect does not register the user's callback as a handler closer: it never fires")
}

// callReturnsValue: v is (after Canon) the result of call.
func callReturnsValue(call ssa.CallInstruction, v ssa.Value) bool {
	cv, ok := call.(*ssa.Call)
	return ok && core.Canon(v) == ssa.Value(cv)
}

// isSendForwarder: f is a private function of the repository whose whole body hands its
// message to EndPoint.Send once and returns that result.
func isSendForwarder(c *core.Ctx, f *ssa.Function) bool {
	if f == nil || len(f.Blocks) == 0 || len(f.Blocks) > 2 || !isPrivateHelper(c, f) {
		return false
	}
	var send ssa.CallInstruction
	for _, call := range core.Calls(f) {
		x := call.Common()
		if x.IsInvoke() && x.Method.Name() == "Send" && core.TypeIs(x.Value.Type(), "bus/net", "EndPoint") {
			if send != nil {
				return false
			}
			send = call
			continue
		}
		return false // anything else done here is not forwarding
	}
	if send == nil {
		return false
	}
	for _, r := range core.Returns(f) {
		if len(r.Results) != 1 {
			return false
		}
		if cr, _ := core.CallResult(core.RetVal(r, 0)); cr == nil || ssa.CallInstruction(cr) != send {
			return false
		}
	}
	return true
}

// sentMessageArg: the message handed to the send — the argument of EndPoint.Send, or the
// last argument of a forwarder method (whose first is its receiver).
func sentMessageArg(send ssa.CallInstruction) ssa.Value {
	args := send.Common().Args
	if send.Common().IsInvoke() || len(args) == 1 {
		return args[0]
	}
	return args[len(args)-1]
}
