package rules

import (
	"fmt"
	"go/token"
	"go/types"
	"sort"
	"strings"

	"golang.org/x/tools/go/ssa"

	"qicheck/internal/core"
)

func init() {
	register(&Property{
		ID:    "C12",
		Title: "One client cannot stop a service from serving others",
		Explanation: "Static discharge of structural necessary conditions of C12: " +
			"(callbacks) closers/filters registered on an endpoint run with handlersMutex held and must not reach a re-acquisition of it (call graph) nor block — a self-deadlock there wedges the object's mailbox goroutine for every client; " +
			"(dispatch) the connection's dispatch never blocks on a consumer queue (non-blocking select) and answers a Call whose queue is full with an Error carrying the call's address and id; " +
			"(decode-errors) in every generated stub method each argument-decoding error is turned into SendError and the method is not invoked; unknown actions and objects are answered with an error; " +
			"(removal) delete() on the router/service/object tables uses the id the request named, under the table's lock; " +
			"(no-panic) no explicit panic statement in the Receive path of the anchored packages (thorough: call-graph reachability). " +
			"Not decided: liveness under floods (replies are written synchronously from the mailbox goroutine), implicit panics, C07's unbounded allocations, 'bounded time'.",
		Assumptions: []string{"call graph: CHA over go/ssa, `go` edges excluded for the re-entrancy rule", "generated stubs are the checked-in *_stub_gen.go files"},
		Run:         runC12,
	})
}

func runC12(c *core.Ctx) {
	a := getEP(c, "C12.anchors")
	if a == nil {
		return
	}
	lc := core.NewLockCache()
	c.Doc("C12.callbacks", "closers and filters (run under handlersMutex) do not re-enter it and cannot block", 10)
	ruleCallbacks(c, a, lc, "C12.callbacks")
	c.Doc("C12.dispatch", "dispatch never blocks; a Call hitting a full queue is answered with an Error for that call", 2)
	ruleSendOwner(c, a, lc, "C12.dispatch")
	ruleFullQueueError(c, a)
	c.Doc("C12.decode-errors", "every argument-decoding error in a generated stub method becomes SendError before the implementation is called", 25)
	ruleStubDecodeErrors(c, "C12.decode-errors")
	c.Doc("C12.not-found", "unknown service / object / action are answered with an error", 4)
	ruleNotFound(c)
	c.Doc("C12.removal", "removal requests delete exactly the id they name", 4)
	ruleRemovalKeys(c)
	c.Doc("C06.state-guarded", "the authentication state of a connection is read and written under a mutex of its channel: a concurrent map read and write aborts the server for everyone — rule shared with C06", 2)
	ruleAuthStateGuarded(c, lc, "C06.state-guarded")
	c.Doc("C12.errors-reported", "no error is built and then dropped in bus/** (a connection or lookup failure that is not reported leaves a nil client or object behind: the next use panics in a mailbox goroutine)", 1)
	ruleNoErrorBuiltAndDropped(c, "C12.errors-reported", "bus")
	c.Doc("C12.no-panic", "no explicit panic on the message-receiving path", 1)
	ruleNoPanicInReceive(c)
	c.Doc("C12.negative-length", "no wire integer that went through a signed type sizes an allocation without a lower-bound check (the panic kills the server for everyone)", 10)
	wireIntegerSinks(c, newDecoderSet(c), "C12.negative-length", "C12.negative-length", true)
	c.Doc("C07.loop", "no loop bound comes from an unchecked wire integer unless every iteration consumes input (a hostile count keeps the object's goroutine busy for minutes: nobody is answered) — rule shared with C07", 15)
	wireIntegerSinks(c, newDecoderSet(c), "", "C07.loop", false)
	c.Doc("C07.index", "a value read from the input is indexed with a constant only after its length was tested (an index panic in a mailbox goroutine takes the server down) — rule shared with C07", 1)
	ruleWireStringIndex(c, newDecoderSet(c), "C07.index")
	c.Doc("C12.locks", "bus/**: every mutex released on every path (a leaked lock wedges the object/service for every client); no blocking channel operation while a mutex is held", 30)
	ruleBusLocks(c, lc)
	// a send on a closed mailbox panics in a connection goroutine and takes the
	// whole server down (rule shared with C16)
	c.Doc("C16.mailbox", "mailboxes are never closed (Receive sends to a mailbox after releasing the service lock)", 1)
	ruleMailboxNeverClosed(c)
	c.Doc("C12.bounded-service", "the goroutine serving an object waits for no client without bound: answers are written with a write deadline, nothing on its path sleeps", 2)
	ruleBoundedService(c, a, "C12.bounded-service")
	c.Doc("C12.trace-not-traced", "the trace event is not emitted for the trace signal's own messages (no unbounded self-tracing)", 1)
	ruleTraceNotTraced(c, "C12.trace-not-traced")
}

// ruleBusLocks: lock pairing over the whole bus tree and no blocking channel
// operation under a held mutex.
func ruleBusLocks(c *core.Ctx, lc *core.LockCache) {
	const rule = "C12.locks"
	var fns []*ssa.Function
	for _, fn := range append(c.RepoFuncs("bus"), c.RepoFuncs(core.WitnessDirName)...) {
		if c.IsTestFile(fn) {
			continue
		}
		fns = append(fns, fn)
	}
	lockPairing(c, lc, rule, fns)
	ruleNoLockCopies(c, rule, fns)
	skip := map[core.LockClass]string{}
	if a := getEP(c, rule); a != nil {
		// the end point's handler mutex (whatever it is called): decided with more precision
		// by the callbacks rule (closers run under it only for a handler whose own filter
		// answered keep=false)
		skip[a.class] = "C12.callbacks / C17.callbacks"
	}
	nHeldCalls := reentrantThroughCalls(c, lc, rule, fns, skip)
	c.Note("calls made with a mutex held: %d (each followed through the call graph for a re-acquisition)", nHeldCalls)
	for _, fn := range fns {
		lf := lc.Get(fn)
		if lf.Ops == 0 {
			continue
		}
		n := 0
		for _, b := range fn.Blocks {
			for _, in := range b.Instrs {
				what := ""
				switch x := in.(type) {
				case *ssa.Send:
					what = "channel send"
				case *ssa.Select:
					if x.Blocking {
						what = "blocking select"
					}
				case *ssa.UnOp:
					if x.Op == token.ARROW {
						what = "channel receive"
					}
				}
				if what == "" {
					continue
				}
				held := lf.MayHeld(in)
				if len(held) == 0 {
					continue
				}
				n++
				var names []string
				for k := range held {
					names = append(names, k.String())
				}
				sort.Strings(names)
				c.Fail(rule, fmt.Sprintf("blocking-under-lock@%s#%d", core.FuncKey(fn), n), in.Pos(),
					what+" while "+strings.Join(names, ", ")+" is held: a full queue / slow peer keeps the lock and stalls every other user of it (with a writer waiting, every reader too)")
			}
		}
	}
}

// ruleFullQueueError: in dispatch, on the default arm of the select, a Call is
// answered with an Error built from the call's header.
func ruleFullQueueError(c *core.Ctx, a *epAnchors) {
	const rule = "C12.dispatch"
	fn := a.dispatch
	typeF := c.Field("bus/net", "Header", "Type")
	unit := unitOf(c, fn)
	var sel *ssa.Select
	for _, f := range unit {
		for _, b := range f.Blocks {
			for _, in := range b.Instrs {
				if s, ok := in.(*ssa.Select); ok {
					sel = s
				}
			}
		}
	}
	if sel == nil || typeF == nil {
		c.Fail(rule, "bus/net.endPoint.dispatch/full-queue", fn.Pos(), "no select in dispatch")
		return
	}
	var sends []ssa.CallInstruction
	for _, f := range unit {
		for _, call := range core.Calls(f) {
			if f := core.StaticCallee(call); f != nil && streamWriters(c, a)[f] {
				sends = append(sends, call) // Send, or the private method Send itself forwards to
			}
		}
	}
	if len(sends) == 0 {
		c.Fail(rule, "bus/net.endPoint.dispatch/full-queue", sel.Pos(), "a Call that cannot be queued is dropped silently: the caller waits forever")
		return
	}
	isIdx := func(v ssa.Value) bool {
		e, ok := core.Canon(v).(*ssa.Extract)
		return ok && e.Tuple == ssa.Value(sel) && e.Index == 0
	}
	is0 := func(v ssa.Value) bool { k, ok := core.ConstInt(v); return ok && k == 0 }
	isType := func(v ssa.Value) bool { return isFieldOf(v, typeF) }
	kCall := constOf(c, "bus/net", "Call")
	isCall := func(v ssa.Value) bool { k, ok := core.ConstInt(v); return ok && k == kCall }
	for i, s := range sends {
		key := fmt.Sprintf("bus/net.endPoint.dispatch/full-queue#%d", i+1)
		in := s.(ssa.Instruction)
		if !guardedUp(c, s.Parent(), in, core.Ne(isIdx, is0)) {
			c.Fail(rule, key, s.Pos(), "an error is sent although the message was queued")
			continue
		}
		if !guardedUp(c, s.Parent(), in, core.Eq(isType, isCall)) {
			c.Fail(rule, key, s.Pos(), "the full-queue error is sent for messages that are not calls (an Error answered with an Error can loop between two peers)")
			continue
		}
		c.Pass(rule, key, s.Pos(), "only on the default arm, only for Call messages")
	}
}

// stubMethods enumerates generated stub methods: methods of a struct type
// whose name starts with "stub", with signature (msg *net.Message, c Channel) error.
func stubMethods(c *core.Ctx) []*ssa.Function {
	var out []*ssa.Function
	for _, fn := range c.RepoFuncs() {
		if fn.Parent() != nil || fn.Signature.Recv() == nil || !isGenerated(c, fn) {
			continue
		}
		if c.IsTestFile(fn) && c.Tier != "thorough" {
			continue
		}
		rt := fn.Signature.Recv().Type()
		if p, ok := rt.(*types.Pointer); ok {
			rt = p.Elem()
		}
		n, ok := rt.(*types.Named)
		if !ok || !strings.HasPrefix(n.Obj().Name(), "stub") {
			continue
		}
		if len(fn.Params) != 3 || !core.TypeIs(fn.Params[1].Type(), "bus/net", "Message") {
			continue
		}
		if fn.Name() == "Receive" {
			continue
		}
		out = append(out, fn)
	}
	return out
}

// implCalls returns the calls through the stub's `impl` field.
func implCalls(fn *ssa.Function) []ssa.CallInstruction {
	var out []ssa.CallInstruction
	for _, f := range core.AnonFuncs(fn) {
		for _, call := range core.Calls(f) {
			cc := call.Common()
			if cc.IsInvoke() {
				p := core.AccessPath(cc.Value)
				if len(p.Fields) > 0 && p.Fields[len(p.Fields)-1].Name() == "impl" {
					out = append(out, call)
				}
			}
		}
	}
	return out
}

// isSendErrorCall: invoke of Channel.SendError.
func isSendErrorCall(in ssa.Instruction) bool {
	call, ok := in.(ssa.CallInstruction)
	if !ok {
		return false
	}
	cc := call.Common()
	if cc.IsInvoke() {
		return cc.Method.Name() == "SendError"
	}
	f := cc.StaticCallee()
	return f != nil && f.Name() == "SendError" && f.Signature.Recv() != nil
}

func isSendReplyCall(in ssa.Instruction) bool {
	call, ok := in.(ssa.CallInstruction)
	if !ok {
		return false
	}
	cc := call.Common()
	if cc.IsInvoke() {
		return cc.Method.Name() == "SendReply"
	}
	f := cc.StaticCallee()
	return f != nil && f.Name() == "SendReply" && f.Signature.Recv() != nil
}

// ruleStubDecodeErrors: in each stub method, every (value, err) produced
// before the impl call has its err tested; the err != nil edge reaches only
// returns of SendError and never the impl call.
func ruleStubDecodeErrors(c *core.Ctx, rule string) {
	for _, fn := range stubMethods(c) {
		impls := implCalls(fn)
		var impl ssa.Instruction
		for _, ic := range impls {
			if ic.Parent() == fn {
				impl = ic.(ssa.Instruction)
			}
		}
		if impl == nil {
			continue
		}
		// error-typed values defined in fn that dominate the impl call
		n := 0
		for _, b := range fn.Blocks {
			for _, in := range b.Instrs {
				v, ok := in.(ssa.Value)
				if !ok || !core.IsErrorType(v.Type()) {
					continue
				}
				if _, isExtract := in.(*ssa.Extract); !isExtract {
					if _, isCall := in.(*ssa.Call); !isCall {
						continue
					}
				}
				if !core.Dominates(in, impl) || in == impl {
					continue
				}
				// the impl call's own error result is handled by the post rule (C04)
				if e, ok := in.(*ssa.Extract); ok && e.Tuple == impl.(ssa.Value) {
					continue
				}
				n++
				key := fmt.Sprintf("%s/decode-err#%d", core.FuncKey(fn), n)
				isErr := func(x ssa.Value) bool { return core.Canon(x) == v }
				// on the err != nil side: impl unreachable, every return is a SendError
				cut := core.CutEstablishing(core.Eq(isErr, core.IsNilConst))
				r := core.ReachFrom(core.After(in), nil, cut)
				bad := ""
				tested := false
				for _, u := range core.Referrers(v) {
					if bo, ok := u.(*ssa.BinOp); ok && (bo.Op == token.NEQ || bo.Op == token.EQL) {
						tested = true
					}
				}
				if !tested {
					bad = "the decoding error is never tested: the method runs on a partly decoded argument"
				} else if r.Has(impl) {
					bad = "the implementation is called although decoding the argument failed"
				} else {
					for _, ret := range core.Returns(fn) {
						if !r.Has(ret) {
							continue
						}
						cr, _ := core.CallResult(core.RetVal(ret, 0))
						if cr == nil || !isSendErrorCall(cr) {
							bad = "a decoding error does not produce an error reply (the caller waits forever)"
						}
					}
				}
				c.Check(bad == "", rule, key, in.Pos(), "err != nil ⇒ return c.SendError(...), implementation not called", bad)
			}
		}
	}
}

func ruleNotFound(c *core.Ctx) {
	const rule = "C12.not-found"
	chk := func(rel, recv, name, what string, isLookupOK func(fn *ssa.Function) (ssa.Instruction, core.EdgeMatcher)) {
		fn := c.Func(rel, recv, name)
		key := rel + "." + recv + "." + name
		if fn == nil {
			c.Undecided(rule, key, token.NoPos, "anchor not found")
			return
		}
		_, m := isLookupOK(fn)
		if m == nil {
			c.Fail(rule, key, fn.Pos(), "no lookup of the "+what+" table")
			return
		}
		// with the ok edges cut (lookup failed), every reachable return is a SendError
		r := core.ReachEntry(fn, nil, core.CutEstablishing(m))
		bad := ""
		n := 0
		for _, ret := range core.Returns(fn) {
			if !r.Has(ret) {
				continue
			}
			n++
			cr, _ := core.CallResult(core.RetVal(ret, 0))
			if cr == nil || !isSendErrorCall(cr) {
				bad = "a message for an unknown " + what + " is not answered with an error"
			}
		}
		if n == 0 {
			bad = "no return on the not-found branch"
		}
		c.Check(bad == "", rule, key, fn.Pos(), "unknown "+what+" ⇒ SendError", bad)
	}
	servicesF := fld(c, "bus", "Router", "services")
	boxesF := fld(c, "bus", "serviceImpl", "boxes")
	lookupGuard := func(fld *types.Var) func(fn *ssa.Function) (ssa.Instruction, core.EdgeMatcher) {
		return func(fn *ssa.Function) (ssa.Instruction, core.EdgeMatcher) {
			for _, lk := range mapLookups(fn, fld) {
				if lk.CommaOk {
					return lk, core.IsTrue(okOf(lk))
				}
			}
			// the lookup may live in an accessor taking the lock itself: v, ok := r.lookup(id)
			if lh := findLookupHelper(c, fn, fld); lh != nil {
				return lh.call, core.IsTrue(lh.isOK)
			}
			return nil, nil
		}
	}
	chk("bus", "Router", "Receive", "service", lookupGuard(servicesF))
	chk("bus", "serviceImpl", "Receive", "object", lookupGuard(boxesF))
	// generated Receive: the default arm of the action switch answers ErrActionNotFound
	n := 0
	for _, fn := range c.RepoFuncs() {
		if fn.Parent() != nil || fn.Name() != "Receive" || !isGenerated(c, fn) || c.IsTestFile(fn) {
			continue
		}
		n++
		key := core.FuncKey(fn)
		// every return is either a call to a stub method / inner Receive, or a SendError
		bad := ""
		for _, ret := range core.Returns(fn) {
			v := core.RetVal(ret, 0)
			cr, _ := core.CallResult(v)
			if cr == nil {
				if core.IsNilConst(v) {
					bad = "Receive can return nil without answering (unknown action silently dropped: the caller waits forever)"
				}
				continue
			}
		}
		c.Check(bad == "", rule, key, fn.Pos(), "every arm of the dispatch switch answers or forwards", bad)
	}
	if n == 0 {
		c.Undecided(rule, "generated Receive", token.NoPos, "no generated Receive found")
	}
}

// ruleRemovalKeys: every delete(table, k) in the removal entry points uses the
// id parameter of the function as k.
func ruleRemovalKeys(c *core.Ctx) {
	const rule = "C12.removal"
	type site struct{ rel, recv, name, field, owner string }
	for _, s := range []site{
		{"bus", "Router", "Remove", "services", "Router"},
		{"bus", "serviceImpl", "Remove", "objects", "serviceImpl"},
		{"bus", "serviceImpl", "Remove", "boxes", "serviceImpl"},
		{"bus", "clientService", "Remove", "objectsHandlers", "clientService"},
		{"bus/directory", "serviceDirectory", "UnregisterService", "services", "serviceDirectory"},
		{"bus/directory", "serviceDirectory", "UnregisterService", "staging", "serviceDirectory"},
	} {
		fn := c.Func(s.rel, s.recv, s.name)
		fld := fld(c, s.rel, s.owner, s.field)
		if s.owner == "serviceDirectory" {
			_, stg, svc, _ := directoryFields(c)
			if s.field == "staging" {
				fld = stg
			} else {
				fld = svc
			}
		}
		key := fmt.Sprintf("%s.%s.%s/%s", s.rel, s.recv, s.name, s.field)
		if fn == nil || fld == nil {
			c.Undecided(rule, key, token.NoPos, "anchor not found")
			continue
		}
		// the critical section may live in private helpers that are handed the id
		// (obj, ok := s.detach(id), which calls s.forget(id))
		var dels []tableOp
		for _, op := range tableOps(c, fn, fld, 0) {
			if op.isDel {
				dels = append(dels, op)
			}
		}
		if len(dels) == 0 {
			c.Fail(rule, key, fn.Pos(), "the removal entry point does not delete from "+s.field)
			continue
		}
		ok := true
		for _, d := range dels {
			if d.key == nil {
				ok = false
				continue
			}
			if p, isP := core.Canon(d.key).(*ssa.Parameter); !isP || p.Parent() != fn {
				ok = false
			}
		}
		c.Check(ok, rule, key, dels[0].at.Pos(), "delete uses the id the request named", "delete("+s.field+", k): k is not the id parameter of the removal request — something else than what was named is removed")
	}
}

// ruleNoPanicInReceive: explicit panics in functions reachable from Receive
// implementations of bus, bus/directory, bus/logger (static + CHA edges
// restricted to the repository, thorough tier uses VTA).
func ruleNoPanicInReceive(c *core.Ctx) {
	const rule = "C12.no-panic"
	var roots []*ssa.Function
	for _, fn := range c.RepoFuncs("bus") {
		if fn.Parent() == nil && fn.Name() == "Receive" && fn.Signature.Recv() != nil && !c.IsTestFile(fn) {
			roots = append(roots, fn)
		}
	}
	cg := c.VTA()
	seen := map[*ssa.Function]bool{}
	var q []*ssa.Function
	// consumers registered with a filter that never matches cannot be invoked
	var dead map[*ssa.Function]bool
	if a := getEP(c, rule); a != nil {
		dead = deadConsumers(c, a)
	}
	for _, r := range roots {
		seen[r] = true
		q = append(q, r)
	}
	for len(q) > 0 {
		f := q[0]
		q = q[1:]
		node := cg.Nodes[f]
		if node == nil {
			continue
		}
		for _, e := range node.Out {
			callee := e.Callee.Func
			if callee == nil || callee.Pkg == nil || !strings.HasPrefix(callee.Pkg.Pkg.Path(), core.Module) || seen[callee] {
				continue
			}
			p := callee.Pkg.Pkg.Path()
			if strings.Contains(p, "/examples/") || strings.Contains(p, "/cmd/") || c.IsTestFile(callee) || dead[callee] {
				continue
			}
			seen[callee] = true
			q = append(q, callee)
		}
	}
	n := 0
	// exceptions confirmed by reading: each is one named function with a reason
	allowed := map[string]string{
		"bus.pendingObject.Activate":        "Activate is never called on the placeholder; not on the message path (CHA edge through Actor.Activate only)",
		"bus.proxy.ProxyService":            "client-side API misuse guard (type assertion on the client implementation), not reachable from a received message",
		"type/conversion.IsConvertibleInto": "unimplemented helper, not called",
		"meta/signature.NewMetaObjectType":  "init-time check of a compile-time constant signature",
		"meta/idl.InterfaceType.Reader":     "call-graph artefact: InterfaceType values are built only by the IDL parser; signature.Parse (the only producer of Types on the message path) never yields one, the edge comes from field-based type propagation through ListType.value",
		"meta/idl.InterfaceType.Type":       "same as InterfaceType.Reader",
	}
	for fn := range seen {
		for _, b := range fn.Blocks {
			for _, in := range b.Instrs {
				if pn, ok := in.(*ssa.Panic); ok {
					// the compiler-generated panic of an exhaustive blocking select
					if mi, ok := pn.X.(*ssa.MakeInterface); ok {
						if s, ok := core.ConstString(mi.X); ok && strings.HasPrefix(s, "blocking select") {
							continue
						}
					}
					n++
					key := "panic@" + core.FuncKey(fn)
					if why, ok := allowed[core.FuncKey(fn)]; ok {
						c.Pass(rule, key, pn.Pos(), "accepted: "+why)
						continue
					}
					c.Fail(rule, key, pn.Pos(), "explicit panic reachable from a Receive implementation: one malformed message crashes the server for every client")
				}
			}
		}
	}
	c.Pass(rule, "reachable-set", token.NoPos, fmt.Sprintf("%d functions reachable from %d Receive implementations scanned, %d explicit panics", len(seen), len(roots), n))
}

// ruleBoundedService: "every object keeps answering other clients' calls within
// bounded time".  One goroutine per object takes the mails out of the object's
// mailbox and runs Receive; whatever that goroutine can wait for without bound,
// on behalf of one client, every other client of the object waits for too.  Two
// waits are decided here, over the VTA call graph from the serving goroutine:
//
//   - write-deadline: a function of bus/net that hands the end point's stream to
//     a writer is reachable (the reply is written synchronously); it must set a
//     write deadline on that stream first, otherwise a peer that stops reading
//     holds the goroutine inside Write once the socket buffer is full, for as
//     long as it keeps the connection open;
//   - sleep: no time.Sleep on that path (a retry/back-off in a handler or in the
//     send path stalls the object for every client).
func ruleBoundedService(c *core.Ctx, a *epAnchors, rule string) {
	mb := c.Func("bus", "", "NewMailBox")
	if mb == nil {
		c.Undecided(rule, "bus.NewMailBox", token.NoPos, "anchor not found")
		return
	}
	var roots []*ssa.Function
	for _, f := range core.AnonFuncs(mb) {
		for _, call := range core.Calls(f) {
			if cc := call.Common(); cc.IsInvoke() && cc.Method.Name() == "Receive" {
				roots = append(roots, f)
				break
			}
		}
	}
	if len(roots) == 0 {
		// the goroutine body as a named function or method (go box.deliverTo(r)), the
		// Receiver invoked there or in a private helper it calls (deliver(r, mail))
		for _, call := range core.Calls(mb) {
			g, isGo := call.(*ssa.Go)
			if !isGo {
				continue
			}
			if f := g.Call.StaticCallee(); f != nil && invokesReceive(c, f, 0) {
				roots = append(roots, f)
			}
		}
	}
	if len(roots) == 0 {
		c.Undecided(rule, "bus.NewMailBox/serving-goroutine", mb.Pos(), "no goroutine of NewMailBox invokes Receiver.Receive: the serving goroutine was not recognised")
		return
	}
	cg := c.VTA()
	parent := map[*ssa.Function]*ssa.Function{}
	seen := map[*ssa.Function]bool{}
	var q []*ssa.Function
	for _, r := range roots {
		seen[r] = true
		q = append(q, r)
	}
	var order []*ssa.Function
	for len(q) > 0 {
		f := q[0]
		q = q[1:]
		order = append(order, f)
		node := cg.Nodes[f]
		if node == nil {
			continue
		}
		for _, e := range node.Out {
			if _, isGo := e.Site.(*ssa.Go); isGo {
				continue // another goroutine does the waiting
			}
			callee := e.Callee.Func
			if callee == nil || callee.Pkg == nil || !strings.HasPrefix(callee.Pkg.Pkg.Path(), core.Module) || seen[callee] {
				continue
			}
			p := callee.Pkg.Pkg.Path()
			if strings.Contains(p, "/examples/") || strings.Contains(p, "/cmd/") || c.IsTestFile(callee) {
				continue
			}
			seen[callee] = true
			parent[callee] = f
			q = append(q, callee)
		}
	}
	pathTo := func(f *ssa.Function) string {
		var names []string
		for x := f; x != nil; x = parent[x] {
			names = append([]string{core.FuncKey(x)}, names...)
			if len(names) > 12 {
				break
			}
		}
		return strings.Join(names, " -> ")
	}
	nw := 0
	for _, f := range order {
		if !strings.HasSuffix(f.Pkg.Pkg.Path(), "/bus/net") {
			continue
		}
		// hands the end point's stream to a writer: Message.Write(e.stream), e.stream.Write(…)
		var write ssa.Instruction
		for _, call := range core.Calls(f) {
			cc := call.Common()
			uses := false
			if cc.IsInvoke() && cc.Method.Name() == "Write" && isFieldOf(cc.Value, a.stream) {
				uses = true
			}
			for _, arg := range cc.Args {
				if isFieldOf(arg, a.stream) || isFieldOf(core.Strip(arg), a.stream) {
					if !cc.IsInvoke() && cc.StaticCallee() != nil && strings.Contains(cc.StaticCallee().Name(), "Write") {
						uses = true
					}
				}
			}
			if uses {
				write = call.(ssa.Instruction)
				break
			}
		}
		if write == nil {
			continue
		}
		nw++
		// keyed by what is written to, not by the function that does it: extracting the
		// write into a helper is the same finding
		key := "write-deadline@endpoint-stream"
		setsDeadline := func(x ssa.Instruction) bool {
			call, ok := x.(ssa.CallInstruction)
			if !ok {
				return false
			}
			cc := call.Common()
			name := ""
			if cc.IsInvoke() {
				name = cc.Method.Name()
			} else if sf := cc.StaticCallee(); sf != nil {
				name = sf.Name()
			}
			return name == "SetWriteDeadline" || name == "SetDeadline"
		}
		if core.MustPassBefore(f, write, setsDeadline) {
			c.Pass(rule, key, write.Pos(), "a write deadline is set before the stream write reachable from the serving goroutine")
			continue
		}
		c.Fail(rule, key, write.Pos(), "the serving goroutine of an object writes its answers to the client's stream here ("+pathTo(f)+") and no write deadline is ever set on that stream: a client that sends calls and stops reading holds the goroutine inside Write once the socket buffer is full, and every other client's call to that object waits for as long as the connection stays open")
	}
	if nw == 0 {
		c.Undecided(rule, "stream-write", token.NoPos, "no stream write of bus/net is reachable from the serving goroutine: the way answers are written was not recognised")
	}
	ns := 0
	for _, f := range order {
		if !strings.Contains(f.Pkg.Pkg.Path(), "/bus") {
			continue
		}
		for _, call := range core.Calls(f) {
			if sf := call.Common().StaticCallee(); sf != nil && core.FuncKey(sf) == "time.Sleep" {
				ns++
				c.Fail(rule, fmt.Sprintf("sleep@%s#%d", core.FuncKey(f), ns), call.Pos(), "the serving goroutine of an object can sleep here ("+pathTo(f)+"): while it does, no client of that object is answered")
			}
		}
	}
	c.Pass(rule, "reachable-set", token.NoPos, fmt.Sprintf("%d functions reachable from the serving goroutine of NewMailBox scanned: %d stream writes, %d sleeps", len(order), nw, ns))
}

// ruleTraceNotTraced: the trace signal is itself a message sent through the
// channels of its subscribers, and a channel of a traced object calls Trace
// for every message it sends.  The function that emits the trace event
// therefore emits it only for messages whose action is not the trace
// signal's own (guard in the function, or at every one of its call sites,
// interface calls included): tracing the trace message recurses without end
// and the stack overflow takes the server down for everybody.
func ruleTraceNotTraced(c *core.Ctx, rule string) {
	// the id under which the trace signal is emitted: UpdateSignal(K, …) in SignalTraceObject
	var traceID int64 = -1
	var emitters []*ssa.Function
	for _, fn := range c.RepoFuncs("bus") {
		if fn.Name() != "SignalTraceObject" || fn.Parent() != nil || len(fn.Blocks) == 0 || c.IsTestFile(fn) {
			continue
		}
		for _, call := range core.Calls(fn) {
			cc := call.Common()
			args := cc.Args
			mname := ""
			if cc.IsInvoke() {
				mname = cc.Method.Name()
			} else if f := cc.StaticCallee(); f != nil && f.Signature.Recv() != nil && len(args) > 0 {
				mname = f.Name()
				args = args[1:]
			}
			if mname == "UpdateSignal" && len(args) == 2 {
				if k, ok := core.ConstInt(args[0]); ok {
					traceID = k
					emitters = append(emitters, fn)
				}
			}
		}
	}
	if traceID < 0 {
		c.Undecided(rule, "SignalTraceObject", token.NoPos, "the helper that emits the trace signal was not found")
		return
	}
	actionF := c.Field("bus/net", "Header", "Action")
	n := 0
	for _, fn := range c.RepoFuncs("bus") {
		if c.IsTestFile(fn) || c.InWitness(fn.Pos()) {
			continue
		}
		for _, call := range core.Calls(fn) {
			cc := call.Common()
			name := ""
			if cc.IsInvoke() {
				name = cc.Method.Name()
			} else if f := cc.StaticCallee(); f != nil {
				name = f.Name()
			}
			if name != "SignalTraceObject" {
				continue
			}
			n++
			key := fmt.Sprintf("trace-not-traced@%s", core.FuncKey(fn))
			isK := func(v ssa.Value) bool { k, ok := core.ConstInt(v); return ok && k == traceID }
			actionOf := func(root ssa.Value) func(ssa.Value) bool {
				return func(v ssa.Value) bool {
					return actionF != nil && isFieldOf(v, actionF) && core.RootOf(v) == root
				}
			}
			ok := false
			for _, p := range fn.Params {
				if core.Guarded(fn, call.(ssa.Instruction), core.Ne(actionOf(p), isK)) {
					ok = true
				}
			}
			why := "guarded by Action != trace signal in the emitting function"
			if !ok {
				// every call site of fn, interface calls included (CHA), passes a message
				// whose action it compared with the trace signal's
				cg := c.CHA()
				node := cg.Nodes[fn]
				ok = node != nil && len(node.In) > 0
				if node != nil {
					for _, e := range node.In {
						if e.Site == nil || e.Caller.Func == nil || !inRepo(e.Caller.Func) {
							continue
						}
						siteOK := false
						for _, a := range e.Site.Common().Args {
							if core.Guarded(e.Caller.Func, e.Site.(ssa.Instruction), core.Ne(actionOf(core.RootOf(a)), isK)) {
								siteOK = true
							}
						}
						if !siteOK {
							ok = false
							why = "the trace event is emitted by " + fn.Name() + " for any message, and " + core.FuncKey(e.Caller.Func) + " (" + c.Pos(e.Site.Pos()) + ") calls it without having compared the action with the trace signal's"
						}
					}
				}
				if ok {
					why = "every call site compares the action with the trace signal's first"
				}
			}
			c.Check(ok, rule, key, call.Pos(), why,
				fmt.Sprintf("the trace signal (action %d) is sent through the subscribers' channels, which trace what they send: %s — a client that enables tracing and then subscribes to the trace signal makes every trace event trace itself, without end (stack overflow: the process dies for every client)", traceID, why))
		}
	}
	if n == 0 {
		c.Undecided(rule, "SignalTraceObject callers", token.NoPos, "nothing emits the trace signal")
	}
}

// invokesReceive: f, or a private helper it calls statically (two levels),
// invokes Receiver.Receive.
func invokesReceive(c *core.Ctx, f *ssa.Function, depth int) bool {
	if f == nil || depth > 2 || len(f.Blocks) == 0 {
		return false
	}
	for _, g := range core.AnonFuncs(f) {
		for _, call := range core.Calls(g) {
			cc := call.Common()
			if cc.IsInvoke() && cc.Method.Name() == "Receive" {
				return true
			}
			if h := cc.StaticCallee(); h != nil && h != f && isPrivateHelper(c, h) && invokesReceive(c, h, depth+1) {
				return true
			}
		}
	}
	return false
}
