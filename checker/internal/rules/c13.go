package rules

import (
	"fmt"
	"go/constant"
	"go/token"
	"go/types"
	"strings"

	"golang.org/x/tools/go/ssa"

	"qicheck/internal/core"
)

func init() {
	register(&Property{
		ID:    "C13",
		Title: "Subscribers get each emitted event exactly once, in order, only while subscribed",
		Explanation: "Static discharge of structural necessary conditions of C13: " +
			"(select) client.Subscribe's filter matches only across equality of service, object and action with the ids it was given; signalHandler.UpdateSignal sends an event only to users whose signalID equals the emitted one, with that id; " +
			"(table) signalHandler.signals is only touched under signalsMutex (writes exclusively); removeSignalUser removes only an entry whose user id and connection match; addSignalUser refuses an id already present; " +
			"(refcount) proxy.SubscribeID calls RegisterEvent only across State(key,+1)==1 and UnregisterEvent only across State(key,-1)==0 with the same key, and its cancel always cancels the local subscription; " +
			"(order/closure) one forwarding goroutine per subscription with no `go` inside its loop, forwarding only Event payloads, closing the subscriber's channel exactly once per exit — in client.Subscribe and in every generated Subscribe*. " +
			"The subscriber count is kept under a key built from service, object and signal id. " +
			"Not decided: exactly-once/in-order delivery over all subscribe–emit–unsubscribe interleavings; 'no event after the removal was acknowledged'.",
		Assumptions: []string{"channel FIFO semantics", "generated proxies are the checked-in *_gen.go / *_proxy.go files"},
		Run:         runC13,
	})
}

// hdrFieldEqParam builds a matcher "hdr.<field> == the k-th id parameter of
// the API method" (k: 0 service, 1 object, 2 action).
func hdrFieldEqParam(hdrField *types.Var, api *ssa.Function, k int, subst map[*ssa.Parameter]ssa.Value) core.EdgeMatcher {
	isField := func(v ssa.Value) bool { return isFieldOf(v, hdrField) }
	return core.Eq(isField, apiParam(api, k, subst))
}

// matchedReturns returns the returns of a filter that may yield matched=true.
func matchedReturns(f *ssa.Function) []*ssa.Return {
	var out []*ssa.Return
	for _, r := range core.Returns(f) {
		if len(r.Results) < 1 {
			continue
		}
		b, ok := core.ConstBool(core.RetVal(r, 0))
		if !ok || b {
			out = append(out, r)
		}
	}
	return out
}

func runC13(c *core.Ctx) {
	a := getEP(c, "C13.anchors")
	if a == nil {
		return
	}
	lc := core.NewLockCache()
	el := newEntryLocks(c, lc)
	svcF := c.Field("bus/net", "Header", "Service")
	objF := c.Field("bus/net", "Header", "Object")
	actF := c.Field("bus/net", "Header", "Action")

	c.Doc("C13.select", "events reach a subscriber only across equality of service/object/action (client) and of the signal id (server)", 4)
	sub := c.Func("bus", "client", "Subscribe")
	if sub == nil {
		c.Undecided("C13.select", "bus.client.Subscribe", token.NoPos, "anchor not found")
	} else {
		var filter *ssa.Function
		var subst map[*ssa.Parameter]ssa.Value
		for _, s := range handlerSites(c, a) {
			root := s.fn
			for root.Parent() != nil {
				root = root.Parent()
			}
			if root == sub {
				filter, subst, _ = funcValueCtx(s.filter)
			}
		}
		if filter == nil {
			c.Fail("C13.select", "bus.client.Subscribe/filter", sub.Pos(), "Subscribe registers no filter")
		} else {
			for k, fe := range []struct {
				f    *types.Var
				want string
			}{{svcF, "service"}, {objF, "object"}, {actF, "action"}} {
				ok := true
				rs := matchedReturns(filter)
				for _, r := range rs {
					if !core.Guarded(filter, r, hdrFieldEqParam(fe.f, sub, k, subst)) {
						ok = false
					}
				}
				c.Check(ok && len(rs) > 0, "C13.select", "bus.client.Subscribe/filter/"+fe.f.Name(), filter.Pos(),
					"matched only across hdr."+fe.f.Name()+" == the subscribed "+fe.want+" id",
					"the subscription filter can match a message whose "+fe.f.Name()+" differs from the subscribed one: a subscriber receives events of another signal/object/service")
			}
		}
	}
	ruleUpdateSignalSelects(c)

	c.Doc("C13.table", "registration table under signalsMutex; remove only the caller's own entry; duplicate ids refused", 8)
	guardedBy(c, lc, el, "C13.table", guardedField{Rel: "bus", Struct: "signalHandler", Field: "signals", Mutex: "signalsMutex",
		Reason: "registrations are added/removed by the mailbox goroutine, by disconnect closers and read by emitters"})
	ruleSignalTable(c)
	ruleInferredGuards(c, lc, el, "C13.table")
	ruleNoStaleElementPointerInBus(c, "C13.table")

	c.Doc("C13.refcount", "remote register on 0→1 and unregister on 1→0 of the local count, same key; cancel always cancels locally", 3)
	ruleRefcount(c)

	c.Doc("C13.forwarding", "one forwarding goroutine per subscription, no go in the loop, channel closed once per exit", 6)
	ruleForwarders(c, a)
	c.Doc("C13.sequential", "UpdateSignal writes to every recipient itself, in order (no goroutine per recipient or per emission)", 1)
	ruleEmitSequential(c, "C13.sequential")
	// a leaving subscriber does not disturb the others (rule shared with C11)
	c.Doc("C11.subscriptions", "Subscribe closes events once per exit and removes only its own, still registered handler", 3)
	ruleSubscriptionsClose(c, a)
}

func ruleUpdateSignalSelects(c *core.Ctx) {
	const rule = "C13.select"
	fn := c.Func("bus", "signalHandler", "UpdateSignal")
	reply := c.Func("bus", "signalHandler", "replyEvent")
	sigID := c.Field("bus", "signalUser", "signalID")
	if fn == nil || reply == nil || sigID == nil {
		c.Undecided(rule, "bus.signalHandler.UpdateSignal", token.NoPos, "anchor not found")
		return
	}
	idp := ssa.Value(fn.Params[1])
	isUserSig := func(v ssa.Value) bool { return isFieldOf(v, sigID) }
	isParam := func(v ssa.Value) bool { return core.Canon(v) == idp }
	eq := core.Eq(isUserSig, isParam)
	// every append of a signalUser to the selection is guarded; the selection may
	// be made by a helper that is given the signal id
	n := 0
	ok := true
	for _, f := range unitOf(c, fn) {
		f := f
		eqf := eq
		if f != fn {
			// parameters of the helper that receive UpdateSignal's signal id at every call from it
			bound := map[*ssa.Parameter]bool{}
			for i, p := range f.Params {
				all, any := true, false
				for _, call := range core.Calls(fn) {
					if core.IsCallTo(call, f) && i < len(call.Common().Args) {
						any = true
						if !core.SameValue(call.Common().Args[i], idp) {
							all = false
						}
					}
				}
				bound[p] = all && any
			}
			eqf = core.Eq(isUserSig, func(v ssa.Value) bool {
				p, ok := core.Canon(v).(*ssa.Parameter)
				return ok && bound[p]
			})
		}
		for _, b := range f.Blocks {
			for _, in := range b.Instrs {
				call, isCall := in.(*ssa.Call)
				if !isCall {
					continue
				}
				if bi, isB := call.Call.Value.(*ssa.Builtin); isB && bi.Name() == "append" {
					if f != fn && !core.TypeIs(sliceElem(call.Type()), "bus", "signalUser") {
						continue
					}
					n++
					if !core.Guarded(f, call, eqf) {
						ok = false
					}
				}
			}
		}
	}
	direct := 0
	for _, call := range core.Calls(fn) {
		if core.IsCallTo(call, reply) {
			direct++
			args := call.Common().Args
			if !core.SameValue(args[2], idp) {
				ok = false
			}
			// if the user does not come from the filtered selection the call itself must be guarded
			if n == 0 && !core.Guarded(fn, call.(ssa.Instruction), eq) {
				ok = false
			}
		}
	}
	c.Check(ok && direct > 0, rule, "bus.signalHandler.UpdateSignal", fn.Pos(), "only users with user.signalID == signalID are selected, and the event carries that id",
		"UpdateSignal sends an event to users registered for another signal (or with another signal id)")
	// every selected user is served: no early return from the sending loop
	for _, call := range core.Calls(fn) {
		if core.IsCallTo(call, reply) {
			in := call.(ssa.Instruction)
			bad := ""
			if loopHeaderOf(in) == nil {
				bad = "the event is not sent from a loop over the selected subscribers"
			} else if ret := earlyReturnAfter(in); ret != nil {
				bad = "the loop over the subscribers can be left early (return at " + c.Pos(ret.Pos()) + "): after one subscriber's send fails, the subscribers after it never get the event"
			}
			c.Check(bad == "", rule, "bus.signalHandler.UpdateSignal/all-subscribers", call.Pos(), "every selected subscriber is sent the event, whatever happens to the others", bad)
		}
	}
}

func ruleSignalTable(c *core.Ctx) {
	const rule = "C13.table"
	rm := c.Func("bus", "signalHandler", "removeSignalUser")
	add := c.Func("bus", "signalHandler", "addSignalUser")
	sigF := fld(c, "bus", "signalHandler", "signals")
	userID := fld(c, "bus", "signalUser", "userID")
	if rm == nil || add == nil || sigF == nil || userID == nil {
		c.Undecided(rule, "bus.signalHandler", token.NoPos, "anchor not found")
		return
	}
	isUID := func(v ssa.Value) bool { return isFieldOf(v, userID) }
	// removeSignalUser (and the private helpers it hands the work to): writes to
	// signals guarded by userID equality and endpoint equality
	idp := requestIDParam(rm)
	isParam := func(v ssa.Value) bool { return resolvesTo(c, v, idp, 0) }
	isEP := func(v ssa.Value) bool {
		cr, _ := core.CallResult(v)
		return cr != nil && cr.Common().IsInvoke() && cr.Common().Method.Name() == "EndPoint"
	}
	n := 0
	ok := true
	for _, f := range unitOf(c, rm) {
		for _, acc := range fieldAccesses(f, sigF) {
			if !acc.write {
				continue
			}
			n++
			if !core.Guarded(f, acc.instr, core.Eq(isUID, isParam)) || !core.Guarded(f, acc.instr, core.Eq(isEP, isEP)) {
				ok = false
			}
		}
	}
	c.Check(ok && n > 0, rule, "bus.signalHandler.removeSignalUser", rm.Pos(), "an entry is removed only if its user id and its connection are the caller's",
		"removeSignalUser can remove a registration that belongs to another user id or another connection: one subscriber leaving (or a hostile unregister) disturbs the others")
	// success only if something was removed
	okRet := true
	for _, ret := range core.Returns(rm) {
		if successReturn(ret) && !core.Guarded(rm, ret, core.Eq(isUID, isParam)) {
			okRet = false
		}
	}
	c.Check(okRet, rule, "bus.signalHandler.removeSignalUser/result", rm.Pos(), "nil only when an entry matched", "removeSignalUser reports success without having found the registration")
	// addSignalUser: a user id already present prevents the append.  The id of the
	// registration being added: the parameter, or the userID field of the entry
	// built from it (also as seen from a private helper that receives either).
	idp2 := requestIDParam(add)
	isNewID := func(v ssa.Value) bool {
		if resolvesTo(c, v, idp2, 0) {
			return true
		}
		switch x := v.(type) {
		case *ssa.Field:
			return isUID(v) && structFieldIs(c, x.X, userID, idp2, 0)
		case *ssa.UnOp:
			if fa, isFA := x.X.(*ssa.FieldAddr); isFA && x.Op == token.MUL && isUID(v) {
				if al, isAlloc := fa.X.(*ssa.Alloc); isAlloc {
					return allocFieldIs(c, al, userID, idp2, 0)
				}
			}
		}
		return false
	}
	nStores := 0
	for _, f := range unitOf(c, add) {
		for _, acc := range fieldAccesses(f, sigF) {
			if !acc.write {
				continue
			}
			nStores++
			appendStore := acc.instr
			dup := false
			for _, b := range f.Blocks {
				ifi, isIf := b.Instrs[len(b.Instrs)-1].(*ssa.If)
				if !isIf {
					continue
				}
				cm, neg := core.CondCmp(ifi.Cond)
				if !(isUID(cm.X) && isNewID(cm.Y) && !isNewID(cm.X) || isUID(cm.Y) && isNewID(cm.X) && !isNewID(cm.Y)) {
					continue
				}
				eqEdge := 0
				if (cm.Op == token.NEQ) != neg {
					eqEdge = 1
				}
				// from the branch where the id is already present the store is not reached
				// (a search variable set there is not found unset afterwards)
				if !core.SearchReachEdge(b, eqEdge)[appendStore.Block()] {
					dup = true
				}
			}
			// or the search is a private predicate: the store happens only where
			// hasUser(id) is false, and hasUser answers true whenever an entry
			// carries the id it was given
			if !dup {
				isPresent := func(v ssa.Value) bool {
					cr, _ := core.CallResult(v)
					if cr == nil {
						return false
					}
					h := cr.Common().StaticCallee()
					if h == nil || !isPrivateHelper(c, h) {
						return false
					}
					args := cr.Common().Args
					for pi, p := range h.Params {
						if pi < len(args) && isNewID(args[pi]) && presencePredicate(h, p, isUID) {
							return true
						}
					}
					return false
				}
				dup = core.Guarded(f, appendStore, core.IsFalse(isPresent))
			}
			c.Check(dup, rule, "bus.signalHandler.addSignalUser", appendStore.Pos(), "an id already registered prevents a second registration", "addSignalUser registers a user id twice: the subscriber receives every event twice and removal leaves a stale entry")
		}
	}
	if nStores == 0 {
		c.Fail(rule, "bus.signalHandler.addSignalUser", add.Pos(), "addSignalUser never stores the registration")
	}
	// a registration that is refused undoes its own work only: the connection
	// handler it removes is the one this call created, never the handler of an
	// entry found in the table (whose closer unregisters that other subscriber)
	contextID := fld(c, "bus", "signalUser", "contextID")
	var made []ssa.Value
	for _, f := range unitOf(c, add) {
		for _, call := range core.Calls(f) {
			if _, isMk := epCall(c, call, "MakeHandler"); isMk {
				if _, w := thinWrapperOf(c, f, "MakeHandler"); w {
					continue
				}
				if v, ok := call.(*ssa.Call); ok {
					made = append(made, v)
				}
			}
		}
	}
	isMade := func(v ssa.Value) bool {
		v = core.Canon(v)
		for _, m := range made {
			if v == m {
				return true
			}
		}
		return false
	}
	for _, f := range unitOf(c, add) {
		if _, w := thinWrapperOf(c, f, "RemoveHandler"); w {
			continue
		}
		for i, call := range core.Calls(f) {
			rargs, isRm := epCall(c, call, "RemoveHandler")
			if !isRm || len(rargs) != 1 {
				continue
			}
			key := fmt.Sprintf("bus.signalHandler.addSignalUser/undo@%s#%d", core.FuncKey(f), i)
			arg := core.StripConv(rargs[0])
			own := isMade(arg)
			if ld, ok := arg.(*ssa.UnOp); ok && !own && ld.Op == token.MUL {
				// newUser.contextID: the field of the entry under construction
				if fa, ok := ld.X.(*ssa.FieldAddr); ok {
					if al, ok := fa.X.(*ssa.Alloc); ok && contextID != nil && isFieldOf(ld, contextID) {
						own = true
						k := 0
						for _, r := range core.Referrers(al) {
							fa2, ok := r.(*ssa.FieldAddr)
							if !ok || fa2.Field != fa.Field {
								continue
							}
							for _, u := range core.Referrers(fa2) {
								if st, ok := u.(*ssa.Store); ok && st.Addr == ssa.Value(fa2) {
									if k0, isK := core.ConstInt(st.Val); isK && k0 == 0 {
										continue // the zero the literal starts with
									}
									k++
									if !isMade(st.Val) {
										own = false
									}
								}
							}
						}
						if k == 0 {
							own = false
						}
					}
				}
			}
			c.Check(own, rule, key, call.Pos(), "a refused registration removes the handler it created",
				"addSignalUser removes a connection handler that is not the one this call created (the handler of the subscriber already registered under that id): its closer unregisters that subscriber, so a client registering an id already in use cancels another client's subscription")
			if !own {
				continue
			}
			// D28: removing the handler runs its closer.  The closer of the handler created
			// for a request that is then refused must not unregister anybody: the user it
			// would find under that id on that connection is the one already registered.
			bad := refusedCloserUnregisters(c, f, call, made, rm)
			c.Check(bad == "", rule, key+"/closer", call.Pos(), "the closer of the handler dropped here does not unregister on the refused path",
				"a client that registers an id it already holds is answered with an error and silently loses its first subscription: "+bad)
		}
	}
}

// presencePredicate: h returns a boolean, compares the key field of the entries
// it walks with its parameter p, and answers true on every path from a match.
func presencePredicate(h *ssa.Function, p *ssa.Parameter, isKey func(ssa.Value) bool) bool {
	res := h.Signature.Results()
	if res.Len() != 1 || !types.Identical(res.At(0).Type().Underlying(), types.Typ[types.Bool]) {
		return false
	}
	isP := func(v ssa.Value) bool { return core.Canon(v) == ssa.Value(p) }
	found := false
	for _, b := range h.Blocks {
		if len(b.Instrs) == 0 {
			continue
		}
		ifi, isIf := b.Instrs[len(b.Instrs)-1].(*ssa.If)
		if !isIf {
			continue
		}
		cm, neg := core.CondCmp(ifi.Cond)
		if cm.Op != token.EQL && cm.Op != token.NEQ {
			continue
		}
		if !(isKey(cm.X) && isP(cm.Y) || isKey(cm.Y) && isP(cm.X)) {
			continue
		}
		eqEdge := 0
		if (cm.Op == token.NEQ) != neg {
			eqEdge = 1
		}
		reach := core.SearchReachEdge(b, eqEdge)
		for _, ret := range core.Returns(h) {
			if !reach[ret.Block()] {
				continue
			}
			k, isK := core.Canon(ret.Results[0]).(*ssa.Const)
			if !isK || k.Value == nil || !constant.BoolVal(k.Value) {
				return false
			}
		}
		found = true
	}
	return found
}

// resolvesTo: v is target, or a parameter of a private helper every call site
// of which passes a value that resolves to target.
func resolvesTo(c *core.Ctx, v, target ssa.Value, depth int) bool {
	w := core.Canon(v)
	if w == target {
		return true
	}
	// the identifier travelling in a request struct handed in as one parameter
	// (`reg.userID`): the one field of the identifier's type read from that parameter
	if tp, ok := target.(*ssa.Parameter); ok {
		if st, isStruct := tp.Type().Underlying().(*types.Struct); isStruct {
			if idT := soleIDFieldType(st); idT != nil && types.Identical(w.Type(), idT) &&
				len(core.AccessPath(w).Fields) > 0 && core.RootOf(w) == target {
				return true
			}
		}
	}
	p, ok := w.(*ssa.Parameter)
	if !ok || depth > 3 || p.Parent() == nil || !isPrivateHelper(c, p.Parent()) {
		return false
	}
	h := p.Parent()
	idx := -1
	for i, hp := range h.Params {
		if hp == p {
			idx = i
		}
	}
	sites, _ := c.CallSites()
	if idx < 0 || len(sites[h]) == 0 {
		return false
	}
	for _, cs := range sites[h] {
		args := cs.Common().Args
		if idx >= len(args) || !resolvesTo(c, args[idx], target, depth+1) {
			return false
		}
	}
	return true
}

// structFieldIs: field fld of the struct value sv holds target: sv is read from
// a local variable whose field was given target, or is a parameter of a
// private helper whose call sites pass such a value.
func structFieldIs(c *core.Ctx, sv ssa.Value, fld *types.Var, target ssa.Value, depth int) bool {
	if depth > 3 {
		return false
	}
	switch x := sv.(type) {
	case *ssa.UnOp:
		if al, ok := x.X.(*ssa.Alloc); ok && x.Op == token.MUL {
			return allocFieldIs(c, al, fld, target, depth+1)
		}
	case *ssa.Parameter:
		h := x.Parent()
		if h == nil || !isPrivateHelper(c, h) {
			return false
		}
		idx := -1
		for i, hp := range h.Params {
			if hp == x {
				idx = i
			}
		}
		sites, _ := c.CallSites()
		if idx < 0 || len(sites[h]) == 0 {
			return false
		}
		for _, cs := range sites[h] {
			args := cs.Common().Args
			if idx >= len(args) || !structFieldIs(c, args[idx], fld, target, depth+1) {
				return false
			}
		}
		return true
	}
	return false
}

// allocFieldIs: every store into field fld of local struct al (directly, or as
// part of a whole-struct store) stores target.
func allocFieldIs(c *core.Ctx, al *ssa.Alloc, fld *types.Var, target ssa.Value, depth int) bool {
	n := 0
	for _, r := range core.Referrers(al) {
		switch x := r.(type) {
		case *ssa.Store:
			if x.Addr == ssa.Value(al) {
				n++
				if !structFieldIs(c, x.Val, fld, target, depth+1) {
					return false
				}
			}
		case *ssa.FieldAddr:
			st, ok := al.Type().Underlying().(*types.Pointer).Elem().Underlying().(*types.Struct)
			if !ok || x.Field >= st.NumFields() || st.Field(x.Field) != fld {
				continue
			}
			for _, u := range core.Referrers(x) {
				if s2, ok := u.(*ssa.Store); ok && s2.Addr == ssa.Value(x) {
					n++
					if !resolvesTo(c, s2.Val, target, depth+1) {
						return false
					}
				}
			}
		}
	}
	return n > 0
}

func ruleRefcount(c *core.Ctx) {
	const rule = "C13.refcount"
	fn := c.Func("bus", "proxy", "SubscribeID")
	if fn == nil {
		c.Undecided(rule, "bus.proxy.SubscribeID", token.NoPos, "anchor not found")
		return
	}
	// SubscribeID, its closures and the private helpers they hand work to
	var subUnit []*ssa.Function
	{
		seen := map[*ssa.Function]bool{}
		for _, f := range core.AnonFuncs(fn) {
			for _, u := range unitOf(c, f) {
				if !seen[u] {
					seen[u] = true
					subUnit = append(subUnit, u)
				}
			}
		}
	}
	// State calls: invoke Client.State(key, delta)
	type stateCall struct {
		call  *ssa.Call
		delta int64
		key   ssa.Value
		fn    *ssa.Function
	}
	var states []stateCall
	for _, f := range subUnit {
		for _, call := range core.Calls(f) {
			cc := call.Common()
			if cc.IsInvoke() && cc.Method.Name() == "State" && len(cc.Args) == 2 {
				if d, ok := core.ConstInt(cc.Args[1]); ok {
					if cv, ok := call.(*ssa.Call); ok {
						states = append(states, stateCall{cv, d, cc.Args[0], f})
					}
				}
			}
		}
	}
	var keyShape func(v ssa.Value) string
	keyShape = func(v ssa.Value) string {
		// a key built by concatenation: base + ".handler"
		if bo, ok := core.Canon(v).(*ssa.BinOp); ok && bo.Op == token.ADD {
			l, r := keyShape(bo.X), keyShape(bo.Y)
			if l != "?" && r != "?" {
				return l + r
			}
			return "?"
		}
		if s, ok := core.ConstString(core.Canon(v)); ok {
			return s
		}
		cr, _ := sprintfBehind(v)
		if cr == nil {
			// a key named by a helper of the repository: the shape of what it returns
			if hc, _ := core.CallResult(core.Canon(v)); hc != nil {
				if h := hc.Call.StaticCallee(); h != nil && inRepo(h) && len(h.Blocks) > 0 && h != fn {
					shape := ""
					for _, r := range core.Returns(h) {
						if len(r.Results) != 1 {
							return "?"
						}
						s := keyShape(core.RetVal(r, 0))
						if s == "?" || (shape != "" && s != shape) {
							return "?"
						}
						shape = s
					}
					if shape != "" {
						return shape
					}
				}
			}
			return "?"
		}
		f, _ := core.ConstString(cr.Call.Args[0])
		return f
	}
	check := func(method string, delta int64, want int64, key string) {
		var site ssa.CallInstruction
		var sf *ssa.Function
		for _, f := range subUnit {
			for _, call := range core.Calls(f) {
				if s := core.StaticCallee(call); s != nil && s.Name() == method {
					site, sf = call, f
				}
				if cc := call.Common(); cc.IsInvoke() && cc.Method.Name() == method {
					site, sf = call, f
				}
			}
		}
		if site == nil {
			c.Fail(rule, key, fn.Pos(), "SubscribeID never calls "+method)
			return
		}
		// the remote call may sit in a private helper (registerHandler(action)) that does
		// not touch the count: the condition is then looked for where the helper is called
		for depth := 0; depth < 3; depth++ {
			touches := false
			for i := range states {
				if states[i].fn == sf && states[i].delta == delta {
					touches = true
				}
			}
			if touches || !isPrivateHelper(c, sf) {
				break
			}
			all, _ := c.CallSites()
			var up []ssa.CallInstruction
			for _, cs := range all[sf] {
				for _, u := range subUnit {
					if cs.Parent() == u {
						up = append(up, cs)
					}
				}
			}
			if len(up) != 1 {
				break
			}
			site, sf = up[0], up[0].Parent()
		}
		var witness *stateCall
		for i := range states {
			s := &states[i]
			if s.fn != sf || s.delta != delta {
				continue
			}
			isCount := func(v ssa.Value) bool { return core.Canon(v) == ssa.Value(s.call) }
			isWant := func(v ssa.Value) bool { k, ok := core.ConstInt(v); return ok && k == want }
			if core.Guarded(sf, site.(ssa.Instruction), core.Eq(isCount, isWant)) {
				witness = s
			}
		}
		c.Check(witness != nil, rule, key, site.Pos(), fmt.Sprintf("%s only across State(key,%+d) == %d", method, delta, want),
			fmt.Sprintf("%s is not tied to the local subscriber count reaching %d after %+d: with several local subscribers the remote registration is duplicated or dropped while a subscriber is still listening", method, want, delta))
	}
	check("RegisterEvent", 1, 1, "bus.proxy.SubscribeID/register")
	check("UnregisterEvent", -1, 0, "bus.proxy.SubscribeID/unregister")
	// every decrement of the count decides: wherever a subscriber leaves, the one
	// that brings the count to 0 unregisters (a second cancel function that only
	// decrements leaves the remote registration behind for good)
	for i := range states {
		s := &states[i]
		if s.delta != -1 {
			continue
		}
		isCount := func(v ssa.Value) bool { return core.Canon(v) == ssa.Value(s.call) }
		isZero := func(v ssa.Value) bool { k, ok := core.ConstInt(v); return ok && k == 0 }
		decides := false
		for _, call := range core.Calls(s.fn) {
			name := ""
			if sc := core.StaticCallee(call); sc != nil {
				name = sc.Name()
			} else if cc := call.Common(); cc.IsInvoke() {
				name = cc.Method.Name()
			}
			if name != "UnregisterEvent" {
				// a private helper that does the unregistering (unregisterHandler(action))
				if h := core.StaticCallee(call); h != nil && isPrivateHelper(c, h) {
					for _, u := range unitOf(c, h) {
						for _, c2 := range core.Calls(u) {
							n2 := ""
							if sc := core.StaticCallee(c2); sc != nil {
								n2 = sc.Name()
							} else if cc := c2.Common(); cc.IsInvoke() {
								n2 = cc.Method.Name()
							}
							if n2 == "UnregisterEvent" {
								name = n2
							}
						}
					}
				}
			}
			if name == "UnregisterEvent" && core.Guarded(s.fn, call.(ssa.Instruction), core.Eq(isCount, isZero)) {
				decides = true
			}
		}
		c.Check(decides, rule, fmt.Sprintf("bus.proxy.SubscribeID/decrement@%s", core.FuncKey(s.fn)), s.call.Pos(), "the decrement that reaches 0 unregisters",
			"the subscriber count is decremented without unregistering when it reaches 0: when this subscriber is the last one to leave, the service keeps the registration, the next subscription registers a second one and receives every event twice")
	}
	// same key for +1 and -1
	var kp, km string
	for _, s := range states {
		if s.delta == 1 {
			kp = keyShape(s.key)
		}
		if s.delta == -1 {
			km = keyShape(s.key)
		}
	}
	c.Check(kp != "" && kp != "?" && kp == km, rule, "bus.proxy.SubscribeID/key", fn.Pos(), "increment and decrement use the same key format "+kp,
		"the subscriber count is incremented and decremented under different keys")
	// the key names the subscription: it is built from every value that identifies
	// what was subscribed to (the arguments given to Client.Subscribe)
	{
		var subArgs []ssa.Value
		for _, call := range core.Calls(fn) {
			cc := call.Common()
			if cc.IsInvoke() && cc.Method.Name() == "Subscribe" && len(cc.Args) == 3 {
				subArgs = cc.Args
			}
		}
		same := func(a, b ssa.Value) bool {
			a, b = core.StripConv(core.Canon(a)), core.StripConv(core.Canon(b))
			if a == b || core.SameValue(a, b) || resolvesTo(c, b, a, 0) {
				return true
			}
			pa, pb := core.AccessPath(a), core.AccessPath(b)
			return len(pa.Fields) > 0 && pa.String() == pb.String()
		}
		bad := ""
		n := 0
		for _, st := range states {
			if st.delta != 1 && st.delta != -1 {
				continue
			}
			n++
			vals := sprintfOperands(st.key)
			for i, a := range subArgs {
				found := false
				for _, v := range vals {
					if same(a, v) {
						found = true
					}
				}
				if !found {
					bad = fmt.Sprintf("the subscriber count at %s is kept under a key that does not contain argument %d of Client.Subscribe (service, object, signal): subscriptions that differ only in that value share one count, so the second one never registers with the service and receives nothing", c.Pos(st.call.Pos()), i+1)
				}
			}
		}
		if len(subArgs) == 3 && n > 0 {
			c.Check(bad == "", rule, "bus.proxy.SubscribeID/key-identifies", fn.Pos(), "the count key is built from service, object and signal id", bad)
		} else {
			c.Undecided(rule, "bus.proxy.SubscribeID/key-identifies", fn.Pos(), "Client.Subscribe call or counter updates not found")
		}
	}
	// the remote registration id kept under the ".handler" key: what the
	// register path adds (a non-constant amount) the unregister path must take
	// back (State(k, -State(k, 0))), otherwise the next cycle unregisters a
	// wrong id and the server-side registration leaks (duplicated events)
	var addFmt string
	var addPos token.Pos
	for _, f := range subUnit {
		for _, call := range core.Calls(f) {
			cc := call.Common()
			if cc.IsInvoke() && cc.Method.Name() == "State" && len(cc.Args) == 2 {
				if _, isConst := core.ConstInt(cc.Args[1]); !isConst {
					if _, isNeg := core.Canon(cc.Args[1]).(*ssa.UnOp); !isNeg {
						addFmt = keyShape(cc.Args[0])
						addPos = call.Pos()
					}
				}
			}
		}
	}
	if addFmt != "" {
		balanced := false
		for _, f := range subUnit {
			for _, call := range core.Calls(f) {
				cc := call.Common()
				if !(cc.IsInvoke() && cc.Method.Name() == "State" && len(cc.Args) == 2) || keyShape(cc.Args[0]) != addFmt {
					continue
				}
				neg, ok := core.Canon(cc.Args[1]).(*ssa.UnOp)
				if !ok || neg.Op != token.SUB {
					continue
				}
				if src, _ := core.CallResult(neg.X); src != nil && src.Common().IsInvoke() && src.Common().Method.Name() == "State" && keyShape(src.Common().Args[0]) == addFmt {
					if k, ok := core.ConstInt(src.Common().Args[1]); ok && k == 0 {
						balanced = true
					}
				}
			}
		}
		c.Check(balanced, rule, "bus.proxy.SubscribeID/registration-id", addPos, "the stored registration id ("+addFmt+") is taken back when the last subscriber leaves",
			"the registration id stored under "+addFmt+" is added on register but never subtracted on unregister: from the second cycle on a wrong id is unregistered, the server keeps the old registration and every event arrives twice")
	}
	// the registration id travels through the shared client state: the id given to
	// UnregisterEvent is read back from the state entry the registering subscriber
	// wrote (any of the local subscribers may be the last one to leave)
	{
		var reg, unreg ssa.CallInstruction
		for _, f := range subUnit {
			for _, call := range core.Calls(f) {
				name := ""
				if sc := core.StaticCallee(call); sc != nil {
					name = sc.Name()
				} else if cc := call.Common(); cc.IsInvoke() {
					name = cc.Method.Name()
				}
				switch name {
				case "RegisterEvent":
					reg = call
				case "UnregisterEvent":
					unreg = call
				}
			}
		}
		bad := ""
		if reg == nil || unreg == nil {
			bad = "RegisterEvent / UnregisterEvent calls not found"
		} else {
			ra, ua := reg.Common().Args, unreg.Common().Args
			rid, uid := core.StripConv(core.Canon(ra[len(ra)-1])), core.StripConv(core.Canon(ua[len(ua)-1]))
			// stored: some State(key, v) call with v the registered id
			stored := ""
			for _, f := range subUnit {
				for _, call := range core.Calls(f) {
					cc := call.Common()
					if cc.IsInvoke() && cc.Method.Name() == "State" && len(cc.Args) == 2 && core.StripConv(core.Canon(cc.Args[1])) == rid {
						stored = keyShape(cc.Args[0])
					}
				}
			}
			src, _ := core.CallResult(uid)
			switch {
			case stored == "" || stored == "?":
				bad = "the id given to RegisterEvent is not saved in the shared client state: a subscriber other than the one that registered cannot unregister with it"
			case src == nil || !src.Common().IsInvoke() || src.Common().Method.Name() != "State" || keyShape(src.Common().Args[0]) != stored:
				bad = "the id given to UnregisterEvent is not read back from the client state entry " + stored + " (it is local to one subscription): when the last subscriber to leave is not the one that registered, a wrong id is unregistered, the service keeps the registration and later subscribers receive every event twice"
			}
		}
		c.Check(bad == "", rule, "bus.proxy.SubscribeID/registration-id-shared", fn.Pos(), "the registration id is saved in and read back from the shared client state", bad)
	}
	// the returned cancel always calls the local cancel (itself, or through a
	// private helper it hands the cancel function to)
	isLocalCancel := func(v ssa.Value) bool {
		e, ok := core.Canon(v).(*ssa.Extract)
		if !ok {
			return false
		}
		src, ok := e.Tuple.(*ssa.Call)
		return ok && src.Common().IsInvoke() && src.Common().Method.Name() == "Subscribe" && e.Index == 0
	}
	var alwaysCalls func(f *ssa.Function, isVal func(ssa.Value) bool, depth int) bool
	alwaysCalls = func(f *ssa.Function, isVal func(ssa.Value) bool, depth int) bool {
		if depth > 3 || len(f.Blocks) == 0 {
			return false
		}
		hits := map[ssa.Instruction]bool{}
		for _, call := range core.Calls(f) {
			if _, plain := call.(*ssa.Call); !plain {
				continue
			}
			cc := call.Common()
			hit := false
			if !cc.IsInvoke() && cc.StaticCallee() == nil && isVal(cc.Value) {
				hit = true
			} else if h := cc.StaticCallee(); h != nil && isPrivateHelper(c, h) {
				for k, a := range cc.Args {
					if isVal(a) && k < len(h.Params) {
						hp := h.Params[k]
						if alwaysCalls(h, func(v ssa.Value) bool { return core.Canon(v) == ssa.Value(hp) }, depth+1) {
							hit = true
						}
					}
				}
			}
			if hit {
				hits[call.(ssa.Instruction)] = true
			}
		}
		if len(hits) == 0 {
			return false
		}
		// every way out passes one of the calls (early-return style: one call per branch)
		for _, ret := range core.Returns(f) {
			if !core.MustPassBefore(f, ret, func(x ssa.Instruction) bool { return hits[x] }) {
				return false
			}
		}
		return true
	}
	okCancel := false
	for _, f := range fn.AnonFuncs {
		if alwaysCalls(f, isLocalCancel, 0) {
			okCancel = true
		}
	}
	c.Check(okCancel, rule, "bus.proxy.SubscribeID/cancel", fn.Pos(), "the returned cancel function always cancels the local subscription", "the cancel function returned by SubscribeID can return without cancelling the local subscription: the subscriber's channel is never closed")
}

// ruleForwarders: client.Subscribe and every generated Subscribe*.
func ruleForwarders(c *core.Ctx, a *epAnchors) {
	const rule = "C13.forwarding"
	typeF := c.Field("bus/net", "Header", "Type")
	var subs []*ssa.Function
	if f := c.Func("bus", "client", "Subscribe"); f != nil {
		subs = append(subs, f)
	}
	for _, fn := range c.RepoFuncs() {
		if fn.Parent() != nil || c.IsTestFile(fn) || fn.Signature.Recv() == nil {
			continue
		}
		if strings.HasPrefix(fn.Name(), "Subscribe") && fn.Name() != "SubscribeID" && fn.Name() != "Subscribe" && len(fn.Blocks) > 0 {
			// generated proxies: return (func(), chan T, error)
			if fn.Signature.Results().Len() == 3 {
				subs = append(subs, fn)
			}
		}
	}
	for _, fn := range subs {
		key := core.FuncKey(fn)
		var gos []*ssa.Go
		for _, call := range core.Calls(fn) {
			if g, ok := call.(*ssa.Go); ok {
				gos = append(gos, g)
			}
		}
		if len(gos) != 1 {
			if len(gos) == 0 && !hasSubscribeCall(fn) {
				continue // thin wrappers
			}
			c.Fail(rule, key, fn.Pos(), fmt.Sprintf("%d forwarding goroutines started for one subscription: events can be reordered or duplicated", len(gos)))
			continue
		}
		gf, _ := funcValue(gos[0].Call.Value)
		if gf == nil {
			c.Undecided(rule, key, gos[0].Pos(), "cannot resolve the forwarding goroutine")
			continue
		}
		bad := ""
		var closes []ssa.Instruction
		var sends []*ssa.Send
		for _, b := range gf.Blocks {
			for _, in := range b.Instrs {
				if _, isGo := in.(*ssa.Go); isGo {
					bad = "the forwarding loop starts a goroutine per event: events overtake each other"
				}
				if ch := isCloseBuiltin(in); ch != nil {
					if _, isChan := ch.Type().Underlying().(*types.Chan); isChan {
						if ct := ch.Type().Underlying().(*types.Chan); !isStructChan(ct) {
							closes = append(closes, in)
						}
					}
				}
				if sd, ok := in.(*ssa.Send); ok {
					sends = append(sends, sd)
				}
			}
		}
		isClose := func(x ssa.Instruction) bool {
			for _, cl := range closes {
				if cl == x {
					return true
				}
			}
			return false
		}
		if bad == "" {
			if len(closes) == 0 {
				bad = "the subscriber's channel is never closed"
			}
			for _, ret := range core.Returns(gf) {
				if !core.MustPassBefore(gf, ret, isClose) {
					bad = "the forwarding goroutine can exit without closing the subscriber's channel"
				}
			}
			for _, cl := range closes {
				if core.CanReach(cl, isClose) != nil {
					bad = "the subscriber's channel can be closed twice"
				}
			}
		}
		if bad == "" && len(sends) == 0 {
			bad = "the goroutine never forwards an event"
		}
		// client.Subscribe: only Event messages are forwarded
		if bad == "" && core.FuncKey(fn) == "bus.client.Subscribe" && typeF != nil {
			isType := func(v ssa.Value) bool { return isFieldOf(v, typeF) }
			isEvent := func(v ssa.Value) bool { k, ok := core.ConstInt(v); return ok && k == 5 }
			for _, sd := range sends {
				if !core.Guarded(gf, sd, core.Eq(isType, isEvent)) {
					bad = "messages that are not events (e.g. the error sent when the object terminates) are forwarded to the subscriber as if they were events"
				}
			}
		}
		c.Check(bad == "", rule, key, gf.Pos(), "single goroutine, sequential forwarding, channel closed exactly once on every exit", bad)
	}
}

func isStructChan(ct *types.Chan) bool {
	st, ok := ct.Elem().Underlying().(*types.Struct)
	return ok && st.NumFields() == 0
}

func hasSubscribeCall(fn *ssa.Function) bool {
	for _, call := range core.Calls(fn) {
		cc := call.Common()
		if cc.IsInvoke() && strings.HasPrefix(cc.Method.Name(), "Subscribe") {
			return true
		}
	}
	return false
}

func sliceElem(t types.Type) types.Type {
	if sl, ok := t.Underlying().(*types.Slice); ok {
		return sl.Elem()
	}
	return t
}

// sprintfBehind finds the fmt.Sprintf call that produced key: directly, or in
// a key-building helper of the repository whose only return is a Sprintf
// (subscriptionKey(service, object, action)); subst then maps the helper's
// parameters to the arguments of the call.
func sprintfBehind(key ssa.Value) (*ssa.Call, map[*ssa.Parameter]ssa.Value) {
	cr, _ := core.CallResult(core.Canon(key))
	if cr == nil || cr.Call.StaticCallee() == nil {
		return nil, nil
	}
	h := cr.Call.StaticCallee()
	if core.FuncKey(h) == "fmt.Sprintf" {
		return cr, nil
	}
	if !inRepo(h) || len(h.Blocks) == 0 {
		return nil, nil
	}
	var inner *ssa.Call
	for _, r := range core.Returns(h) {
		if len(r.Results) != 1 {
			return nil, nil
		}
		ic, _ := core.CallResult(core.Canon(core.RetVal(r, 0)))
		if ic == nil || ic.Call.StaticCallee() == nil || core.FuncKey(ic.Call.StaticCallee()) != "fmt.Sprintf" || (inner != nil && inner != ic) {
			return nil, nil
		}
		inner = ic
	}
	if inner == nil {
		return nil, nil
	}
	subst := map[*ssa.Parameter]ssa.Value{}
	for i, p := range h.Params {
		if i < len(cr.Call.Args) {
			subst[p] = cr.Call.Args[i]
		}
	}
	return inner, subst
}

// sprintfOperands lists the values formatted by the fmt.Sprintf call that
// produced key (through the varargs array go/ssa builds).
func sprintfOperands(key ssa.Value) []ssa.Value {
	cr, subst := sprintfBehind(key)
	if cr == nil || len(cr.Call.Args) < 2 {
		return nil
	}
	sl, ok := cr.Call.Args[1].(*ssa.Slice)
	if !ok {
		return nil
	}
	var out []ssa.Value
	for _, r := range core.Referrers(sl.X) {
		ia, ok := r.(*ssa.IndexAddr)
		if !ok {
			continue
		}
		for _, u := range core.Referrers(ia) {
			if st, ok := u.(*ssa.Store); ok && st.Addr == ssa.Value(ia) {
				v := st.Val
				if mi, ok := v.(*ssa.MakeInterface); ok {
					v = mi.X
				}
				if p, ok := core.Canon(v).(*ssa.Parameter); ok {
					if a, ok := subst[p]; ok {
						v = a
					}
				}
				out = append(out, v)
			}
		}
	}
	return out
}

// ruleNoStaleElementPointerInBus applies ruleNoStaleElementPointer to bus/**
// (and to the package of examples).
func ruleNoStaleElementPointerInBus(c *core.Ctx, rule string) {
	var fns []*ssa.Function
	for _, fn := range append(c.RepoFuncs("bus"), c.RepoFuncs(core.WitnessDirName)...) {
		if !c.IsTestFile(fn) {
			fns = append(fns, fn)
		}
	}
	ruleNoStaleElementPointer(c, rule, fns)
}

// refusedCloserUnregisters: rmCall (in f) removes a handler made by one of
// `made` (MakeHandler calls of the same unit).  The closer given to that
// MakeHandler reaches the unregistering function rm only across a test of a
// captured flag, and every path to rmCall gives that flag the value on which
// the closer does nothing.  Returns "" or what is wrong.
func refusedCloserUnregisters(c *core.Ctx, f *ssa.Function, rmCall ssa.CallInstruction, made []ssa.Value, rm *ssa.Function) string {
	if rm == nil {
		return ""
	}
	for _, m := range made {
		mk, ok := m.(*ssa.Call)
		if !ok {
			continue
		}
		margs, isMk := epCall(c, mk, "MakeHandler")
		if !isMk || len(margs) < 3 {
			continue
		}
		mc, ok := core.Canon(margs[2]).(*ssa.MakeClosure)
		if !ok {
			if core.IsNilConst(core.Canon(margs[2])) {
				continue
			}
			if fn, isFn := core.Canon(margs[2]).(*ssa.Function); isFn {
				// a plain function: cannot tell a refused registration from an accepted one
				if reachesCallee(fn, rm) {
					return "the closer " + fn.Name() + " always unregisters"
				}
				continue
			}
			return "the closer of the handler is not a function literal built here"
		}
		cl, _ := mc.Fn.(*ssa.Function)
		if cl == nil {
			continue
		}
		for _, g := range core.AnonFuncs(cl) {
			for _, call := range core.Calls(g) {
				if callee := call.Common().StaticCallee(); callee == nil || (callee != rm && !forwardsTo(callee, rm)) {
					continue
				}
				if g != cl {
					return "the closer unregisters from a nested function"
				}
				in := call.(ssa.Instruction)
				var flag *ssa.FreeVar
				isFlag := func(v ssa.Value) bool {
					u, ok := core.Canon(v).(*ssa.UnOp)
					if !ok || u.Op != token.MUL {
						return false
					}
					fv, ok := u.X.(*ssa.FreeVar)
					if !ok {
						return false
					}
					if b, isB := fv.Type().(*types.Pointer).Elem().Underlying().(*types.Basic); !isB || b.Kind() != types.Bool {
						return false
					}
					if flag == nil || flag == fv {
						flag = fv
						return true
					}
					return false
				}
				want := true // the value of the flag on which the closer does nothing
				if !core.Guarded(cl, in, core.IsFalse(isFlag)) {
					flag = nil
					want = false
					if !core.Guarded(cl, in, core.IsTrue(isFlag)) {
						return "the closer unregisters the user of that id unconditionally (" + c.Pos(call.Pos()) + ")"
					}
				}
				if flag == nil {
					return "the closer unregisters the user of that id unconditionally (" + c.Pos(call.Pos()) + ")"
				}
				cell := core.FreeVarBinding(flag)
				if cell == nil {
					return "the flag tested by the closer cannot be traced to a variable of " + f.Name()
				}
				if cell.Parent() != f {
					return "the flag tested by the closer is not a variable of the function that drops the handler"
				}
				setsFlag := func(i ssa.Instruction) bool {
					st, ok := i.(*ssa.Store)
					if !ok || st.Addr != cell {
						return false
					}
					b, isK := core.ConstBool(st.Val)
					return isK && b == want
				}
				if !core.MustPassBefore(f, rmCall.(ssa.Instruction), setsFlag) {
					return "the flag the closer tests is not set on every path to the removal of the refused handler"
				}
				// and nothing gives it the other value between that and the removal
				for _, r := range core.Referrers(cell) {
					st, ok := r.(*ssa.Store)
					if !ok || st.Addr != cell {
						continue
					}
					if b, isK := core.ConstBool(st.Val); isK && b == want {
						continue
					}
					if core.Dominates(st, rmCall.(ssa.Instruction)) {
						// the initial value, stored before the flag can be set
						ok := false
						for _, r2 := range core.Referrers(cell) {
							if s2, is2 := r2.(*ssa.Store); is2 && setsFlag(s2) && core.Dominates(st, s2) {
								ok = true
							}
						}
						if ok {
							continue
						}
					}
					if core.CanReach(st, func(i ssa.Instruction) bool { return i == rmCall.(ssa.Instruction) }) != nil {
						return "the flag the closer tests can be reset before the refused handler is removed"
					}
				}
			}
		}
	}
	return ""
}

// reachesCallee: fn (or a function literal in it) calls callee statically.
func reachesCallee(fn, callee *ssa.Function) bool {
	for _, g := range core.AnonFuncs(fn) {
		for _, call := range core.Calls(g) {
			if call.Common().StaticCallee() == callee {
				return true
			}
		}
	}
	return false
}

// forwardsTo: a one-call private function that only calls target.
func forwardsTo(f, target *ssa.Function) bool {
	if f == nil || len(f.Blocks) != 1 {
		return false
	}
	n := 0
	hit := false
	for _, call := range core.Calls(f) {
		n++
		if call.Common().StaticCallee() == target {
			hit = true
		}
	}
	return hit && n == 1
}

// requestIDParam: the parameter of a (un)registration function that carries
// the user's identifier — the first 64-bit unsigned parameter, or the struct
// parameter that bundles the request when the identifier travels inside it.
func requestIDParam(fn *ssa.Function) ssa.Value {
	for _, p := range fn.Params[1:] {
		if b, ok := p.Type().Underlying().(*types.Basic); ok && b.Kind() == types.Uint64 {
			return p
		}
	}
	for _, p := range fn.Params[1:] {
		if st, ok := p.Type().Underlying().(*types.Struct); ok && soleIDFieldType(st) != nil {
			return p
		}
	}
	return fn.Params[1]
}

// soleIDFieldType: st (embedded structs included) has exactly one field of a
// 64-bit unsigned type; returns that type.
func soleIDFieldType(st *types.Struct) types.Type {
	var found types.Type
	n := 0
	var walk func(s *types.Struct, depth int)
	walk = func(s *types.Struct, depth int) {
		for i := 0; i < s.NumFields(); i++ {
			f := s.Field(i)
			if b, ok := f.Type().Underlying().(*types.Basic); ok && b.Kind() == types.Uint64 {
				n++
				found = f.Type()
			}
			if in, ok := f.Type().Underlying().(*types.Struct); ok && depth < 2 {
				walk(in, depth+1)
			}
		}
	}
	walk(st, 0)
	if n == 1 {
		return found
	}
	return nil
}
