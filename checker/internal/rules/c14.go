package rules

import (
	"fmt"
	"go/token"
	"go/types"
	"strings"

	"golang.org/x/tools/go/ssa"

	"qicheck/internal/core"
)

func init() {
	register(&Property{
		ID:    "C14",
		Title: "A property is an atomic, typed register with validated writes and change events",
		Explanation: "Static discharge of structural necessary conditions of C14: " +
			"(validate-save-notify) in objectImpl.SetProperty (client writes) and stubObject.UpdateProperty (service-side writes) the value is saved and the change event emitted only across a nil verdict of the validator on the same bytes, each exactly once on every success path, save before notify, and no path notifies without saving; " +
			"(register) objectImpl.properties is only touched under propertiesMutex, writes exclusively; Property reads the value stored under the requested name; " +
			"(typed) every generated onPropertyChange decodes the bytes with the property's reader and passes a decoding error back (the validator is not called on garbage); every generated Get<Prop> compares the signature of the returned value with the declared one before decoding. " +
			"(serial) an object's mails are handled one at a time by one goroutine. " +
			"Not decided: linearizability of concurrent get/set/update histories; that one event reaches each subscriber (see C13).",
		Assumptions: []string{"sync.RWMutex semantics", "the validator (On<Prop>Change) is user code"},
		Run:         runC14,
	})
}

func runC14(c *core.Ctx) {
	lc := core.NewLockCache()
	el := newEntryLocks(c, lc)
	c.Doc("C14.validate-save-notify", "save and notify only after the validator accepted, once each, save first", 6)
	for _, site := range []struct{ recv, name string }{{"objectImpl", "SetProperty"}, {"stubObject", "UpdateProperty"}} {
		ruleValidateSaveNotify(c, site.recv, site.name)
	}
	c.Doc("C14.register", "property table under propertiesMutex; reads return the stored value", 5)
	guardedBy(c, lc, el, "C14.register", guardedField{Rel: "bus", Struct: "objectImpl", Field: "properties", Mutex: "propertiesMutex",
		Reason: "properties are read by any client while the mailbox goroutine or the service writes them"})
	lockPairing(c, lc, "C14.register", []*ssa.Function{c.Func("bus", "objectImpl", "Property"), c.Func("bus", "objectImpl", "saveProperty"), c.Func("bus", "objectImpl", "Properties")})
	{
		var busFns []*ssa.Function
		for _, fn := range append(c.RepoFuncs("bus"), c.RepoFuncs(core.WitnessDirName)...) {
			if !c.IsTestFile(fn) {
				busFns = append(busFns, fn)
			}
		}
		ruleNoLockCopies(c, "C14.register", busFns)
	}
	ruleSaveStores(c)
	c.Doc("C14.serial", "an object's mails are handled one at a time by one goroutine (writes to a property take effect in one order)", 2)
	ruleMailboxSerial(c, "C14.serial")
	c.Doc("C14.typed", "generated onPropertyChange rejects undecodable bytes; generated Get<Prop> checks the signature first", 4)
	ruleTypedProperties(c)
	// what the generated validator hook, getter, setter and publisher decode / encode is the
	// signature the property is declared with (instance level, rules shared with C05)
	ruleValidatorDecodesDeclared(c, "C14.typed")
	ruleStatedAccessors(c, "C14.typed")
	ruleStatedEmitters(c, "C14.typed")
	// one change event per accepted write to each subscriber: the emission
	// loop serves every subscriber, and the client forwards only Event
	// messages (rules shared with C13)
	c.Doc("C13.select", "change events go to every subscriber of the property and only to them", 2)
	ruleUpdateSignalSelects(c)
	// exactly one event per accepted write: registrations are balanced and the table the
	// emission walks is a private snapshot (rules shared with C13)
	c.Doc("C13.refcount", "remote register on 0→1 and unregister on 1→0 of the local count, with the id kept in the shared client state", 3)
	ruleRefcount(c)
	{
		lc13 := core.NewLockCache()
		c.Doc("C13.table", "the registration table is read and written under its mutex and not used after the lock is released", 8)
		guardedBy(c, lc13, newEntryLocks(c, lc13), "C13.table", guardedField{Rel: "bus", Struct: "signalHandler", Field: "signals", Mutex: "signalsMutex",
			Reason: "registrations are added/removed by the mailbox goroutine, by disconnect closers and read by emitters"})
		ruleInferredGuards(c, lc13, newEntryLocks(c, lc13), "C13.table")
		ruleNoStaleElementPointerInBus(c, "C13.table")
		ruleSignalTable(c)
	}
	if a := getEP(c, "C14.anchors"); a != nil {
		c.Doc("C13.forwarding", "subscribers are forwarded Event messages only, in order, channel closed once", 6)
		ruleForwarders(c, a)
	}
	c.Doc("C14.declared-type", "a client write reaches the validator, the save and the event only when its signature is the property's declared one", 3)
	ruleDeclaredType(c)
	c.Doc("C14.stateless-meta", "MetaObject lookups (the id a change event is emitted under) keep no package-level cache", 1)
	rulePackageKeepsNoCache(c, "C14.stateless-meta", "type/object")
	c.Doc("C13.sequential", "change events are written to every subscriber by the emitting goroutine, in order (rule shared with C13)", 1)
	ruleEmitSequential(c, "C13.sequential")
}

func ruleValidateSaveNotify(c *core.Ctx, recv, name string) {
	const rule = "C14.validate-save-notify"
	fn := c.Func("bus", recv, name)
	save := c.Func("bus", "objectImpl", "saveProperty")
	key := "bus." + recv + "." + name
	if fn == nil || save == nil {
		c.Undecided(rule, key, token.NoPos, "anchor not found")
		return
	}
	var validate, saveCall, notify ssa.CallInstruction
	// the three steps may sit in a private method the function ends with
	// (return o.applyProperty(name, value, sig, data)): the rule then reads that method, and
	// the function itself succeeds only through it
	if len(propertySteps(fn, save)) < 3 {
		for _, call := range core.Calls(fn) {
			h := core.StaticCallee(call)
			if h == nil || h == fn || !isPrivateHelper(c, h) || len(propertySteps(h, save)) < 3 {
				continue
			}
			okOuter := true
			for _, ret := range core.Returns(fn) {
				if core.IsNilConst(core.RetVal(ret, 0)) && !core.MustPassBefore(fn, ret, func(x ssa.Instruction) bool { return x == call.(ssa.Instruction) }) {
					okOuter = false
				}
			}
			c.Check(okOuter, rule, key+"/through-helper", call.Pos(), "success only through "+h.Name()+", which validates, saves and notifies", "the function can succeed without running the method that validates, saves and notifies")
			fn = h
			break
		}
	}
	for _, call := range core.Calls(fn) {
		cc := call.Common()
		if !cc.IsInvoke() && cc.StaticCallee() == nil {
			p := core.AccessPath(cc.Value)
			if len(p.Fields) > 0 && p.Fields[len(p.Fields)-1].Name() == "onPropertyChange" {
				validate = call
			}
		}
		if core.IsCallTo(call, save) {
			saveCall = call
		}
		if f := cc.StaticCallee(); f != nil && f.Name() == "UpdateProperty" {
			notify = call
		}
		if cc.IsInvoke() && cc.Method.Name() == "UpdateProperty" {
			notify = call
		}
	}
	if validate == nil || saveCall == nil || notify == nil {
		c.Fail(rule, key, fn.Pos(), fmt.Sprintf("missing step: validator call=%v, save=%v, notify=%v", validate != nil, saveCall != nil, notify != nil))
		return
	}
	sin, nin := saveCall.(ssa.Instruction), notify.(ssa.Instruction)
	isVerdict := func(v ssa.Value) bool {
		cr, _ := core.CallResult(v)
		return cr != nil && ssa.CallInstruction(cr) == validate
	}
	accepted := core.Eq(isVerdict, core.IsNilConst)
	c.Check(core.Guarded(fn, sin, accepted), rule, key+"/save-guarded", saveCall.Pos(), "saved only across validator == nil",
		"the new value is saved although the validator rejected it (or before it was asked): a rejected write changes the property")
	c.Check(core.Guarded(fn, nin, accepted), rule, key+"/notify-guarded", notify.Pos(), "change event only across validator == nil",
		"a change event is emitted although the validator rejected the write")
	c.Check(core.Dominates(sin, nin) && !core.ReachEntry(fn, func(x ssa.Instruction) bool { return x == sin }, nil).Has(nin), rule, key+"/save-before-notify", notify.Pos(),
		"every path to the event passes the save", "a change event can be emitted without (or before) saving the value: subscribers see a value a following read does not return")
	// exactly once each
	once := core.CanReach(sin, func(x ssa.Instruction) bool { return x == sin }) == nil && core.CanReach(nin, func(x ssa.Instruction) bool { return x == nin }) == nil
	_, plainS := saveCall.(*ssa.Call)
	_, plainN := notify.(*ssa.Call)
	c.Check(once && plainS && plainN, rule, key+"/once", notify.Pos(), "save and notify are plain calls outside any loop", "save or notify can run more than once (or asynchronously) for one accepted write")
	// success requires both
	ok := true
	for _, ret := range core.Returns(fn) {
		v := core.RetVal(ret, 0)
		if core.IsNilConst(v) {
			if !core.MustPassBefore(fn, ret, func(x ssa.Instruction) bool { return x == nin }) {
				ok = false
			}
		}
	}
	c.Check(ok, rule, key+"/success", fn.Pos(), "success only after the event was emitted", "an accepted write can succeed without emitting a change event")
	// same bytes validated and notified; same name validated and saved
	va, na, sa := validate.Common().Args, notify.Common().Args, saveCall.Common().Args
	sameData := len(va) >= 2 && len(na) >= 1 && core.SameValue(va[len(va)-1], na[len(na)-1])
	sameName := len(va) >= 1 && len(sa) >= 2 && core.SameValue(va[0], sa[1])
	c.Check(sameData && sameName, rule, key+"/same-value", fn.Pos(), "the bytes validated are the bytes announced; the name validated is the name saved",
		"the value (or name) that is validated is not the one that is saved/announced")
}

// ruleSaveStores: saveProperty stores newValue under name; Property reads properties[name].
func ruleSaveStores(c *core.Ctx) {
	const rule = "C14.register"
	save := c.Func("bus", "objectImpl", "saveProperty")
	get := c.Func("bus", "objectImpl", "Property")
	props := fld(c, "bus", "objectImpl", "properties")
	if save == nil || get == nil || props == nil {
		c.Undecided(rule, "bus.objectImpl.saveProperty", token.NoPos, "anchor not found")
		return
	}
	ups, _ := mapWrites(save, props)
	ok := len(ups) == 1 && core.Canon(ups[0].Key) == ssa.Value(save.Params[1]) && core.Canon(ups[0].Value) == ssa.Value(save.Params[2])
	if ok {
		for _, ret := range core.Returns(save) {
			if successReturn(ret) && !core.MustPassBefore(save, ret, func(x ssa.Instruction) bool { return x == ssa.Instruction(ups[0]) }) {
				ok = false
			}
		}
	}
	c.Check(ok, rule, "bus.objectImpl.saveProperty/store", save.Pos(), "properties[name] = newValue on every success path", "saveProperty does not store exactly the given value under the given name on every success path")
	// Property: success returns the looked-up value, guarded by ok (the lookup may
	// live in a private accessor whose results Property hands back unchanged)
	for i := 0; i < 3; i++ {
		h := forwardTarget(get)
		if h == nil {
			break
		}
		get = h
	}
	lks := mapLookups(get, props)
	good := false
	for _, lk := range lks {
		if !lk.CommaOk {
			continue
		}
		all := true
		n := 0
		for _, ret := range core.Returns(get) {
			if !successReturn(ret) {
				continue
			}
			n++
			if !valueOfLookup(lk, core.RetVal(ret, 0)) || !core.Guarded(get, ret, core.IsTrue(okOf(lk))) {
				all = false
			}
		}
		if all && n > 0 {
			good = true
		}
	}
	c.Check(good, rule, "bus.objectImpl.Property/read", get.Pos(), "returns properties[name] only when present", "Property does not return the value stored under the requested name (or succeeds for an unknown property)")
}

func ruleTypedProperties(c *core.Ctx) {
	const rule = "C14.typed"
	n := 0
	for _, fn := range c.RepoFuncs() {
		if fn.Parent() != nil || c.IsTestFile(fn) || !isGenerated(c, fn) && !strings.HasSuffix(c.Fset.Position(fn.Pos()).Filename, "_proxy.go") {
			continue
		}
		switch {
		case fn.Name() == "onPropertyChange" && fn.Signature.Recv() != nil:
			impls := implCalls(fn)
			if len(impls) == 0 {
				continue // no property
			}
			for i, ic := range impls {
				n++
				key := fmt.Sprintf("%s/case#%d", core.FuncKey(fn), i+1)
				in := ic.(ssa.Instruction)
				// every error-typed value dominating the validator call: err != nil ⇒ error return, validator unreachable
				bad := ""
				found := false
				for _, b := range fn.Blocks {
					for _, x := range b.Instrs {
						v, ok := x.(ssa.Value)
						if !ok || !core.IsErrorType(v.Type()) || !core.Dominates(x, in) || x == in {
							continue
						}
						if _, isE := x.(*ssa.Extract); !isE {
							if _, isC := x.(*ssa.Call); !isC {
								continue
							}
						}
						found = true
						isErr := func(y ssa.Value) bool { return core.Canon(y) == v }
						r := core.ReachFrom(core.After(x), nil, core.CutEstablishing(core.Eq(isErr, core.IsNilConst)))
						if r.Has(in) {
							bad = "the validator is called although the new value could not be decoded with the property's type"
						}
						for _, ret := range core.Returns(fn) {
							if r.Has(ret) && successReturn(ret) {
								bad = "undecodable bytes are accepted as a new property value"
							}
						}
					}
				}
				if !found {
					bad = "the new value is not decoded before the validator is called"
				}
				c.Check(bad == "", rule, key, ic.Pos(), "decode error ⇒ error, validator not called", bad)
				// the verdict of the implementation's validator is what the hook answers: every
				// return reached after the call hands back the call's own result (a verdict
				// assigned to a shadowed variable is lost: the rejected write is accepted)
				if cv, isCall := ic.(*ssa.Call); isCall && core.IsErrorType(cv.Type()) {
					lost := ""
					after := core.ReachFrom(core.After(in), nil, nil)
					for _, ret := range core.Returns(fn) {
						if !after.Has(ret) || len(ret.Results) == 0 {
							continue
						}
						if !answersWith(core.RetVal(ret, len(ret.Results)-1), cv, after, 0) {
							lost = "the hook returns, at " + c.Pos(ret.Pos()) + ", something else than what the implementation's validator answered: a write the service rejects is reported as accepted, then saved and announced"
						}
					}
					c.Check(lost == "", rule, key+"/verdict", ic.Pos(), "the validator's answer is the hook's answer", lost)
				}
			}
		case strings.HasPrefix(fn.Name(), "Get") && fn.Signature.Recv() != nil && fn.Signature.Results().Len() == 2:
			// generated property getter: calls Property(name) then compares the signature string
			var propCall ssa.CallInstruction
			for _, call := range core.Calls(fn) {
				cc := call.Common()
				if (cc.IsInvoke() && cc.Method.Name() == "Property") || (cc.StaticCallee() != nil && cc.StaticCallee().Name() == "Property") {
					propCall = call
				}
			}
			if propCall == nil {
				continue
			}
			n++
			key := core.FuncKey(fn)
			// the decode step: last call returning (T, error) whose result is returned
			isSigCmp := func(cm core.Cmp) (bool, bool) {
				_, xs := core.ConstString(cm.X)
				_, ys := core.ConstString(cm.Y)
				if xs == ys { // need exactly one constant
					return false, false
				}
				switch cm.Op {
				case token.EQL:
					return true, false
				case token.NEQ:
					return false, true
				}
				return false, false
			}
			ok := true
			nret := 0
			for _, ret := range core.Returns(fn) {
				v := core.RetVal(ret, 1)
				if v == nil {
					continue
				}
				// returns that can be successes: error operand not a fresh fmt.Errorf
				if errorReturnConst(ret) {
					continue
				}
				nret++
				if !core.Guarded(fn, ret, isSigCmp) {
					ok = false
				}
			}
			c.Check(ok && nret > 0, rule, key, fn.Pos(), "the value is decoded only after its signature was compared with the declared one",
				"the getter decodes the returned value without checking that its signature is the declared one: a property of another type is returned as garbage")
		}
	}
	if n == 0 {
		c.Undecided(rule, "generated property code", token.NoPos, "no generated onPropertyChange / Get<Prop> found")
	}
}

// forwardTarget: every return of fn that is not a constant failure hands back,
// unchanged and in order, the results of one call to a function of the
// repository (return o.load(name)): that function; nil otherwise.
func forwardTarget(fn *ssa.Function) *ssa.Function {
	var target *ssa.Function
	for _, r := range core.Returns(fn) {
		if len(r.Results) == 0 {
			return nil
		}
		if core.IsErrorType(r.Results[len(r.Results)-1].Type()) && errorReturnConst(r) {
			continue
		}
		var call *ssa.Call
		for i := range r.Results {
			cr, idx := core.CallResult(core.Canon(core.RetVal(r, i)))
			if cr == nil || (call != nil && cr != call) {
				return nil
			}
			if idx != i && !(len(r.Results) == 1 && idx <= 0) {
				return nil
			}
			call = cr
		}
		h := call.Call.StaticCallee()
		if h == nil || !inRepo(h) || len(h.Blocks) == 0 || (target != nil && target != h) {
			return nil
		}
		target = h
	}
	return target
}

// ruleDeclaredType: "always of the property's declared type".  A client write
// carries its own signature; objectImpl.SetProperty lets it reach the
// validator (which decodes the bytes as the declared type whatever they are),
// the save and the change event only across a successful comparison of that
// signature with MetaProperty.Signature of the property — made in place or by a
// helper whose nil result is the guard.  Without it a string written into an
// int32 property is validated by its length prefix, stored under its own
// signature, and every typed read fails afterwards (D27).
func ruleDeclaredType(c *core.Ctx) {
	const rule = "C14.declared-type"
	fn := c.Func("bus", "objectImpl", "SetProperty")
	save := c.Func("bus", "objectImpl", "saveProperty")
	var sigF *types.Var
	if p := c.Pkg("type/object"); p != nil {
		if tn, ok := p.Types.Scope().Lookup("MetaProperty").(*types.TypeName); ok {
			if st, ok := tn.Type().Underlying().(*types.Struct); ok {
				for i := 0; i < st.NumFields(); i++ {
					if st.Field(i).Name() == "Signature" {
						sigF = st.Field(i)
					}
				}
			}
		}
	}
	key := "bus.objectImpl.SetProperty"
	if fn == nil || save == nil || sigF == nil {
		c.Undecided(rule, key, token.NoPos, "anchor not found (SetProperty, saveProperty or MetaProperty.Signature)")
		return
	}
	var isDeclD func(v ssa.Value, d int) bool
	isDeclD = func(v ssa.Value, d int) bool {
		if isFieldOf(v, sigF) {
			return true
		}
		// a local that receives the declared signature in a search loop
		if ph, ok := core.Canon(v).(*ssa.Phi); ok && d < 3 {
			for _, e := range ph.Edges {
				if isDeclD(e, d+1) {
					return true
				}
			}
		}
		return false
	}
	isDecl := func(v ssa.Value) bool { return isDeclD(v, 0) }
	any := func(ssa.Value) bool { return true }
	// comparesParam: does f compare MetaProperty.Signature with its parameter idx (== or !=)?
	comparesParam := func(f *ssa.Function, idx int) bool {
		if f == nil || idx >= len(f.Params) {
			return false
		}
		for _, b := range f.Blocks {
			for _, in := range b.Instrs {
				bo, ok := in.(*ssa.BinOp)
				if !ok || (bo.Op != token.EQL && bo.Op != token.NEQ) {
					continue
				}
				// the parameter itself or its tuple-wrapped form "(" + p + ")"
				var isParam func(v ssa.Value) bool
				isParam = func(v ssa.Value) bool {
					v = core.Canon(v)
					if v == ssa.Value(f.Params[idx]) {
						return true
					}
					if add, ok := v.(*ssa.BinOp); ok && add.Op == token.ADD {
						return isParam(add.X) || isParam(add.Y)
					}
					return false
				}
				if (isDecl(bo.X) && isParam(bo.Y)) || (isDecl(bo.Y) && isParam(bo.X)) {
					return true
				}
			}
		}
		return false
	}
	// the signature of the value written: Value.Signature() of a parameter, or the string
	// read back from the value's own encoding
	var isWrittenSig func(v ssa.Value) bool
	isWrittenSig = func(v ssa.Value) bool {
		v = core.Canon(v)
		// "(" + sig + ")": the tuple-wrapped form a declaration may use
		if bo, ok := v.(*ssa.BinOp); ok && bo.Op == token.ADD {
			return isWrittenSig(bo.X) || isWrittenSig(bo.Y)
		}
		if ex, ok := v.(*ssa.Extract); ok {
			v = ex.Tuple
		}
		call, ok := v.(*ssa.Call)
		if !ok {
			return false
		}
		cc := call.Common()
		if cc.IsInvoke() && cc.Method.Name() == "Signature" {
			return true
		}
		if f := cc.StaticCallee(); f != nil && f.Name() == "ReadString" {
			return true
		}
		// a helper of the package that is handed the value written and returns its
		// signature (encodeProperty(newValue) (sig, data, err))
		if f := cc.StaticCallee(); f != nil && f.Pkg == fn.Pkg && len(fn.Params) > 0 {
			if b, isB := v.Type().Underlying().(*types.Basic); isB || v.Type() != nil {
				_ = b
			}
			for _, a := range cc.Args {
				if core.Canon(a) == ssa.Value(fn.Params[len(fn.Params)-1]) {
					return true
				}
			}
		}
		return false
	}
	var guards []core.EdgeMatcher
	for _, call := range core.Calls(fn) {
		cl, ok := call.(*ssa.Call)
		if !ok {
			continue
		}
		f := cl.Call.StaticCallee()
		if f == nil || f.Pkg != fn.Pkg || hasErrorResult(f.Signature) < 0 {
			continue
		}
		args := cl.Call.Args
		for j, a := range args {
			if isWrittenSig(a) && comparesParam(f, j) {
				the := cl
				guards = append(guards, core.Eq(func(v ssa.Value) bool {
					cr, _ := core.CallResult(v)
					return cr != nil && cr == the
				}, core.IsNilConst))
			}
		}
	}
	// in place: declared == written
	guards = append(guards, core.Eq(isDecl, func(v ssa.Value) bool { return isWrittenSig(v) }))
	_ = any
	guard := core.AnyOf(guards...)
	n := 0
	for _, call := range core.Calls(fn) {
		cc := call.Common()
		what := ""
		if !cc.IsInvoke() && cc.StaticCallee() == nil {
			p := core.AccessPath(cc.Value)
			if len(p.Fields) > 0 && p.Fields[len(p.Fields)-1].Name() == "onPropertyChange" {
				what = "validator"
			}
		}
		if core.IsCallTo(call, save) {
			what = "save"
		}
		if f := cc.StaticCallee(); f != nil && f.Name() == "UpdateProperty" {
			what = "notify"
		}
		if cc.IsInvoke() && cc.Method.Name() == "UpdateProperty" {
			what = "notify"
		}
		if what == "" {
			// the steps in a private method that is called here
			if h := cc.StaticCallee(); h != nil && h != fn && isPrivateHelper(c, h) {
				for _, kind := range propertySteps(h, save) {
					n++
					c.Check(core.Guarded(fn, call.(ssa.Instruction), guard), rule, key+"/"+kind, call.Pos(),
						"reached (in "+h.Name()+") only across a successful comparison of the written value's signature with the declared one",
						"the "+kind+" step of a client write (in "+h.Name()+") is reached without the signature of the value having been compared with the property's declared signature (MetaProperty.Signature)")
				}
			}
			continue
		}
		n++
		c.Check(core.Guarded(fn, call.(ssa.Instruction), guard), rule, key+"/"+what, call.Pos(),
			"reached only across a successful comparison of the written value's signature with the declared one",
			"the "+what+" step of a client write is reached without the signature of the value having been compared with the property's declared signature (MetaProperty.Signature): a value of another type (a string into an int32 property) is validated by whatever its first bytes decode to, stored under its own signature and announced; every typed read of the property then fails for all clients")
	}
	if n < 3 {
		c.Undecided(rule, key, fn.Pos(), fmt.Sprintf("only %d of the validator / save / notify steps found in SetProperty", n))
	}
}

// propertySteps: which of the validator / save / notify steps of a property
// write f performs itself.
func propertySteps(f, save *ssa.Function) []string {
	seen := map[string]bool{}
	for _, call := range core.Calls(f) {
		cc := call.Common()
		if !cc.IsInvoke() && cc.StaticCallee() == nil {
			p := core.AccessPath(cc.Value)
			if len(p.Fields) > 0 && p.Fields[len(p.Fields)-1].Name() == "onPropertyChange" {
				seen["validator"] = true
			}
		}
		if save != nil && core.IsCallTo(call, save) {
			seen["save"] = true
		}
		if g := cc.StaticCallee(); g != nil && g.Name() == "UpdateProperty" {
			seen["notify"] = true
		}
		if cc.IsInvoke() && cc.Method.Name() == "UpdateProperty" {
			seen["notify"] = true
		}
	}
	var out []string
	for _, k := range []string{"validator", "save", "notify"} {
		if seen[k] {
			out = append(out, k)
		}
	}
	return out
}

// answersWith: the value v returned after the call cv is cv's own result on
// every edge that comes from the call (the other edges of a merge belong to
// paths that did not make the call).
func answersWith(v ssa.Value, cv *ssa.Call, after *core.Reach, depth int) bool {
	if depth > 4 {
		return false
	}
	v = core.Canon(v)
	if v == ssa.Value(cv) {
		return true
	}
	phi, ok := v.(*ssa.Phi)
	if !ok {
		return false
	}
	n := 0
	for i, e := range phi.Edges {
		pred := phi.Block().Preds[i]
		from := pred == cv.Block()
		if !from && len(pred.Instrs) > 0 && after.Has(pred.Instrs[len(pred.Instrs)-1]) {
			from = true
		}
		if !from {
			continue
		}
		n++
		if !answersWith(e, cv, after, depth+1) {
			return false
		}
	}
	return n > 0
}
