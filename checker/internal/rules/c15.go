package rules

import (
	"fmt"
	"go/token"
	"go/types"

	"golang.org/x/tools/go/ssa"

	"qicheck/internal/core"
)

func init() {
	register(&Property{
		ID:    "C15",
		Title: "The service directory is a linearizable registry",
		Explanation: "Static discharge of structural necessary conditions of C15 on bus/directory: " +
			"(guarded-by) staging, services and lastID are only touched with serviceDirectory.mutex held (lockset over SSA, all methods, both the mailbox path and the direct directoryNamespace/directorySession path call the same methods); (pairing) mutex balanced on all paths; " +
			"(id) lastID is only ever incremented by a positive constant and the identifier handed out (staging key, ServiceInfo.ServiceId, return value) is read after the increment; staging is filled only there; " +
			"(unique-name) registration is refused, before the insert, when the name is found in staging or in services; " +
			"(transitions) services[id] is filled only from the staging entry of the same id (which is deleted) or by a guarded update that keeps name and id; lookup/list functions never read staging; " +
			"(events) service-added / service-removed are emitted exactly once on the success path of exactly those transitions, with the id and name of the entry, and nowhere else. " +
			"Events are emitted in the critical section of the state change they announce; no method re-acquires a mutex of its object that its caller holds; the object's mails are handled one at a time. " +
			"Not decided: linearizability of concurrent histories and sequential conformance to a reference model (runtime properties).",
		Assumptions: []string{"sync.Mutex semantics", "uint32 id wrap-around after 2^32 registrations is ignored", "the generated stub calls these methods with decoded arguments (C03/C12 cover the stub)"},
		Run:         runC15,
	})
}

func runC15(c *core.Ctx) {
	const rel = "bus/directory"
	lc := core.NewLockCache()
	el := newEntryLocks(c, lc)
	fns := srcFuncsOfPkg(c, rel)

	// events are fanned out from a snapshot of the subscriber table (rule shared with C13)
	{
		lc13 := core.NewLockCache()
		c.Doc("C13.table", "the signal registration table is read and written under its mutex and not used after the lock is released", 8)
		guardedBy(c, lc13, newEntryLocks(c, lc13), "C13.table", guardedField{Rel: "bus", Struct: "signalHandler", Field: "signals", Mutex: "signalsMutex",
			Reason: "registrations are added/removed by the mailbox goroutine, by disconnect closers and read by emitters"})
		ruleNoStaleElementPointerInBus(c, "C13.table")
	}
	c.Doc("C14.serial", "the directory object's mails are handled one at a time by one goroutine (rule shared with C14)", 2)
	ruleMailboxSerial(c, "C14.serial")
	c.Doc("C15.pairing", "mutex operations balanced on every path (bus/directory)", 4)
	var handwritten []*ssa.Function
	for _, fn := range fns {
		if !isGenerated(c, fn) {
			handwritten = append(handwritten, fn)
		}
	}
	lockPairing(c, lc, "C15.pairing", handwritten)

	dirSt, staging, services, lastID := directoryFields(c)
	c.Doc("C15.guarded-by", "registry state (staging, services, lastID) only touched under serviceDirectory.mutex", 20)
	for _, f := range []*types.Var{staging, services, lastID} {
		if f == nil || dirSt == nil {
			c.Undecided("C15.guarded-by", rel+".serviceDirectory", token.NoPos, "the registry state (two map[uint32]ServiceInfo tables and a uint32 counter) was not found")
			return
		}
		guardedBy(c, lc, el, "C15.guarded-by", guardedField{Rel: rel, Struct: dirSt.Obj().Name(), Field: f.Name(), Var: f, Mutex: "mutex",
			Reason: "the directory is used by its mailbox goroutine (remote requests) and directly by the hosting server through directoryNamespace/directorySession"})
	}

	nameF := c.Field(rel, "ServiceInfo", "Name")
	sidF := c.Field(rel, "ServiceInfo", "ServiceId")
	if nameF == nil || sidF == nil {
		c.Undecided("C15.id", rel+".ServiceInfo", token.NoPos, "ServiceInfo.Name / ServiceId not found")
		return
	}

	c.Doc("C15.id", "lastID only incremented; handed-out id read after the increment; staging filled only by the registering function", 5)
	c.Doc("C15.unique-name", "registration refused before the insert when the name is in staging or services", 2)
	c.Doc("C15.transitions", "services[id] filled only from staging[id] (then deleted) or by a name/id-preserving update; readers never see staging", 5)
	c.Doc("C15.events", "added/removed emitted exactly once per transition, with the entry's id and name, nowhere else", 6)

	ruleRegistryCopies(c, "C15.transitions", dirSt, staging, services, handwritten)
	// a transition that was made is reported as made: once the ready table has been changed
	// no failure is returned (the caller would undo its side — unroute the service — while
	// lookup and list keep showing it, and a retry would answer "not found")
	for _, fn := range handwritten {
		ups, dels := mapWrites(fn, services)
		var muts []ssa.Instruction
		for _, u := range ups {
			muts = append(muts, u)
		}
		for _, d := range dels {
			muts = append(muts, d)
		}
		if len(muts) == 0 || hasErrorResult(fn.Signature) < 0 {
			continue
		}
		bad := ""
		for _, m := range muts {
			r := core.ReachFrom(core.After(m), nil, nil)
			for _, ret := range core.Returns(fn) {
				if r.Has(ret) && !successReturn(ret) {
					bad = "a failure is returned (at " + c.Pos(ret.Pos()) + ") after the table of ready services was changed (at " + c.Pos(m.Pos()) + "): the caller sees an error for a transition that took effect — it undoes its own side while lookup and list keep showing the service, and a retry fails differently"
				}
			}
		}
		c.Check(bad == "", "C15.transitions", "committed-means-success@"+core.FuncKey(fn), fn.Pos(), "no failure is returned once the ready table was changed", bad)
	}

	// ---- id
	var registrars []*ssa.Function
	for _, fn := range handwritten {
		for _, a := range fieldAccesses(fn, lastID) {
			if !a.write || a.fresh {
				continue
			}
			st, ok := a.instr.(*ssa.Store)
			if !ok {
				continue
			}
			key := "lastID-store@" + core.FuncKey(fn)
			if incOfField(st.Val, lastID) {
				c.Pass("C15.id", key, st.Pos(), "lastID = lastID + positive constant")
				registrars = append(registrars, fn)
				checkIDUse(c, fn, st, staging, lastID, sidF)
			} else {
				c.Fail("C15.id", key, st.Pos(), "lastID is assigned something other than lastID + positive constant: identifiers may repeat or decrease")
			}
		}
	}
	if len(registrars) == 0 {
		c.Undecided("C15.id", "lastID-store", lastID.Pos(), "no increment of lastID found")
	}
	for _, fn := range handwritten {
		ups, _ := mapWrites(fn, staging)
		for i, up := range ups {
			isReg := false
			for _, r := range registrars {
				if r == fn {
					isReg = true
				}
			}
			c.Check(isReg, "C15.id", fmt.Sprintf("staging-insert@%s#%d", core.FuncKey(fn), i+1), up.Pos(),
				"insert in the function that allocates the identifier", "staging is filled by a function that does not allocate a fresh identifier")
		}
	}

	// ---- unique name
	for _, fn := range registrars {
		ups, _ := mapWrites(fn, staging)
		for _, m := range []*types.Var{staging, services} {
			key := fmt.Sprintf("%s-scan@%s", m.Name(), core.FuncKey(fn))
			if len(ups) == 0 {
				c.Undecided("C15.unique-name", key, fn.Pos(), "no insert into staging in the registering function")
				continue
			}
			ok, why := nameScanBefore(fn, ups[0], m, nameF)
			c.Check(ok, "C15.unique-name", key, ups[0].Pos(), "every entry of "+m.Name()+" is compared by Name before the insert; a match returns an error", why)
		}
	}

	// ---- transitions + events
	for _, fn := range handwritten {
		ups, dels := mapWrites(fn, services)
		for i, up := range ups {
			key := fmt.Sprintf("services-store@%s#%d", core.FuncKey(fn), i+1)
			if ok, lk := fromStaging(fn, up, staging); ok {
				// the staging entry must be deleted on every success path
				_, sdel := mapWrites(fn, staging)
				deleted := false
				for _, d := range sdel {
					if core.SameValue(d.Call.Args[1], lk.Index) {
						all := true
						for _, r := range core.Returns(fn) {
							if successReturn(r) && !core.MustPassBefore(fn, r, func(in ssa.Instruction) bool { return in == ssa.Instruction(d) }) {
								all = false
							}
						}
						deleted = deleted || all
					}
				}
				c.Check(deleted, "C15.transitions", key, up.Pos(), "services[id] = staging[id] under ok, staging[id] deleted on every success path",
					"the staging entry is not deleted when the service becomes ready: the name stays reserved twice / ready can be repeated")
				checkEvent(c, fn, "SignalServiceAdded", lk, up, nameF)
				continue
			}
			ok, why := guardedUpdate(fn, up, services, nameF, sidF)
			c.Check(ok, "C15.transitions", key, up.Pos(), "update of an existing entry guarded by equal Name, key = the new value's ServiceId", why)
		}
		for i, d := range dels {
			key := fmt.Sprintf("services-delete@%s#%d", core.FuncKey(fn), i+1)
			var witness *ssa.Lookup
			for _, lk := range mapLookups(fn, services) {
				if lk.CommaOk && core.SameValue(lk.Index, d.Call.Args[1]) && core.Guarded(fn, d, core.IsTrue(okOf(lk))) {
					witness = lk
				}
			}
			if witness == nil {
				c.Fail("C15.transitions", key, d.Pos(), "delete(services, id) is not guarded by a successful lookup of the same id")
				continue
			}
			c.Pass("C15.transitions", key, d.Pos(), "guarded by ok of the lookup of the same id")
			checkEvent(c, fn, "SignalServiceRemoved", witness, d, nameF)
		}
	}
	// event calls nowhere else
	for _, name := range []string{"SignalServiceAdded", "SignalServiceRemoved"} {
		n := 0
		for _, fn := range handwritten {
			if _, _, isFwd := eventForwarder(c, fn, name); isFwd {
				continue // a private helper that only emits: its call sites are the emission sites
			}
			for _, ev := range eventCalls(c, fn, name) {
				call := ev.call
				n++
				ups, dels := mapWrites(fn, services)
				legit := (name == "SignalServiceAdded" && len(ups) > 0) || (name == "SignalServiceRemoved" && len(dels) > 0)
				c.Check(legit, "C15.events", fmt.Sprintf("%s-site@%s", name, core.FuncKey(fn)), call.Pos(),
					"emitted by the function performing the transition", "event emitted by a function that does not perform the corresponding transition")
			}
		}
		if n == 0 {
			c.Fail("C15.events", name+"-site", token.NoPos, "no call to "+name+" in bus/directory: the transition is never announced")
		}
	}
	// readers never see staging
	for _, fn := range handwritten {
		if fn.Parent() != nil || isPrivateHelper(c, fn) && fn.Signature.Recv() == nil {
			continue // pure helpers working on a table they are given are checked at their callers
		}
		// a private predicate over the tables (nameConflict(name) error, isStaged(id) bool): no
		// entry leaves it, only a verdict its callers — the transition functions — act on
		if isPrivateHelper(c, fn) {
			verdictOnly := fn.Signature.Results().Len() > 0
			for i := 0; i < fn.Signature.Results().Len(); i++ {
				t := fn.Signature.Results().At(i).Type()
				b, isB := t.Underlying().(*types.Basic)
				if !core.IsErrorType(t) && !(isB && b.Kind() == types.Bool) {
					verdictOnly = false
				}
			}
			if verdictOnly {
				continue
			}
		}
		mut := false
		for _, f := range []*types.Var{staging, services, lastID} {
			for _, a := range fieldAccesses(fn, f) {
				if a.write && !a.fresh {
					mut = true
				}
			}
		}
		if mut {
			continue
		}
		readsServices := false
		for _, a := range fieldAccesses(fn, services) {
			if !a.fresh {
				readsServices = true
			}
		}
		readsStaging := false
		var pos token.Pos
		for _, a := range fieldAccesses(fn, staging) {
			if !a.fresh {
				readsStaging = true
				pos = core.InstrPos(a.instr)
			}
		}
		if !readsServices && !readsStaging {
			continue
		}
		c.Check(!readsStaging, "C15.transitions", "reader@"+core.FuncKey(fn), firstPos(pos, fn.Pos()),
			"lookup/list reads only services", "a lookup/list function reads staging: a service becomes visible before it is ready")
	}
}

func firstPos(a, b token.Pos) token.Pos {
	if a.IsValid() {
		return a
	}
	return b
}

// incOfField: v == load(fld) + k, k a positive constant.
func incOfField(v ssa.Value, fld *types.Var) bool {
	b, ok := core.Strip(v).(*ssa.BinOp)
	if !ok || b.Op != token.ADD {
		return false
	}
	isLoad := func(x ssa.Value) bool {
		u, ok := core.Strip(x).(*ssa.UnOp)
		return ok && u.Op == token.MUL && isFieldOf(u, fld)
	}
	if isLoad(b.X) {
		k, ok := core.ConstInt(b.Y)
		return ok && k > 0
	}
	if isLoad(b.Y) {
		k, ok := core.ConstInt(b.X)
		return ok && k > 0
	}
	return false
}

// checkIDUse: in the registering function the id used as staging key, stored
// in ServiceInfo.ServiceId and returned is lastID read after the increment.
func checkIDUse(c *core.Ctx, fn *ssa.Function, inc *ssa.Store, staging, lastID, sidF *types.Var) {
	isID := func(v ssa.Value, at ssa.Instruction) bool {
		v = core.Strip(v)
		if v == inc.Val {
			return true
		}
		u, ok := v.(*ssa.UnOp)
		if !ok || u.Op != token.MUL || !isFieldOf(u, lastID) {
			return false
		}
		return core.Dominates(inc, u)
	}
	ups, _ := mapWrites(fn, staging)
	if len(ups) == 0 {
		c.Fail("C15.id", "staging-key@"+core.FuncKey(fn), fn.Pos(), "identifier allocated but nothing inserted into staging")
		return
	}
	for i, up := range ups {
		c.Check(isID(up.Key, up), "C15.id", fmt.Sprintf("staging-key@%s#%d", core.FuncKey(fn), i+1), up.Pos(),
			"staging key is lastID read after the increment", "staging key is not the freshly incremented lastID (stale or foreign identifier: ids can collide)")
		// ServiceId of the stored value
		okSid := false
		for _, b := range fn.Blocks {
			for _, in := range b.Instrs {
				st, ok := in.(*ssa.Store)
				if !ok || !isFieldOf(st.Addr, sidF) {
					continue
				}
				if isID(st.Val, st) && core.Dominates(st, up) && core.RootOf(st.Addr) == core.RootOf(up.Value) {
					okSid = true
				}
			}
		}
		c.Check(okSid, "C15.id", fmt.Sprintf("staging-serviceid@%s#%d", core.FuncKey(fn), i+1), up.Pos(),
			"stored ServiceInfo.ServiceId = the fresh id", "the ServiceInfo stored in staging does not carry the fresh identifier in ServiceId")
	}
	for i, r := range core.Returns(fn) {
		if !successReturn(r) || len(r.Results) < 2 {
			continue
		}
		c.Check(isID(core.RetVal(r, 0), r), "C15.id", fmt.Sprintf("returned-id@%s#%d", core.FuncKey(fn), i+1), r.Pos(),
			"returns lastID read after the increment", "the identifier returned to the caller is not the freshly incremented lastID")
	}
}

// nameScanBefore: a range over map field m dominates the insert, and inside
// it a Name equality leads only to error returns.
func nameScanBefore(fn *ssa.Function, insert ssa.Instruction, m, nameF *types.Var) (bool, string) {
	return nameScanBeforeD(fn, insert, m, nameF, 0)
}

func nameScanBeforeD(fn *ssa.Function, insert ssa.Instruction, m, nameF *types.Var, depth int) (bool, string) {
	// form 3: the scans live in a checking helper returning an error (nameConflict(name)); the
	// insert is only reached across its nil result, and every nil return of the helper is
	// itself behind the scan of this table
	if depth < 2 {
		for _, call := range core.Calls(fn) {
			cv, ok := call.(*ssa.Call)
			if !ok || !core.Dominates(cv, insert) {
				continue
			}
			h := cv.Call.StaticCallee()
			if h == nil || h == fn || h.Pkg != fn.Pkg || len(h.Blocks) == 0 || h.Signature.Results().Len() != 1 || !core.IsErrorType(h.Signature.Results().At(0).Type()) {
				continue
			}
			the := cv
			isRes := func(v ssa.Value) bool { return core.Canon(v) == ssa.Value(the) }
			if !core.Guarded(fn, insert, core.Eq(isRes, core.IsNilConst)) {
				continue
			}
			n, all := 0, true
			for _, r := range core.Returns(h) {
				if !successReturn(r) {
					continue
				}
				n++
				if ok2, _ := nameScanBeforeD(h, r, m, nameF, depth+1); !ok2 {
					all = false
				}
			}
			if n > 0 && all {
				return true, ""
			}
		}
	}
	// form 2: the scan lives in a helper found(table, name) (…, bool) called with
	// the table; the insert is only reached when it reports "not found"
	for _, call := range core.Calls(fn) {
		cv, ok := call.(*ssa.Call)
		if !ok || !core.Dominates(cv, insert) {
			continue
		}
		h := cv.Call.StaticCallee()
		if h == nil || h.Pkg != fn.Pkg || len(h.Blocks) == 0 {
			continue
		}
		mi := -1
		for i, a := range cv.Call.Args {
			if isFieldOf(a, m) && i < len(h.Params) {
				mi = i
			}
		}
		if mi < 0 {
			continue
		}
		bi := -1
		for i := 0; i < h.Signature.Results().Len(); i++ {
			if b, ok := h.Signature.Results().At(i).Type().Underlying().(*types.Basic); ok && b.Kind() == types.Bool {
				bi = i
			}
		}
		if bi < 0 {
			continue
		}
		if !helperScansNames(h, h.Params[mi], nameF, bi) {
			continue
		}
		found := func(v ssa.Value) bool {
			if h.Signature.Results().Len() == 1 {
				return core.Canon(v) == ssa.Value(cv)
			}
			e, ok := core.Canon(v).(*ssa.Extract)
			return ok && e.Tuple == ssa.Value(cv) && e.Index == bi
		}
		if core.Guarded(fn, insert, core.IsFalse(found)) {
			return true, ""
		}
		return false, "a name already present in " + m.Name() + " does not prevent the insert"
	}
	for _, b := range fn.Blocks {
		for _, in := range b.Instrs {
			rg, ok := in.(*ssa.Range)
			if !ok || !isFieldOf(rg.X, m) || !core.Dominates(rg, insert) {
				continue
			}
			// find an If comparing two .Name values, one rooted at Next(rg)
			for _, b2 := range fn.Blocks {
				ifi, ok := b2.Instrs[len(b2.Instrs)-1].(*ssa.If)
				if !ok {
					continue
				}
				cmp, neg := core.CondCmp(ifi.Cond)
				if cmp.Op != token.EQL && cmp.Op != token.NEQ {
					continue
				}
				if !isFieldOf(cmp.X, nameF) || !isFieldOf(cmp.Y, nameF) {
					continue
				}
				fromRange := func(v ssa.Value) bool {
					r := core.RootOf(v)
					if e, ok := r.(*ssa.Extract); ok {
						if nx, ok := e.Tuple.(*ssa.Next); ok && nx.Iter == ssa.Value(rg) {
							return true
						}
					}
					return false
				}
				if !fromRange(cmp.X) && !fromRange(cmp.Y) {
					continue
				}
				eqEdge := 0
				if (cmp.Op == token.NEQ) != neg {
					eqEdge = 1
				}
				// from the equal edge, the insert must be unreachable and every
				// reachable return must be an error return
				start := core.Point{B: b2.Succs[eqEdge], I: 0}
				r := core.ReachFrom(start, nil, nil)
				if r.Has(insert) || b2.Succs[eqEdge] == insert.Block() {
					return false, "a name already present in " + m.Name() + " does not prevent the insert"
				}
				okRet := true
				for _, ret := range core.Returns(fn) {
					if (r.Has(ret) || ret.Block() == b2.Succs[eqEdge]) && successReturn(ret) {
						okRet = false
					}
				}
				if !okRet {
					return false, "a name already present in " + m.Name() + " leads to a success return"
				}
				if !core.Dominates(ifi, insert) && !b2.Dominates(insert.Block()) {
					// the comparison is inside the loop; the loop (range) dominates the insert, which is enough
				}
				return true, ""
			}
		}
	}
	return false, "no scan of " + m.Name() + " comparing Name precedes the insert into staging: two services can hold one name"
}

// fromStaging: up stores into services the value looked up in staging under
// the same key, guarded by ok.
func fromStaging(fn *ssa.Function, up *ssa.MapUpdate, staging *types.Var) (bool, *ssa.Lookup) {
	for _, lk := range mapLookups(fn, staging) {
		if !lk.CommaOk {
			continue
		}
		if core.SameValue(lk.Index, up.Key) && valueOfLookup(lk, up.Value) && core.Guarded(fn, up, core.IsTrue(okOf(lk))) {
			return true, lk
		}
	}
	return false, nil
}

// guardedUpdate: services[k] = v where k = v.ServiceId, guarded by a
// successful lookup of k and by equality of the Names.
func guardedUpdate(fn *ssa.Function, up *ssa.MapUpdate, services, nameF, sidF *types.Var) (bool, string) {
	newRoot := core.RootOf(up.Value)
	if !isFieldOf(up.Key, sidF) || core.RootOf(up.Key) != newRoot {
		return false, "the key of the update is not the ServiceId of the value being stored: an update can change a service's identity"
	}
	for _, lk := range mapLookups(fn, services) {
		if !lk.CommaOk || !core.SameValue(lk.Index, up.Key) {
			continue
		}
		if !core.Guarded(fn, up, core.IsTrue(okOf(lk))) {
			continue
		}
		isOldName := func(v ssa.Value) bool {
			return isFieldOf(v, nameF) && valueOfLookup(lk, core.RootOf(v))
		}
		isNewName := func(v ssa.Value) bool { return isFieldOf(v, nameF) && core.RootOf(v) == newRoot }
		if core.Guarded(fn, up, core.Eq(isOldName, isNewName)) {
			return true, ""
		}
		return false, "the update is not guarded by equality of the stored and the new Name: an update can rename a service"
	}
	return false, "the update is not guarded by a successful lookup of the same id: an update can create a service"
}

// checkEvent: the event `name` is emitted exactly once on every success path
// through transition instruction tr, guarded by ok(lk), with (id, Name of the
// looked-up entry) as arguments.
func checkEvent(c *core.Ctx, fn *ssa.Function, name string, lk *ssa.Lookup, tr ssa.Instruction, nameF *types.Var) {
	evs := eventCalls(c, fn, name)
	var calls []ssa.CallInstruction
	for _, ev := range evs {
		calls = append(calls, ev.call)
	}
	base := name + "@" + core.FuncKey(fn)
	if len(calls) == 0 {
		c.Fail("C15.events", base, tr.Pos(), "the transition is performed but "+name+" is never emitted")
		return
	}
	for i, call := range calls {
		key := fmt.Sprintf("%s#%d", base, i+1)
		in := call.(ssa.Instruction)
		if _, plain := call.(*ssa.Call); !plain {
			c.Fail("C15.events", key, call.Pos(), name+" is emitted from a goroutine of its own (or deferred): the function returns before the event is out, and an unregistration following a ready can deliver serviceRemoved before serviceAdded (events in an order that never happened)")
			continue
		}
		if !core.Guarded(fn, in, core.IsTrue(okOf(lk))) {
			c.Fail("C15.events", key, call.Pos(), name+" can be emitted although the entry was not found (no transition happened)")
			continue
		}
		args := evs[i].args
		if len(args) < 2 || !core.SameValue(args[0], lk.Index) {
			c.Fail("C15.events", key, call.Pos(), name+" is not emitted with the id of the entry that changed state")
			continue
		}
		if !isFieldOf(args[1], nameF) || !valueOfLookup(lk, core.RootOf(args[1])) {
			c.Fail("C15.events", key, call.Pos(), name+" is not emitted with the Name of the entry that changed state")
			continue
		}
		// at most once: the call cannot be reached again after itself
		if again := core.CanReach(in, func(x ssa.Instruction) bool {
			cc, ok := x.(ssa.CallInstruction)
			if !ok {
				return false
			}
			for _, other := range calls {
				if other == cc {
					return true
				}
			}
			_, m := core.InvokeName(cc)
			return m == name
		}); again != nil {
			c.Fail("C15.events", key, call.Pos(), name+" can be emitted twice for one transition (second emission at "+c.Pos(again.Pos())+")")
			continue
		}
		// same critical section as the state change: no release of a directory
		// mutex between the transition and the emission (in either order)
		split := false
		for _, blk := range fn.Blocks {
			for _, x := range blk.Instrs {
				lcall, ok := x.(ssa.CallInstruction)
				if !ok {
					continue
				}
				op, ok := core.LockOpOf(lcall)
				if !ok || (op.Kind != core.OpUnlock && op.Kind != core.OpRUnlock) {
					continue
				}
				if _, isDefer := x.(*ssa.Defer); isDefer {
					continue
				}
				if unlockBetween(fn, tr, in, op.Class) || unlockBetween(fn, in, tr, op.Class) {
					split = true
				}
			}
		}
		if split {
			c.Fail("C15.events", key, call.Pos(), name+" is emitted in another critical section than the state change it announces (the mutex is released in between): a concurrent registration/unregistration of the same service can run in the gap, and subscribers see the events in an order that never happened (removed before added)")
			continue
		}
		c.Pass("C15.events", key, call.Pos(), "guarded by the lookup, carries the entry's id and name, not repeatable, in the critical section of the state change")
	}
	// at least once on every success path through the transition, unless the helper is nil
	recvIsNil := func(v ssa.Value) bool {
		for k, call := range calls {
			if evs[k].direct && call.Common().IsInvoke() && core.SameValue(v, call.Common().Value) {
				return true
			}
		}
		return false
	}
	cut := core.CutEstablishing(core.Eq(recvIsNil, core.IsNilConst))
	isCall := func(x ssa.Instruction) bool {
		for _, call := range calls {
			if x == call.(ssa.Instruction) {
				return true
			}
		}
		return false
	}
	// a violating path reaches the transition without having emitted and then
	// reaches a success return without emitting (emitting before or after the
	// state change are both fine: the mutex is held throughout)
	before := core.ReachEntry(fn, isCall, cut).Has(tr)
	r := core.ReachFrom(core.After(tr), isCall, cut)
	missing := false
	var pos token.Pos
	for _, ret := range core.Returns(fn) {
		if before && successReturn(ret) && r.Has(ret) {
			missing = true
			pos = ret.Pos()
		}
	}
	c.Check(!missing, "C15.events", base+"/every-path", firstPos(pos, tr.Pos()),
		"every success path through the transition emits "+name+" (unless no signal helper is installed)",
		"a success path through the transition returns without emitting "+name)
}

// helperScansNames: h ranges over its table parameter, compares the Name of
// each entry, returns true (result bi) on a match and false only after the
// whole table was scanned.
func helperScansNames(h *ssa.Function, table ssa.Value, nameF *types.Var, bi int) bool {
	for _, b := range h.Blocks {
		for _, in := range b.Instrs {
			rg, ok := in.(*ssa.Range)
			if !ok || core.Canon(rg.X) != core.Canon(table) {
				continue
			}
			for _, b2 := range h.Blocks {
				ifi, ok := b2.Instrs[len(b2.Instrs)-1].(*ssa.If)
				if !ok {
					continue
				}
				cm, neg := core.CondCmp(ifi.Cond)
				if (cm.Op != token.EQL && cm.Op != token.NEQ) || !isFieldOf(cm.X, nameF) && !isFieldOf(cm.Y, nameF) {
					continue
				}
				fromRange := func(v ssa.Value) bool {
					if e, ok := core.RootOf(v).(*ssa.Extract); ok {
						if nx, ok := e.Tuple.(*ssa.Next); ok && nx.Iter == ssa.Value(rg) {
							return true
						}
					}
					return false
				}
				if !fromRange(cm.X) && !fromRange(cm.Y) {
					continue
				}
				eqEdge := 0
				if (cm.Op == token.NEQ) != neg {
					eqEdge = 1
				}
				r := core.ReachFrom(core.Point{B: b2.Succs[eqEdge], I: 0}, func(x ssa.Instruction) bool { return x.Block() == rg.Block() }, nil)
				okTrue := true
				n := 0
				for _, ret := range core.Returns(h) {
					if r.Has(ret) || ret.Block() == b2.Succs[eqEdge] {
						n++
						if bv, isConst := core.ConstBool(core.RetVal(ret, bi)); !isConst || !bv {
							// a flag set in the match branch and false otherwise (found = true; break)
							if !flagSetFrom(core.RetVal(ret, bi), b2.Succs[eqEdge], r) {
								okTrue = false
							}
						}
					}
				}
				// every `false` return happens outside the match branch, i.e. after the scan
				if okTrue && n > 0 {
					return true
				}
			}
		}
	}
	return false
}

// eventCall: an emission of a directory event in fn: the call of the signal
// helper itself, or the call of a private helper of the package that does
// nothing but emit it with its own parameters (notifyAdded(id, name)).
type eventCall struct {
	call   ssa.CallInstruction
	args   []ssa.Value // id, name as seen in fn
	direct bool
}

func eventCalls(c *core.Ctx, fn *ssa.Function, name string) []eventCall {
	var out []eventCall
	for _, call := range core.Calls(fn) {
		cc := call.Common()
		if cc.IsInvoke() {
			if cc.Method.Name() == name {
				out = append(out, eventCall{call, cc.Args, true})
			}
			continue
		}
		f := cc.StaticCallee()
		if f == nil {
			continue
		}
		if f.Name() == name {
			args := cc.Args
			if len(args) > 0 {
				args = args[1:]
			}
			out = append(out, eventCall{call, args, true})
			continue
		}
		if idI, nameI, ok := eventForwarder(c, f, name); ok && idI < len(cc.Args) && nameI < len(cc.Args) {
			out = append(out, eventCall{call, []ssa.Value{cc.Args[idI], cc.Args[nameI]}, false})
		}
	}
	return out
}

// eventForwarder: h is a private helper that touches no registry state and
// emits event name exactly once on every path (unless no signal helper is
// installed) with two of its own parameters as id and name; returns their
// parameter indexes.
func eventForwarder(c *core.Ctx, h *ssa.Function, name string) (int, int, bool) {
	if h == nil || !isPrivateHelper(c, h) || len(h.Blocks) == 0 {
		return 0, 0, false
	}
	calls := callsNamed(h, name)
	if len(calls) != 1 {
		return 0, 0, false
	}
	call := calls[0]
	args := call.Common().Args
	if !call.Common().IsInvoke() && len(args) > 0 {
		args = args[1:]
	}
	if len(args) < 2 {
		return 0, 0, false
	}
	idx := func(v ssa.Value) int {
		p, ok := core.Canon(v).(*ssa.Parameter)
		if !ok {
			return -1
		}
		for i, hp := range h.Params {
			if hp == p {
				return i
			}
		}
		return -1
	}
	idI, nameI := idx(args[0]), idx(args[1])
	if idI < 0 || nameI < 0 {
		return 0, 0, false
	}
	if loopHeaderOf(call.(ssa.Instruction)) != nil {
		return 0, 0, false
	}
	// emitted on every path, unless the signal helper is nil
	recvIsNil := func(v ssa.Value) bool {
		return call.Common().IsInvoke() && core.SameValue(v, call.Common().Value)
	}
	r := core.ReachEntry(h, func(x ssa.Instruction) bool { return x == call.(ssa.Instruction) }, core.CutEstablishing(core.Eq(recvIsNil, core.IsNilConst)))
	for _, ret := range core.Returns(h) {
		if r.Has(ret) {
			return 0, 0, false
		}
	}
	return idI, nameI, true
}

// flagSetFrom: v is a boolean variable that is true when the return is reached
// through block from (where it is set) and false on every other way in.
func flagSetFrom(v ssa.Value, from *ssa.BasicBlock, r *core.Reach) bool {
	seen := map[*ssa.Phi]bool{}
	var walk func(v ssa.Value) (anyTrue bool, ok bool)
	walk = func(v ssa.Value) (bool, bool) {
		p, isPhi := v.(*ssa.Phi)
		if !isPhi {
			return false, false
		}
		if seen[p] {
			return false, true
		}
		seen[p] = true
		anyTrue := false
		for k, e := range p.Edges {
			pred := p.Block().Preds[k]
			reached := pred == from || (len(pred.Instrs) > 0 && r.Has(pred.Instrs[len(pred.Instrs)-1]))
			if bv, isConst := core.ConstBool(e); isConst {
				if bv != reached {
					return false, false
				}
				anyTrue = anyTrue || bv
				continue
			}
			t, ok := walk(e)
			if !ok {
				return false, false
			}
			anyTrue = anyTrue || t
		}
		return anyTrue, true
	}
	t, ok := walk(v)
	return ok && t
}
