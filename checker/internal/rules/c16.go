package rules

import (
	"fmt"
	"go/token"
	"go/types"
	"strings"

	"golang.org/x/tools/go/ssa"

	"qicheck/internal/core"
)

func init() {
	register(&Property{
		ID:    "C16",
		Title: "Removed objects are unreachable and terminated exactly once",
		Explanation: "Static discharge of structural necessary conditions of C16 on bus/service.go, bus/service_reference.go, bus/signal.go: " +
			"(guarded-by, pairing) serviceImpl.objects/boxes only under the service's RWMutex, clientService.objectsHandlers under objectsMutex, clientService.nextID under nextIDMutex, writes exclusively; locks balanced on every path; " +
			"(tables) the object table and the mailbox table (the one Receive consults) change together: every insert/delete of objects[k] has an insert/delete of boxes[k] with the same key in the same critical section; " +
			"(remove) Remove deletes under the exclusive lock an entry it found, then calls OnTerminate on exactly that object exactly once, outside the lock; an unknown id is an error; Receive answers an unknown object with an error without invoking anything; " +
			"(unique-id) Add stores under a key only after a failed lookup of that key (or for the first object) in the same critical section; " +
			"(subscribers) signalHandler.OnTerminate swaps the subscriber list out under its lock and tells every former subscriber. " +
			"Not decided: behaviour under concurrent add/remove/terminate histories; that the error actually reaches subscribers (network).",
		Assumptions: []string{"sync.RWMutex semantics", "locks identified by (struct type, field)"},
		Run:         runC16,
	})
}

func runC16(c *core.Ctx) {
	lc := core.NewLockCache()
	el := newEntryLocks(c, lc)
	var fns []*ssa.Function
	for _, fn := range srcFuncsOfPkg(c, "bus") {
		root := fn
		for root.Parent() != nil {
			root = root.Parent()
		}
		k := core.FuncKey(root)
		if strings.HasPrefix(k, "bus.serviceImpl.") || strings.HasPrefix(k, "bus.clientService.") || k == "bus.NewService" || k == "bus.NewServiceReference" {
			fns = append(fns, fn)
		}
	}
	c.Doc("C16.pairing", "mutex operations balanced on every path (serviceImpl, clientService)", 4)
	lockPairing(c, lc, "C16.pairing", fns)

	c.Doc("C16.guarded-by", "object/mailbox/handler tables only touched under their mutex, writes exclusively", 20)
	for _, g := range []guardedField{
		{Rel: "bus", Struct: "serviceImpl", Field: "objects", Mutex: "RWMutex", Reason: "object table shared by Add/Remove/Terminate and the connection goroutines"},
		{Rel: "bus", Struct: "serviceImpl", Field: "boxes", Mutex: "RWMutex", Reason: "mailbox table consulted by Receive on every message"},
		{Rel: "bus", Struct: "clientService", Field: "objectsHandlers", Mutex: "objectsMutex", Reason: "handler ids of client-side objects"},
		{Rel: "bus", Struct: "clientService", Field: "nextID", Mutex: "nextIDMutex", Reason: "id counter of client-side objects"},
	} {
		guardedBy(c, lc, el, "C16.guarded-by", g)
	}

	objects := fld(c, "bus", "serviceImpl", "objects")
	boxes := fld(c, "bus", "serviceImpl", "boxes")
	if objects == nil || boxes == nil {
		c.Undecided("C16.tables", "bus.serviceImpl", token.NoPos, "objects/boxes fields not found")
		return
	}
	class := core.LockClass{Owner: "bus.serviceImpl", Field: "RWMutex"}
	if st := strct(c, "bus", "serviceImpl"); st != nil {
		if cl, ok := guardOf(c, lc, "bus", st, objects, "RWMutex"); ok {
			class = cl
		}
	}

	c.Doc("C16.tables", "objects[k] and boxes[k] are inserted/deleted together in one critical section", 4)
	for _, fn := range fns {
		tablesTogether(c, fn, objects, boxes, class)
	}

	c.Doc("C16.remove", "Remove: delete a found entry under the lock, OnTerminate exactly once on it outside the lock, error otherwise; unknown object ⇒ error", 4)
	ruleRemove(c, lc, objects, class)

	c.Doc("C16.terminate", "Terminate takes the objects out of the service under the exclusive lock and runs their hooks afterwards, outside the lock", 2)
	ruleTerminateDetaches(c, lc, objects, boxes, class)

	c.Doc("C16.activation", "Add installs an object only if its activation succeeded and reports a refused activation to its caller", 2)
	ruleActivationErrorKept(c, "C16.activation", objects)
	c.Doc("C16.unique-id", "Add stores under a key only after a failed lookup of that very key", 1)
	ruleUniqueID(c, objects)

	c.Doc("C16.subscribers", "OnTerminate hands every former subscriber the termination error and drops its handler", 2)
	ruleSubscribersTold(c)
	ruleTellEverySubscriber(c, "C16.subscribers")

	c.Doc("C16.hook-callers", "the termination hook is run only by the functions that take the object out of its table, and by hooks forwarding to a wrapped object", 3)
	ruleTerminateHookCallers(c, "C16.hook-callers")

	c.Doc("C16.client-ids", "client-side object ids: counter only incremented, under its mutex", 1)
	ruleClientIDs(c, lc)

	c.Doc("C16.mailbox", "mailboxes are never closed (Receive sends to a mailbox after releasing the service lock)", 1)
	ruleMailboxNeverClosed(c)
	// a terminate request is served by the object's own mailbox goroutine and ends in
	// Remove, which needs the service lock exclusively: a sender parked on a full mailbox
	// with the read lock held keeps it for ever, the hook never runs and every other object
	// of the service becomes unreachable (rule shared with C12)
	c.Doc("C12.locks", "bus/**: every mutex released on every path; no blocking channel operation while a mutex is held — rule shared with C12", 30)
	ruleBusLocks(c, core.NewLockCache())

	// the handler of a client-side object is dropped only by the function that also forgets
	// its table entry: a stale entry would later designate another object's (recycled) handler
	c.Doc("C16.client-remove", "a client-side object's handler is removed only by clientService.Remove, which deletes its table entry in the critical section of the lookup, before removing the handler", 2)
	{
		n := 0
		for _, fn := range srcFuncsOfPkg(c, "bus") {
			root := fn
			for root.Parent() != nil {
				root = root.Parent()
			}
			rt := root.Signature.Recv()
			if rt == nil || !core.TypeIs(derefType(rt.Type()), "bus", "clientService") {
				continue
			}
			for i, call := range core.Calls(fn) {
				if _, isRm := epCall(c, call, "RemoveHandler"); !isRm {
					continue
				}
				n++
				c.Check(root.Name() == "Remove", "C16.client-remove", fmt.Sprintf("RemoveHandler@%s#%d", core.FuncKey(fn), i), call.Pos(), "in Remove, next to the delete of the entry",
					"a client-side object's handler is removed in "+core.FuncKey(fn)+" without going through Remove: its entry stays in the table, and since handler slots are recycled the stale entry later designates another object's handler (removing one object then terminates another)")
			}
		}
		if n == 0 {
			c.Undecided("C16.client-remove", "bus.clientService", token.NoPos, "no RemoveHandler call found in clientService")
		}
		// … and Remove forgets the entry in the exclusive critical section in which it found it,
		// before the handler is removed: removing the handler runs the object's hook and frees
		// a slot that is recycled, so an entry that outlives it designates, for a second Remove
		// of the same id, the handler of whatever object took the slot
		rmFn := c.Func("bus", "clientService", "Remove")
		oh := fld(c, "bus", "clientService", "objectsHandlers")
		st := strct(c, "bus", "clientService")
		if rmFn != nil && oh != nil && st != nil && len(rmFn.Params) > 1 {
			if cl, ok := guardOf(c, lc, "bus", st, oh, "objectsMutex"); ok {
				idp := ssa.Value(rmFn.Params[1])
				var lk *ssa.Lookup
				for _, l := range mapLookups(rmFn, oh) {
					if l.CommaOk && core.Canon(l.Index) == idp {
						lk = l
					}
				}
				// the critical section may live in a helper handed the id (handler, ok := c.forget(id))
				secFn, secID := rmFn, idp
				var viaCall ssa.Instruction
				if lk == nil {
					if lh := findLookupHelper(c, rmFn, oh); lh != nil && lh.keyArg() != nil && core.Canon(lh.keyArg()) == idp {
						lk, secFn, secID = lh.lk, lh.h, core.Canon(lh.lk.Index)
						viaCall = lh.call
					}
				}
				bad := ""
				if lk == nil {
					bad = "Remove does not look the handler up under the id it was given"
				} else {
					if held, _ := lc.Get(secFn).HeldAt(lk, cl, true); !held {
						bad = "the entry is looked up without the exclusive lock: two concurrent Remove calls of one id both find it and both remove the handler id it holds — the second removes whoever was given the recycled slot in between"
					}
					var del ssa.Instruction
					for _, d := range tableOps(c, secFn, oh, 0) {
						if d.isDel && d.key != nil && core.Canon(d.key) == secID && sameSection(secFn, lk, d.in, cl) {
							del = d.in
							if viaCall != nil {
								del = viaCall
							}
						}
					}
					if del == nil && bad == "" {
						bad = "the entry found is not deleted within the critical section of the lookup: a second Remove of the same id finds it again and removes the handler id it holds, which by then may belong to another object (that object is terminated although nobody removed it)"
					}
					for _, call := range core.Calls(rmFn) {
						if _, isRm := epCall(c, call, "RemoveHandler"); isRm && del != nil && bad == "" && !core.Dominates(del, call.(ssa.Instruction)) {
							bad = "the handler is removed (at " + c.Pos(call.Pos()) + ") before the entry is deleted: the removal runs the object's termination hook and frees the slot while the entry still designates it"
						}
					}
				}
				c.Check(bad == "", "C16.client-remove", "bus.clientService.Remove/forget-first", rmFn.Pos(), "looked up and deleted in one exclusive critical section, the handler removed afterwards", bad)
			}
		}
	}

	// a client-side object is terminated through the closer of its handler: removing the
	// handler runs the closer, exactly once (rule shared with C17)
	if a := getEP(c, "C16.anchors"); a != nil {
		c.Doc("C17.close-owner", "a handler queue is closed only by Handler.closeWith, after its closer ran", 1)
		ruleCloseOwner(c, a, "C17.close-owner")
	}
}

type tableWrite struct {
	in    ssa.Instruction
	key   ssa.Value
	isDel bool
}

func tableWrites(fn *ssa.Function, fld *types.Var) []tableWrite {
	ups, dels := mapWrites(fn, fld)
	var out []tableWrite
	for _, u := range ups {
		out = append(out, tableWrite{u, u.Key, false})
	}
	for _, d := range dels {
		out = append(out, tableWrite{d, d.Call.Args[1], true})
	}
	return out
}

// tableOp is a write to a table as a function sees it: the write itself, or
// the call of a private helper that performs it (install(index, obj),
// forget(index)) with the helper's parameters replaced by the arguments.
type tableOp struct {
	in     ssa.Instruction // in the function asked about
	at     ssa.Instruction // the map update / delete
	key    ssa.Value       // nil when the helper's key is not one of its parameters
	val    ssa.Value       // stored value, nil when unknown or a delete
	isDel  bool
	always bool // the helper performs it on every path to its return
}

func tableOps(c *core.Ctx, fn *ssa.Function, fld *types.Var, depth int) []tableOp {
	var out []tableOp
	ups, dels := mapWrites(fn, fld)
	for _, u := range ups {
		out = append(out, tableOp{u, u, u.Key, u.Value, false, true})
	}
	for _, d := range dels {
		out = append(out, tableOp{d, d, d.Call.Args[1], nil, true, true})
	}
	if depth >= 2 {
		return out
	}
	for _, call := range core.Calls(fn) {
		h := core.StaticCallee(call)
		if _, plain := call.(*ssa.Call); !plain || h == nil || h == fn || h.Pkg != fn.Pkg || !isPrivateHelper(c, h) || len(h.Blocks) == 0 {
			continue
		}
		args := call.Common().Args
		subst := func(v ssa.Value) ssa.Value {
			if v == nil {
				return nil
			}
			w := core.Canon(v)
			if mi, ok := w.(*ssa.MakeInterface); ok {
				w = core.Canon(mi.X)
			}
			if p, ok := w.(*ssa.Parameter); ok && p.Parent() == h {
				for i, q := range h.Params {
					if q == p && i < len(args) {
						return args[i]
					}
				}
			}
			return nil
		}
		for _, op := range tableOps(c, h, fld, depth+1) {
			always := op.always
			for _, r := range core.Returns(h) {
				if !core.MustPassBefore(h, r, func(x ssa.Instruction) bool { return x == op.in }) {
					always = false
				}
			}
			out = append(out, tableOp{call.(ssa.Instruction), op.at, subst(op.key), subst(op.val), op.isDel, always})
		}
	}
	return out
}

// sameSection: no release of class between a and b (in either order).
func sameSection(fn *ssa.Function, a, b ssa.Instruction, class core.LockClass) bool {
	isUnlock := func(x ssa.Instruction) bool {
		call, ok := x.(ssa.CallInstruction)
		if !ok {
			return false
		}
		if _, isDefer := x.(*ssa.Defer); isDefer {
			return false
		}
		op, ok := core.LockOpOf(call)
		return ok && op.Class == class && (op.Kind == core.OpUnlock || op.Kind == core.OpRUnlock)
	}
	if core.ReachFrom(core.After(a), isUnlock, nil).Has(b) {
		return true
	}
	if core.ReachFrom(core.After(b), isUnlock, nil).Has(a) {
		return true
	}
	return false
}

func tablesTogether(c *core.Ctx, fn *ssa.Function, objects, boxes *types.Var, class core.LockClass) {
	const rule = "C16.tables"
	ow := tableWrites(fn, objects)
	bw := tableWrites(fn, boxes)
	report := func(ws, others []tableWrite, name, otherName string) {
		for i, w := range ws {
			key := fmt.Sprintf("%s-%s@%s#%d", name, map[bool]string{true: "delete", false: "store"}[w.isDel], core.FuncKey(fn), i+1)
			found := false
			for _, o := range others {
				if o.isDel == w.isDel && core.SameValue(o.key, w.key) && sameSection(fn, w.in, o.in, class) {
					found = true
				}
			}
			verb := "stored into"
			if w.isDel {
				verb = "deleted from"
			}
			c.Check(found, rule, key, w.in.Pos(), "paired with the same operation on "+otherName+" under the same key in the same critical section",
				fmt.Sprintf("an entry is %s %s without the same key being %s %s in the same critical section: the two tables disagree (a removed object keeps receiving messages, or an added object is unreachable)", verb, name, verb, otherName))
		}
	}
	report(ow, bw, "objects", "boxes")
	report(bw, ow, "boxes", "objects")
}

func ruleRemove(c *core.Ctx, lc *core.LockCache, objects *types.Var, class core.LockClass) {
	const rule = "C16.remove"
	fn := c.Func("bus", "serviceImpl", "Remove")
	if fn == nil {
		c.Undecided(rule, "bus.serviceImpl.Remove", token.NoPos, "anchor not found")
		return
	}
	idp := ssa.Value(fn.Params[1])
	// the critical section (lookup + delete) is in Remove itself, or in a helper that
	// is handed the id and returns the object found: obj, ok := s.detach(id)
	secFn, secID := fn, idp
	var lk *ssa.Lookup
	for _, l := range mapLookups(fn, objects) {
		if l.CommaOk && core.Canon(l.Index) == idp {
			lk = l
		}
	}
	var lh *lookupHelper
	if lk == nil {
		if lh = findLookupHelper(c, fn, objects); lh != nil && lh.vi >= 0 && lh.keyArg() != nil && core.Canon(lh.keyArg()) == idp {
			lk, secFn, secID = lh.lk, lh.h, core.Canon(lh.lk.Index)
		} else {
			lh = nil
		}
	}
	if lk == nil {
		c.Fail(rule, "bus.serviceImpl.Remove/lookup", fn.Pos(), "Remove does not look the object up by the id it was given")
		return
	}
	// how Remove sees the outcome of the lookup
	isOK := okOf(lk)
	isVal := func(v ssa.Value) bool { return valueOfLookup(lk, v) }
	if lh != nil {
		isOK, isVal = lh.isOK, lh.isVal
	}
	held, _ := lc.Get(secFn).HeldAt(lk, class, true)
	c.Check(held, rule, "bus.serviceImpl.Remove/lookup", lk.Pos(), "lookup under the exclusive lock", "the object is looked up without the exclusive lock: two concurrent Remove calls both find it and terminate it twice")
	var del ssa.Instruction
	for _, d := range tableOps(c, secFn, objects, 0) {
		if d.isDel && d.always && d.key != nil && core.Canon(d.key) == secID && core.Guarded(secFn, d.in, core.IsTrue(okOf(lk))) && sameSection(secFn, lk, d.in, class) {
			del = d.in
		}
	}
	c.Check(del != nil, rule, "bus.serviceImpl.Remove/delete", fn.Pos(), "delete(objects, id) on the found edge, in the lookup's critical section",
		"the entry found is not deleted within the critical section of the lookup: a second Remove (or a Terminate racing with it) runs the termination hook again")
	// in Remove, "after the delete" is after the delete itself, or after the helper call that performs it
	var delPoint ssa.Instruction
	if del != nil {
		delPoint = del
		if lh != nil {
			delPoint = lh.call
		}
	}
	lf := lc.Get(fn)
	// OnTerminate exactly once, on the looked-up object, after the delete, outside the lock
	var terms []ssa.CallInstruction
	for _, call := range core.Calls(fn) {
		cc := call.Common()
		if cc.IsInvoke() && cc.Method.Name() == "OnTerminate" {
			terms = append(terms, call)
		}
	}
	if len(terms) == 0 {
		c.Fail(rule, "bus.serviceImpl.Remove/hook", fn.Pos(), "Remove never runs the object's termination hook")
	}
	for i, t := range terms {
		key := fmt.Sprintf("bus.serviceImpl.Remove/hook#%d", i+1)
		in := t.(ssa.Instruction)
		bad := ""
		switch {
		case !isVal(t.Common().Value):
			bad = "OnTerminate is invoked on something else than the object found under the id"
		case !core.Guarded(fn, in, core.IsTrue(isOK)):
			bad = "OnTerminate can run although no object was found"
		case delPoint != nil && !core.Dominates(delPoint, in):
			bad = "OnTerminate runs before the entry is deleted: a concurrent Remove finds it again and terminates it twice"
		case core.CanReach(in, func(x ssa.Instruction) bool {
			k, ok := x.(ssa.CallInstruction)
			return ok && k.Common().IsInvoke() && k.Common().Method.Name() == "OnTerminate"
		}) != nil:
			bad = "the termination hook can run twice in one Remove"
		}
		if bad == "" {
			if m := lf.MayHeld(in); m[class] {
				bad = "OnTerminate runs with the service lock held (hooks call back into the service: deadlock)"
			}
		}
		if _, plain := t.(*ssa.Call); !plain && bad == "" {
			bad = "the termination hook is not a plain call (deferred or asynchronous): Remove returns before the object is terminated"
		}
		c.Check(bad == "", rule, key, t.Pos(), "once, on the found object, after the delete, outside the lock", bad)
	}
	// success returns pass the hook; failure (not found) is an error
	okRet := true
	for _, ret := range core.Returns(fn) {
		if successReturn(ret) {
			if !core.Guarded(fn, ret, core.IsTrue(isOK)) {
				okRet = false
			}
			for _, t := range terms {
				if !core.MustPassBefore(fn, ret, func(x ssa.Instruction) bool { return x == t.(ssa.Instruction) }) {
					okRet = false
				}
			}
		}
	}
	c.Check(okRet, rule, "bus.serviceImpl.Remove/result", fn.Pos(), "nil only after a found object was terminated", "Remove reports success without having found and terminated the object")
}

func ruleUniqueID(c *core.Ctx, objects *types.Var) {
	const rule = "C16.unique-id"
	fn := c.Func("bus", "serviceImpl", "Add")
	if fn == nil {
		c.Undecided(rule, "bus.serviceImpl.Add", token.NoPos, "anchor not found")
		return
	}
	unit := unitOf(c, fn)
	var lookups []*ssa.Lookup
	var stores []*ssa.MapUpdate
	for _, f := range unit {
		for _, lk := range mapLookups(f, objects) {
			if lk.CommaOk {
				lookups = append(lookups, lk)
			}
		}
		ups, _ := mapWrites(f, objects)
		stores = append(stores, ups...)
	}
	if len(lookups) == 0 || len(stores) == 0 {
		c.Fail(rule, "bus.serviceImpl.Add", fn.Pos(), "Add does not check that the identifier is free before using it")
		return
	}
	// the first store of an identifier (the placeholder, or the object itself) is behind a
	// failed lookup of that very identifier; later stores under the same key (the object
	// replacing its placeholder) re-use the key that was reserved
	bad := ""
	reserved := map[ssa.Value]bool{}
	// storeOK: the store seen in f at instruction at (the map update, or the call of
	// the private helper that performs it) under key is behind a failed lookup of key
	// predGuards: the false answers of predicate helpers of the unit that look their parameter
	// up (for s.inUse(index) { index = … }), for the calls that were handed this key
	predGuards := func(f *ssa.Function, key ssa.Value) []core.EdgeMatcher {
		var ms []core.EdgeMatcher
		for _, call := range core.Calls(f) {
			cv, isCall := call.(*ssa.Call)
			h := core.StaticCallee(call)
			if !isCall || h == nil || h == f || !isPrivateHelper(c, h) || len(h.Blocks) == 0 || h.Signature.Results().Len() != 1 {
				continue
			}
			for _, lk := range mapLookups(h, objects) {
				if !lk.CommaOk {
					continue
				}
				pj := -1
				for j, hp := range h.Params {
					if core.Canon(lk.Index) == ssa.Value(hp) {
						pj = j
					}
				}
				if pj < 0 || pj >= len(cv.Call.Args) || !core.SameValue(cv.Call.Args[pj], key) {
					continue
				}
				answersLookup := true
				for _, r := range core.Returns(h) {
					if !okOf(lk)(core.RetVal(r, 0)) {
						answersLookup = false
					}
				}
				if answersLookup {
					the := cv
					ms = append(ms, core.IsFalse(func(v ssa.Value) bool { return core.Canon(v) == ssa.Value(the) }))
				}
			}
		}
		return ms
	}
	// returnsFreeID: a private helper every return of which hands back an identifier that
	// the helper looked up and found free, or that it got from another such helper
	// (reserveObjectID returning what freeObjectID chose)
	var returnsFreeID func(h *ssa.Function, depth int) bool
	returnsFreeID = func(h *ssa.Function, depth int) bool {
		if h == nil || depth > 3 || !isPrivateHelper(c, h) || len(h.Blocks) == 0 {
			return false
		}
		nret := 0
		for _, r := range core.Returns(h) {
			if len(r.Results) == 0 {
				return false
			}
			nret++
			v := core.RetVal(r, 0)
			okRet := false
			for _, lk := range mapLookups(h, objects) {
				if lk.CommaOk && core.SameValue(lk.Index, v) && core.Guarded(h, r, core.IsFalse(okOf(lk))) {
					okRet = true
				}
			}
			if pg := predGuards(h, v); len(pg) > 0 && core.Guarded(h, r, core.AnyOf(pg...)) {
				okRet = true
			}
			if !okRet {
				if cr2, _ := core.CallResult(core.Canon(v)); cr2 != nil {
					if g := cr2.Call.StaticCallee(); g != h && returnsFreeID(g, depth+1) {
						okRet = true
					}
				}
			}
			if !okRet {
				return false
			}
		}
		return nret > 0
	}
	var storeOK func(f *ssa.Function, at ssa.Instruction, key ssa.Value, depth int) bool
	storeOK = func(f *ssa.Function, at ssa.Instruction, key ssa.Value, depth int) bool {
		var ms []core.EdgeMatcher
		for _, lk := range lookups {
			if core.SameValue(lk.Index, key) || (lk.Parent() != f && sameParamPosition(lk.Index, key)) {
				ms = append(ms, core.IsFalse(okOf(lk)))
			}
		}
		ms = append(ms, predGuards(f, key)...)
		if len(ms) > 0 && guardedUp(c, f, at, core.AnyOf(ms...)) {
			reserved[core.Canon(key)] = true
			return true
		}
		// a key chosen by a helper that only returns identifiers it looked up and found
		// free (index = s.pickIndex(), index = s.reserve())
		k := core.Canon(key)
		if cr, _ := core.CallResult(k); cr != nil {
			if h := cr.Call.StaticCallee(); h != nil && returnsFreeID(h, 0) {
				reserved[k] = true
				return true
			}
		}
		if reserved[k] {
			return true
		}
		for r := range reserved {
			if core.SameValue(r, key) {
				return true
			}
		}
		// the key as each caller sees it when the store sits in a private helper
		// (reserve(index), settle(index, obj, err), install(index, obj))
		if p, isParam := k.(*ssa.Parameter); isParam && p.Parent() == f && isPrivateHelper(c, f) && depth < 3 {
			all, _ := c.CallSites()
			idx := -1
			for i, q := range f.Params {
				if q == p {
					idx = i
				}
			}
			n := 0
			for _, cs := range all[f] {
				if c.IsTestFile(cs.Parent()) {
					continue
				}
				n++
				if idx < 0 || idx >= len(cs.Common().Args) || !storeOK(cs.Parent(), cs.(ssa.Instruction), cs.Common().Args[idx], depth+1) {
					return false
				}
			}
			return n > 0
		}
		return false
	}
	// stores behind their own failed lookup first: they reserve the key for the others
	for pass := 0; pass < 2; pass++ {
		bad = ""
		for _, up := range stores {
			if !storeOK(up.Parent(), up, up.Key, 0) {
				bad = "Add can store an object under an identifier that was not looked up and found free (at " + c.Pos(up.Pos()) + "): an identifier in use — 0, once the object 1 has been removed — is handed out again, the previous object is silently replaced and never terminated"
			}
		}
	}
	c.Check(bad == "", rule, "bus.serviceImpl.Add/store", stores[0].Pos(), "an id is stored only after a lookup of that id failed", bad)
}

func ruleSubscribersTold(c *core.Ctx) {
	const rule = "C16.subscribers"
	fn := c.Func("bus", "signalHandler", "OnTerminate")
	sigF := fld(c, "bus", "signalHandler", "signals")
	sendT := c.Func("bus", "signalHandler", "sendTerminate")
	if fn == nil || sigF == nil || sendT == nil {
		c.Undecided(rule, "bus.signalHandler.OnTerminate", token.NoPos, "anchor not found")
		return
	}
	// the list is emptied
	emptied := false
	var accs []fieldAccess
	for _, f := range unitOf(c, fn) {
		// OnTerminate itself, or a private helper it calls (detachAll)
		accs = append(accs, fieldAccesses(f, sigF)...)
	}
	for _, acc := range accs {
		if st, ok := acc.instr.(*ssa.Store); ok && acc.write {
			switch x := core.Canon(st.Val).(type) {
			case *ssa.Slice:
				// only a slice of a fresh array is a new, empty list; re-slicing the
				// old list (signals[:0]) shares its backing array with the snapshot
				// being walked
				if _, fresh := x.X.(*ssa.Alloc); fresh {
					emptied = true
				}
			case *ssa.Const:
				if x.Value == nil {
					emptied = true
				}
			case *ssa.MakeSlice:
				emptied = true
			}
		}
	}
	c.Check(emptied, rule, "bus.signalHandler.OnTerminate/clear", fn.Pos(), "the subscriber list is replaced by a fresh empty one", "OnTerminate does not replace the subscriber list by a fresh empty list (it keeps the subscribers, or re-slices the old list so that the snapshot it walks shares its backing array with new registrations): remaining subscribers are not all told")
	var st, rm ssa.Instruction
	for _, call := range core.Calls(fn) {
		if core.IsCallTo(call, sendT) {
			st = call.(ssa.Instruction)
		}
		if _, isRm := epCall(c, call, "RemoveHandler"); isRm {
			rm = call.(ssa.Instruction)
		}
	}
	// both calls are inside the loop over the former list: each reaches itself again
	inLoop := func(in ssa.Instruction) bool {
		return in != nil && core.CanReach(in, func(x ssa.Instruction) bool { return x == in }) != nil
	}
	c.Check(inLoop(st) && inLoop(rm), rule, "bus.signalHandler.OnTerminate/tell", fn.Pos(), "every former subscriber gets the termination error and loses its disconnect handler",
		"OnTerminate does not tell every remaining subscriber (sendTerminate / RemoveHandler not executed per subscriber)")
	// … whatever happens to the others: the loop is not left before the last subscriber
	if st != nil && inLoop(st) {
		out := leavesLoopEarly(st)
		why := ""
		if out != nil {
			why = "the loop over the former subscribers can be left early (to " + c.Pos(out.Pos()) + ") after a subscriber was told: when telling one of them fails, the subscribers after it never learn that the object is gone"
		}
		c.Check(out == nil, rule, "bus.signalHandler.OnTerminate/all", st.Pos(), "the loop over the former subscribers has no early exit", why)
	}
}

// ruleClientIDs: clientService.nextID is only ever incremented by a positive
// constant (an id handed out is never handed out again).
func ruleClientIDs(c *core.Ctx, lc *core.LockCache) {
	const rule = "C16.client-ids"
	idF := clientServiceNextID(c)
	if idF == nil {
		c.Undecided(rule, "bus.clientService.nextID", token.NoPos, "anchor not found")
		return
	}
	n := 0
	for _, fn := range srcFuncsOfPkg(c, "bus") {
		for i, acc := range fieldAccesses(fn, idF) {
			if !acc.write || acc.fresh {
				continue
			}
			n++
			st, ok := acc.instr.(*ssa.Store)
			c.Check(ok && incOfField(st.Val, idF), rule, fmt.Sprintf("nextID-store@%s#%d", core.FuncKey(fn), i), core.InstrPos(acc.instr),
				"nextID = nextID + positive constant", "the object id counter is assigned something other than itself plus a positive constant (rolled back or reset): an identifier still in use can be handed out again")
		}
	}
	if n == 0 {
		c.Fail(rule, "nextID-store", idF.Pos(), "the object id counter is never advanced")
	}
}

// ruleMailboxNeverClosed: serviceImpl.Receive looks the mailbox up under the
// read lock, releases it and then sends; closing a mailbox anywhere makes that
// send panic (send on closed channel) and takes the server down.
func ruleMailboxNeverClosed(c *core.Ctx) {
	const rule = "C16.mailbox"
	n := 0
	for _, fn := range c.RepoFuncs("bus") {
		if c.IsTestFile(fn) {
			continue
		}
		for _, b := range fn.Blocks {
			for _, in := range b.Instrs {
				ch := isCloseBuiltin(in)
				if ch == nil {
					continue
				}
				if core.TypeIs(ch.Type(), "bus", "MailBox") || isFieldOf(ch, fld(c, "bus", "serviceImpl", "boxes")) {
					n++
					c.Fail(rule, "close(MailBox)@"+core.FuncKey(fn), in.Pos(), "a mailbox is closed while connection goroutines may be about to send to it (Receive sends after releasing the lock): send on closed channel panics the server")
				}
			}
		}
	}
	if n == 0 {
		c.Pass(rule, "close(MailBox)", token.NoPos, "no mailbox is ever closed")
	}
}

// ruleTerminateDetaches: serviceImpl.Terminate runs every object's hook once
// for good: the table it walks was taken out of the service (the field given
// a fresh map) in one exclusive critical section, so that no later Remove finds
// the objects again, and the hooks run with no service lock held.
func ruleTerminateDetaches(c *core.Ctx, lc *core.LockCache, objects, boxes *types.Var, class core.LockClass) {
	const rule = "C16.terminate"
	fn := c.Func("bus", "serviceImpl", "Terminate")
	if fn == nil {
		c.Undecided(rule, "bus.serviceImpl.Terminate", token.NoPos, "anchor not found")
		return
	}
	lf := lc.Get(fn)
	var hooks []ssa.CallInstruction
	for _, call := range core.Calls(fn) {
		cc := call.Common()
		if cc.IsInvoke() && cc.Method.Name() == "OnTerminate" {
			hooks = append(hooks, call)
		}
	}
	if len(hooks) == 0 {
		c.Fail(rule, "bus.serviceImpl.Terminate/hooks", fn.Pos(), "Terminate never runs the termination hook of the objects")
		return
	}
	// fresh maps given to the fields under the exclusive lock, by Terminate itself
	// or by a private helper it calls (detachAll) that returns the table taken out
	freshStoreIn := func(df *ssa.Function, fld *types.Var) *ssa.Store {
		dlf := lc.Get(df)
		for _, acc := range fieldAccesses(df, fld) {
			st, ok := acc.instr.(*ssa.Store)
			if !ok || !acc.write {
				continue
			}
			if _, isMake := core.Canon(st.Val).(*ssa.MakeMap); !isMake {
				if !core.IsNilConst(core.Canon(st.Val)) {
					continue
				}
			}
			if held, _ := dlf.HeldAt(st, class, true); held {
				return st
			}
		}
		return nil
	}
	dfn := fn
	var so, sb *ssa.Store
	for _, df := range unitOf(c, fn) {
		if o, b := freshStoreIn(df, objects), freshStoreIn(df, boxes); o != nil && b != nil {
			dfn, so, sb = df, o, b
			break
		}
	}
	// walkedTable: the table the hooks are run on is the one loaded from the field
	// in the critical section that replaces it
	walkedTable := func() bool {
		dlf := lc.Get(dfn)
		for _, acc := range fieldAccesses(dfn, objects) {
			ld, ok := acc.instr.(*ssa.UnOp)
			if !ok || acc.write {
				continue
			}
			if held, _ := dlf.HeldAt(ld, class, true); !(held && sameSection(dfn, ld, so, class) && core.CanReach(ld, func(x ssa.Instruction) bool { return x == ssa.Instruction(so) }) != nil) {
				continue
			}
			if dfn == fn {
				for _, u := range allUses(ld) {
					if _, isRange := u.(*ssa.Range); isRange {
						return true
					}
				}
				continue
			}
			// the helper returns it, and Terminate walks what the helper returned
			returned := false
			for _, r := range core.Returns(dfn) {
				for i := range r.Results {
					if core.Canon(core.RetVal(r, i)) == ssa.Value(ld) {
						returned = true
					}
				}
			}
			if !returned {
				continue
			}
			for _, call := range core.Calls(fn) {
				cv, ok := call.(*ssa.Call)
				if !ok || core.StaticCallee(call) != dfn {
					continue
				}
				vals := []ssa.Value{cv}
				for _, u := range core.Referrers(cv) {
					if ex, ok := u.(*ssa.Extract); ok {
						vals = append(vals, ex)
					}
				}
				for _, v := range vals {
					for _, u := range allUses(v) {
						if _, isRange := u.(*ssa.Range); isRange {
							return true
						}
					}
				}
			}
		}
		return false
	}
	for i, h := range hooks {
		key := fmt.Sprintf("bus.serviceImpl.Terminate/hook#%d", i+1)
		in := h.(ssa.Instruction)
		bad := ""
		switch {
		case lf.MayHeld(in)[class]:
			bad = "the termination hooks run with the service lock held: a hook that calls back into the service (Remove, Add) deadlocks"
		case so == nil || sb == nil:
			bad = "Terminate runs the hooks of objects that stay registered (the object and mailbox tables are not replaced under the exclusive lock): a later Remove, or the object terminating itself, runs the hook a second time, and messages are still delivered to terminated objects"
		default:
			walked := walkedTable()
			if !walked {
				bad = "the hooks are not run on the table that was taken out of the service under the lock"
			}
		}
		c.Check(bad == "", rule, key, h.Pos(), "objects detached under the exclusive lock, hooks run afterwards with no lock held", bad)
	}
	c.Check(so != nil && sb != nil, rule, "bus.serviceImpl.Terminate/detach", fn.Pos(), "objects and boxes are replaced by empty tables in an exclusive critical section",
		"Terminate leaves the objects (or their mailboxes) registered")
}

// sameParamPosition: a and b are the same parameter of their functions by
// position (a lookup in a helper, the store in another helper, both handed the
// caller's index).
func sameParamPosition(a, b ssa.Value) bool {
	pa, ok1 := core.Canon(a).(*ssa.Parameter)
	pb, ok2 := core.Canon(b).(*ssa.Parameter)
	if !ok1 || !ok2 {
		return false
	}
	return pa.Name() == pb.Name() && types.Identical(pa.Type(), pb.Type())
}

// ruleActivationErrorKept: serviceImpl.Add hands the object its activation and
// installs it only if the activation succeeded, and tells its caller when it
// did not: the error of obj.Activate reaches a non-nil error return on every
// path on which it is set, and the object is stored in the table only where
// that error is nil.  (A refused object that is installed is callable although
// it never became active, and is terminated later as if it had.)
func ruleActivationErrorKept(c *core.Ctx, rule string, objects *types.Var) {
	fn := c.Func("bus", "serviceImpl", "Add")
	if fn == nil {
		c.Undecided(rule, "bus.serviceImpl.Add", token.NoPos, "anchor not found")
		return
	}
	var act *ssa.Call
	for _, call := range core.Calls(fn) {
		cc := call.Common()
		if cc.IsInvoke() && cc.Method.Name() == "Activate" {
			if cv, ok := call.(*ssa.Call); ok {
				act = cv
			}
		}
	}
	if act == nil {
		c.Undecided(rule, "bus.serviceImpl.Add/activate", fn.Pos(), "no call of Activate found in Add")
		return
	}
	ei := hasErrorResult(fn.Signature)
	bad := errorPropagates(c, fn, act, act, ei, "Activate")
	c.Check(bad == "", rule, "bus.serviceImpl.Add/activation-error", act.Pos(), "a refused activation reaches the caller as an error", bad)
	// the object itself is installed only where the activation succeeded
	isErr := func(v ssa.Value) bool { return core.Canon(v) == ssa.Value(act) }
	obj := fn.Params[1]
	bad = ""
	for _, f := range unitOf(c, fn) {
		ups, _ := mapWrites(f, objects)
		for _, up := range ups {
			v := core.Canon(up.Value)
			if mi, ok := v.(*ssa.MakeInterface); ok {
				v = core.Canon(mi.X)
			}
			stored := v == ssa.Value(obj)
			ok := false
			if p, isParam := v.(*ssa.Parameter); isParam && f != fn {
				// a helper handed the object (settle(index, obj, err), install(index, obj)): at
				// every call that passes the object, the call itself is made only where the
				// activation succeeded, or the helper stores only where the error it is handed
				// (Activate's) is nil
				all, _ := c.CallSites()
				ok = true
				for _, cs := range all[f] {
					passes := false
					for i, q := range f.Params {
						if q == p && i < len(cs.Common().Args) && core.Canon(cs.Common().Args[i]) == ssa.Value(obj) {
							passes = true
						}
					}
					if !passes {
						continue
					}
					stored = true
					siteOK := cs.Parent() == fn && core.Guarded(fn, cs.(ssa.Instruction), core.Eq(isErr, core.IsNilConst))
					for _, q := range f.Params {
						if siteOK || !core.IsErrorType(q.Type()) {
							continue
						}
						qq := q
						isP := func(v ssa.Value) bool { return core.Canon(v) == ssa.Value(qq) }
						if !core.Guarded(f, up, core.Eq(isP, core.IsNilConst)) {
							continue
						}
						for i, q2 := range f.Params {
							if q2 == qq && i < len(cs.Common().Args) && flowsFrom(cs.Common().Args[i], act, 0) {
								siteOK = true
							}
						}
					}
					if !siteOK {
						ok = false
					}
				}
			}
			if !stored {
				continue
			}
			if f == fn {
				ok = core.Guarded(fn, up, core.Eq(isErr, core.IsNilConst))
			}
			if !ok {
				bad = "the object is stored in the table (at " + c.Pos(up.Pos()) + ") on a path where its activation may have failed: a refused object becomes callable, and is terminated later although it was never active"
			}
		}
	}
	c.Check(bad == "", rule, "bus.serviceImpl.Add/installed-when-active", act.Pos(), "the object is installed only where Activate returned nil", bad)
}
