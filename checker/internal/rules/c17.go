package rules

import (
	"qicheck/internal/core"
)

func init() {
	register(&Property{
		ID:    "C17",
		Title: "Each connection handler is closed exactly once, whatever races with it",
		Explanation: "Static discharge of seven ownership/typestate invariants on bus/net/endpoint.go that together imply at-most-once close after the callback, for every interleaving because each holds on every path and every access is under one mutex: " +
			"(1) close(h.consumer) appears only in Handler.closeWith, after the closer call, exactly once; " +
			"(2) Handler.closeWith is only called on the content of a non-nil slot read under handlersMutex and the slot is set to nil before the mutex is released; " +
			"(3) endPoint.handlers is read/written only under handlersMutex; slots are filled only by MakeHandler with the Handler it allocated, into a nil slot or by append; RemoveHandler reports success only for a valid non-nil slot; " +
			"(4) the only send on a handler queue is the non-blocking one in dispatch, under the mutex, on a non-nil slot; " +
			"(5) each MakeHandler site passes a queue made by the registering function, given to no other handler, never closed or written by it; " +
			"(6) lock pairing in bus/net; " +
			"(7) closers/filters, which run under handlersMutex, do not reach a re-acquisition of it (call graph) and cannot block. " +
			"Not decided: exactly-once for handlers registered while shutdown runs; deadlock freedom in general.",
		Assumptions: []string{"channel and sync.Mutex semantics", "call graph: CHA over go/ssa (over-approximate), `go` edges excluded for the re-entrancy rule", "user-supplied callbacks (parameters of exported API) obey the documented contract"},
		Run:         runC17,
	})
}

func runC17(c *core.Ctx) {
	a := getEP(c, "C17.anchors")
	if a == nil {
		return
	}
	lc := core.NewLockCache()
	el := newEntryLocks(c, lc)

	c.Doc("C17.close-owner", "close(h.consumer) only in Handler.closeWith, after the closer, exactly once", 1)
	ruleCloseOwner(c, a, "C17.close-owner")

	c.Doc("C17.close-callers", "Handler.closeWith only on a non-nil slot under handlersMutex, slot cleared before release", 3)
	ruleCloseWithCallers(c, a, lc, "C17.close-callers")

	c.Doc("C17.table", "slots filled only by MakeHandler (fresh handler, nil slot); RemoveHandler succeeds only for a live slot", 2)
	ruleSlotFill(c, a, lc, "C17.table")

	c.Doc("C17.guarded-by", "endPoint.handlers only touched under handlersMutex", 10)
	guardedBy(c, lc, el, "C17.guarded-by", guardedField{Rel: "bus/net", Struct: "endPoint", Field: "handlers", Mutex: "handlersMutex",
		Reason: "the handler table is shared by the read loop, callers registering/removing handlers and shutdown"})

	c.Doc("C17.send-owner", "the only send on a handler queue is dispatch's non-blocking one, under the mutex, on a non-nil slot matched by its own filter", 1)
	ruleSendOwner(c, a, lc, "C17.send-owner")

	c.Doc("C17.queue-owner", "every MakeHandler gets a private queue made by the registering function", 8)
	ruleQueueOwnership(c, a, "C17.queue-owner")

	c.Doc("C17.pairing", "mutex operations balanced on every path (bus/net)", 2)
	lockPairing(c, lc, "C17.pairing", srcFuncsOfPkg(c, "bus/net"))

	c.Doc("C17.callbacks", "closers and filters (run under handlersMutex) do not re-enter it and cannot block", 10)
	ruleCallbacks(c, a, lc, "C17.callbacks")

	// shutdown must not deadlock against a dispatch blocked on the stream (shared with C11)
	c.Doc("C11.shutdown", "shutdown closes the stream before taking the handler mutex and closes every handler", 4)
	ruleShutdown(c, a)
}
