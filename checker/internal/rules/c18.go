package rules

import (
	"fmt"
	"go/ast"
	"go/token"
	"go/types"
	"strings"

	"golang.org/x/tools/go/ssa"

	"qicheck/internal/core"
)

func init() {
	register(&Property{
		ID:    "C18",
		Title: "MetaObject -> IDL -> MetaObject is the identity; the IDL parser is total",
		Explanation: "Static discharge of structural necessary conditions of C18: " +
			"(type-names) every IDL type name a signature constructor can print (signatureIDL) is an Atom of the IDL grammar's basicType() with a nodifyBasicType case calling that same constructor; the tokens of the composite SignatureIDL() printers (Vec< >, Map< , >, Tuple< , >) are the Atoms of vecType / mapType / tupleType; " +
			"(lines) the literal keywords and punctuation of the Fprintf formats of meta/idl/idl.go (package, interface, fn, sig, prop, struct, end, ->, :, //uid:) are Atoms of the parser, and the uid is read back as an unsigned 32-bit number with the pattern it is printed with; " +
			"(registration) every composite type's RegisterTo registers each of its component types (a struct reachable only through one component would otherwise be printed by name but never declared); " +
			"(total) node builders assert unchecked only to scanner terminals. " +
			"Known finding: void prints as 'nothing', which the IDL grammar does not know. " +
			"Declared names (struct, field, action) are printed as stored, not through a function. " +
			"Not decided: identity on all meta-objects; totality of the parser on arbitrary text (its callbacks depend on goparsec's runtime node shapes).",
		Assumptions: []string{"goparsec combinators behave as documented"},
		Run:         runC18,
	})
}

func runC18(c *core.Ctx) {
	ip := c.Pkg("meta/idl")
	sp := c.Pkg("meta/signature")
	if ip == nil || sp == nil {
		c.Undecided("C18.type-names", "meta/idl", token.NoPos, "package not loaded")
		return
	}
	info := ip.TypesInfo

	// ------------------------------------------------------------ type names
	c.Doc("C18.type-names", "IDL names printed = IDL names parsed (same constructor); composite tokens agree", 18)
	prods := productionsOf(ip)
	var basic *production
	for i := range prods {
		if prods[i].Kind == "OrdChoice" && prods[i].AllAtom && len(prods[i].Atoms) >= 2 {
			basic = &prods[i]
		}
	}
	if basic == nil || funcDeclOf(ip, basic.Builder) == nil {
		c.Undecided("C18.type-names", "meta/idl.basicType", token.NoPos, "the production of the basic type names (an ordered choice of atoms with a node builder) was not found")
	} else {
		nb := funcDeclOf(ip, basic.Builder)
		atoms := map[string]bool{}
		for _, a := range basic.Atoms {
			atoms[a] = true
		}
		cases := map[string]string{}
		for _, e := range dispatchTable(ip, nb) {
			if e.Target != nil {
				cases[e.Key] = e.Target.Name()
			} else {
				cases[e.Key] = ""
			}
		}
		for _, r := range ctorTable(c) {
			if r.IDL == "" || r.Func == "NewMetaObjectType" {
				continue
			}
			key := "meta/signature." + r.Func + "/idl:" + r.IDL
			switch {
			case !atoms[r.IDL]:
				c.Fail("C18.type-names", key, r.Pos, fmt.Sprintf("signature '%s' prints as IDL type %q, which is not a type name of the IDL grammar: the generated IDL does not parse back to the same signature", r.Signature, r.IDL))
			case cases[r.IDL] != r.Func:
				c.Fail("C18.type-names", key, r.Pos, fmt.Sprintf("IDL type %q is parsed into %s but printed by %s: the signature changes on the way back", r.IDL, cases[r.IDL], r.Func))
			default:
				c.Pass("C18.type-names", key, r.Pos, fmt.Sprintf("%q <-> %s", r.IDL, r.Func))
			}
		}
		for a := range atoms {
			if _, ok := cases[a]; !ok {
				c.Fail("C18.type-names", "atom:"+a, basic.Pos, fmt.Sprintf("the IDL grammar accepts type name %q but %s has no row for it", a, nb.Name.Name))
			}
		}
	}
	built := map[string][]production{}
	for _, pr := range prods {
		if pr.Kind != "And" {
			continue
		}
		for _, tn := range keysOf(concreteReturned(c.Prog.FuncValue(pr.Builder), 0)) {
			built[tn] = append(built[tn], pr)
		}
	}
	for _, typ := range []string{"ListType", "MapType", "TupleType"} {
		pf := funcDecl(sp, typ, "SignatureIDL")
		key := "meta/signature." + typ + ".SignatureIDL"
		if pf == nil || len(built[typ]) != 1 {
			c.Undecided("C18.type-names", key, token.NoPos, fmt.Sprintf("printer not found, or %d IDL productions build a %s (expected one)", len(built[typ]), typ))
			continue
		}
		want := glue(built[typ][0].Atoms)
		got := ""
		var sep []string
		for _, l := range stringLitsIn(sp.TypesInfo, pf.Body) {
			if strings.Contains(l, "%") {
				got = glue(formatLiterals(l))
			} else if strings.TrimSpace(l) != "" {
				sep = append(sep, l)
			}
		}
		// the name written by concatenation ("Tuple<" + strings.Join(parts, ",") + ">") instead of
		// a format: the literals in source order are the rendering
		if got == "" && len(sep) > 0 {
			got = glue(sep)
		}
		// a separator emitted by a loop (Tuple: ",") must be a grammar atom
		okSep := true
		for _, s := range sep {
			if !strings.Contains(want, s) {
				okSep = false
			}
		}
		ok := got != "" && okSep && (got == want || strings.ReplaceAll(want, ",", "") == strings.ReplaceAll(got, ",", ""))
		c.Check(ok, "C18.type-names", key, pf.Pos(), "prints "+got+" / grammar "+want, fmt.Sprintf("%s prints tokens %q but the IDL production built by %s expects %q", typ, got, built[typ][0].Builder.Name(), want))
	}

	ruleCompositeElementParsers(c, ip, "C18.type-names")

	// ------------------------------------------------------------ lines
	c.Doc("C18.recursion", "a type reference hands a question on to the type it designates only while marked as being visited, and refuses to resolve while marked (a recursive struct is an error, not a stack overflow)", 4)
	ruleReferenceRecursionGuard(c, "C18.recursion")
	c.Doc("C18.stateless", "the IDL parser keeps nothing between two parses: its entry points use no package-level variable that changes after initialisation", 1)
	ruleParserKeepsNoState(c, "C18.stateless", "meta/idl", "ParsePackage", "ParseIDL")
	c.Doc("C18.loop-variables", "no address of a loop variable shared by all iterations is kept beyond its iteration (the interfaces, methods and members of a package are printed and rebuilt in loops)", 1)
	ruleNoLoopVarAddressKept(c, "C18.loop-variables", "meta/idl", "meta/signature", "type/object")
	c.Doc("C18.lines", "keywords and punctuation of the generated lines are parser atoms; uid read back as printed", 8)
	allAtoms := map[string]bool{}
	for _, f := range ip.Syntax {
		if !strings.HasSuffix(c.Fset.Position(f.Pos()).Filename, "_test.go") {
			for _, a := range atomsOf(info, f) {
				allAtoms[a] = true
			}
		}
	}
	nfmt := 0
	for _, f := range ip.Syntax {
		if strings.HasSuffix(c.Fset.Position(f.Pos()).Filename, "_test.go") {
			continue
		}
		ast.Inspect(f, func(n ast.Node) bool {
			call, ok := n.(*ast.CallExpr)
			if !ok {
				return true
			}
			sel, ok := call.Fun.(*ast.SelectorExpr)
			if !ok || sel.Sel.Name != "Fprintf" || len(call.Args) < 2 {
				return true
			}
			format := stringLit(info, call.Args[1])
			if format == "" {
				return true
			}
			nfmt++
			key := "format:" + strings.TrimSpace(strings.ReplaceAll(strings.ReplaceAll(format, "\n", ""), "\t", ""))
			key = strings.ReplaceAll(key, " ", "_")
			bad := ""
			for _, t := range formatLiterals(format) {
				// split glued tokens such as "//uid:" and "fn"
				for _, part := range splitIDLToken(t) {
					if part == "uid:" {
						continue
					}
					if !allAtoms[part] {
						bad = fmt.Sprintf("the generated line %q contains the token %q, which is not an Atom of the IDL parser", format, part)
					}
				}
			}
			c.Check(bad == "", "C18.lines", key, call.Pos(), "every literal token is a parser atom", bad)
			// the name a line declares (its first %s) is printed as stored: a name that
			// went through a function (cleaning, title-casing) does not parse back to itself
			// (interface and package names are not part of the meta-object that is compared:
			// the interface name is deliberately made unique against struct names)
			lead := strings.TrimSpace(format)
			if i := strings.Index(format, "%s"); i >= 0 && len(call.Args) >= 3 && lead != "%s" && !strings.HasPrefix(lead, "interface") && !strings.HasPrefix(lead, "package") {
				arg := call.Args[2]
				transformed := ""
				switch x := arg.(type) {
				case *ast.CallExpr:
					transformed = types.ExprString(x)
				case *ast.Ident:
					if obj := info.ObjectOf(x); obj != nil {
						ast.Inspect(f, func(m ast.Node) bool {
							as, ok := m.(*ast.AssignStmt)
							if !ok || len(as.Lhs) != len(as.Rhs) {
								return true
							}
							for k, l := range as.Lhs {
								if id, ok := l.(*ast.Ident); ok && info.ObjectOf(id) == obj {
									if ce, ok := as.Rhs[k].(*ast.CallExpr); ok {
										transformed = types.ExprString(ce)
									}
								}
							}
							return true
						})
					}
				}
				c.Check(transformed == "", "C18.lines", key+"/name", call.Pos(), "the declared name is printed as stored",
					fmt.Sprintf("the name printed by %q is computed by %s: a name that this function changes (a reserved word, a different case) is read back differently, so the struct, field or action name does not survive the round trip", format, transformed))
			}
			return true
		})
	}
	if nfmt < 5 {
		c.Undecided("C18.lines", "formats", token.NoPos, fmt.Sprintf("only %d Fprintf formats found in meta/idl/idl.go", nfmt))
	}
	ruleUIDReadBack(c)
	ruleStructNamesAsStored(c, "C18.lines")

	// ------------------------------------------------------------ registration
	c.Doc("C18.registration", "RegisterTo of composite types registers every component type; the printer registers what it printed on every successful path, and every signature it parsed", 8)
	ruleRegistrationOnEveryPath(c, "C18.registration")
	ruleParsedTypesRegistered(c, "C18.registration")
	ruleNamesComparedAsStored(c, "C18.registration")
	ruleRegisterComponents(c)

	// ------------------------------------------------------------ total
	c.Doc("C18.total", "IDL node builders assert unchecked only to scanner terminals", 1)
	// nodifyPackage asserts the package-name node to be a string: that holds as long as
	// the builder of the name part returns strings only (computed, not assumed)
	allowed := map[string]string{}
	if ok, why := returnsOnlyStrings(c, "meta/idl", "nodifyPackageNameAnd"); ok {
		allowed["meta/idl.nodifyPackage:string"] = "the package-name node comes from nodifyPackageNameAnd, every return of which is a string (checked), passed through nodifyPackageNameMaybe and nodifyPackageName, which returns an error node only for a non-string"
	} else {
		c.Note("nodifyPackage exception not granted: %s", why)
	}
	n := ruleUncheckedAssertions(c, "C18.total", "meta/idl", allowed)
	ruleIndexResultChecked(c, "C18.total", "meta/idl", "meta/signature")
	c.Doc("C18.builders", "a node builder that constructs a composite type yields it on every successful path", 3)
	ruleBuildersBuildOneKind(c, "C18.builders", "meta/idl")
	// the IDL printer and parser go through signature.Parse for every type: a Parse that
	// keeps state between calls hands out type objects that an earlier generation renamed
	c.Doc("C09.parse", "signature.Parse keeps no package state besides the grammar (rule shared with C09)", 3)
	ruleParseEntry(c)
	c.Doc("C18.ids", "an action's explicit uid is kept by the parser: an id is only assigned where none was given", 1)
	ruleExplicitIDsKept(c)
	c.Pass("C18.total", "unchecked-assertions", token.NoPos, fmt.Sprintf("%d unchecked assertions on parser nodes examined", n))
}

func splitIDLToken(t string) []string {
	// "//uid:" -> "//", "uid:" ; "fn" -> "fn"; "->" stays
	var out []string
	for t != "" {
		switch {
		case strings.HasPrefix(t, "//"):
			out = append(out, "//")
			t = t[2:]
		case strings.HasPrefix(t, "->"):
			out = append(out, "->")
			t = t[2:]
		case strings.HasPrefix(t, "uid:"):
			out = append(out, "uid:")
			t = t[4:]
		case strings.ContainsAny(t[:1], "():,"):
			out = append(out, t[:1])
			t = t[1:]
		default:
			i := 0
			for i < len(t) && !strings.ContainsAny(t[i:i+1], "():,/-") {
				i++
			}
			if i == 0 {
				i = 1
			}
			out = append(out, t[:i])
			t = t[i:]
		}
	}
	return out
}

// ruleUIDReadBack: the uid printed with "uid:%d" is parsed with the same
// prefix into an unsigned 32-bit integer.
func ruleUIDReadBack(c *core.Ctx) {
	const rule = "C18.lines"
	found := false
	bad := ""
	var pos token.Pos
	for _, fn := range srcFuncsOfPkg(c, "meta/idl") {
		for _, call := range core.Calls(fn) {
			f := core.StaticCallee(call)
			if f == nil {
				continue
			}
			switch core.FuncKey(f) {
			case "fmt.Sscanf":
				if s, ok := core.ConstString(call.Common().Args[1]); ok && strings.Contains(s, "uid:") {
					found = true
					pos = call.Pos()
					if s != "uid:%d" {
						bad = "the uid is scanned with pattern " + s + ", it is printed with uid:%d"
					}
					// destination type: *uint32 (inside the variadic slice)
					okT := false
					for _, b := range fn.Blocks {
						for _, in := range b.Instrs {
							if mi, isMI := in.(*ssa.MakeInterface); isMI {
								if pt, isP := mi.X.Type().(*types.Pointer); isP {
									if bt, isB := pt.Elem().Underlying().(*types.Basic); isB && bt.Kind() == types.Uint32 {
										okT = true
									}
								}
							}
						}
					}
					if !okT {
						bad = "the uid is not scanned into a uint32: action ids >= 2^31 do not survive"
					}
				}
			case "strconv.ParseUint":
				if k, ok := core.ConstInt(call.Common().Args[2]); ok && (k == 32 || k == 64) && strings.Contains(strings.ToLower(fn.Name()), "comment") {
					found = true
					pos = call.Pos()
				}
			case "strconv.ParseInt", "strconv.Atoi":
				if strings.Contains(strings.ToLower(fn.Name()), "comment") {
					found = true
					pos = call.Pos()
					bad = "the uid is parsed as a signed integer: action ids >= 2^31 (uint32) are lost and replaced by fallback ids"
				}
			}
		}
	}
	if !found {
		bad = "no code reads the //uid: comment back"
	}
	c.Check(bad == "", rule, "uid-read-back", pos, "uid:%d scanned into a uint32", bad)
}

// ruleRegisterComponents: X.RegisterTo(set) calls RegisterTo on every
// component of interface type signature.Type (fields, or members in a loop).
func ruleRegisterComponents(c *core.Ctx) {
	const rule = "C18.registration"
	typeIface := c.Named("meta/signature", "Type")
	for _, tn := range []string{"ListType", "MapType", "TupleType", "StructType"} {
		fn := c.Func("meta/signature", tn, "RegisterTo")
		nt := c.Named("meta/signature", tn)
		key := "meta/signature." + tn + ".RegisterTo"
		if fn == nil || nt == nil || typeIface == nil {
			c.Undecided(rule, key, token.NoPos, "anchor not found")
			continue
		}
		st, _ := nt.Underlying().(*types.Struct)
		registered := map[string]bool{}
		for _, call := range core.Calls(fn) {
			cc := call.Common()
			if cc.IsInvoke() && cc.Method.Name() == "RegisterTo" {
				p := core.AccessPath(cc.Value)
				if len(p.Fields) > 0 {
					registered[p.Fields[0].Name()] = true
				} else {
					// element of a ranged members slice
					registered["<members>"] = true
				}
			}
		}
		bad := ""
		for i := 0; st != nil && i < st.NumFields(); i++ {
			f := st.Field(i)
			if types.Identical(f.Type(), typeIface) {
				if !registered[f.Name()] {
					bad = fmt.Sprintf("%s.RegisterTo does not register its component %q: a struct type reachable only through it is referenced by name in the IDL but never declared", tn, f.Name())
				}
			}
			if sl, ok := f.Type().Underlying().(*types.Slice); ok {
				if n, ok := sl.Elem().(*types.Named); ok && n.Obj().Name() == "MemberType" {
					if !registered[f.Name()] && !registered["<members>"] && !registered["Type"] {
						bad = fmt.Sprintf("%s.RegisterTo does not register its members", tn)
					}
				}
			}
		}
		c.Check(bad == "", rule, key, fn.Pos(), "every component type is registered", bad)
	}
}

// ruleRegistrationOnEveryPath: in the IDL printer, a function that registers
// the types it has printed (X.RegisterTo(set)) does so on every path on which it
// succeeds: an early return for a "simple" case (a method returning nothing)
// that skips the registration leaves a struct that is only used there without
// its `struct … end` block, and the text does not parse back.
func ruleRegistrationOnEveryPath(c *core.Ctx, rule string) {
	n := 0
	for _, fn := range srcFuncsOfPkg(c, "meta/idl") {
		if fn.Parent() != nil || hasErrorResult(fn.Signature) < 0 {
			continue
		}
		var regs []ssa.Instruction
		for _, call := range core.Calls(fn) {
			cc := call.Common()
			if cc.IsInvoke() && cc.Method.Name() == "RegisterTo" {
				if _, plain := call.(*ssa.Call); plain && loopHeaderOf(call.(ssa.Instruction)) == nil {
					regs = append(regs, call.(ssa.Instruction))
				}
			}
		}
		if len(regs) == 0 {
			continue
		}
		for i, rg := range regs {
			n++
			key := fmt.Sprintf("%s/registers#%d", core.FuncKey(fn), i+1)
			bad := ""
			for _, ret := range core.Returns(fn) {
				if !successReturn(ret) {
					continue
				}
				if !core.MustPassBefore(fn, ret, func(x ssa.Instruction) bool { return x == rg }) {
					bad = "a successful return (at " + c.Pos(ret.Pos()) + ") is reached without this registration: the types printed on that path are referenced by name in the IDL but their struct blocks are never written, so the text does not parse back to the same signatures"
				}
			}
			c.Check(bad == "", rule, key, rg.Pos(), "every successful path registers the type", bad)
		}
	}
	if n == 0 {
		c.Undecided(rule, "meta/idl", token.NoPos, "no registration of printed types found in the IDL printer")
	}
}

// ruleParsedTypesRegistered: in the IDL printer, a function that is given the
// type set and parses a signature of the meta-object (a call yielding
// (signature.Type, error)) registers that very type in the set on every path
// on which it succeeds. The printed line names struct types; their `struct …
// end` blocks are written from the set alone, so a type that is printed but not
// registered (a struct used by a property only, when "the signal registers it")
// parses back as an unresolved reference.
func ruleParsedTypesRegistered(c *core.Ctx, rule string) {
	n := 0
	isTypeSet := func(t types.Type) bool { return core.TypeIs(t, "meta/signature", "TypeSet") }
	for _, fn := range srcFuncsOfPkg(c, "meta/idl") {
		// the function holds the type set: as a parameter, or in a small struct parameter
		// that bundles it with the writer (idlOutput{writer, set})
		holdsSet := core.ParamOfType(fn, isTypeSet) != nil
		for _, p := range fn.Params {
			if st, ok := p.Type().Underlying().(*types.Struct); ok {
				for i := 0; i < st.NumFields(); i++ {
					if isTypeSet(st.Field(i).Type()) {
						holdsSet = true
					}
				}
			}
		}
		if fn.Parent() != nil || hasErrorResult(fn.Signature) < 0 || !holdsSet {
			continue
		}
		k := 0
		for _, call := range core.Calls(fn) {
			cl, ok := call.(*ssa.Call)
			if !ok {
				continue
			}
			res, isTuple := cl.Type().(*types.Tuple)
			if !isTuple || res.Len() != 2 || !core.IsErrorType(res.At(1).Type()) || !core.TypeIs(res.At(0).Type(), "meta/signature", "Type") {
				continue
			}
			if _, isIface := res.At(0).Type().Underlying().(*types.Interface); !isIface {
				continue
			}
			k++
			n++
			key := fmt.Sprintf("%s/parsed#%d", core.FuncKey(fn), k)
			isParsed := func(v ssa.Value) bool {
				v = core.Canon(v)
				if ex, ok := v.(*ssa.Extract); ok && ex.Index == 0 && ex.Tuple == ssa.Value(cl) {
					return true
				}
				return false
			}
			// the registration: RegisterTo invoked on the parsed value, or the parsed value
			// handed to a function of the repository that registers its parameter
			var registersParam func(f *ssa.Function, idx, depth int) bool
			registersParam = func(f *ssa.Function, idx, depth int) bool {
				if f == nil || depth > 2 || idx >= len(f.Params) || len(f.Blocks) == 0 {
					return false
				}
				for _, c2 := range core.Calls(f) {
					cc := c2.Common()
					if cc.IsInvoke() && cc.Method.Name() == "RegisterTo" && core.Canon(cc.Value) == ssa.Value(f.Params[idx]) {
						return true
					}
					for j, a := range cc.Args {
						if core.Canon(a) == ssa.Value(f.Params[idx]) && !cc.IsInvoke() && registersParam(cc.StaticCallee(), j, depth+1) {
							return true
						}
					}
				}
				return false
			}
			isReg := func(x ssa.Instruction) bool {
				c2, ok := x.(ssa.CallInstruction)
				if !ok {
					return false
				}
				if _, plain := x.(*ssa.Call); !plain {
					return false
				}
				cc := c2.Common()
				if cc.IsInvoke() && cc.Method.Name() == "RegisterTo" && isParsed(cc.Value) {
					return true
				}
				if !cc.IsInvoke() {
					for j, a := range cc.Args {
						if isParsed(a) && registersParam(cc.StaticCallee(), j, 0) {
							return true
						}
					}
				}
				return false
			}
			bad := ""
			for _, ret := range core.Returns(fn) {
				if !successReturn(ret) {
					continue
				}
				if !core.MustPassBefore(fn, ret, isReg) {
					bad = "the type parsed here (" + core.CalleeName(cl) + ") is not registered in the type set on the path to the successful return at " + c.Pos(ret.Pos()) + ": the line printed for it names its struct types, but their struct blocks are written from the set alone, so a struct used only here parses back as an unresolved reference"
				}
			}
			c.Check(bad == "", rule, key, cl.Pos(), "the parsed type is registered in the set on every successful path", bad)
		}
	}
	if n == 0 {
		c.Undecided(rule, "meta/idl/parsed", token.NoPos, "no signature parsed by a function of the IDL printer that holds the type set")
	}
}

// returnsOnlyStrings: every return of rel.name yields a string (as a node).
func returnsOnlyStrings(c *core.Ctx, rel, name string) (bool, string) {
	fn := c.Func(rel, "", name)
	if fn == nil {
		return false, name + " not found"
	}
	for _, r := range core.Returns(fn) {
		if len(r.Results) != 1 {
			return false, name + " has an unexpected result list"
		}
		mi, ok := core.RetVal(r, 0).(*ssa.MakeInterface)
		if !ok {
			return false, name + " returns a node that is not built from a string (at " + c.Pos(r.Pos()) + ")"
		}
		if b, isB := mi.X.Type().Underlying().(*types.Basic); !isB || b.Info()&types.IsString == 0 {
			return false, name + " returns a " + mi.X.Type().String() + " node (at " + c.Pos(r.Pos()) + "): the unchecked assertion to string in nodifyPackage panics on it"
		}
	}
	return true, ""
}

// ruleExplicitIDsKept: in the builder of an interface's action list, the ID of
// a method, signal or property is only (re)assigned where it is zero, i.e. no
// uid was given in the text: an explicit uid survives the round trip.
func ruleExplicitIDsKept(c *core.Ctx) {
	const rule = "C18.ids"
	n := 0
	for _, fn := range srcFuncsOfPkg(c, "meta/idl") {
		if fn.Parent() != nil {
			continue
		}
		// the builder: fills the Methods / Signals / Properties maps of an InterfaceType
		fills := false
		for _, b := range fn.Blocks {
			for _, in := range b.Instrs {
				if mu, ok := in.(*ssa.MapUpdate); ok {
					p := core.AccessPath(mu.Map)
					if len(p.Fields) > 0 && (p.Fields[len(p.Fields)-1].Name() == "Methods" || p.Fields[len(p.Fields)-1].Name() == "Signals") && fieldOwner(p.Fields[len(p.Fields)-1]) == "InterfaceType" {
						fills = true
					}
				}
			}
		}
		if !fills {
			continue
		}
		for _, b := range fn.Blocks {
			for _, in := range b.Instrs {
				st, ok := in.(*ssa.Store)
				if !ok {
					continue
				}
				p := core.AccessPath(st.Addr)
				if len(p.Fields) == 0 || p.Fields[len(p.Fields)-1].Name() != "ID" {
					continue
				}
				owner := fieldOwner(p.Fields[len(p.Fields)-1])
				if owner != "Method" && owner != "Signal" && owner != "Property" {
					continue
				}
				n++
				idF := p.Fields[len(p.Fields)-1]
				root := core.RootOf(st.Addr)
				isID := func(v ssa.Value) bool { return isFieldOf(v, idF) && core.RootOf(v) == root }
				isZero := func(v ssa.Value) bool { k, ok := core.ConstInt(v); return ok && k == 0 }
				c.Check(core.Guarded(fn, st, core.Eq(isID, isZero)), rule, fmt.Sprintf("%s/%s.ID#%d", core.FuncKey(fn), owner, n), st.Pos(), "assigned only where no uid was given (ID == 0)",
					"the parser assigns an id to a "+strings.ToLower(owner)+" whose uid was given in the text (the store is not behind ID == 0): the action comes back under another id than the one it was printed with")
			}
		}
	}
	if n == 0 {
		c.Undecided(rule, "meta/idl action list builder", token.NoPos, "no assignment of an action id found")
	}
}

// ruleNamesComparedAsStored: the set of declared type names (TypeSet.Names) is
// searched by comparing the stored names themselves.  A comparison through a
// normalising function (CleanName, ToLower) takes two different declared names
// — Target and target — for one: the second is renamed behind the back of the
// lines already printed, which then refer to a name the IDL never declares.
func ruleNamesComparedAsStored(c *core.Ctx, rule string) {
	names := fld(c, "meta/signature", "TypeSet", "Names")
	if names == nil {
		c.Undecided(rule, "meta/signature.TypeSet.Names", token.NoPos, "anchor not found")
		return
	}
	n := 0
	for _, fn := range srcFuncsOfPkg(c, "meta/signature") {
		if len(fieldAccesses(fn, names)) == 0 {
			continue
		}
		fromNames := func(v ssa.Value) bool {
			for depth := 0; depth < 4; depth++ {
				v = core.Canon(v)
				if isFieldOf(v, names) {
					return true
				}
				switch x := v.(type) {
				case *ssa.UnOp:
					if ia, ok := x.X.(*ssa.IndexAddr); ok {
						v = ia.X
						continue
					}
				case *ssa.Extract:
					if nx, ok := x.Tuple.(*ssa.Next); ok {
						if r, ok := nx.Iter.(*ssa.Range); ok {
							v = r.X
							continue
						}
					}
				case *ssa.Call:
					// a function of the repository applied to a stored name
					if f := x.Call.StaticCallee(); f != nil && inRepo(f) && len(x.Call.Args) == 1 {
						v = x.Call.Args[0]
						continue
					}
				}
				return false
			}
			return false
		}
		k := 0
		for _, b := range fn.Blocks {
			for _, in := range b.Instrs {
				bo, ok := in.(*ssa.BinOp)
				if !ok || (bo.Op != token.EQL && bo.Op != token.NEQ) || !types.Identical(bo.X.Type().Underlying(), types.Typ[types.String]) {
					continue
				}
				if !fromNames(bo.X) && !fromNames(bo.Y) {
					continue
				}
				n++
				k++
				bad := ""
				for _, o := range []ssa.Value{bo.X, bo.Y} {
					if cv, isCall := core.Canon(o).(*ssa.Call); isCall {
						if f := cv.Call.StaticCallee(); f != nil {
							bad = "a declared type name is compared through " + f.Name() + "(): two different names that it maps to one (Target / target) are taken for a collision, the second declaration is renamed and the lines already printed refer to a name the IDL does not declare"
						}
					}
				}
				c.Check(bad == "", rule, fmt.Sprintf("names-as-stored@%s#%d", core.FuncKey(fn), k), bo.Pos(), "declared names compared as stored", bad)
			}
		}
	}
	if n == 0 {
		c.Undecided(rule, "meta/signature.TypeSet.Names", token.NoPos, "no comparison of a declared name found")
	}
}

// ruleStructNamesAsStored: the printer of a structure declaration hands the
// structure's name and the names of its members to the output as they are
// stored.  Followed on the values (through concatenation and through the
// private helpers of the package the name is handed to): a name that goes
// through any other function returning a string (a cleaner written for
// parameter names, a case conversion) is read back differently, and struct and
// field names are part of the signatures the round trip must preserve.
func ruleStructNamesAsStored(c *core.Ctx, rule string) {
	isSigType := func(t types.Type, name string) bool {
		if p, ok := t.(*types.Pointer); ok {
			t = p.Elem()
		}
		return core.TypeIs(t, "meta/signature", name)
	}
	n := 0
	for _, root := range srcFuncsOfPkg(c, "meta/idl") {
		if root.Parent() != nil || c.IsTestFile(root) {
			continue
		}
		takes := false
		for _, p := range root.Params {
			if isSigType(p.Type(), "StructType") {
				takes = true
			}
		}
		if !takes || !reachesFmt(root) {
			continue
		}
		for _, b := range root.Blocks {
			for _, in := range b.Instrs {
				var v ssa.Value
				var owner string
				switch x := in.(type) {
				case *ssa.FieldAddr:
					st, _ := x.X.Type().Underlying().(*types.Pointer).Elem().Underlying().(*types.Struct)
					if st != nil && st.Field(x.Field).Name() == "Name" {
						for _, nm := range []string{"StructType", "MemberType"} {
							if isSigType(x.X.Type(), nm) {
								owner = nm
							}
						}
					}
					if owner != "" {
						for _, r := range core.Referrers(x) {
							if ld, ok := r.(*ssa.UnOp); ok && ld.Op == token.MUL {
								v = ld
							}
						}
					}
				case *ssa.Field:
					st, _ := x.X.Type().Underlying().(*types.Struct)
					if st != nil && st.Field(x.Field).Name() == "Name" {
						for _, nm := range []string{"StructType", "MemberType"} {
							if isSigType(x.X.Type(), nm) {
								owner = nm
							}
						}
					}
					if owner != "" {
						v = x
					}
				}
				if v == nil {
					continue
				}
				n++
				key := fmt.Sprintf("struct-names@%s/%s.Name#%d", core.FuncKey(root), owner, n)
				bad := nameThroughFunction(v, 0, map[ssa.Value]bool{})
				c.Check(bad == "", rule, key, in.Pos(), "the name reaches the output as stored",
					"the "+owner+" name is handed to "+bad+" before it is printed: a name that function changes (a Go keyword, a different case) does not parse back to itself, so the struct or field name — part of every signature that uses the struct — does not survive the round trip")
			}
		}
	}
	if n < 2 {
		c.Undecided(rule, "struct-names", token.NoPos, fmt.Sprintf("only %d name loads found in the structure printer of meta/idl", n))
	}
}

func reachesFmt(fn *ssa.Function) bool {
	for _, call := range core.Calls(fn) {
		if f := call.Common().StaticCallee(); f != nil && f.Pkg != nil && f.Pkg.Pkg.Path() == "fmt" {
			return true
		}
	}
	return false
}

// nameThroughFunction follows v forward; returns the name of the first
// function other than fmt's printers (and private helpers of meta/idl, which
// are entered) that takes it and returns a string, or "".
func nameThroughFunction(v ssa.Value, depth int, seen map[ssa.Value]bool) string {
	if depth > 4 || seen[v] {
		return ""
	}
	seen[v] = true
	for _, r := range core.Referrers(v) {
		switch x := r.(type) {
		case *ssa.BinOp:
			if d := nameThroughFunction(x, depth, seen); d != "" {
				return d
			}
		case *ssa.Phi:
			if d := nameThroughFunction(x, depth, seen); d != "" {
				return d
			}
		case *ssa.ChangeType:
			if d := nameThroughFunction(x, depth, seen); d != "" {
				return d
			}
		case *ssa.Convert:
			if d := nameThroughFunction(x, depth, seen); d != "" {
				return d
			}
		case ssa.CallInstruction:
			cc := x.Common()
			f := cc.StaticCallee()
			if f == nil {
				continue
			}
			if f.Pkg != nil && f.Pkg.Pkg.Path() == "fmt" {
				continue
			}
			idx := -1
			for i, a := range cc.Args {
				if a == v {
					idx = i
				}
			}
			if idx < 0 {
				continue
			}
			returnsString := false
			res := f.Signature.Results()
			for i := 0; i < res.Len(); i++ {
				if b, ok := res.At(i).Type().Underlying().(*types.Basic); ok && b.Info()&types.IsString != 0 {
					returnsString = true
				}
			}
			if f.Pkg != nil && f.Pkg.Pkg.Path() == core.Module+"/meta/idl" && idx < len(f.Params) && len(f.Blocks) > 0 {
				if d := nameThroughFunction(f.Params[idx], depth+1, seen); d != "" {
					return d
				}
				continue
			}
			if returnsString {
				return core.FuncKey(f)
			}
		}
	}
	return ""
}
