package rules

import (
	"fmt"
	"go/token"
	"go/types"
	"strings"

	"golang.org/x/tools/go/ssa"

	"qicheck/internal/core"
)

func init() {
	register(&Property{
		ID:    "C19",
		Title: "A session can be shared by concurrent goroutines",
		Explanation: "Static discharge of the structural clauses of C19 on bus/session and bus.client: " +
			"(pairing) path-sensitive lockset analysis over SSA: every Lock/RLock is released in the matching mode on every path to every return, never released when not held in that mode, never re-acquired while held; " +
			"(guarded-by) every read/write of Session.poll, Session.serviceList, client.state, client.messageID happens with the table's mutex held, writes exclusively; " +
			"(single-insert) the store poll[addr]=c is guarded by a failed lookup of the same key made under the same continuously-held exclusive lock, and the other branch closes the freshly dialled endpoint and returns the existing client. " +
			"Not decided: that every request succeeds, behaviour under all interleavings.",
		Assumptions: []string{
			"sync.Mutex / sync.RWMutex semantics as documented (RUnlock of a write-locked mutex is a fatal error)",
			"locks are identified by (owning struct type, field): two Session values are not distinguished",
		},
		Run: runC19,
	})
}

func sessionScopeFuncs(c *core.Ctx) []*ssa.Function {
	var fns []*ssa.Function
	for _, fn := range c.RepoFuncs("bus/session") {
		if !c.IsTestFile(fn) {
			fns = append(fns, fn)
		}
	}
	for _, fn := range c.RepoFuncs("bus") {
		if fn.Pkg.Pkg.Path() != core.Module+"/bus" || c.IsTestFile(fn) {
			continue
		}
		root := fn
		for root.Parent() != nil {
			root = root.Parent()
		}
		if strings.HasPrefix(core.FuncKey(root), "bus.client.") {
			fns = append(fns, fn)
		}
	}
	return fns
}

func runC19(c *core.Ctx) {
	lc := core.NewLockCache()
	el := newEntryLocks(c, lc)

	c.Doc("C19.pairing", "Lock/Unlock and RLock/RUnlock balanced in matching mode on every path (bus/session, bus.client)", 4)
	lockPairing(c, lc, "C19.pairing", sessionScopeFuncs(c))

	c.Doc("C19.guarded-by", "shared session/client state only touched under its mutex, writes exclusively", 12)
	for _, g := range []guardedField{
		{Rel: "bus/session", Struct: "Session", Field: "poll", Mutex: "pollMutex",
			Reason: "connection pool shared by every goroutine using the session"},
		{Rel: "bus/session", Struct: "Session", Field: "serviceList", Mutex: "serviceListMutex",
			Reason: "service list is replaced by the update goroutine while Proxy/Object read it"},
		{Rel: "bus", Struct: "client", Field: "state", Mutex: "stateMutex",
			Reason: "subscription reference counts shared by all proxies of a connection"},
		{Rel: "bus", Struct: "client", Field: "messageID", Mutex: "messageIDMutex",
			Reason: "message id counter shared by concurrent callers"},
	} {
		guardedBy(c, lc, el, "C19.guarded-by", g)
	}

	c.Doc("C19.single-insert", "poll[addr]=c only after a failed lookup of the same key under the same exclusive lock; the duplicate is closed and the existing client returned", 2)
	singleInsert(c, lc)

	// proxies of one session share one connection: concurrent requests must not
	// interleave on the wire (rule shared with C10)
	if a := getEP(c, "C19.anchors"); a != nil {
		c.Doc("C10.single-write", "one stream write per message on the shared connection", 5)
		ruleSingleWrite(c, a)
	}

	c.Doc("C19.pool-lifetime", "a pooled connection is only closed by Terminate; the evicting disconnect handler is only attached to the connection that was inserted", 3)
	poolLifetime(c)
}

// poolLifetime: (a) every EndPoint.Close() in bus/session is either
// Session.Terminate closing the whole pool or Session.client closing the
// connection it just dialled and did not insert; (b) a handler whose closer
// deletes from the pool is registered only after the pool insert (otherwise
// the losing dialler's close evicts the winner's entry).
func poolLifetime(c *core.Ctx) {
	const rule = "C19.pool-lifetime"
	_, poll := fldNested(c, "bus/session", "Session", "poll", "")
	clientFn := c.Func("bus/session", "Session", "client")
	if poll == nil || clientFn == nil {
		c.Undecided(rule, "bus/session.Session", token.NoPos, "anchor not found")
		return
	}
	// partOfTerminate: Terminate, or a private helper that only runs as part of it
	sites, _ := c.CallSites()
	var partOfTerminate func(f *ssa.Function, depth int) bool
	partOfTerminate = func(f *ssa.Function, depth int) bool {
		for f.Parent() != nil {
			f = f.Parent()
		}
		if f.Name() == "Terminate" {
			return true
		}
		if depth > 3 || !isPrivateHelper(c, f) || len(sites[f]) == 0 {
			return false
		}
		for _, cs := range sites[f] {
			if _, isGo := cs.(*ssa.Go); isGo {
				return false
			}
			if !partOfTerminate(cs.Parent(), depth+1) {
				return false
			}
		}
		return true
	}
	n := 0
	for _, fn := range srcFuncsOfPkg(c, "bus/session") {
		for i, call := range core.Calls(fn) {
			cc := call.Common()
			if !(cc.IsInvoke() && cc.Method.Name() == "Close" && core.TypeIs(cc.Value.Type(), "bus/net", "EndPoint")) {
				continue
			}
			n++
			key := fmt.Sprintf("EndPoint.Close@%s#%d", core.FuncKey(fn), i)
			root := fn
			for root.Parent() != nil {
				root = root.Parent()
			}
			switch {
			case root.Name() == "Terminate" || partOfTerminate(fn, 0):
				c.Pass(rule, key, call.Pos(), "Terminate closes the pool")
			case fn == clientFn:
				// the endpoint closed is the one of the channel just dialled (SelectEndPoint result)
				fresh := false
				if cr, _ := core.CallResult(core.Canon(cc.Value)); cr != nil && cr.Common().IsInvoke() && cr.Common().Method.Name() == "EndPoint" {
					if e, ok := core.Canon(cr.Common().Value).(*ssa.Extract); ok {
						if sc, ok := e.Tuple.(*ssa.Call); ok && sc.Call.StaticCallee() != nil && sc.Call.StaticCallee().Name() == "SelectEndPoint" {
							fresh = true
						}
					}
				}
				c.Check(fresh, rule, key, call.Pos(), "closes the connection it just dialled and did not insert", "Session.client closes an endpoint that is not the one it just dialled")
			case isPrivateHelper(c, fn) && closesFreshOfCaller(c, fn, clientFn, cc.Value):
				c.Pass(rule, key, call.Pos(), "a helper of Session.client closes the connection client just dialled and handed to it")
			default:
				c.Fail(rule, key, call.Pos(), "a connection that may be in the session's pool (and shared by other proxies and goroutines) is closed outside Terminate: their in-flight requests fail and the session dials again (more than one connection per endpoint over time)")
			}
		}
	}
	if n < 2 {
		c.Undecided(rule, "EndPoint.Close", token.NoPos, "expected Close sites in Terminate and client not found")
	}
	// evicting handlers only after the insert (the insert, and the delete of the
	// closer, may live in private helpers)
	var ups []ssa.Instruction
	for _, up := range mapWritesUp(clientFn, poll) {
		ups = append(ups, up)
	}
	for _, call := range core.Calls(clientFn) {
		if h := core.StaticCallee(call); h != nil && isPrivateHelper(c, h) {
			for _, u := range unitOf(c, h) {
				if len(mapWritesUp(u, poll)) > 0 {
					ups = append(ups, call.(ssa.Instruction))
				}
			}
		}
	}
	// afterInsert: at (in f) is only reached after the pool insert — made in f, in a helper
	// f called before, or by every caller of the private helper f before it called f
	sitesAll, _ := c.CallSites()
	var afterInsert func(f *ssa.Function, at ssa.Instruction, depth int) bool
	afterInsert = func(f *ssa.Function, at ssa.Instruction, depth int) bool {
		for _, up := range mapWritesUp(f, poll) {
			if core.Dominates(up, at) {
				return true
			}
		}
		for _, call := range core.Calls(f) {
			if h := core.StaticCallee(call); h != nil && h != f && isPrivateHelper(c, h) && core.Dominates(call.(ssa.Instruction), at) && call.(ssa.Instruction) != at {
				for _, u := range unitOf(c, h) {
					if len(mapWritesUp(u, poll)) > 0 {
						return true
					}
				}
			}
		}
		if depth > 2 || f == clientFn || !isPrivateHelper(c, f) || len(sitesAll[f]) == 0 {
			return false
		}
		for _, cs := range sitesAll[f] {
			if !afterInsert(cs.Parent(), cs.(ssa.Instruction), depth+1) {
				return false
			}
		}
		return true
	}
	_ = ups
	for _, g := range unitOf(c, clientFn) {
		for i, call := range core.Calls(g) {
			cc := call.Common()
			if !(cc.IsInvoke() && (cc.Method.Name() == "AddHandler" || cc.Method.Name() == "MakeHandler")) || len(cc.Args) != 3 {
				continue
			}
			cl, _ := funcValue(cc.Args[2])
			if cl == nil {
				continue
			}
			nDels := 0
			for _, u := range unitOf(c, cl) {
				_, dels := mapWrites(u, poll)
				nDels += len(dels)
			}
			if nDels == 0 {
				continue
			}
			key := fmt.Sprintf("evicting-handler@%s#%d", core.FuncKey(g), i)
			c.Check(afterInsert(g, call.(ssa.Instruction), 0), rule, key, call.Pos(), "registered after poll[addr] = c", "the handler whose closer deletes poll[addr] is registered before the connection is inserted in the pool: when two goroutines dial the same endpoint the loser closes its connection, its closer fires and evicts the winner's entry, and later requests dial again")
		}
	}
}

// singleInsert: E2 on the connection pool: the insert (in Session.client, or in
// a private helper it calls) only follows a failed lookup of the same key made
// under the same continuously held exclusive lock; where the endpoint is
// already pooled the fresh connection is closed and the pooled client returned.
func singleInsert(c *core.Ctx, lc *core.LockCache) {
	const rule = "C19.single-insert"
	clientFn := c.Func("bus/session", "Session", "client")
	owner, poll := fldNested(c, "bus/session", "Session", "poll", "")
	if clientFn == nil || poll == nil {
		c.Undecided(rule, "bus/session.Session.client", token.NoPos, "anchor not found")
		return
	}
	class := core.LockClass{Owner: "bus/session.Session", Field: "pollMutex"}
	if cl, ok := guardOf(c, lc, "bus/session", owner, poll, "pollMutex"); ok {
		class = cl
	}
	isPoll := func(v ssa.Value) bool {
		p := core.AccessPath(v)
		return len(p.Fields) > 0 && p.Fields[len(p.Fields)-1] == poll
	}
	// dupBranch: in fn, on the branch selected by onDup (the endpoint is already
	// pooled), every return hands back the pooled client and, if wantClose, has
	// closed the connection just dialled
	dupBranch := func(fn *ssa.Function, onDup core.EdgeMatcher, isPooled func(ssa.Value) bool, dom ssa.Instruction, wantClose bool) (bool, string, token.Pos) {
		cutDup := core.ReachEntry(fn, nil, core.CutEstablishing(onDup))
		var dupReturns []*ssa.Return
		for _, r := range core.Returns(fn) {
			if !cutDup.Has(r) && core.PointOf(dom).B.Dominates(r.Block()) {
				dupReturns = append(dupReturns, r)
			}
		}
		if len(dupReturns) == 0 {
			return false, "no return on the branch where the endpoint is already in the pool", dom.Pos()
		}
		for _, r := range dupReturns {
			if len(r.Results) < 1 {
				return false, "return without a client", r.Pos()
			}
			rv := core.Canon(core.RetVal(r, 0))
			pooled := isPooled(rv)
			if ld, isLoad := rv.(*ssa.UnOp); !pooled && isLoad {
				// a result variable assigned on several branches: what it holds here
				sts := core.ReachingStores(ld)
				pooled = len(sts) > 0
				for _, st := range sts {
					if !isPooled(core.Canon(st.Val)) {
						pooled = false
					}
				}
			}
			if !pooled {
				return false, "the duplicate branch does not return the client already in the pool", r.Pos()
			}
			if !wantClose {
				continue
			}
			closes := core.MustPassBefore(fn, r, func(in ssa.Instruction) bool {
				call, ok := in.(*ssa.Call)
				if !ok {
					return false
				}
				_, m := core.InvokeName(call)
				// only count a Close that lies on the duplicate branch
				return m == "Close" && !cutDup.Has(in)
			})
			if !closes {
				return false, "the freshly dialled endpoint is not closed on the duplicate branch (connection leak: more than one connection per endpoint)", r.Pos()
			}
		}
		return true, "", dupReturns[0].Pos()
	}
	nStores := 0
	for _, fn := range srcFuncsOfPkg(c, "bus/session") {
		lf := lc.Get(fn)
		var updates []*ssa.MapUpdate
		var lookups []*ssa.Lookup
		for _, b := range fn.Blocks {
			for _, in := range b.Instrs {
				switch x := in.(type) {
				case *ssa.MapUpdate:
					if isPoll(x.Map) {
						updates = append(updates, x)
					}
				case *ssa.Lookup:
					if isPoll(x.X) && x.CommaOk {
						lookups = append(lookups, x)
					}
				}
			}
		}
		for i, up := range updates {
			nStores++
			key := fmt.Sprintf("bus/session.Session.client/store#%d", i+1)
			dupKey := fmt.Sprintf("bus/session.Session.client/duplicate#%d", i+1)
			if fn != clientFn {
				key = fmt.Sprintf("%s/store#%d", core.FuncKey(fn), i+1)
				dupKey = fmt.Sprintf("%s/duplicate#%d", core.FuncKey(fn), i+1)
			}
			// find a lookup with the same key whose !ok edge guards the store
			var witness *ssa.Lookup
			for _, lk := range lookups {
				if !core.SameValue(lk.Index, up.Key) {
					continue
				}
				okOf := func(v ssa.Value) bool {
					e, ok := core.Strip(core.ResolveLoad(core.Canon(v))).(*ssa.Extract)
					return ok && e.Tuple == lk && e.Index == 1
				}
				if !core.Guarded(fn, up, core.IsFalse(okOf)) {
					continue
				}
				if h, _ := lf.HeldAt(lk, class, true); !h {
					continue
				}
				// lock continuously held between the lookup and the store
				broken := false
				for _, call := range core.Calls(fn) {
					op, ok := core.LockOpOf(call)
					if !ok || op.Class != class || (op.Kind != core.OpUnlock && op.Kind != core.OpRUnlock) {
						continue
					}
					if _, isDefer := call.(*ssa.Defer); isDefer {
						continue
					}
					u := call.(ssa.Instruction)
					fromLookup := core.ReachFrom(core.After(lk), func(in ssa.Instruction) bool { return in == ssa.Instruction(up) }, nil)
					if !fromLookup.Has(u) {
						continue
					}
					toStore := core.ReachFrom(core.After(u), func(in ssa.Instruction) bool { return in == ssa.Instruction(lk) }, nil)
					if toStore.Has(up) {
						broken = true
					}
				}
				if broken {
					continue
				}
				witness = lk
				break
			}
			if witness == nil {
				c.Fail(rule, key, up.Pos(), "store into Session.poll is not guarded by a failed lookup of the same key made under the same continuously-held pollMutex.Lock(): two concurrent dialers can both insert, leaving two connections to one endpoint")
				continue
			}
			if h, _ := lf.HeldAt(up, class, true); !h {
				c.Fail(rule, key, up.Pos(), "store into Session.poll without pollMutex held exclusively")
				continue
			}
			c.Pass(rule, key, up.Pos(), "guarded by !ok of the lookup at "+c.Pos(witness.Pos())+" under pollMutex.Lock()")

			// the duplicate branch: close the new endpoint, return the existing client
			okOf := func(v ssa.Value) bool {
				e, ok := core.Strip(core.ResolveLoad(core.Canon(v))).(*ssa.Extract)
				return ok && e.Tuple == witness && e.Index == 1
			}
			isFound := func(v ssa.Value) bool {
				e, ok := v.(*ssa.Extract)
				return ok && e.Tuple == witness && e.Index == 0
			}
			if fn == clientFn {
				good, why, pos := dupBranch(fn, core.IsTrue(okOf), isFound, witness, true)
				c.Check(good, rule, dupKey, pos, "duplicate branch closes the new endpoint and returns the pooled client", why)
				continue
			}
			// the insert lives in a helper that deals with the duplicate itself: its own
			// duplicate branch closes the new endpoint and returns the pooled client
			if isPrivateHelper(c, fn) {
				if good2, _, pos2 := dupBranch(fn, core.IsTrue(okOf), isFound, witness, true); good2 {
					c.Pass(rule, dupKey, pos2, "the inserting helper closes the new endpoint on its duplicate branch and returns the pooled client")
					continue
				}
			}
			// the insert lives in a helper: it returns the pooled client with a flag
			// telling the two outcomes apart; Session.client closes the fresh
			// connection and returns that client where the flag says "already pooled"
			good, why, pos := dupBranch(fn, core.IsTrue(okOf), isFound, witness, false)
			if !good {
				c.Fail(rule, dupKey, pos, why)
				continue
			}
			bi, dupVal, okFlag := outcomeFlag(fn, core.IsTrue(okOf))
			if !isPrivateHelper(c, fn) || !okFlag {
				c.Fail(rule, dupKey, pos, "the function that inserts into the pool does not tell its caller whether the endpoint was already pooled: the fresh connection cannot be closed (more than one connection per endpoint)")
				continue
			}
			nSites := 0
			for _, cs := range core.Calls(clientFn) {
				cv, isCall := cs.(*ssa.Call)
				if !isCall || core.StaticCallee(cs) != fn {
					continue
				}
				nSites++
				isFlag := func(v ssa.Value) bool {
					e, ok := core.Strip(v).(*ssa.Extract)
					return ok && e.Tuple == ssa.Value(cv) && e.Index == bi
				}
				isRes := func(v ssa.Value) bool {
					e, ok := v.(*ssa.Extract)
					return ok && e.Tuple == ssa.Value(cv) && e.Index == 0
				}
				m := core.IsFalse(isFlag)
				if dupVal {
					m = core.IsTrue(isFlag)
				}
				good, why, pos := dupBranch(clientFn, m, isRes, cv, true)
				c.Check(good, rule, dupKey, pos, "duplicate branch closes the new endpoint and returns the pooled client", why)
			}
			if nSites == 0 {
				c.Fail(rule, dupKey, pos, "the pool is filled by a function Session.client does not call")
			}
		}
	}
	if nStores == 0 {
		c.Undecided(rule, "bus/session.Session.client/store", clientFn.Pos(), "no store into Session.poll found")
	}
}

// outcomeFlag: fn has a boolean result that is one constant on every return of
// the branch selected by onDup and the other constant on every other return
// that yields a client: its index and the value on the selected branch.
func outcomeFlag(fn *ssa.Function, onDup core.EdgeMatcher) (int, bool, bool) {
	res := fn.Signature.Results()
	cut := core.ReachEntry(fn, nil, core.CutEstablishing(onDup))
	for bi := 0; bi < res.Len(); bi++ {
		if b, ok := res.At(bi).Type().Underlying().(*types.Basic); !ok || b.Kind() != types.Bool {
			continue
		}
		var dupVal, otherVal *bool
		good := true
		for _, r := range core.Returns(fn) {
			v, isConst := core.ConstBool(core.RetVal(r, bi))
			if !isConst {
				good = false
				break
			}
			slot := &otherVal
			if !cut.Has(r) {
				slot = &dupVal
			}
			if *slot == nil {
				vv := v
				*slot = &vv
			} else if **slot != v {
				good = false
			}
		}
		if good && dupVal != nil && otherVal != nil && *dupVal != *otherVal {
			return bi, *dupVal, true
		}
	}
	return 0, false, false
}

// mapWritesUp: the map updates of fn into field fld.
func mapWritesUp(fn *ssa.Function, fld *types.Var) []*ssa.MapUpdate {
	ups, _ := mapWrites(fn, fld)
	return ups
}

// closesFreshOfCaller: ep is param.EndPoint() for a parameter of the private
// helper fn, and every call site of fn is in clientFn and passes, for that
// parameter, the channel SelectEndPoint just returned.
func closesFreshOfCaller(c *core.Ctx, fn, clientFn *ssa.Function, ep ssa.Value) bool {
	cr, _ := core.CallResult(core.Canon(ep))
	var p *ssa.Parameter
	if cr != nil && cr.Common().IsInvoke() && cr.Common().Method.Name() == "EndPoint" {
		p, _ = core.Canon(cr.Common().Value).(*ssa.Parameter)
	} else {
		p, _ = core.Canon(ep).(*ssa.Parameter) // the end point itself handed over
	}
	if p == nil || p.Parent() != fn {
		return false
	}
	idx := -1
	for i, q := range fn.Params {
		if q == p {
			idx = i
		}
	}
	sites, taken := c.CallSites()
	if idx < 0 || taken[fn] || len(sites[fn]) == 0 {
		return false
	}
	for _, cs := range sites[fn] {
		if cs.Parent() != clientFn || idx >= len(cs.Common().Args) {
			return false
		}
		a := core.Canon(cs.Common().Args[idx])
		if cr2, _ := core.CallResult(a); cr2 != nil && cr2.Common().IsInvoke() && cr2.Common().Method.Name() == "EndPoint" {
			a = core.Canon(cr2.Common().Value)
		}
		e, ok := a.(*ssa.Extract)
		if !ok {
			return false
		}
		sc, ok := e.Tuple.(*ssa.Call)
		if !ok || sc.Call.StaticCallee() == nil || sc.Call.StaticCallee().Name() != "SelectEndPoint" {
			return false
		}
	}
	return true
}
