package rules

import (
	"fmt"
	"go/token"
	"strings"

	"golang.org/x/tools/go/ssa"

	"qicheck/internal/core"
)

func init() {
	register(&Property{
		ID:    "C19",
		Title: "A session can be shared by concurrent goroutines",
		Explanation: "Static discharge of the structural clauses of C19 on bus/session and bus.client: " +
			"(pairing) path-sensitive lockset analysis over SSA: every Lock/RLock is released in the matching mode on every path to every return, never released when not held in that mode, never re-acquired while held; " +
			"(guarded-by) every read/write of Session.poll, Session.serviceList, client.state, client.messageID happens with the table's mutex held, writes exclusively; " +
			"(single-insert) the store poll[addr]=c is guarded by a failed lookup of the same key made under the same continuously-held exclusive lock, and the other branch closes the freshly dialled endpoint and returns the existing client. " +
			"Not decided: that every request succeeds, behaviour under all interleavings.",
		Assumptions: []string{
			"sync.Mutex / sync.RWMutex semantics as documented (RUnlock of a write-locked mutex is a fatal error)",
			"locks are identified by (owning struct type, field): two Session values are not distinguished",
		},
		Run: runC19,
	})
}

func sessionScopeFuncs(c *core.Ctx) []*ssa.Function {
	var fns []*ssa.Function
	for _, fn := range c.RepoFuncs("bus/session") {
		if !c.IsTestFile(fn) {
			fns = append(fns, fn)
		}
	}
	for _, fn := range c.RepoFuncs("bus") {
		if fn.Pkg.Pkg.Path() != core.Module+"/bus" || c.IsTestFile(fn) {
			continue
		}
		root := fn
		for root.Parent() != nil {
			root = root.Parent()
		}
		if strings.HasPrefix(core.FuncKey(root), "bus.client.") {
			fns = append(fns, fn)
		}
	}
	return fns
}

func runC19(c *core.Ctx) {
	lc := core.NewLockCache()
	el := newEntryLocks(c, lc)

	c.Doc("C19.pairing", "Lock/Unlock and RLock/RUnlock balanced in matching mode on every path (bus/session, bus.client)", 4)
	lockPairing(c, lc, "C19.pairing", sessionScopeFuncs(c))

	c.Doc("C19.guarded-by", "shared session/client state only touched under its mutex, writes exclusively", 12)
	for _, g := range []guardedField{
		{Rel: "bus/session", Struct: "Session", Field: "poll", Mutex: "pollMutex",
			Reason: "connection pool shared by every goroutine using the session"},
		{Rel: "bus/session", Struct: "Session", Field: "serviceList", Mutex: "serviceListMutex",
			Reason: "service list is replaced by the update goroutine while Proxy/Object read it"},
		{Rel: "bus", Struct: "client", Field: "state", Mutex: "stateMutex",
			Reason: "subscription reference counts shared by all proxies of a connection"},
		{Rel: "bus", Struct: "client", Field: "messageID", Mutex: "messageIDMutex",
			Reason: "message id counter shared by concurrent callers"},
	} {
		guardedBy(c, lc, el, "C19.guarded-by", g)
	}

	c.Doc("C19.single-insert", "poll[addr]=c only after a failed lookup of the same key under the same exclusive lock; the duplicate is closed and the existing client returned", 2)
	singleInsert(c, lc)

	// proxies of one session share one connection: concurrent requests must not
	// interleave on the wire (rule shared with C10)
	if a := getEP(c, "C19.anchors"); a != nil {
		c.Doc("C10.single-write", "one stream write per message on the shared connection", 5)
		ruleSingleWrite(c, a)
	}

	c.Doc("C19.pool-lifetime", "a pooled connection is only closed by Terminate; the evicting disconnect handler is only attached to the connection that was inserted", 3)
	poolLifetime(c)
}

// poolLifetime: (a) every EndPoint.Close() in bus/session is either
// Session.Terminate closing the whole pool or Session.client closing the
// connection it just dialled and did not insert; (b) a handler whose closer
// deletes from the pool is registered only after the pool insert (otherwise
// the losing dialler's close evicts the winner's entry).
func poolLifetime(c *core.Ctx) {
	const rule = "C19.pool-lifetime"
	poll := fld(c, "bus/session", "Session", "poll")
	clientFn := c.Func("bus/session", "Session", "client")
	if poll == nil || clientFn == nil {
		c.Undecided(rule, "bus/session.Session", token.NoPos, "anchor not found")
		return
	}
	n := 0
	for _, fn := range srcFuncsOfPkg(c, "bus/session") {
		for i, call := range core.Calls(fn) {
			cc := call.Common()
			if !(cc.IsInvoke() && cc.Method.Name() == "Close" && core.TypeIs(cc.Value.Type(), "bus/net", "EndPoint")) {
				continue
			}
			n++
			key := fmt.Sprintf("EndPoint.Close@%s#%d", core.FuncKey(fn), i)
			root := fn
			for root.Parent() != nil {
				root = root.Parent()
			}
			switch {
			case root.Name() == "Terminate":
				c.Pass(rule, key, call.Pos(), "Terminate closes the pool")
			case fn == clientFn:
				// the endpoint closed is the one of the channel just dialled (SelectEndPoint result)
				fresh := false
				if cr, _ := core.CallResult(core.Canon(cc.Value)); cr != nil && cr.Common().IsInvoke() && cr.Common().Method.Name() == "EndPoint" {
					if e, ok := core.Canon(cr.Common().Value).(*ssa.Extract); ok {
						if sc, ok := e.Tuple.(*ssa.Call); ok && sc.Call.StaticCallee() != nil && sc.Call.StaticCallee().Name() == "SelectEndPoint" {
							fresh = true
						}
					}
				}
				c.Check(fresh, rule, key, call.Pos(), "closes the connection it just dialled and did not insert", "Session.client closes an endpoint that is not the one it just dialled")
			default:
				c.Fail(rule, key, call.Pos(), "a connection that may be in the session's pool (and shared by other proxies and goroutines) is closed outside Terminate: their in-flight requests fail and the session dials again (more than one connection per endpoint over time)")
			}
		}
	}
	if n < 2 {
		c.Undecided(rule, "EndPoint.Close", token.NoPos, "expected Close sites in Terminate and client not found")
	}
	// evicting handlers only after the insert
	ups, _ := mapWrites(clientFn, poll)
	for i, call := range core.Calls(clientFn) {
		cc := call.Common()
		if !(cc.IsInvoke() && (cc.Method.Name() == "AddHandler" || cc.Method.Name() == "MakeHandler")) || len(cc.Args) != 3 {
			continue
		}
		cl, _ := funcValue(cc.Args[2])
		if cl == nil {
			continue
		}
		_, dels := mapWrites(cl, poll)
		if len(dels) == 0 {
			continue
		}
		key := fmt.Sprintf("evicting-handler@%s#%d", core.FuncKey(clientFn), i)
		after := false
		for _, up := range ups {
			if core.Dominates(up, call.(ssa.Instruction)) {
				after = true
			}
		}
		c.Check(after, rule, key, call.Pos(), "registered after poll[addr] = c", "the handler whose closer deletes poll[addr] is registered before the connection is inserted in the pool: when two goroutines dial the same endpoint the loser closes its connection, its closer fires and evicts the winner's entry, and later requests dial again")
	}
}

// singleInsert: E2 on Session.client.
func singleInsert(c *core.Ctx, lc *core.LockCache) {
	const rule = "C19.single-insert"
	fn := c.Func("bus/session", "Session", "client")
	poll := fld(c, "bus/session", "Session", "poll")
	if fn == nil || poll == nil {
		c.Undecided(rule, "bus/session.Session.client", token.NoPos, "anchor not found")
		return
	}
	class := core.LockClass{Owner: "bus/session.Session", Field: "pollMutex"}
	if st := strct(c, "bus/session", "Session"); st != nil && poll != nil {
		if cl, ok := guardOf(c, lc, "bus/session", st, poll, "pollMutex"); ok {
			class = cl
		}
	}
	lf := lc.Get(fn)
	isPoll := func(v ssa.Value) bool {
		p := core.AccessPath(v)
		return len(p.Fields) > 0 && p.Fields[len(p.Fields)-1] == poll
	}
	var updates []*ssa.MapUpdate
	var lookups []*ssa.Lookup
	for _, b := range fn.Blocks {
		for _, in := range b.Instrs {
			switch x := in.(type) {
			case *ssa.MapUpdate:
				if isPoll(x.Map) {
					updates = append(updates, x)
				}
			case *ssa.Lookup:
				if isPoll(x.X) && x.CommaOk {
					lookups = append(lookups, x)
				}
			}
		}
	}
	if len(updates) == 0 {
		c.Undecided(rule, "bus/session.Session.client/store", fn.Pos(), "no store into Session.poll found")
		return
	}
	for i, up := range updates {
		key := fmt.Sprintf("bus/session.Session.client/store#%d", i+1)
		// find a lookup with the same key whose !ok edge guards the store
		var witness *ssa.Lookup
		for _, lk := range lookups {
			if !core.SameValue(lk.Index, up.Key) {
				continue
			}
			okOf := func(v ssa.Value) bool {
				e, ok := core.Strip(v).(*ssa.Extract)
				return ok && e.Tuple == lk && e.Index == 1
			}
			if !core.Guarded(fn, up, core.IsFalse(okOf)) {
				continue
			}
			if h, _ := lf.HeldAt(lk, class, true); !h {
				continue
			}
			// lock continuously held between the lookup and the store
			broken := false
			for _, call := range core.Calls(fn) {
				op, ok := core.LockOpOf(call)
				if !ok || op.Class != class || (op.Kind != core.OpUnlock && op.Kind != core.OpRUnlock) {
					continue
				}
				u := call.(ssa.Instruction)
				fromLookup := core.ReachFrom(core.After(lk), func(in ssa.Instruction) bool { return in == ssa.Instruction(up) }, nil)
				if !fromLookup.Has(u) {
					continue
				}
				toStore := core.ReachFrom(core.After(u), func(in ssa.Instruction) bool { return in == ssa.Instruction(lk) }, nil)
				if toStore.Has(up) {
					broken = true
				}
			}
			if broken {
				continue
			}
			witness = lk
			break
		}
		if witness == nil {
			c.Fail(rule, key, up.Pos(), "store into Session.poll is not guarded by a failed lookup of the same key made under the same continuously-held pollMutex.Lock(): two concurrent dialers can both insert, leaving two connections to one endpoint")
			continue
		}
		if h, _ := lf.HeldAt(up, class, true); !h {
			c.Fail(rule, key, up.Pos(), "store into Session.poll without pollMutex held exclusively")
			continue
		}
		c.Pass(rule, key, up.Pos(), "guarded by !ok of the lookup at "+c.Pos(witness.Pos())+" under pollMutex.Lock()")

		// the duplicate branch: close the new endpoint, return the existing client
		okOf := func(v ssa.Value) bool {
			e, ok := core.Strip(v).(*ssa.Extract)
			return ok && e.Tuple == witness && e.Index == 1
		}
		dupKey := fmt.Sprintf("bus/session.Session.client/duplicate#%d", i+1)
		var dupReturns []*ssa.Return
		reachDup := core.ReachEntry(fn, nil, core.CutEstablishing(core.IsFalse(okOf)))
		_ = reachDup
		// returns reachable only through the ok==true edge: those not reachable when that edge is cut
		cutTrue := core.ReachEntry(fn, nil, core.CutEstablishing(core.IsTrue(okOf)))
		for _, r := range core.Returns(fn) {
			if !cutTrue.Has(r) && core.PointOf(witness).B.Dominates(r.Block()) {
				dupReturns = append(dupReturns, r)
			}
		}
		if len(dupReturns) == 0 {
			c.Fail(rule, dupKey, witness.Pos(), "no return on the branch where the endpoint is already in the pool")
			continue
		}
		good := true
		why := ""
		for _, r := range dupReturns {
			if len(r.Results) < 1 {
				good = false
				why = "return without a client"
				continue
			}
			e, ok := core.Canon(core.RetVal(r, 0)).(*ssa.Extract)
			if !ok || e.Tuple != witness || e.Index != 0 {
				good = false
				why = "the duplicate branch does not return the client already in the pool"
			}
			closes := core.MustPassBefore(fn, r, func(in ssa.Instruction) bool {
				call, ok := in.(*ssa.Call)
				if !ok {
					return false
				}
				_, m := core.InvokeName(call)
				if m != "Close" {
					return false
				}
				// only count a Close that lies on the duplicate branch
				return !cutTrue.Has(in)
			})
			if !closes {
				good = false
				why = "the freshly dialled endpoint is not closed on the duplicate branch (connection leak: more than one connection per endpoint)"
			}
		}
		c.Check(good, rule, dupKey, dupReturns[0].Pos(), "duplicate branch closes the new endpoint and returns the pooled client", why)
	}
}
