package rules

import (
	"fmt"
	"go/token"
	"go/types"
	"strings"

	"golang.org/x/tools/go/ssa"

	"qicheck/internal/core"
)

func init() {
	register(&Property{
		ID:    "C20",
		Title: "Structural conversion preserves every value",
		Explanation: "Static discharge of structural necessary conditions of C20 on type/conversion: " +
			"(populate) a value obtained from reflect.New whose Elem() is stored into the destination (SetMapIndex / Set) is first the destination of a convertFrom call on every path, in the same loop iteration, and map key and map value come from the same source key; " +
			"(kind-guards) every v.SetBool/SetString/SetInt/SetUint/SetFloat in convertFrom is guarded by a test that the source is of the same family and sets the source's own accessor value; AsInt64 returns ok only under an integer kind and returns exactly w.Int() / int64(w.Uint()); the fall-through is the error return; " +
			"(rejects) convertSlice/convertMap/convertStruct touch the destination only across a test that the source has that kind; " +
			"(elementwise) convertSlice converts index i into index i for 0 <= i < len(source) after SetLen(len(source)); convertStruct pairs fields whose case-folded names are equal; " +
			"(errors) a failing element conversion fails the whole conversion. " +
			"(integers) once the source integer was extracted the conversion is not refused; (errors) also at every caller of the package. " +
			"Not decided: equality for all values, widening/narrowing semantics (SetInt truncation), converting back.",
		Assumptions: []string{"reflect behaves as documented"},
		Run:         runC20,
	})
}

func reflectCall(v ssa.Value, method string) *ssa.Call {
	cl, ok := opCanon(v).(*ssa.Call)
	if !ok {
		return nil
	}
	f := cl.Call.StaticCallee()
	if f == nil || core.FuncKey(f) != "reflect.Value."+method {
		return nil
	}
	return cl
}

// throughElem resolves x.Elem() chains to x.
func throughElem(v ssa.Value) ssa.Value {
	for i := 0; i < 4; i++ {
		cl := reflectCall(v, "Elem")
		if cl == nil {
			break
		}
		v = cl.Call.Args[0]
	}
	return opCanon(v)
}

func isReflectNew(v ssa.Value) *ssa.Call {
	cl, ok := opCanon(v).(*ssa.Call)
	if !ok {
		return nil
	}
	if f := cl.Call.StaticCallee(); f != nil && core.FuncKey(f) == "reflect.New" {
		return cl
	}
	// a one-line constructor of the package (freshPtr(t)): every return is a reflect.New made
	// by that call, so each call of the constructor is a fresh holder, as reflect.New is
	if f := cl.Call.StaticCallee(); f != nil && f.Pkg != nil && strings.HasPrefix(f.Pkg.Pkg.Path(), core.Module) && len(f.Blocks) > 0 && len(f.Blocks) <= 3 {
		rets := core.Returns(f)
		if len(rets) == 0 {
			return nil
		}
		for _, r := range rets {
			if len(r.Results) != 1 {
				return nil
			}
			in, ok := opCanon(core.RetVal(r, 0)).(*ssa.Call)
			if !ok {
				return nil
			}
			if g := in.Call.StaticCallee(); g == nil || core.FuncKey(g) != "reflect.New" {
				return nil
			}
		}
		return cl
	}
	return nil
}

func runC20(c *core.Ctx) {
	conv := c.Func("type/conversion", "", "convertFrom")
	if conv == nil {
		c.Undecided("C20.populate", "type/conversion.convertFrom", token.NoPos, "anchor not found")
		return
	}
	fns := srcFuncsOfPkg(c, "type/conversion")

	c.Doc("C20.populate", "fresh reflect values are populated by convertFrom before being stored, per iteration, key and value from the same source entry", 2)
	nStore := 0
	for _, fn := range fns {
		for _, call := range core.Calls(fn) {
			f := core.StaticCallee(call)
			if f == nil || core.FuncKey(f) != "reflect.Value.SetMapIndex" {
				continue
			}
			in := call.(ssa.Instruction)
			args := call.Common().Args
			var srcKey ssa.Value
			for i, a := range args[1:] {
				nStore++
				role := []string{"key", "value"}[i]
				key := fmt.Sprintf("%s/SetMapIndex-%s", core.FuncKey(fn), role)
				root := throughElem(a)
				nw := isReflectNew(root)
				if nw == nil {
					c.Undecided("C20.populate", key, call.Pos(), "the stored "+role+" is not the Elem() of a reflect.New value (unrecognised idiom)")
					continue
				}
				// populated: a convertFrom(nw, src) call on every path between New and the store
				var pop *ssa.Call
				for _, cc := range core.Calls(fn) {
					if core.IsCallTo(cc, conv) && opCanon(convArg(cc, 0)) == ssa.Value(nw) {
						if cv, ok := cc.(*ssa.Call); ok {
							pop = cv
						}
					}
				}
				bad := ""
				switch {
				case pop == nil:
					bad = "the map " + role + " stored is a fresh zero value that no conversion ever filled: every converted map has zero " + role + "s"
				case core.ReachFrom(core.After(nw), func(x ssa.Instruction) bool { return x == ssa.Instruction(pop) }, nil).Has(in):
					bad = "the " + role + " can be stored without having been converted on some path"
				case loopHeaderOf(nw) != loopHeaderOf(in):
					bad = "the holder of the map " + role + " is allocated outside the loop that stores it: one holder is reused for all entries, so entries whose " + role + "s contain slices, maps or structs alias or leak into each other"
				}
				if bad == "" && pop != nil {
					src := opCanon(convArg(pop, 1))
					if role == "key" {
						srcKey = src
					} else {
						mi := reflectCall(src, "MapIndex")
						if mi == nil || srcKey == nil || opCanon(mi.Call.Args[1]) != srcKey {
							bad = "the value converted is not source.MapIndex(k) for the same k as the key: keys and values get mixed up"
						}
					}
				}
				c.Check(bad == "", "C20.populate", key, call.Pos(), role+": reflect.New → convertFrom → Elem() stored, within one iteration", bad)
			}
		}
	}
	if nStore == 0 {
		c.Undecided("C20.populate", "SetMapIndex", token.NoPos, "no SetMapIndex found in type/conversion")
	}

	c.Doc("C20.kind-guards", "scalar setters only across a same-family kind test, setting the source's own value; AsInt64 exact", 7)
	ruleKindGuards(c, conv)
	ruleNoGoConversion(c, "C20.kind-guards")

	c.Doc("C20.rejects", "composite converters touch the destination only after testing the source kind", 3)
	for _, spec := range []struct {
		name string
		kind int64
	}{{"convertSlice", 23}, {"convertMap", 21}, {"convertStruct", 25}} {
		fn := c.Func("type/conversion", "", spec.name)
		if fn == nil {
			c.Undecided("C20.rejects", "type/conversion."+spec.name, token.NoPos, "anchor not found")
			continue
		}
		w := convOperand(fn, 1)
		isWKind := func(v ssa.Value) bool {
			cl := reflectCall(core.StripConv(v), "Kind")
			return cl != nil && opCanon(cl.Call.Args[0]) == w
		}
		isK := func(v ssa.Value) bool { k, ok := core.ConstInt(v); return ok && k == spec.kind }
		bad := ""
		for _, call := range core.Calls(fn) {
			f := core.StaticCallee(call)
			if f == nil {
				continue
			}
			k := core.FuncKey(f)
			mutates := strings.HasPrefix(k, "reflect.Value.Set") || core.IsCallTo(call, conv)
			if mutates && !core.Guarded(fn, call.(ssa.Instruction), core.Eq(isWKind, isK)) {
				bad = k + " at " + c.Pos(call.Pos()) + " is reachable although the source is not a " + strings.TrimPrefix(spec.name, "convert") + ": an incompatible source is converted to something instead of being refused"
			}
		}
		c.Check(bad == "", "C20.rejects", "type/conversion."+spec.name, fn.Pos(), "destination only touched across source.Kind() == the expected kind", bad)
	}

	c.Doc("C20.integers", "once the source integer was extracted, conversion to an integer destination cannot be refused; the extraction refuses by kind only", 2)
	{
		asInt := c.Func("type/conversion", "", "AsInt64")
		isOK := func(v ssa.Value) bool {
			e, ok := opCanon(v).(*ssa.Extract)
			if !ok || e.Index != 1 {
				return false
			}
			cl, ok := e.Tuple.(*ssa.Call)
			return ok && asInt != nil && core.IsCallTo(cl, asInt)
		}
		bad := ""
		nOK := 0
		outerConv := conv
		conv := scalarUnit(c, outerConv)
		// returns reachable from an edge on which the extraction is known to have succeeded
		afterOK := map[*ssa.Return]bool{}
		cutOK := core.CutEstablishing(core.IsTrue(isOK))
		for _, b := range conv.Blocks {
			if len(b.Instrs) == 0 {
				continue
			}
			if _, isIf := b.Instrs[len(b.Instrs)-1].(*ssa.If); !isIf {
				continue
			}
			for si, sc := range b.Succs {
				if !cutOK(b, si) || len(sc.Instrs) == 0 {
					continue
				}
				r := core.ReachFrom(core.Point{B: sc, I: 0}, nil, nil)
				for _, ret := range core.Returns(conv) {
					if r.Has(ret) || ret.Block() == sc {
						afterOK[ret] = true
					}
				}
			}
		}
		for _, ret := range core.Returns(conv) {
			if !afterOK[ret] {
				continue
			}
			nOK++
			if !okReturn(ret) {
				bad = "convertFrom refuses (at " + c.Pos(ret.Pos()) + ") an integer source whose value was already extracted: some values of a compatible integer type (an unsigned value >= 2^63 travels as a negative int64) are rejected instead of preserved"
			}
		}
		// … and the extraction itself refuses by kind only: once it has read the integer
		// (Value.Int / Value.Uint) it does not answer "not an integer" for some values
		// (the unsigned destination undoes the wrap-around of an unsigned source >= 2^63)
		if asInt != nil {
			badX := ""
			nX := 0
			for _, call := range core.Calls(asInt) {
				f := core.StaticCallee(call)
				if f == nil || f.Signature.Recv() == nil || !(f.Name() == "Int" || f.Name() == "Uint") || !strings.HasSuffix(f.Signature.Recv().Type().String(), "reflect.Value") {
					continue
				}
				nX++
				r := core.ReachFrom(core.After(call.(ssa.Instruction)), nil, nil)
				for _, ret := range core.Returns(asInt) {
					if len(ret.Results) != 2 || !r.Has(ret) {
						continue
					}
					if ok, isK := core.ConstBool(core.RetVal(ret, 1)); !isK || !ok {
						badX = "AsInt64 can answer that the source is not an integer (at " + c.Pos(ret.Pos()) + ") after having read its value: the refusal depends on the value, so some values of a compatible integer type (an unsigned value >= 2^63, which the unsigned destination restores from the wrapped int64) are rejected instead of preserved"
					}
				}
			}
			if nX == 0 {
				c.Undecided("C20.integers", "type/conversion.AsInt64", asInt.Pos(), "no Value.Int / Value.Uint read found in the extraction helper")
			} else {
				c.Check(badX == "", "C20.integers", "type/conversion.AsInt64", asInt.Pos(), fmt.Sprintf("%d reads of the source integer, none followed by a refusal", nX), badX)
			}
		}
		if asInt == nil || nOK == 0 {
			c.Undecided("C20.integers", "type/conversion.convertFrom", conv.Pos(), "no return behind a successful AsInt64 found")
		} else {
			c.Check(bad == "", "C20.integers", "type/conversion.convertFrom", conv.Pos(), fmt.Sprintf("%d returns behind a successful AsInt64, all successes", nOK), bad)
		}
	}

	c.Doc("C20.elementwise", "slices index by index over the whole source; struct fields paired by case-folded name", 2)
	ruleElementwise(c, conv)

	c.Doc("C20.cache-keys", "a table kept by the conversion package is keyed by the reflect.Types concerned, not by a rendering of them", 1)
	rulePackageCacheKeys(c, "C20.cache-keys", "type/conversion")

	c.Doc("C20.errors", "a failing element conversion fails the whole conversion, inside the package and at every caller", 6)
	n := 0
	// the conversion package itself, and every caller of its entry points in the repository
	callers := append([]*ssa.Function{}, fns...)
	inPkg := map[*ssa.Function]bool{}
	for _, f := range fns {
		inPkg[f] = true
	}
	for _, fn := range c.RepoFuncs() {
		if inPkg[fn] || c.IsTestFile(fn) || !notExample(fn) {
			continue
		}
		for _, call := range core.Calls(fn) {
			if f := core.StaticCallee(call); f != nil && f.Pkg != nil && f.Pkg.Pkg.Path() == core.Module+"/type/conversion" && hasErrorResult(f.Signature) >= 0 {
				callers = append(callers, fn)
				break
			}
		}
	}
	for _, fn := range callers {
		ord := 0
		for _, call := range core.Calls(fn) {
			f := core.StaticCallee(call)
			if f == nil || f.Pkg == nil || f.Pkg.Pkg.Path() != core.Module+"/type/conversion" || hasErrorResult(f.Signature) < 0 {
				continue
			}
			cv, ok := call.(*ssa.Call)
			if !ok {
				continue
			}
			if hasErrorResult(fn.Signature) < 0 {
				continue
			}
			ord++
			n++
			key := fmt.Sprintf("%s/call:%s#%d", core.FuncKey(fn), f.Name(), ord)
			e := ssa.Value(cv)
			if cv.Type() != nil && hasErrorResult(f.Signature) >= 0 && f.Signature.Results().Len() > 1 {
				e = nil
				for _, r := range core.Referrers(cv) {
					if ex, ok := r.(*ssa.Extract); ok && ex.Index == hasErrorResult(f.Signature) {
						e = ex
					}
				}
			}
			if e == nil || len(core.Referrers(e)) == 0 {
				c.Fail("C20.errors", key, call.Pos(), "the error of "+f.Name()+" is dropped: an element that cannot be converted is left at its zero value and the conversion reports success")
				continue
			}
			isE := func(v ssa.Value) bool { return opCanon(v) == e }
			r := core.ReachFrom(core.After(cv), nil, core.CutEstablishing(core.Eq(isE, core.IsNilConst)))
			bad := ""
			for _, ret := range core.Returns(fn) {
				if r.Has(ret) && successReturn(ret) {
					bad = "when " + f.Name() + " fails the conversion can still return nil (at " + c.Pos(ret.Pos()) + ")"
				}
			}
			c.Check(bad == "", "C20.errors", key, call.Pos(), "failure propagates", bad)
		}
	}
	if n == 0 {
		c.Undecided("C20.errors", "type/conversion", token.NoPos, "no recursive conversion call found")
	}
}

// scalarUnit: the function holding the scalar cases of the conversion —
// convertFrom itself, or a helper convertFrom hands its two values to,
// unchanged and in order (convertScalar(v, w)).
func scalarUnit(c *core.Ctx, conv *ssa.Function) *ssa.Function {
	has := func(f *ssa.Function) bool {
		for _, call := range core.Calls(f) {
			if g := core.StaticCallee(call); g != nil && core.FuncKey(g) == "reflect.Value.SetBool" {
				return true
			}
		}
		return false
	}
	if has(conv) {
		return conv
	}
	for _, call := range core.Calls(conv) {
		g := core.StaticCallee(call)
		if g == nil || !inRepo(g) || g == conv || !sameOperandForm(g, conv) || !has(g) {
			continue
		}
		if opCanon(convArg(call, 0)) == convOperand(conv, 0) && opCanon(convArg(call, 1)) == convOperand(conv, 1) {
			return g
		}
	}
	return conv
}

// okReturn: a return that reports success: nil error, or true for a helper
// reporting "converted" as a boolean.
func okReturn(r *ssa.Return) bool {
	if len(r.Results) == 1 {
		if b, isConst := core.ConstBool(core.RetVal(r, 0)); isConst {
			return b
		}
		if _, isBool := r.Results[0].Type().Underlying().(*types.Basic); isBool && !core.IsErrorType(r.Results[0].Type()) {
			return true // a computed boolean: may be true
		}
	}
	return successReturn(r)
}

func ruleKindGuards(c *core.Ctx, outer *ssa.Function) {
	const rule = "C20.kind-guards"
	conv := scalarUnit(c, outer)
	w := convOperand(conv, 1)
	isWKind := func(v ssa.Value) bool {
		cl := reflectCall(core.StripConv(v), "Kind")
		return cl != nil && opCanon(cl.Call.Args[0]) == w
	}
	kindIs := func(ks ...int64) core.EdgeMatcher {
		var ms []core.EdgeMatcher
		for _, k := range ks {
			k := k
			ms = append(ms, core.Eq(isWKind, func(v ssa.Value) bool { x, ok := core.ConstInt(v); return ok && x == k }))
		}
		ms = append(ms, classifiedAs(isWKind, ks...))
		return core.AnyOf(ms...)
	}
	asInt := c.Func("type/conversion", "", "AsInt64")
	isAsIntOK := func(v ssa.Value) bool {
		e, ok := opCanon(v).(*ssa.Extract)
		if !ok || e.Index != 1 {
			return false
		}
		cl, ok := e.Tuple.(*ssa.Call)
		return ok && asInt != nil && core.IsCallTo(cl, asInt) && opCanon(cl.Call.Args[0]) == w
	}
	fromAsInt := func(v ssa.Value) bool {
		e, ok := core.StripConv(v).(*ssa.Extract)
		if !ok || e.Index != 0 {
			return false
		}
		cl, ok := e.Tuple.(*ssa.Call)
		return ok && asInt != nil && core.IsCallTo(cl, asInt)
	}
	type setter struct {
		guard  core.EdgeMatcher
		valOK  func(ssa.Value) bool
		family string
	}
	accessor := func(name string) func(ssa.Value) bool {
		return func(v ssa.Value) bool {
			cl := reflectCall(core.StripConv(v), name)
			return cl != nil && opCanon(cl.Call.Args[0]) == w
		}
	}
	setters := map[string]setter{
		"SetBool":   {kindIs(1), accessor("Bool"), "bool"},
		"SetString": {kindIs(24), accessor("String"), "string"},
		"SetFloat":  {kindIs(13, 14), accessor("Float"), "float"},
		"SetInt":    {core.IsTrue(isAsIntOK), fromAsInt, "integer"},
		"SetUint":   {core.IsTrue(isAsIntOK), fromAsInt, "integer"},
	}
	seen := map[string]bool{}
	for _, call := range core.Calls(conv) {
		f := core.StaticCallee(call)
		if f == nil || !strings.HasPrefix(core.FuncKey(f), "reflect.Value.Set") {
			continue
		}
		name := f.Name()
		st, ok := setters[name]
		if !ok {
			continue
		}
		seen[name] = true
		key := "type/conversion.convertFrom/" + name
		bad := ""
		if !core.Guarded(conv, call.(ssa.Instruction), st.guard) {
			bad = name + " is reachable without the source having been tested to be a " + st.family + ": an incompatible kind is converted instead of refused"
		} else if !st.valOK(call.Common().Args[1]) {
			bad = name + " does not store the source's own " + st.family + " value (it goes through another conversion)"
		}
		c.Check(bad == "", rule, key, call.Pos(), "guarded by a "+st.family+" kind test on the source, stores the source's value", bad)
	}
	for name := range setters {
		if !seen[name] {
			c.Fail(rule, "type/conversion.convertFrom/"+name, conv.Pos(), "convertFrom no longer handles "+name)
		}
	}
	// success returns follow a setter or a delegated converter
	ok := true
	isSetter := func(x ssa.Instruction) bool {
		cl, isCall := x.(*ssa.Call)
		if !isCall {
			return false
		}
		f := cl.Call.StaticCallee()
		return f != nil && (strings.HasPrefix(core.FuncKey(f), "reflect.Value.Set") || (f == conv && conv != outer))
	}
	for _, fn := range []*ssa.Function{conv, outer} {
		for _, ret := range core.Returns(fn) {
			if !okReturn(ret) {
				continue
			}
			if !core.MustPassBefore(fn, ret, isSetter) {
				ok = false
			}
		}
		if conv == outer {
			break
		}
	}
	c.Check(ok, rule, "type/conversion.convertFrom/fallthrough", outer.Pos(), "success is reported only after a value was set; everything else ends in the conversion error", "convertFrom can report success without having converted anything")
	// AsInt64
	if asInt == nil {
		c.Undecided(rule, "type/conversion.AsInt64", token.NoPos, "anchor not found")
		return
	}
	aw := ssa.Value(asInt.Params[0])
	isAK := func(v ssa.Value) bool {
		cl := reflectCall(core.StripConv(v), "Kind")
		return cl != nil && opCanon(cl.Call.Args[0]) == aw
	}
	anyKind := func(ks ...int64) core.EdgeMatcher {
		var ms []core.EdgeMatcher
		for _, k := range ks {
			k := k
			ms = append(ms, core.Eq(isAK, func(v ssa.Value) bool { x, ok := core.ConstInt(v); return ok && x == k }))
		}
		// or a constant classification table of kinds: kinds[w.Kind()] == class
		ms = append(ms, classifiedAs(isAK, ks...))
		return core.AnyOf(ms...)
	}
	bad := ""
	n := 0
	for _, ret := range core.Returns(asInt) {
		okv, isConst := core.ConstBool(core.RetVal(ret, 1))
		if isConst && !okv {
			continue
		}
		n++
		v := core.StripConv(core.RetVal(ret, 0))
		switch {
		case reflectCall(v, "Int") != nil:
			if !core.Guarded(asInt, ret, anyKind(2, 3, 4, 5, 6)) {
				bad = "w.Int() is returned for a source that was not tested to be a signed integer"
			}
		case reflectCall(v, "Uint") != nil:
			if !core.Guarded(asInt, ret, anyKind(7, 8, 9, 10, 11)) {
				bad = "w.Uint() is returned for a source that was not tested to be an unsigned integer"
			}
		default:
			bad = "AsInt64 returns something else than the source's own Int()/Uint() value (clamped, masked or recomputed): values are altered on the way"
		}
	}
	c.Check(bad == "" && n >= 2, rule, "type/conversion.AsInt64", asInt.Pos(), "ok only under an integer kind; returns exactly w.Int() / int64(w.Uint())", bad)
}

func ruleElementwise(c *core.Ctx, conv *ssa.Function) {
	const rule = "C20.elementwise"
	cs := c.Func("type/conversion", "", "convertSlice")
	if cs != nil {
		v, w := convOperand(cs, 0), convOperand(cs, 1)
		_ = v
		bad := "no element conversion found"
		for _, call := range core.Calls(cs) {
			if !core.IsCallTo(call, conv) {
				continue
			}
			a, b := convArg(call, 0), convArg(call, 1)
			ia, ib := reflectCall(a, "Index"), reflectCall(b, "Index")
			switch {
			case ia == nil || ib == nil:
				bad = "elements are not converted Index(i) into Index(i)"
			case !core.SameValue(ia.Call.Args[1], ib.Call.Args[1]):
				bad = "destination and source are indexed with different indices"
			case opCanon(ib.Call.Args[0]) != w:
				bad = "the source element is not taken from the source slice"
			default:
				bad = ""
				// loop bound = w.Len(); SetLen(w.Len()) before the loop
				h := loopHeaderOf(call.(ssa.Instruction))
				if h == nil {
					bad = "element conversion is not in a loop"
					break
				}
				ifi := h.Instrs[len(h.Instrs)-1].(*ssa.If)
				cm, _ := core.CondCmp(ifi.Cond)
				ln := reflectCall(core.StripConv(cm.Y), "Len")
				if ln == nil || opCanon(ln.Call.Args[0]) != w {
					bad = "the loop does not run over the length of the source"
				}
				setLen := false
				for _, c2 := range core.Calls(cs) {
					if f := core.StaticCallee(c2); f != nil && core.FuncKey(f) == "reflect.Value.SetLen" {
						if l2 := reflectCall(core.StripConv(c2.Common().Args[1]), "Len"); l2 != nil && opCanon(l2.Call.Args[0]) == w {
							setLen = true
						}
					}
				}
				if bad == "" && !setLen {
					bad = "the destination length is not set to the length of the source"
				}
			}
		}
		c.Check(bad == "", rule, "type/conversion.convertSlice", cs.Pos(), "SetLen(len(src)); dst.Index(i) <- src.Index(i) for every i", bad)
	}
	st := c.Func("type/conversion", "", "convertStruct")
	if st != nil {
		bad := "no field conversion found"
		for _, call := range core.Calls(st) {
			if !core.IsCallTo(call, conv) {
				continue
			}
			fa, fb := reflectCall(convArg(call, 0), "Field"), reflectCall(convArg(call, 1), "Field")
			if fa == nil || fb == nil {
				bad = "fields are not converted Field(i) <- Field(j)"
				continue
			}
			// guarded by equality of two strings.ToLower(...) results
			isLower := func(v ssa.Value) bool {
				cl, ok := opCanon(v).(*ssa.Call)
				return ok && cl.Call.StaticCallee() != nil && core.FuncKey(cl.Call.StaticCallee()) == "strings.ToLower"
			}
			isName := func(v ssa.Value) bool {
				if isLower(v) {
					return true
				}
				// field .Name
				p := core.AccessPath(v)
				if len(p.Fields) > 0 && p.Fields[len(p.Fields)-1].Name() == "Name" {
					return true
				}
				// element j of a table of folded names filled beforehand, entry k from the
				// name of field k, read at the index the source field is taken with
				return foldedNameEntry(st, v, fb.Call.Args[1], isLower)
			}
			if core.Guarded(st, call.(ssa.Instruction), core.Eq(isName, isName)) {
				bad = ""
			} else if searchHelperIndex(c, st, call.(ssa.Instruction), fb.Call.Args[1], func(h *ssa.Function, v ssa.Value, arg func(ssa.Value) ssa.Value) core.EdgeMatcher {
				isN := func(x ssa.Value) bool { return isName(x) || isName(arg(x)) }
				return core.Eq(isN, isN)
			}) {
				bad = "" // source index found by a search helper that compares the names
			} else if nameIndexed(st, call.(ssa.Instruction), fb, isLower) {
				bad = "" // source index looked up by folded name in an index built from the source's field names
			} else {
				bad = "a destination field is filled from a source field without their names having been compared"
			}
		}
		c.Check(bad == "", rule, "type/conversion.convertStruct", st.Pos(), "Field(i) <- Field(j) only when the (case-folded) names are equal", bad)
	}
}

// nameIndexed: the source field index of fb = src.Field(j) is the value of a
// successful lookup, by case-folded name, in a map whose every entry maps the
// folded name of field k of a struct type to k (built in fn or by a helper).
func nameIndexed(fn *ssa.Function, at ssa.Instruction, fb *ssa.Call, isLower func(ssa.Value) bool) bool {
	e, ok := core.StripConv(opCanon(fb.Call.Args[1])).(*ssa.Extract)
	if !ok || e.Index != 0 {
		return false
	}
	lk, ok := e.Tuple.(*ssa.Lookup)
	if !ok || !lk.CommaOk || !isLower(lk.Index) {
		return false
	}
	if !core.Guarded(fn, at, core.IsTrue(okOf(lk))) {
		return false
	}
	m := opCanon(lk.X)
	builder := fn
	if cl, ok := m.(*ssa.Call); ok {
		h := cl.Call.StaticCallee()
		if h == nil || !inRepo(h) || len(h.Blocks) == 0 {
			return false
		}
		builder = h
		m = nil
		for _, r := range core.Returns(h) {
			if len(r.Results) == 1 {
				m = opCanon(core.RetVal(r, 0))
			}
		}
	}
	if _, isMake := m.(*ssa.MakeMap); !isMake {
		return false
	}
	n := 0
	for _, b := range builder.Blocks {
		for _, in := range b.Instrs {
			mu, ok := in.(*ssa.MapUpdate)
			if !ok || opCanon(mu.Map) != m {
				continue
			}
			n++
			key, ok := opCanon(mu.Key).(*ssa.Call)
			if !ok || !isLower(key) || len(key.Call.Args) != 1 {
				return false
			}
			// the folded string is the Name of Field(k) where k is the value stored
			p := core.AccessPath(key.Call.Args[0])
			if len(p.Fields) == 0 || p.Fields[len(p.Fields)-1].Name() != "Name" {
				return false
			}
			fc, _ := core.CallResult(core.RootOf(key.Call.Args[0]))
			if fc == nil || len(fc.Call.Args) == 0 {
				return false
			}
			if name := core.CalleeName(fc); !strings.HasSuffix(name, "Field") {
				return false
			}
			if !core.SameValue(fc.Call.Args[len(fc.Call.Args)-1], mu.Value) {
				return false
			}
		}
	}
	return n > 0
}

// ---------------------------------------------------------------- operands
//
// The converters take their destination and their source as two reflect.Value
// parameters (v, w) or bundled in one small struct passed by value
// (operands{into, from}).  The rules name them through these three helpers.

// isReflectValue: t is reflect.Value.
func isReflectValue(t types.Type) bool {
	n, ok := t.(*types.Named)
	return ok && n.Obj().Pkg() != nil && n.Obj().Pkg().Path() == "reflect" && n.Obj().Name() == "Value"
}

// operandStruct: fn takes exactly one parameter, a struct of two reflect.Values.
func operandStruct(fn *ssa.Function) *ssa.Parameter {
	if fn == nil || len(fn.Params) != 1 {
		return nil
	}
	st, ok := fn.Params[0].Type().Underlying().(*types.Struct)
	if !ok || st.NumFields() != 2 || !isReflectValue(st.Field(0).Type()) || !isReflectValue(st.Field(1).Type()) {
		return nil
	}
	return fn.Params[0]
}

func sameOperandForm(g, conv *ssa.Function) bool {
	if operandStruct(conv) != nil {
		return operandStruct(g) != nil
	}
	return len(g.Params) == 2
}

var operandRep = map[*ssa.Parameter][2]ssa.Value{}

// convOperand: operand i (0 destination, 1 source) of converter fn as its body sees it.
func convOperand(fn *ssa.Function, i int) ssa.Value {
	if p := operandStruct(fn); p != nil {
		if r, ok := operandRep[p]; ok && r[i] != nil {
			return r[i]
		}
		var rep [2]ssa.Value
		for _, b := range fn.Blocks {
			for _, in := range b.Instrs {
				if f, ok := in.(*ssa.Field); ok && f.X == ssa.Value(p) && f.Field < 2 && rep[f.Field] == nil {
					rep[f.Field] = f
				}
				if i, ok := operandLoad(in, p); ok && rep[i] == nil {
					rep[i] = in.(ssa.Value)
				}
			}
		}
		operandRep[p] = rep
		if rep[i] != nil {
			return rep[i]
		}
		return p
	}
	if i < len(fn.Params) {
		return fn.Params[i]
	}
	return nil
}

// opCanon: core.Canon, with every extraction of one field of an operand struct
// parameter mapped to one representative value.
func opCanon(v ssa.Value) ssa.Value {
	w := core.Canon(v)
	if f, ok := w.(*ssa.Field); ok && f.Field < 2 {
		if p, ok := f.X.(*ssa.Parameter); ok && p.Parent() != nil && operandStruct(p.Parent()) == p {
			return convOperand(p.Parent(), f.Field)
		}
	}
	if in, ok := w.(ssa.Instruction); ok && in.Parent() != nil {
		if p := operandStruct(in.Parent()); p != nil {
			if i, ok := operandLoad(in, p); ok {
				return convOperand(in.Parent(), i)
			}
		}
	}
	return w
}

// operandLoad: in is `*(&t.f)` where t is the local copy go/ssa makes of the
// operand struct parameter p (t = local; *t = p); returns f.
func operandLoad(in ssa.Instruction, p *ssa.Parameter) (int, bool) {
	ld, ok := in.(*ssa.UnOp)
	if !ok || ld.Op != token.MUL {
		return 0, false
	}
	fa, ok := ld.X.(*ssa.FieldAddr)
	if !ok || fa.Field > 1 {
		return 0, false
	}
	al, ok := fa.X.(*ssa.Alloc)
	if !ok {
		return 0, false
	}
	n := 0
	fromParam := false
	for _, r := range core.Referrers(al) {
		if st, ok := r.(*ssa.Store); ok && st.Addr == ssa.Value(al) {
			n++
			fromParam = st.Val == ssa.Value(p)
		}
		if fa2, ok := r.(*ssa.FieldAddr); ok {
			for _, u := range core.Referrers(fa2) {
				if st, ok := u.(*ssa.Store); ok && st.Addr == ssa.Value(fa2) {
					return 0, false // the copy is modified
				}
			}
		}
	}
	return fa.Field, n == 1 && fromParam
}

// convArg: operand i at a call of a converter: the i-th argument, or the value
// given to field i of the operand struct built for the call.
func convArg(call ssa.CallInstruction, i int) ssa.Value {
	args := call.Common().Args
	if len(args) == 1 {
		if st, ok := args[0].Type().Underlying().(*types.Struct); ok && st.NumFields() == 2 && isReflectValue(st.Field(0).Type()) {
			switch x := args[0].(type) {
			case *ssa.UnOp:
				if al, ok := x.X.(*ssa.Alloc); ok && x.Op == token.MUL {
					if d := core.SingleFieldDef(al, i); d != nil {
						return d
					}
					// a store per field of the literal
					for _, r := range core.Referrers(al) {
						if fa, ok := r.(*ssa.FieldAddr); ok && fa.Field == i {
							for _, u := range core.Referrers(fa) {
								if s, ok := u.(*ssa.Store); ok && s.Addr == ssa.Value(fa) {
									return s.Val
								}
							}
						}
					}
				}
			}
			return args[0]
		}
	}
	if i < len(args) {
		return args[i]
	}
	return nil
}

// foldedNameEntry: v is names[j] where names is a slice made in fn, every store
// names[k] = x has x a case-folded name of Field(k), and j is the index idx.
func foldedNameEntry(fn *ssa.Function, v, idx ssa.Value, isLower func(ssa.Value) bool) bool {
	ld, ok := core.Canon(v).(*ssa.UnOp)
	if !ok || ld.Op != token.MUL {
		return false
	}
	ia, ok := ld.X.(*ssa.IndexAddr)
	if !ok || !core.SameValue(ia.Index, idx) {
		return false
	}
	tbl, ok := core.Canon(ia.X).(*ssa.MakeSlice)
	if !ok || tbl.Parent() != fn {
		return false
	}
	n := 0
	for _, b := range fn.Blocks {
		for _, in := range b.Instrs {
			st, ok := in.(*ssa.Store)
			if !ok {
				continue
			}
			ia2, ok := st.Addr.(*ssa.IndexAddr)
			if !ok || core.Canon(ia2.X) != ssa.Value(tbl) {
				continue
			}
			n++
			key, ok := core.Canon(st.Val).(*ssa.Call)
			if !ok || !isLower(key) || len(key.Call.Args) != 1 {
				return false
			}
			p := core.AccessPath(key.Call.Args[0])
			if len(p.Fields) == 0 || p.Fields[len(p.Fields)-1].Name() != "Name" {
				return false
			}
			fc, _ := core.CallResult(core.RootOf(key.Call.Args[0]))
			if fc == nil || len(fc.Call.Args) == 0 || !strings.HasSuffix(core.CalleeName(fc), "Field") {
				return false
			}
			if !core.SameValue(fc.Call.Args[len(fc.Call.Args)-1], ia2.Index) {
				return false
			}
		}
	}
	return n > 0
}
