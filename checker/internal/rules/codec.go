package rules

import (
	"fmt"
	"go/token"
	"go/types"
	"sort"
	"strings"

	"golang.org/x/tools/go/ssa"

	"qicheck/internal/core"
)

// Shared analysis of the decoders: the decoder set D (computed by
// reader-argument flow from basic.ReadN), the decoder call sites, the
// error-flow rule, the reader-discipline rule and the ReadN rules.

type decoderSet struct {
	c        *core.Ctx
	readN    *ssa.Function
	member   map[*ssa.Function]bool
	ioReader *types.Interface
	decIface *types.Interface
	funcs    []*ssa.Function // candidate functions (non-test, non-example)
}

// isReaderType: implements io.Reader, or is/implements encoding.Decoder.
func (d *decoderSet) isReaderType(t types.Type) bool {
	if t == nil {
		return false
	}
	if d.ioReader != nil && (types.Implements(t, d.ioReader) || types.Implements(types.NewPointer(t), d.ioReader)) {
		if _, isIface := t.Underlying().(*types.Interface); isIface {
			return true
		}
		// concrete readers: *bytes.Buffer, *bytes.Reader, *os.File ...
		if p, ok := t.(*types.Pointer); ok {
			if n, ok := p.Elem().(*types.Named); ok && n.Obj().Pkg() != nil {
				switch n.Obj().Pkg().Path() + "." + n.Obj().Name() {
				case "bytes.Buffer", "bytes.Reader", "strings.Reader", "io.LimitedReader", "bufio.Reader":
					return true
				}
			}
		}
	}
	if d.decIface != nil {
		if types.Implements(t, d.decIface) {
			return true
		}
	}
	return false
}

// readerDerived: v is a reader handed to fn from outside: a parameter, a free
// variable, or a field of the receiver.
func (d *decoderSet) readerDerived(v ssa.Value, fn *ssa.Function) bool {
	if !d.isReaderType(v.Type()) && !d.isReaderType(core.Strip(v).Type()) {
		return false
	}
	// a wrapper built around a reader that was handed in (bufio.NewReader(r),
	// io.LimitReader(r, n), io.TeeReader(r, w) …) still consumes that reader
	if call, ok := core.Canon(v).(*ssa.Call); ok && !call.Call.IsInvoke() {
		if f := call.Call.StaticCallee(); f != nil && !inRepo(f) {
			for _, a := range call.Call.Args {
				if a != v && d.readerDerived(a, fn) {
					return true
				}
			}
		}
	}
	r := core.RootOf(v)
	switch x := r.(type) {
	case *ssa.Parameter:
		return true
	case *ssa.FreeVar:
		return true
	case *ssa.Alloc:
		// a parameter's spill cell resolves through RootOf; a local buffer does not qualify
		_ = x
		return false
	}
	// reached through closures: the root may belong to an enclosing function
	if p, ok := r.(*ssa.Parameter); ok && p.Parent() != fn {
		return true
	}
	return false
}

// localReader: v is a reader built inside fn over some bytes (decoder root).
func (d *decoderSet) localReader(v ssa.Value) bool {
	if !d.isReaderType(v.Type()) && !d.isReaderType(core.Strip(v).Type()) {
		return false
	}
	r := core.Canon(v)
	switch x := r.(type) {
	case *ssa.Alloc:
		return true
	case *ssa.Call:
		if f := x.Call.StaticCallee(); f != nil {
			k := core.FuncKey(f)
			return k == "bytes.NewBuffer" || k == "bytes.NewReader" || k == "bytes.NewBufferString" || strings.HasSuffix(k, ".NewDecoder")
		}
	}
	return false
}

func hasErrorResult(sig *types.Signature) int {
	for i := sig.Results().Len() - 1; i >= 0; i-- {
		if core.IsErrorType(sig.Results().At(i).Type()) {
			return i
		}
	}
	return -1
}

// decoderCall describes a call that consumes from a reader.
type decoderCall struct {
	call   ssa.CallInstruction
	callee string
	reader ssa.Value // the reader argument
	prop   bool      // the reader was handed to the enclosing function (propagating call)
	errIdx int       // index of the error in the result tuple (-1 = single error result)
}

// decoderCallsIn lists the decoder calls of fn given the current set.
func (d *decoderSet) decoderCallsIn(fn *ssa.Function) []decoderCall {
	var out []decoderCall
	for _, call := range core.Calls(fn) {
		if _, isDefer := call.(*ssa.Defer); isDefer {
			continue
		}
		cc := call.Common()
		sig := cc.Signature()
		ei := hasErrorResult(sig)
		if ei < 0 {
			continue
		}
		var args []ssa.Value
		isD := false
		name := core.CalleeName(call)
		if f := cc.StaticCallee(); f != nil {
			// the standard library's exact readers count as decoding primitives:
			// they report a short input, so their error must be propagated too
			if k := core.FuncKey(f); !d.member[f] && k != "io.ReadFull" && k != "io.ReadAtLeast" {
				continue
			}
			isD = true
			args = cc.Args
		} else if cc.IsInvoke() {
			// interface method with a reader parameter (TypeReader.Read, BinaryDecoder.Read,
			// CustomDecoder.Decode) or on a reader-like receiver (Decoder.Decode)
			args = append([]ssa.Value{cc.Value}, cc.Args...)
			isD = true
		} else {
			// dynamic call of a function value taking a reader (NewValue's dispatch table)
			args = cc.Args
			isD = true
		}
		if !isD {
			continue
		}
		var reader ssa.Value
		prop := false
		for _, a := range args {
			if d.readerDerived(a, fn) {
				reader, prop = a, true
				break
			}
		}
		if reader == nil {
			for _, a := range args {
				if d.localReader(a) {
					reader = a
					break
				}
			}
		}
		if reader == nil {
			continue
		}
		if cc.IsInvoke() && cc.Value == reader && cc.Method.Name() != "Decode" {
			// a method of the reader itself (r.Read, buf.Bytes, buf.Len …): not a decoder call
			continue
		}
		if sig.Results().Len() == 1 {
			ei = -1
		}
		out = append(out, decoderCall{call, name, reader, prop, ei})
	}
	return out
}

func newDecoderSet(c *core.Ctx) *decoderSet {
	d := &decoderSet{c: c, member: map[*ssa.Function]bool{}}
	d.readN = c.Func("type/basic", "", "ReadN")
	if p := c.ByPath["io"]; p != nil && p.Types != nil {
		if tn, ok := p.Types.Scope().Lookup("Reader").(*types.TypeName); ok {
			d.ioReader, _ = tn.Type().Underlying().(*types.Interface)
		}
	}
	if n := c.Named("type/encoding", "Decoder"); n != nil {
		d.decIface, _ = n.Underlying().(*types.Interface)
	}
	if d.readN == nil || d.ioReader == nil {
		return d
	}
	for _, fn := range c.RepoFuncs() {
		p := fn.Pkg.Pkg.Path()
		if c.IsTestFile(fn) && c.Tier != "thorough" {
			continue
		}
		if strings.Contains(p, "/cmd/") || strings.HasSuffix(p, "/cmd") {
			continue
		}
		d.funcs = append(d.funcs, fn)
	}
	d.member[d.readN] = true
	for changed := true; changed; {
		changed = false
		for _, fn := range d.funcs {
			if d.member[fn] || hasErrorResult(fn.Signature) < 0 {
				continue
			}
			for _, dc := range d.decoderCallsIn(fn) {
				if dc.prop {
					d.member[fn] = true
					changed = true
					break
				}
			}
		}
	}
	return d
}

// members returns D in a deterministic order.
func (d *decoderSet) members() []*ssa.Function {
	var out []*ssa.Function
	for f := range d.member {
		out = append(out, f)
	}
	sort.Slice(out, func(i, j int) bool { return core.FuncKey(out[i]) < core.FuncKey(out[j]) })
	return out
}

// errValueOf returns the SSA value of the error produced by a decoder call.
func errValueOf(dc decoderCall) ssa.Value {
	cv, ok := dc.call.(*ssa.Call)
	if !ok {
		return nil
	}
	if dc.errIdx < 0 {
		return cv
	}
	for _, r := range core.Referrers(cv) {
		if e, ok := r.(*ssa.Extract); ok && e.Index == dc.errIdx {
			return e
		}
	}
	return nil
}

// flowsFrom: v is e, or a phi / wrapper with e among its (transitive) sources.
func flowsFrom(v, e ssa.Value, depth int) bool {
	if depth > 8 || v == nil {
		return false
	}
	v = core.Canon(v)
	if v == e {
		return true
	}
	switch x := v.(type) {
	case *ssa.Phi:
		for _, ed := range x.Edges {
			if flowsFrom(ed, e, depth+1) {
				return true
			}
		}
	case *ssa.Call:
		// fmt.Errorf("...: %s", err) / errors wrapping: a fresh non-nil error
		if f := x.Call.StaticCallee(); f != nil {
			k := core.FuncKey(f)
			if k == "fmt.Errorf" || k == "errors.New" {
				return true
			}
			// an error-wrapping helper of the repository (readError(field, err)): every
			// return is a certainly non-nil error, or hands back an argument that flows from e
			if inRepo(f) && len(f.Blocks) > 0 && depth < 4 {
				all, n := true, 0
				for _, r := range core.Returns(f) {
					if len(r.Results) != 1 {
						all = false
						break
					}
					n++
					if errorReturnConst(r) {
						continue
					}
					ok := false
					if p, isParam := core.Canon(core.RetVal(r, 0)).(*ssa.Parameter); isParam {
						for i, fp := range f.Params {
							if fp == p && i < len(x.Call.Args) && flowsFrom(x.Call.Args[i], e, depth+1) {
								ok = true
							}
						}
					}
					if !ok {
						all = false
					}
				}
				if all && n > 0 {
					return true
				}
			}
		}
	case *ssa.UnOp:
		if x.Op == token.MUL {
			if _, ok := x.X.(*ssa.Global); ok {
				return true // package-level error value
			}
			// a multi-store error variable: accept if e is stored into it somewhere
			if al, ok := x.X.(*ssa.Alloc); ok {
				for _, r := range core.Referrers(al) {
					if st, ok := r.(*ssa.Store); ok && st.Addr == ssa.Value(al) && flowsFrom(st.Val, e, depth+1) {
						return true
					}
				}
			}
		}
	}
	return false
}

// errorPropagates: on every path from call on which its error e may be
// non-nil, fn returns a non-nil error deriving from e (or a certainly non-nil
// one).  Returns "" or what is wrong.
func errorPropagates(c *core.Ctx, fn *ssa.Function, call ssa.Instruction, e ssa.Value, ei int, callee string) string {
	isE := func(v ssa.Value) bool {
		v = core.Canon(v)
		if v == e {
			return true
		}
		if phi, ok := v.(*ssa.Phi); ok {
			for _, ed := range phi.Edges {
				if core.Canon(ed) == e {
					return true
				}
			}
		}
		return false
	}
	r := core.ReachFrom(core.After(call), nil, core.CutEstablishing(core.Eq(isE, core.IsNilConst)))
	bad := ""
	for _, ret := range core.Returns(fn) {
		if !r.Has(ret) {
			continue
		}
		rv := core.RetVal(ret, ei)
		if rv == nil || core.IsNilConst(rv) {
			bad = "when " + callee + " fails, " + core.FuncKey(fn) + " can still return a nil error (at " + c.Pos(ret.Pos()) + ")"
			continue
		}
		if !flowsFrom(rv, e, 0) {
			// a different error value: accept only if it is certainly non-nil
			if !errorReturnConst(ret) {
				bad = "when " + callee + " fails, the error returned at " + c.Pos(ret.Pos()) + " does not derive from it"
			}
		}
	}
	return bad
}

// ruleErrorFlow: every decoder call inside a member of D propagates its error.
func ruleErrorFlow(c *core.Ctx, d *decoderSet, rule string, only func(*ssa.Function) bool) int {
	n := 0
	for _, fn := range d.members() {
		if only != nil && !only(fn) {
			continue
		}
		ei := hasErrorResult(fn.Signature)
		ord := map[string]int{}
		for _, dc := range d.decoderCallsIn(fn) {
			ord[dc.callee]++
			key := fmt.Sprintf("%s/call:%s#%d", core.FuncKey(fn), dc.callee, ord[dc.callee])
			n++
			e := errValueOf(dc)
			if e == nil {
				if _, isGo := dc.call.(*ssa.Go); isGo {
					c.Fail(rule, key, dc.call.Pos(), "a decoding step runs asynchronously: its error cannot be reported")
					continue
				}
				c.Fail(rule, key, dc.call.Pos(), "the error returned by "+dc.callee+" is discarded: a truncated input is accepted and the rest is left zero-filled")
				continue
			}
			if len(core.Referrers(e)) == 0 {
				c.Fail(rule, key, dc.call.Pos(), "the error returned by "+dc.callee+" is never looked at (overwritten or ignored): a truncated input is accepted")
				continue
			}
			bad := errorPropagates(c, fn, dc.call.(ssa.Instruction), e, ei, dc.callee)
			c.Check(bad == "", rule, key, dc.call.Pos(), "a failure of "+dc.callee+" reaches a non-nil error return on every path", bad)
		}
	}
	return n
}

// ruleReaderDiscipline: a reader handed to a decoder is only passed on to
// decoder calls (or stored in a decoder value); it is not type-asserted,
// wrapped or handed to foreign consumers that do not report short input.
func ruleReaderDiscipline(c *core.Ctx, d *decoderSet, rule string, only func(*ssa.Function) bool) {
	accept := map[string]bool{"io.ReadFull": true, "io.ReadAtLeast": true}
	for _, fn := range d.members() {
		if only != nil && !only(fn) {
			continue
		}
		if fn == d.readN {
			continue
		}
		var roots []ssa.Value
		for _, p := range fn.Params {
			if d.isReaderType(p.Type()) {
				roots = append(roots, p)
			}
		}
		for _, fv := range fn.FreeVars {
			if pt, ok := fv.Type().(*types.Pointer); ok && d.isReaderType(pt.Elem()) {
				roots = append(roots, fv)
			}
		}
		// the reader held in a field of the receiver (qiDecoder.r): every load of it
		fieldRoot := map[ssa.Value]bool{}
		if fn.Signature.Recv() != nil && len(fn.Params) > 0 {
			for _, b := range fn.Blocks {
				for _, in := range b.Instrs {
					v, ok := in.(ssa.Value)
					if !ok || !d.isReaderType(v.Type()) {
						continue
					}
					switch x := in.(type) {
					case *ssa.Field:
					case *ssa.UnOp:
						if _, isFA := x.X.(*ssa.FieldAddr); !isFA || x.Op != token.MUL {
							continue
						}
					default:
						continue
					}
					if len(core.AccessPath(v).Fields) > 0 && core.RootOf(v) == ssa.Value(fn.Params[0]) {
						roots = append(roots, v)
						fieldRoot[v] = true
					}
				}
			}
		}
		dcalls := map[ssa.Instruction]bool{}
		for _, dc := range d.decoderCallsIn(fn) {
			dcalls[dc.call.(ssa.Instruction)] = true
		}
		for ri, root := range roots {
			var uses []ssa.Instruction
			if fieldRoot[root] {
				uses = allUses(root)
			} else if _, isFV := root.(*ssa.FreeVar); isFV {
				for _, r := range core.Referrers(root) {
					if u, ok := r.(*ssa.UnOp); ok && u.Op == token.MUL {
						uses = append(uses, allUses(u)...)
					}
				}
			} else {
				uses = allUses(root)
			}
			key := fmt.Sprintf("%s/reader:%s", core.FuncKey(fn), root.Name())
			if fieldRoot[root] {
				key = fmt.Sprintf("%s/reader-field:%s#%d", core.FuncKey(fn), core.AccessPath(root).String(), ri)
			}
			bad := ""
			for _, u := range uses {
				if u.Parent() != fn {
					continue
				}
				switch x := u.(type) {
				case ssa.CallInstruction:
					if dcalls[u] {
						continue
					}
					if f := x.Common().StaticCallee(); f != nil {
						if accept[core.FuncKey(f)] {
							continue
						}
						if strings.HasPrefix(core.FuncKey(f), "type/encoding.New") {
							continue
						}
						if f.Name() == "Len" || f.Name() == "String" {
							continue
						}
						// a *bytes.Buffer parameter used as the destination of the basic writers is
						// an output buffer, not an input reader
						if _, isIface := root.Type().Underlying().(*types.Interface); !isIface && f.Pkg != nil && f.Pkg.Pkg.Path() == core.Module+"/type/basic" && strings.HasPrefix(f.Name(), "Write") {
							continue
						}
						// a function of the repository that is handed the reader and never
						// touches it (the constructor of the void value)
						if inRepo(f) && len(f.Blocks) > 0 {
							unused := true
							for i, a := range x.Common().Args {
								if core.Canon(a) == core.Canon(root) || (i < len(f.Params) && core.RootOf(a) == root) {
									if i < len(f.Params) && len(core.Referrers(f.Params[i])) > 0 {
										unused = false
									}
								}
							}
							if unused {
								continue
							}
						}
					}
					bad = "the input reader is handed to " + core.CalleeName(x) + " (at " + c.Pos(u.Pos()) + "), which is not one of the decoders: consumers such as io.Copy, io.LimitReader, bufio or Buffer.Next do not report a short input"
				case *ssa.TypeAssert:
					bad = "the input reader is type-asserted (at " + c.Pos(u.Pos()) + "): a fast path for one concrete reader bypasses the short-read checks of basic.ReadN"
				case *ssa.MakeClosure:
					continue
				case *ssa.Store:
					// stored into a decoder value under construction
					if _, ok := x.Addr.(*ssa.FieldAddr); ok {
						continue
					}
					bad = "the input reader is stored (at " + c.Pos(u.Pos()) + ")"
				case *ssa.BinOp, *ssa.If, *ssa.Return, *ssa.Phi:
					continue
				default:
					if _, ok := u.(*ssa.Field); ok {
						continue
					}
				}
			}
			c.Check(bad == "", rule, key, fn.Pos(), "the reader is only consumed through decoders of the repository", bad)
		}
	}
}

// ruleReadNCalls: basic.ReadN(r, buf, n) is always called with n == len(buf).
func ruleReadNCalls(c *core.Ctx, d *decoderSet, rule string) {
	n := 0
	for _, fn := range d.funcs {
		ord := 0
		for _, call := range core.Calls(fn) {
			if !core.IsCallTo(call, d.readN) {
				continue
			}
			ord++
			n++
			key := fmt.Sprintf("%s/ReadN#%d", core.FuncKey(fn), ord)
			args := call.Common().Args
			buf, ln := core.Canon(args[1]), args[2]
			// a buffer kept in a struct field (m.Payload = make(...)): use the value stored last
			if u, isLoad := buf.(*ssa.UnOp); isLoad && u.Op == token.MUL {
				if fa, isFA := u.X.(*ssa.FieldAddr); isFA {
					if st := lastFieldStore(fn, fa, call.(ssa.Instruction)); st != nil {
						buf = core.Canon(st.Val)
					}
				}
			}
			ok := false
			why := "the length given to ReadN is not the length of the buffer it fills: fewer bytes than the buffer holds are required (the tail stays zero and a truncated input is accepted) or more (no progress)"
			switch b := buf.(type) {
			case *ssa.MakeSlice:
				ok = sameLen(b.Len, ln)
			case *ssa.Call:
				// a small constructor of the repository: newPayload(size) returning make([]byte, size)
				if j, isCtor := makesLenOfParam(b.Call.StaticCallee()); isCtor && j < len(b.Call.Args) {
					ok = sameLen(b.Call.Args[j], ln)
				}
			case *ssa.Slice:
				// []byte{0,0,0,0}: slice of a fresh array of constant length
				if al, isAlloc := b.X.(*ssa.Alloc); isAlloc {
					if at, isArr := al.Type().(*types.Pointer).Elem().Underlying().(*types.Array); isArr {
						k, isConst := core.ConstInt(ln)
						hiOK := b.High == nil
						if h, isK := core.ConstInt(b.High); b.High != nil && isK && h == at.Len() {
							hiOK = true
						}
						ok = isConst && k == at.Len() && b.Low == nil && hiOK
					}
				}
			}
			if !ok {
				// len(buf) form
				if lc, isCall := core.StripConv(ln).(*ssa.Call); isCall {
					if bi, isB := lc.Call.Value.(*ssa.Builtin); isB && bi.Name() == "len" && (core.Canon(lc.Call.Args[0]) == buf || core.SameValue(lc.Call.Args[0], args[1]) || sameLen(lc.Call.Args[0], args[1])) {
						ok = true
					}
				}
			}
			c.Check(ok, rule, key, call.Pos(), "length argument equals the buffer length", why)
		}
	}
	if n == 0 {
		c.Undecided(rule, "ReadN calls", token.NoPos, "no call of basic.ReadN found")
	}
}

// makesLenOfParam: f returns, on every path, a slice made on the spot whose length is its
// parameter j (the empty slice only where that parameter is zero).
func makesLenOfParam(f *ssa.Function) (int, bool) {
	if f == nil || len(f.Blocks) == 0 || len(f.Blocks) > 12 {
		return 0, false
	}
	idx := -1
	var zero []*ssa.Return
	for _, r := range core.Returns(f) {
		if len(r.Results) != 1 {
			return 0, false
		}
		mk, ok := core.Canon(core.RetVal(r, 0)).(*ssa.MakeSlice)
		if !ok {
			return 0, false
		}
		if k, isK := core.ConstInt(mk.Len); isK && k == 0 {
			zero = append(zero, r)
			continue
		}
		p, isP := core.Canon(core.StripConv(mk.Len)).(*ssa.Parameter)
		if !isP {
			return 0, false
		}
		j := -1
		for i, fp := range f.Params {
			if fp == p {
				j = i
			}
		}
		if j < 0 || (idx >= 0 && idx != j) {
			return 0, false
		}
		idx = j
	}
	if idx < 0 {
		return 0, false
	}
	for _, r := range zero {
		isP := func(v ssa.Value) bool { return core.Canon(core.StripConv(v)) == ssa.Value(f.Params[idx]) }
		isZ := func(v ssa.Value) bool { k, ok := core.ConstInt(v); return ok && k == 0 }
		if !core.Guarded(f, r, core.Eq(isP, isZ)) {
			return 0, false
		}
	}
	return idx, true
}

// sameLen: the two length expressions denote the same number (modulo integer conversions).
func sameLen(a, b ssa.Value) bool {
	x, y := core.StripConv(a), core.StripConv(b)
	if core.SameValue(x, y) {
		return true
	}
	// conversions of the same load (e.g. m.Header.Size read twice without a store in between)
	px, py := core.AccessPath(x), core.AccessPath(y)
	if len(px.Fields) > 0 && len(px.Fields) == len(py.Fields) && core.RootOf(x) == core.RootOf(y) {
		for i := range px.Fields {
			if px.Fields[i] != py.Fields[i] {
				return false
			}
		}
		return true
	}
	return false
}

// ruleReadNComplete: in ReadN itself, nil is returned only when length bytes
// were read; an error is returned only if the read is short or the error is
// not io.EOF (data arriving together with end-of-stream is a success); the
// retry loop accumulates exactly what Read returned.
func ruleReadNComplete(c *core.Ctx, rule string) {
	ruleRetryLoop(c, rule, "ReadN", "Read")
}

// completeMatcher: "everything was transferred" — size == length, !(size < length), or
// nothing to transfer (length <= 0).
func completeMatcher(isSize, isLen func(ssa.Value) bool) core.EdgeMatcher {
	return func(cm core.Cmp) (bool, bool) {
		if isSize(cm.X) && isLen(cm.Y) {
			switch cm.Op {
			case token.EQL, token.GEQ:
				return true, false
			case token.NEQ, token.LSS:
				return false, true
			}
		}
		if isLen(cm.X) && isSize(cm.Y) {
			switch cm.Op {
			case token.EQL, token.LEQ:
				return true, false
			case token.NEQ, token.GTR:
				return false, true
			}
		}
		// nothing to transfer: length <= 0 (the loop would not have been entered)
		x, y, op := cm.X, cm.Y, cm.Op
		if isLen(y) {
			x, y = y, x
			switch op {
			case token.LSS:
				op = token.GTR
			case token.LEQ:
				op = token.GEQ
			case token.GTR:
				op = token.LSS
			case token.GEQ:
				op = token.LEQ
			}
		}
		if k, isK := core.ConstInt(y); isLen(x) && isK {
			switch op {
			case token.LEQ:
				return k <= 0, false
			case token.LSS:
				return k <= 1, false
			case token.EQL:
				return k == 0, false
			case token.GTR:
				return false, k <= 0
			case token.GEQ:
				return false, k <= 1
			case token.NEQ:
				return false, k == 0
			}
		}
		return false, false
	}
}

// shortMatcher: "the transfer is short" on the size updated with this iteration's count.
func shortMatcher(isNewSize, isLen func(ssa.Value) bool) core.EdgeMatcher {
	return func(cm core.Cmp) (bool, bool) {
		if isNewSize(cm.X) && isLen(cm.Y) {
			switch cm.Op {
			case token.NEQ, token.LSS:
				return true, false
			case token.EQL, token.GEQ:
				return false, true
			}
		}
		if isLen(cm.X) && isNewSize(cm.Y) {
			switch cm.Op {
			case token.NEQ, token.GTR:
				return true, false
			case token.EQL, token.LEQ:
				return false, true
			}
		}
		return false, false
	}
}

// isEOFValue: a load of io.EOF.
func isEOFValue(v ssa.Value) bool {
	u, ok := core.Canon(v).(*ssa.UnOp)
	if !ok || u.Op != token.MUL {
		return false
	}
	g, ok := u.X.(*ssa.Global)
	return ok && g.Name() == "EOF"
}

// ruleRetryLoop checks ReadN (method "Read") or WriteN (method "Write").
func ruleRetryLoop(c *core.Ctx, rule, fname, method string) {
	fn := c.Func("type/basic", "", fname)
	if fn == nil || len(fn.Params) != 3 {
		c.Undecided(rule, "type/basic."+fname, token.NoPos, "anchor not found")
		return
	}
	length := ssa.Value(fn.Params[2])
	// delegation idiom
	for _, call := range core.Calls(fn) {
		if f := core.StaticCallee(call); f != nil && (core.FuncKey(f) == "io.ReadFull" || core.FuncKey(f) == "io.ReadAtLeast") {
			c.Pass(rule, "type/basic."+fname+"/delegates", call.Pos(), "delegates to "+core.FuncKey(f))
			return
		}
	}
	var read *ssa.Call
	for _, call := range core.Calls(fn) {
		cc := call.Common()
		if cc.IsInvoke() && cc.Method.Name() == method {
			read, _ = call.(*ssa.Call)
		}
	}
	loopFn, viaStep := fn, false
	if read == nil {
		// the loop in a private function that is handed the transfer as a function value:
		// return transferN("read", length, func(done int) (int, error) { return r.Read(buf[done:]) })
		if l, stepCall, lenParam, ok := loopThroughStep(c, fn, method); ok {
			loopFn, read, length, viaStep = l, stepCall, lenParam, true
		}
	}
	if read == nil {
		c.Undecided(rule, "type/basic."+fname, fn.Pos(), "unrecognised shape: no "+method+" call on the stream and no delegation to io.ReadFull")
		return
	}
	var nRead, errV ssa.Value
	for _, r := range core.Referrers(read) {
		if e, ok := r.(*ssa.Extract); ok {
			if e.Index == 0 {
				nRead = e
			} else {
				errV = e
			}
		}
	}
	// the accumulator: size' = size + n, and the read fills buf[size:]
	var acc *ssa.BinOp
	for _, r := range core.Referrers(nRead) {
		if bo, ok := r.(*ssa.BinOp); ok && bo.Op == token.ADD {
			acc = bo
		}
	}
	okAcc := false
	if acc != nil {
		other := acc.X
		if core.Canon(other) == nRead {
			other = acc.Y
		}
		if viaStep {
			// the step is handed the offset; that it transfers buf[offset:] was checked on the literal
			if len(read.Call.Args) == 1 && core.Canon(read.Call.Args[0]) == core.Canon(other) {
				okAcc = true
			}
		} else if sl, ok := core.Canon(read.Call.Args[0]).(*ssa.Slice); ok && sl.Low != nil && core.Canon(sl.Low) == core.Canon(other) && sl.High == nil {
			if core.Canon(sl.X) == ssa.Value(loopFn.Params[1]) {
				okAcc = true
			}
		}
	}
	c.Check(okAcc, rule, "type/basic."+fname+"/accumulates", read.Pos(), "each "+method+" works on buf[size:] and size grows by exactly what it returned",
		"the retry loop does not read into buf[size:] with size advanced by the returned count: fragments overwrite each other or leave gaps")
	isSize := func(v ssa.Value) bool {
		v = core.Canon(v)
		if acc != nil && v == ssa.Value(acc) {
			return true
		}
		if phi, ok := v.(*ssa.Phi); ok && acc != nil {
			for _, e := range phi.Edges {
				if core.Canon(e) == ssa.Value(acc) {
					return true
				}
			}
		}
		return false
	}
	isLen := func(v ssa.Value) bool { return core.Canon(v) == length }
	complete := completeMatcher(isSize, isLen)
	// the verdict of the loop handed to a private helper of the package: `return
	// transferResult(verb, size, length, err)`.  Each return of the helper is then an exit of
	// the loop; what guards it is looked for on the way to the call, or inside the helper
	// with its parameters standing for the size just updated, the length and the error of
	// this iteration.
	type fwd struct {
		call *ssa.Call
		h    *ssa.Function
	}
	forwarded := map[*ssa.Return]fwd{}
	for _, ret := range core.Returns(loopFn) {
		if successReturn(ret) || len(ret.Results) == 0 {
			continue
		}
		cr, _ := core.CallResult(core.Canon(core.RetVal(ret, len(ret.Results)-1)))
		if cr == nil {
			continue
		}
		if h := cr.Call.StaticCallee(); h != nil && isPrivateHelper(c, h) && len(h.Blocks) > 0 && h.Pkg == loopFn.Pkg && h.Signature.Results().Len() == 1 {
			forwarded[ret] = fwd{cr, h}
		}
	}
	// inHelper: is target (a return of the helper) behind want, the matchers being rebuilt on
	// the helper's parameters
	inHelper := func(f fwd, target ssa.Instruction, want string) bool {
		var pSize, pLen, pErr ssa.Value
		for i, a := range f.call.Call.Args {
			if i >= len(f.h.Params) {
				break
			}
			switch {
			case acc != nil && core.Canon(a) == ssa.Value(acc):
				pSize = f.h.Params[i]
			case core.Canon(a) == length:
				pLen = f.h.Params[i]
			case errV != nil && core.Canon(a) == errV:
				pErr = f.h.Params[i]
			}
		}
		if pSize == nil || pLen == nil || pErr == nil {
			return false
		}
		is := func(p ssa.Value) func(ssa.Value) bool {
			return func(v ssa.Value) bool { return core.Canon(v) == p }
		}
		switch want {
		case "complete":
			return core.Guarded(f.h, target, completeMatcher(is(pSize), is(pLen)))
		default:
			return core.Guarded(f.h, target, core.AnyOf(shortMatcher(is(pSize), is(pLen)), core.Ne(is(pErr), isEOFValue)))
		}
	}
	ok := true
	for _, ret := range core.Returns(loopFn) {
		if successReturn(ret) && !core.Guarded(loopFn, ret, complete) {
			ok = false
		}
		if f, isF := forwarded[ret]; isF && !core.Guarded(loopFn, ret, complete) {
			for _, hr := range core.Returns(f.h) {
				if successReturn(hr) && !inHelper(f, hr, "complete") {
					ok = false
				}
			}
		}
	}
	c.Check(ok, rule, "type/basic."+fname+"/nil-only-when-complete", loopFn.Pos(), "nil is returned only across size == length (or !(size < length))",
		fname+" can return nil although fewer than length bytes were transferred: a short read/write goes unnoticed (truncated input accepted / message cut on the wire)")
	// error only if short or not EOF; "short" must be established on the size
	// updated with this iteration's count (the loop condition tested the old size)
	isNewSize := func(v ssa.Value) bool { return acc != nil && core.Canon(v) == ssa.Value(acc) }
	short := shortMatcher(isNewSize, isLen)
	isErr := func(v ssa.Value) bool { return core.Canon(v) == errV }
	notEOF := core.Ne(isErr, isEOFValue)
	ok = true
	for _, ret := range core.Returns(loopFn) {
		if successReturn(ret) {
			continue
		}
		if core.Guarded(loopFn, ret, core.AnyOf(short, notEOF)) {
			continue
		}
		if f, isF := forwarded[ret]; isF {
			// every failing return of the helper is an error exit of the loop
			for _, hr := range core.Returns(f.h) {
				if !successReturn(hr) && !inHelper(f, hr, "error") {
					ok = false
				}
			}
			continue
		}
		ok = false
	}
	c.Check(ok, rule, "type/basic."+fname+"/eof-with-data", loopFn.Pos(), "an error is returned only if the read is short or the stream error is not io.EOF",
		fname+" reports an error although all bytes were transferred, when the last fragment comes together with io.EOF: a complete message at end of stream is rejected")
	// the stream is asked again only after a call that reported no error: an error that
	// comes with data and is not repeated (io.Reader promises no repetition) is otherwise
	// lost, and the caller blocks on a dead connection instead of shutting it down
	again := core.ReachFrom(core.After(read), nil, core.CutEstablishing(core.Eq(isErr, core.IsNilConst)))
	c.Check(!again.Has(read), rule, "type/basic."+fname+"/retry-only-without-error", read.Pos(), "the next "+method+" is reached only across err == nil",
		fname+" calls "+method+" again after a call that returned an error (when it also transferred bytes): a failure reported once, together with data, is swallowed and the end point never learns that its connection broke")
}

// lastFieldStore returns the store into the same field (same root, same path)
// that dominates `before` and is dominated by every other such store.
func lastFieldStore(fn *ssa.Function, fa *ssa.FieldAddr, before ssa.Instruction) *ssa.Store {
	want := core.AccessPath(fa)
	root := core.RootOf(fa)
	var best *ssa.Store
	for _, b := range fn.Blocks {
		for _, in := range b.Instrs {
			st, ok := in.(*ssa.Store)
			if !ok {
				continue
			}
			fa2, ok := st.Addr.(*ssa.FieldAddr)
			if !ok || !core.Dominates(st, before) {
				continue
			}
			p := core.AccessPath(fa2)
			if len(p.Fields) != len(want.Fields) || core.RootOf(fa2) != root {
				continue
			}
			same := true
			for i := range p.Fields {
				if p.Fields[i] != want.Fields[i] {
					same = false
				}
			}
			if !same {
				continue
			}
			if best == nil || core.Dominates(best, st) {
				best = st
			}
		}
	}
	return best
}

// loopThroughStep: fn is `return L(…, length, …, func(done int) (int, error) {
// return stream.<method>(buf[done:]) })` with L a private function of the
// package that calls the function value it was given, once, in its loop.
// Returns L, that call, and L's parameter receiving fn's length.
func loopThroughStep(c *core.Ctx, fn *ssa.Function, method string) (*ssa.Function, *ssa.Call, ssa.Value, bool) {
	rets := core.Returns(fn)
	if len(rets) != 1 || len(rets[0].Results) != 1 || len(fn.Params) != 3 {
		return nil, nil, nil, false
	}
	cr, _ := core.CallResult(core.Canon(core.RetVal(rets[0], 0)))
	if cr == nil {
		return nil, nil, nil, false
	}
	l := cr.Call.StaticCallee()
	if l == nil || !isPrivateHelper(c, l) || l.Pkg != fn.Pkg || len(l.Blocks) == 0 {
		return nil, nil, nil, false
	}
	var lenParam, stepParam ssa.Value
	for i, a := range cr.Call.Args {
		if i >= len(l.Params) {
			break
		}
		if core.Canon(a) == ssa.Value(fn.Params[2]) {
			lenParam = l.Params[i]
		}
		mc, ok := core.Canon(a).(*ssa.MakeClosure)
		if !ok {
			continue
		}
		g, _ := mc.Fn.(*ssa.Function)
		if g == nil || len(g.Params) != 1 || len(g.Blocks) != 1 {
			return nil, nil, nil, false
		}
		// the literal: one invoke of method on the captured stream with buf[param:], results handed back
		var tr *ssa.Call
		for _, call := range core.Calls(g) {
			cc := call.Common()
			if cc.IsInvoke() && cc.Method.Name() == method {
				if tr != nil {
					return nil, nil, nil, false
				}
				tr, _ = call.(*ssa.Call)
			} else {
				return nil, nil, nil, false
			}
		}
		if tr == nil {
			return nil, nil, nil, false
		}
		bound := func(v ssa.Value) ssa.Value {
			v = core.Canon(v)
			if fv, ok := v.(*ssa.FreeVar); ok {
				if b := core.FreeVarBinding(fv); b != nil {
					return core.Canon(b)
				}
			}
			return v
		}
		if bound(tr.Call.Value) != ssa.Value(fn.Params[0]) {
			return nil, nil, nil, false
		}
		sl, ok := core.Canon(tr.Call.Args[0]).(*ssa.Slice)
		if !ok || sl.High != nil || sl.Low == nil || core.Canon(sl.Low) != ssa.Value(g.Params[0]) || bound(sl.X) != ssa.Value(fn.Params[1]) {
			return nil, nil, nil, false
		}
		gr := core.Returns(g)
		if len(gr) != 1 || len(gr[0].Results) != 2 {
			return nil, nil, nil, false
		}
		for k := 0; k < 2; k++ {
			e, ok := core.Canon(gr[0].Results[k]).(*ssa.Extract)
			if !ok || e.Tuple != ssa.Value(tr) || e.Index != k {
				return nil, nil, nil, false
			}
		}
		stepParam = l.Params[i]
	}
	if lenParam == nil || stepParam == nil {
		return nil, nil, nil, false
	}
	var stepCall *ssa.Call
	for _, call := range core.Calls(l) {
		cc := call.Common()
		if !cc.IsInvoke() && cc.StaticCallee() == nil && core.Canon(cc.Value) == stepParam {
			if stepCall != nil {
				return nil, nil, nil, false
			}
			stepCall, _ = call.(*ssa.Call)
		}
	}
	if stepCall == nil {
		return nil, nil, nil, false
	}
	return l, stepCall, lenParam, true
}
