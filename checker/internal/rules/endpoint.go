package rules

import (
	"fmt"
	"go/token"
	"go/types"
	"sort"
	"strings"

	"golang.org/x/tools/go/ssa"

	"qicheck/internal/core"
)

// Shared anchors and rules on bus/net/endpoint.go (C10, C11, C12, C17).

type epAnchors struct {
	handlers, stream, mutex       *types.Var // endPoint fields
	hFilter, hConsumer, hCloser   *types.Var // Handler fields
	hCloseWith, epCloseWith       *ssa.Function
	removeHandler, makeHandler    *ssa.Function
	addHandler, dispatch, process *ssa.Function
	send, newHandler              *ssa.Function
	class                         core.LockClass
}

func getEP(c *core.Ctx, rule string) *epAnchors {
	ep := strct(c, "bus/net", "endPoint")
	hd := strct(c, "bus/net", "Handler")
	a := &epAnchors{class: core.LockClass{Owner: "bus/net.endPoint", Field: "handlersMutex"}}
	if ep != nil && hd != nil {
		a.handlers = fld(c, "bus/net", "endPoint", "handlers")
		a.stream = fld(c, "bus/net", "endPoint", "stream")
		a.mutex = fld(c, "bus/net", "endPoint", "handlersMutex")
		a.hFilter = fld(c, "bus/net", "Handler", "filter")
		a.hConsumer = fld(c, "bus/net", "Handler", "consumer")
		a.hCloser = fld(c, "bus/net", "Handler", "closer")
		if a.mutex != nil {
			a.class = classOf(ep, a.mutex)
		}
		// unexported methods: by name, else by role
		msgRead := c.Func("bus/net", "Message", "Read")
		a.hCloseWith = c.MethodLike(hd, "closeWith", func(fn *ssa.Function) bool {
			for _, b := range fn.Blocks {
				for _, in := range b.Instrs {
					if ch := isCloseBuiltin(in); ch != nil && isFieldOf(ch, a.hConsumer) {
						return true
					}
				}
			}
			return false
		})
		a.epCloseWith = c.MethodLike(ep, "closeWith", methodsCalling(func(call ssa.CallInstruction) bool {
			cc := call.Common()
			return cc.IsInvoke() && cc.Method.Name() == "Close" && isFieldOf(cc.Value, a.stream) && call.Parent().Name() != "Close"
		}))
		a.dispatch = c.MethodLike(ep, "dispatch", methodsCalling(func(call ssa.CallInstruction) bool {
			cc := call.Common()
			return !cc.IsInvoke() && cc.StaticCallee() == nil && isFieldOf(cc.Value, a.hFilter)
		}))
		a.process = c.MethodLike(ep, "process", methodsCalling(func(call ssa.CallInstruction) bool {
			return msgRead != nil && core.IsCallTo(call, msgRead)
		}))
		a.removeHandler = c.MethodLike(ep, "RemoveHandler", nil)
		a.makeHandler = c.MethodLike(ep, "MakeHandler", nil)
		a.addHandler = c.MethodLike(ep, "AddHandler", nil)
		a.send = c.MethodLike(ep, "Send", nil)
		a.newHandler = c.Func("bus/net", "", "NewHandler")
	}
	missing := []string{}
	chk := func(ok bool, n string) {
		if !ok {
			missing = append(missing, n)
		}
	}
	chk(a.handlers != nil, "endPoint.handlers")
	chk(a.stream != nil, "endPoint.stream")
	chk(a.mutex != nil, "endPoint.handlersMutex")
	chk(a.hFilter != nil, "Handler.filter")
	chk(a.hConsumer != nil, "Handler.consumer")
	chk(a.hCloser != nil, "Handler.closer")
	chk(a.hCloseWith != nil, "Handler.closeWith")
	chk(a.epCloseWith != nil, "endPoint.closeWith")
	chk(a.removeHandler != nil, "endPoint.RemoveHandler")
	chk(a.makeHandler != nil, "endPoint.MakeHandler")
	chk(a.addHandler != nil, "endPoint.AddHandler")
	chk(a.dispatch != nil, "endPoint.dispatch")
	chk(a.process != nil, "endPoint.process")
	chk(a.send != nil, "endPoint.Send")
	if len(missing) > 0 {
		c.Undecided(rule, "bus/net anchors", token.NoPos, "not found: "+strings.Join(missing, ", "))
		return nil
	}
	return a
}

// readSite describes where the reader goroutine reads the next message: the
// call in process (Message.Read itself, or a helper used by process only that
// reads one message and returns it), and how the message and the error of
// that read are named in process.
type readSite struct {
	call    ssa.CallInstruction // in process
	helper  *ssa.Function       // nil when process calls Message.Read itself
	inner   ssa.CallInstruction // the Message.Read call
	msgIdx  int                 // result of the helper carrying the message
	problem string
	// the helper also dispatches the message it read (receive() error): the
	// dispatch call inside it, nil otherwise
	dispatchInHelper ssa.CallInstruction
}

func (a *epAnchors) readSite(c *core.Ctx) *readSite {
	msgRead := c.Func("bus/net", "Message", "Read")
	rs := &readSite{msgIdx: -1}
	unit := exclusiveUnit(c, a.process)
	n := 0
	for _, call := range core.Calls(a.process) {
		f := core.StaticCallee(call)
		switch {
		case f == nil:
		case f == msgRead:
			rs.call, rs.inner = call, call
			n++
		case unit[f] && f != a.process:
			for _, ic := range core.Calls(f) {
				if core.IsCallTo(ic, msgRead) {
					rs.call, rs.helper, rs.inner = call, f, ic
					n++
				}
			}
		}
	}
	if n != 1 {
		rs.problem = fmt.Sprintf("process reads messages at %d places (expected one Message.Read, directly or in a helper of its own)", n)
		return rs
	}
	if rs.helper != nil {
		// the helper returns the message it read, and the error of the read
		ei := hasErrorResult(rs.helper.Signature)
		if ei < 0 {
			rs.problem = "the helper that reads the message does not return an error"
			return rs
		}
		iv, _ := rs.inner.(*ssa.Call)
		if iv == nil {
			rs.problem = "the message is read asynchronously"
			return rs
		}
		if bad := errorPropagates(c, rs.helper, iv, iv, ei, "Message.Read"); bad != "" {
			rs.problem = bad
			return rs
		}
		msg := core.Canon(rs.inner.Common().Args[0])
		for _, r := range core.Returns(rs.helper) {
			if !successReturn(r) {
				continue
			}
			for i := range r.Results {
				if i != ei && core.Canon(core.RetVal(r, i)) == msg {
					rs.msgIdx = i
				}
			}
		}
		if rs.msgIdx < 0 {
			// … or it dispatches that message itself and only returns the error of the read
			for _, ic := range core.Calls(rs.helper) {
				if core.IsCallTo(ic, a.dispatch) && len(ic.Common().Args) > 1 && core.Canon(ic.Common().Args[1]) == msg {
					rs.dispatchInHelper = ic
				}
			}
			if rs.dispatchInHelper == nil {
				rs.problem = "the helper that reads the message does not return the message it read"
			}
		}
	}
	return rs
}

// isErr: v is the error of the read (as seen in process).
func (rs *readSite) isErr(v ssa.Value) bool {
	cr, _ := core.CallResult(v)
	return cr != nil && ssa.CallInstruction(cr) == rs.call && core.IsErrorType(v.Type())
}

// isMsg: v is the message just read (as seen in process).
func (rs *readSite) isMsg(v ssa.Value) bool {
	v = core.Canon(v)
	if rs.helper == nil {
		return v == core.Canon(rs.call.Common().Args[0])
	}
	cr, idx := core.CallResult(v)
	return cr != nil && ssa.CallInstruction(cr) == rs.call && idx == rs.msgIdx
}

// isCloseBuiltin returns the closed channel operand if in is close(ch).
func isCloseBuiltin(in ssa.Instruction) ssa.Value {
	call, ok := in.(ssa.CallInstruction)
	if !ok {
		return nil
	}
	if bi, ok := call.Common().Value.(*ssa.Builtin); ok && bi.Name() == "close" && len(call.Common().Args) == 1 {
		return call.Common().Args[0]
	}
	return nil
}

// slotLoadIndex: v is a load of endPoint.handlers[idx]; returns idx.
func (a *epAnchors) slotLoadIndex(v ssa.Value) (ssa.Value, bool) {
	v = core.Canon(v)
	u, ok := v.(*ssa.UnOp)
	if !ok || u.Op != token.MUL {
		return nil, false
	}
	ia, ok := u.X.(*ssa.IndexAddr)
	if !ok || !isFieldOf(ia.X, a.handlers) {
		return nil, false
	}
	return ia.Index, true
}

// slotStores lists stores into endPoint.handlers[...] of fn.
func (a *epAnchors) slotStores(fn *ssa.Function) []*ssa.Store {
	var out []*ssa.Store
	for _, b := range fn.Blocks {
		for _, in := range b.Instrs {
			st, ok := in.(*ssa.Store)
			if !ok {
				continue
			}
			if ia, ok := st.Addr.(*ssa.IndexAddr); ok && isFieldOf(ia.X, a.handlers) {
				out = append(out, st)
			}
		}
	}
	return out
}

// sameIndexVia: i2 is idx itself, or the parameter of a private helper that
// every call of that helper in fn binds to idx (e.registered(id) testing
// e.handlers[id] != nil for its caller).
func sameIndexVia(c *core.Ctx, fn *ssa.Function, i2, idx ssa.Value) bool {
	if core.SameValue(i2, idx) {
		return true
	}
	p, ok := core.Canon(i2).(*ssa.Parameter)
	if !ok || p.Parent() == fn || !isPrivateHelper(c, p.Parent()) {
		return false
	}
	h := p.Parent()
	pi := -1
	for i, q := range h.Params {
		if q == p {
			pi = i
		}
	}
	n := 0
	for _, call := range core.Calls(fn) {
		if core.StaticCallee(call) != h {
			continue
		}
		n++
		if pi < 0 || pi >= len(call.Common().Args) || !core.SameValue(call.Common().Args[pi], idx) {
			return false
		}
	}
	return n > 0
}

// takeOutHelper: h is a private method of the end point that takes a handler
// out of the table for its caller — "func (e *endPoint) takeHandler(id int)
// *Handler": every return hands back nil or the content of the slot whose
// index is the helper's parameter, read with the handlers mutex held
// exclusively by the helper itself, behind the bounds of the table, and the
// slot is cleared before that mutex is released.  The index of the id
// parameter is returned.
func (a *epAnchors) takeOutHelper(c *core.Ctx, lc *core.LockCache, h *ssa.Function) (int, bool) {
	if h == nil || len(h.Blocks) == 0 || !isPrivateHelper(c, h) {
		return 0, false
	}
	withFlag := false
	switch res := h.Signature.Results(); res.Len() {
	case 1:
	case 2:
		// (handler, found bool)
		b, ok := res.At(1).Type().Underlying().(*types.Basic)
		if !ok || b.Kind() != types.Bool {
			return 0, false
		}
		withFlag = true
	default:
		return 0, false
	}
	pi := -1
	some := false
	for _, ret := range core.Returns(h) {
		rv := core.Canon(core.ResolveLoad(core.RetVal(ret, 0)))
		if withFlag {
			found, isConst := core.ConstBool(core.ResolveLoad(core.RetVal(ret, 1)))
			if !isConst {
				return 0, false
			}
			if !found {
				continue // what is returned next to found=false is not a handler
			}
		}
		if core.IsNilConst(rv) {
			continue
		}
		idx, ok := a.slotLoadIndex(rv)
		if !ok {
			return 0, false
		}
		p, isP := core.Canon(idx).(*ssa.Parameter)
		if !isP || p.Parent() != h {
			return 0, false
		}
		cur := -1
		for i, q := range h.Params {
			if q == p {
				cur = i
			}
		}
		if cur < 0 || (pi >= 0 && pi != cur) {
			return 0, false
		}
		pi = cur
		ld := rv.(ssa.Instruction)
		// … or every caller holds it around the call ("handlersMutex must be held")
		callerHolds := false
		if sites, _ := c.CallSites(); len(sites[h]) > 0 {
			callerHolds = true
			for _, cs := range sites[h] {
				if _, plain := cs.(*ssa.Call); !plain {
					callerHolds = false
					break
				}
				if hc, _ := lc.Get(cs.Parent()).HeldAt(cs.(ssa.Instruction), a.class, true); !hc {
					callerHolds = false
					break
				}
			}
		}
		if held, _ := lc.Get(h).HeldAt(ld, a.class, true); !held && !callerHolds {
			return 0, false
		}
		isID := func(v ssa.Value) bool { return core.Canon(v) == ssa.Value(p) }
		isLen := func(v ssa.Value) bool {
			call, ok := core.Canon(v).(*ssa.Call)
			if !ok {
				return false
			}
			bi, ok := call.Call.Value.(*ssa.Builtin)
			return ok && bi.Name() == "len" && isFieldOf(call.Call.Args[0], a.handlers)
		}
		ltLen := func(cm core.Cmp) (bool, bool) {
			if isID(cm.X) && isLen(cm.Y) {
				switch cm.Op {
				case token.LSS:
					return true, false
				case token.GEQ:
					return false, true
				}
			}
			if isLen(cm.X) && isID(cm.Y) {
				switch cm.Op {
				case token.GTR:
					return true, false
				case token.LEQ:
					return false, true
				}
			}
			return false, false
		}
		if !core.Guarded(h, ld, core.LowerBound0(isID)) || !core.Guarded(h, ld, ltLen) {
			return 0, false
		}
		// cleared between the read and the return, with no release in between
		clears := func(x ssa.Instruction) bool {
			st, ok := x.(*ssa.Store)
			if !ok || !core.IsNilConst(st.Val) {
				return false
			}
			ia, ok := st.Addr.(*ssa.IndexAddr)
			return ok && isFieldOf(ia.X, a.handlers) && core.SameValue(ia.Index, idx)
		}
		isRv := func(v ssa.Value) bool { return core.Canon(v) == rv }
		if core.ReachFrom(core.After(ld), clears, core.CutEstablishing(core.Eq(isRv, core.IsNilConst))).Has(ret) {
			return 0, false // a way to the return, with a handler in hand, that does not clear the slot
		}
		for _, b := range h.Blocks {
			for _, in := range b.Instrs {
				if clears(in) {
					if held, _ := lc.Get(h).HeldAt(in, a.class, true); !held && !callerHolds {
						return 0, false
					}
					if ldi, ok := rv.(ssa.Instruction); ok && unlockBetween(h, ldi, in, a.class) {
						return 0, false
					}
				}
			}
		}
		some = true
	}
	return pi, some && pi >= 0
}

// ---------------------------------------------------------------- C17 rules

func ruleCloseOwner(c *core.Ctx, a *epAnchors, rule string) {
	// 1. close(h.consumer) only in Handler.closeWith, after the closer ran
	n := 0
	for _, fn := range srcFuncsOfPkg(c, "bus/net") {
		for _, b := range fn.Blocks {
			for _, in := range b.Instrs {
				ch := isCloseBuiltin(in)
				if ch == nil || !isFieldOf(ch, a.hConsumer) {
					continue
				}
				n++
				key := "close(consumer)@" + core.FuncKey(fn)
				if fn != a.hCloseWith {
					c.Fail(rule, key, in.Pos(), "the handler queue is closed outside Handler.closeWith: a second close (or a send after close) panics")
					continue
				}
				// closer call precedes close unless closer == nil
				var closerCalls []ssa.Instruction
				deferred := false
				for _, call := range core.Calls(fn) {
					if !call.Common().IsInvoke() && call.Common().StaticCallee() == nil && isFieldOf(call.Common().Value, a.hCloser) {
						if _, plain := call.(*ssa.Call); !plain {
							deferred = true // defer h.closer(err) / go h.closer(err): runs after the close below
							continue
						}
						closerCalls = append(closerCalls, call.(ssa.Instruction))
					}
				}
				if deferred {
					c.Fail(rule, key, in.Pos(), "the close callback is deferred or started asynchronously: it runs after the queue has been closed (the documented order is callback, then close; client.Call relies on it to report the real disconnection error)")
					continue
				}
				if len(closerCalls) == 0 {
					c.Fail(rule, key, in.Pos(), "Handler.closeWith closes the queue without invoking the close callback")
					continue
				}
				isCloser := func(v ssa.Value) bool { return isFieldOf(v, a.hCloser) }
				cut := core.CutEstablishing(core.Eq(isCloser, core.IsNilConst))
				r := core.ReachEntry(fn, func(x ssa.Instruction) bool {
					for _, cc := range closerCalls {
						if cc == x {
							return true
						}
					}
					return false
				}, cut)
				if r.Has(in) {
					c.Fail(rule, key, in.Pos(), "the queue can be closed before / without the close callback having run")
					continue
				}
				// exactly one close per invocation
				if again := core.CanReach(in, func(x ssa.Instruction) bool {
					ch2 := isCloseBuiltin(x)
					return ch2 != nil && isFieldOf(ch2, a.hConsumer)
				}); again != nil {
					c.Fail(rule, key, in.Pos(), "the queue can be closed twice in one closeWith")
					continue
				}
				allRet := true
				for _, ret := range core.Returns(fn) {
					if !core.MustPassBefore(fn, ret, func(x ssa.Instruction) bool { return x == in }) {
						allRet = false
					}
				}
				if !allRet {
					c.Fail(rule, key, in.Pos(), "Handler.closeWith can return without closing the queue: the consumer goroutine never terminates")
					continue
				}
				c.Pass(rule, key, in.Pos(), "closer (if any) runs, then the queue is closed exactly once")
			}
		}
	}
	if n == 0 {
		c.Fail(rule, "close(consumer)", a.hCloseWith.Pos(), "no close of Handler.consumer found: handler queues are never closed")
	}
}

func ruleCloseWithCallers(c *core.Ctx, a *epAnchors, lc *core.LockCache, rule string) {
	// 2. Handler.closeWith called only on the content of a non-nil slot read
	// under handlersMutex, the slot being cleared before the mutex is released
	n := 0
	for _, fn := range c.RepoFuncs() {
		if c.IsTestFile(fn) {
			continue
		}
		for i, call := range core.Calls(fn) {
			if !core.IsCallTo(call, a.hCloseWith) {
				continue
			}
			n++
			key := fmt.Sprintf("Handler.closeWith-call@%s#%d", core.FuncKey(fn), i)
			in := call.(ssa.Instruction)
			recv := call.Common().Args[0]
			idx, ok := a.slotLoadIndex(recv)
			if !ok {
				// handed over by a helper that took it out of the table under the mutex
				if cr, _ := core.CallResult(core.Canon(recv)); cr != nil {
					if _, isTake := a.takeOutHelper(c, lc, cr.Call.StaticCallee()); isTake {
						r0 := core.Canon(recv)
						isRecv := func(v ssa.Value) bool { return core.Canon(v) == r0 }
						isFound := func(v ssa.Value) bool {
							e, ok := core.Canon(v).(*ssa.Extract)
							return ok && e.Tuple == ssa.Value(cr) && e.Index == 1
						}
						if core.Guarded(fn, in, core.Ne(isRecv, core.IsNilConst)) || core.Guarded(fn, in, core.IsTrue(isFound)) {
							c.Pass(rule, key, call.Pos(), "the handler was taken out of the table by "+core.FuncKey(cr.Call.StaticCallee())+" (non-nil slot read and cleared in one critical section) before it is closed")
							continue
						}
					}
				}
				// a private helper handed the handler of a slot and its index by the function that
				// holds the mutex (visit(i, h, msg)): the slot is read and tested by the caller, the
				// helper closes the handler and clears handlers[i] before it returns, without
				// touching the mutex
				if hp, isParam := core.Canon(recv).(*ssa.Parameter); isParam && isPrivateHelper(c, fn) {
					all, _ := c.CallSites()
					if sites := all[fn]; len(sites) == 1 {
						cs := sites[0]
						caller := cs.Parent()
						pi := -1
						for i2, q := range fn.Params {
							if q == hp {
								pi = i2
							}
						}
						okH := false
						if _, plain := cs.(*ssa.Call); plain && pi >= 0 && pi < len(cs.Common().Args) {
							harg := cs.Common().Args[pi]
							if idx2, ok2 := a.slotLoadIndex(harg); ok2 {
								isSlot2 := func(v ssa.Value) bool {
									i3, ok3 := a.slotLoadIndex(v)
									return ok3 && core.SameValue(i3, idx2)
								}
								held, _ := lc.Get(caller).HeldAt(cs.(ssa.Instruction), a.class, true)
								touches := false
								for _, c2 := range core.Calls(fn) {
									if op, isOp := core.LockOpOf(c2); isOp && op.Class == a.class {
										touches = true
									}
								}
								ld, isLd := core.Canon(harg).(ssa.Instruction)
								noGap := isLd && ld.Parent() == caller && !unlockBetween(caller, ld, cs.(ssa.Instruction), a.class)
								clears := func(x ssa.Instruction) bool {
									st, ok := x.(*ssa.Store)
									if !ok || !core.IsNilConst(st.Val) {
										return false
									}
									ia, ok := st.Addr.(*ssa.IndexAddr)
									if !ok || !isFieldOf(ia.X, a.handlers) {
										return false
									}
									q, isQ := core.Canon(ia.Index).(*ssa.Parameter)
									if !isQ || q.Parent() != fn {
										return false
									}
									for i2, q2 := range fn.Params {
										if q2 == q && i2 < len(cs.Common().Args) && core.SameValue(cs.Common().Args[i2], idx2) {
											return true
										}
									}
									return false
								}
								cleared := true
								r := core.ReachFrom(core.After(in), clears, nil)
								for _, ret := range core.Returns(fn) {
									if r.Has(ret) {
										cleared = false
									}
								}
								if held && !touches && noGap && cleared && core.Guarded(caller, cs.(ssa.Instruction), core.Ne(isSlot2, core.IsNilConst)) {
									okH = true
								}
							}
						}
						if okH {
							c.Pass(rule, key, call.Pos(), "the handler and its index are handed down by "+core.FuncKey(caller)+", which read and tested the slot under handlersMutex; the helper closes it and clears the slot before returning")
							continue
						}
					}
				}
				c.Fail(rule, key, call.Pos(), "Handler.closeWith is called on a handler that is not read from an endPoint.handlers slot: it can run twice for one handler")
				continue
			}
			// guarded by slot != nil
			isSlot := func(v ssa.Value) bool {
				i2, ok := a.slotLoadIndex(v)
				return ok && sameIndexVia(c, fn, i2, idx)
			}
			if !core.Guarded(fn, in, core.Ne(isSlot, core.IsNilConst)) {
				c.Fail(rule, key, call.Pos(), "Handler.closeWith is called on a slot not tested against nil")
				continue
			}
			// the handler taken out of the table: read under the mutex and its slot
			// cleared before the mutex is released, on every way to the close; whoever
			// took it out is the only one that can close it, with or without the mutex
			if ld, ok := core.Canon(recv).(ssa.Instruction); ok && ld.Parent() == fn {
				if h, _ := lc.Get(fn).HeldAt(ld, a.class, true); h {
					isUnlock := func(x ssa.Instruction) bool {
						cc, isCall := x.(ssa.CallInstruction)
						if !isCall {
							return false
						}
						if _, isDefer := x.(*ssa.Defer); isDefer {
							return false
						}
						op, isOp := core.LockOpOf(cc)
						return isOp && op.Class == a.class && op.Kind == core.OpUnlock
					}
					locked := core.ReachFrom(core.After(ld), isUnlock, nil)
					clearsLocked := func(x ssa.Instruction) bool {
						st, ok := x.(*ssa.Store)
						if !ok || !core.IsNilConst(st.Val) || isUnlock(x) {
							return false
						}
						ia, ok := st.Addr.(*ssa.IndexAddr)
						return ok && isFieldOf(ia.X, a.handlers) && core.SameValue(ia.Index, idx) && locked.Has(x)
					}
					if !core.ReachFrom(core.After(ld), clearsLocked, nil).Has(in) {
						c.Pass(rule, key, call.Pos(), "the handler is taken out of the table (non-nil slot read and cleared in one critical section) before it is closed")
						continue
					}
				}
			}
			if h, _ := lc.Get(fn).HeldAt(in, a.class, true); !h {
				c.Fail(rule, key, call.Pos(), "Handler.closeWith is called without handlersMutex held on a handler that is still in the table: it races with dispatch/RemoveHandler and can run twice")
				continue
			}
			// the slot was read and tested in the critical section that closes it: no
			// release of the mutex between reading the slot and closing the handler
			if ld, ok := core.Canon(recv).(ssa.Instruction); ok && ld.Parent() == fn {
				if unlockBetween(fn, ld, in, a.class) {
					c.Fail(rule, key, call.Pos(), "handlersMutex is released and re-acquired between reading the handler slot and closing the handler: RemoveHandler / shutdown can close the same handler in that window (double close: the closer runs twice and close of closed channel panics)")
					continue
				}
			}
			// slot cleared on every path from the call to a return / unlock
			clears := func(x ssa.Instruction) bool {
				st, ok := x.(*ssa.Store)
				if !ok || !core.IsNilConst(st.Val) {
					return false
				}
				ia, ok := st.Addr.(*ssa.IndexAddr)
				return ok && isFieldOf(ia.X, a.handlers) && core.SameValue(ia.Index, idx)
			}
			// the slot may also be cleared first: every path from reading the slot to
			// the close passes the clearing store (same critical section, see above)
			if ld, ok := core.Canon(recv).(ssa.Instruction); ok && ld.Parent() == fn {
				if before := core.ReachFrom(core.After(ld), clears, nil); !before.Has(in) {
					c.Pass(rule, key, call.Pos(), "non-nil slot, under handlersMutex, slot cleared in the same critical section before the close")
					continue
				}
			}
			r := core.ReachFrom(core.After(in), clears, nil)
			bad := ""
			for _, ret := range core.Returns(fn) {
				if r.Has(ret) {
					bad = "a path returns after closing the handler without clearing its slot: the next close (shutdown, RemoveHandler, non-keep filter) closes it a second time"
				}
			}
			for _, cc := range core.Calls(fn) {
				if op, ok := core.LockOpOf(cc); ok && op.Class == a.class && op.Kind == core.OpUnlock {
					if _, isDefer := cc.(*ssa.Defer); !isDefer && r.Has(cc.(ssa.Instruction)) {
						bad = "handlersMutex is released between closing the handler and clearing its slot"
					}
				}
			}
			// loop back to a new iteration without clearing
			if _, isGo := call.(*ssa.Go); !isGo {
				if r.Has(in) {
					bad = "the loop continues after closing the handler without clearing its slot"
				}
			} else if r.Has(in) {
				bad = "the loop continues after scheduling the close without clearing the slot"
			}
			if bad != "" {
				c.Fail(rule, key, call.Pos(), bad)
				continue
			}
			c.Pass(rule, key, call.Pos(), "non-nil slot, under handlersMutex, slot cleared before the mutex is released")
		}
	}
	if n < 3 {
		c.Undecided(rule, "Handler.closeWith-call", a.hCloseWith.Pos(), fmt.Sprintf("only %d call sites of Handler.closeWith found (shutdown, RemoveHandler, dispatch expected)", n))
	}
}

func ruleSlotFill(c *core.Ctx, a *epAnchors, lc *core.LockCache, rule string) {
	// 3. slots are filled only by MakeHandler with the Handler it allocated,
	// into a nil slot or by append
	n := 0
	for _, fn := range srcFuncsOfPkg(c, "bus/net") {
		for i, st := range a.slotStores(fn) {
			if core.IsNilConst(st.Val) {
				continue
			}
			n++
			key := fmt.Sprintf("slot-fill@%s#%d", core.FuncKey(fn), i)
			isFresh := func(v ssa.Value) bool {
				if call, _ := core.CallResult(core.Canon(v)); call != nil && a.newHandler != nil && core.IsCallTo(call, a.newHandler) {
					return true
				}
				if al, ok := core.Canon(v).(*ssa.Alloc); ok && core.TypeIs(al.Type(), "bus/net", "Handler") {
					return true
				}
				return false
			}
			fresh := false
			callerHolds := false
			if fn != a.makeHandler {
				// a private helper of the end point that MakeHandler (and nobody else) calls
				// with the handler it has just allocated: attach(h), putHandler(h), storeHandler(h)
				sites, _ := c.CallSites()
				pj := -1
				if p, isP := core.Canon(st.Val).(*ssa.Parameter); isP {
					for j, fp := range fn.Params {
						if fp == p {
							pj = j
						}
					}
				}
				okHelper := isPrivateHelper(c, fn) && pj >= 0 && len(sites[fn]) > 0
				allHold := true
				for _, cs := range sites[fn] {
					if cs.Parent() != a.makeHandler {
						okHelper = false
						break
					}
					if _, plain := cs.(*ssa.Call); !plain || pj >= len(cs.Common().Args) || !isFresh(cs.Common().Args[pj]) {
						okHelper = false
					}
					if h, _ := lc.Get(cs.Parent()).HeldAt(cs.(ssa.Instruction), a.class, true); !h {
						allHold = false
					}
				}
				if !okHelper {
					c.Fail(rule, key, st.Pos(), "a handler slot is filled outside MakeHandler")
					continue
				}
				fresh, callerHolds = true, allHold
			} else {
				fresh = isFresh(st.Val)
			}
			if !fresh {
				c.Fail(rule, key, st.Pos(), "the handler stored in the slot is not the one MakeHandler just allocated")
				continue
			}
			ia := st.Addr.(*ssa.IndexAddr)
			if !core.Guarded(fn, st, a.freeSlotMatcher(ia.Index)) && !a.indexFromFreeSlotHelper(c, fn, st, ia.Index) {
				c.Fail(rule, key, st.Pos(), "MakeHandler overwrites a slot that was not tested to be nil: a live handler is dropped without being closed, or its id is reused before removal")
				continue
			}
			if h, _ := lc.Get(fn).HeldAt(st, a.class, true); !h && !callerHolds {
				c.Fail(rule, key, st.Pos(), "slot filled without handlersMutex")
				continue
			}
			c.Pass(rule, key, st.Pos(), "fresh handler into a nil slot under handlersMutex")
		}
	}
	if n == 0 {
		c.Undecided(rule, "slot-fill", a.makeHandler.Pos(), "no slot fill found in MakeHandler")
	}
	// RemoveHandler: success only for a valid, non-nil slot
	fn := a.removeHandler
	idp := fn.Params[1]
	isID := func(v ssa.Value) bool { return core.Canon(v) == ssa.Value(idp) }
	isLen := func(v ssa.Value) bool {
		call, ok := core.Canon(v).(*ssa.Call)
		if !ok {
			return false
		}
		bi, ok := call.Call.Value.(*ssa.Builtin)
		return ok && bi.Name() == "len" && isFieldOf(call.Call.Args[0], a.handlers)
	}
	ltLen := func(cm core.Cmp) (bool, bool) {
		if isID(cm.X) && isLen(cm.Y) {
			switch cm.Op {
			case token.LSS:
				return true, false
			case token.GEQ:
				return false, true
			}
		}
		if isLen(cm.X) && isID(cm.Y) {
			switch cm.Op {
			case token.GTR:
				return true, false
			case token.LEQ:
				return false, true
			}
		}
		return false, false
	}
	isSlot := func(v ssa.Value) bool {
		i2, ok := a.slotLoadIndex(v)
		return ok && (isID(i2) || sameIndexVia(c, fn, i2, idp))
	}
	for i, ret := range core.Returns(fn) {
		if !successReturn(ret) {
			continue
		}
		key := fmt.Sprintf("RemoveHandler-success#%d", i)
		ok := core.Guarded(fn, ret, core.LowerBound0(isID)) && core.Guarded(fn, ret, ltLen) && core.Guarded(fn, ret, core.Ne(isSlot, core.IsNilConst))
		if !ok {
			// … or for a non-nil handler that a take-out helper returned for this id
			isTaken := func(v ssa.Value) bool {
				cr, _ := core.CallResult(core.Canon(v))
				if cr == nil {
					return false
				}
				pi, isTake := a.takeOutHelper(c, lc, cr.Call.StaticCallee())
				return isTake && pi < len(cr.Call.Args) && isID(cr.Call.Args[pi])
			}
			isFoundFlag := func(v ssa.Value) bool {
				e, isE := core.Canon(v).(*ssa.Extract)
				if !isE || e.Index != 1 {
					return false
				}
				cr, isC := e.Tuple.(*ssa.Call)
				if !isC {
					return false
				}
				pi, isTake := a.takeOutHelper(c, lc, cr.Call.StaticCallee())
				return isTake && pi < len(cr.Call.Args) && isID(cr.Call.Args[pi])
			}
			ok = core.Guarded(fn, ret, core.Ne(isTaken, core.IsNilConst)) || core.Guarded(fn, ret, core.IsTrue(isFoundFlag))
		}
		c.Check(ok, rule, key, ret.Pos(), "nil error only for 0 <= id < len(handlers) with a non-nil slot",
			"RemoveHandler can report success for an out-of-range id or an empty slot (removing an unknown or already-removed handler must be an error)")
	}
}

func ruleSendOwner(c *core.Ctx, a *epAnchors, lc *core.LockCache, rule string) {
	// 4. the only send on a handler queue is the non-blocking one in dispatch,
	// under the mutex, on a non-nil slot whose own filter matched
	n := 0
	for _, fn := range srcFuncsOfPkg(c, "bus/net") {
		for _, b := range fn.Blocks {
			for _, in := range b.Instrs {
				var ch ssa.Value
				blocking := true
				switch x := in.(type) {
				case *ssa.Send:
					ch = x.Chan
				case *ssa.Select:
					for _, st := range x.States {
						if st.Dir == types.SendOnly && isFieldOf(st.Chan, a.hConsumer) {
							ch = st.Chan
							blocking = x.Blocking
						}
					}
				}
				if ch == nil || !isFieldOf(ch, a.hConsumer) {
					continue
				}
				n++
				key := "send(consumer)@" + core.FuncKey(fn)
				// the enqueue may live in a private helper (e.g. a method of Handler) that
				// is only called from dispatch: the conditions are then checked at that call
				site := in
				siteFn := fn
				hval := ch
				matchedInHelper := false
				matchedUp := false
				if fn != a.dispatch {
					// the enqueue may live in a private helper (a method of Handler, offer(h, msg,
					// status), visit(i, h, msg) calling offer …) reached from dispatch only: the
					// handler is followed up the single chain of plain calls to the slot it was
					// read from in dispatch, where the conditions are checked
					sites, _ := c.CallSites()
					cur := fn
					root := core.RootOf(ch)
					var csite ssa.CallInstruction
					okChain := true
					for depth := 0; depth < 3 && cur != a.dispatch; depth++ {
						if !isPrivateHelper(c, cur) || len(sites[cur]) != 1 {
							okChain = false
							break
						}
						cs := sites[cur][0]
						if _, plain := cs.(*ssa.Call); !plain {
							c.Fail(rule, key, in.Pos(), "the enqueue helper is started asynchronously or deferred")
							okChain = false
							break
						}
						pi := -1
						for i, p := range cur.Params {
							if ssa.Value(p) == root {
								pi = i
							}
						}
						if pi < 0 || pi >= len(cs.Common().Args) {
							c.Fail(rule, key, in.Pos(), "the queue written by the helper does not belong to the handler it was given")
							okChain = false
							break
						}
						hv := cs.Common().Args[pi]
						csite = cs
						cur = cs.Parent()
						{
							// was the filter evaluated at this level, on the handler handed down?
							hr := core.RootOf(hv)
							isM := func(v ssa.Value) bool {
								e, ok := core.Canon(v).(*ssa.Extract)
								if !ok || e.Index != 0 {
									return false
								}
								call, ok := e.Tuple.(*ssa.Call)
								if !ok || !isFieldOf(call.Call.Value, a.hFilter) {
									return false
								}
								return core.RootOf(call.Call.Value) == hr
							}
							if core.Guarded(cur, cs.(ssa.Instruction), core.IsTrue(isM)) {
								matchedUp = true
							}
						}
						if cur != a.dispatch {
							root = core.RootOf(hv)
							if _, isP := root.(*ssa.Parameter); !isP {
								okChain = false
								break
							}
						} else {
							hval = hv
						}
					}
					if !okChain || cur != a.dispatch || csite == nil {
						if okChain || cur != a.dispatch {
							c.Fail(rule, key, in.Pos(), "a message is sent on a handler queue outside dispatch: it can race with the close of the queue (send on closed channel)")
						}
						continue
					}
					site, siteFn = csite.(ssa.Instruction), a.dispatch
					// the filter may have been evaluated in the helper itself, on the handler it was given
					hp := core.RootOf(ch)
					isMatchedHere := func(v ssa.Value) bool {
						e, ok := core.Canon(v).(*ssa.Extract)
						if !ok || e.Index != 0 {
							return false
						}
						call, ok := e.Tuple.(*ssa.Call)
						if !ok || !isFieldOf(call.Call.Value, a.hFilter) {
							return false
						}
						return core.RootOf(call.Call.Value) == hp
					}
					matchedInHelper = core.Guarded(fn, in, core.IsTrue(isMatchedHere)) || matchedUp
				}
				if blocking {
					c.Fail(rule, key, in.Pos(), "dispatch blocks on a full handler queue while holding handlersMutex: one slow consumer stalls the connection (and every RemoveHandler/MakeHandler)")
					continue
				}
				if h, _ := lc.Get(siteFn).HeldAt(site, a.class, true); !h {
					c.Fail(rule, key, in.Pos(), "message enqueued without handlersMutex: it can be sent after the queue was closed, and arrival order is no longer kept")
					continue
				}
				hroot := core.RootOf(hval)
				if siteFn != fn {
					hroot = core.Canon(hval)
				}
				idx, ok := a.slotLoadIndex(hroot)
				if !ok {
					c.Fail(rule, key, in.Pos(), "the handler whose queue receives the message is not read from a handlers slot")
					continue
				}
				isSlot := func(v ssa.Value) bool {
					i2, ok := a.slotLoadIndex(v)
					return ok && core.SameValue(i2, idx)
				}
				if !core.Guarded(siteFn, site, core.Ne(isSlot, core.IsNilConst)) {
					c.Fail(rule, key, in.Pos(), "send on the queue of a slot not tested against nil")
					continue
				}
				if ld, ok := hroot.(ssa.Instruction); ok && ld.Parent() == siteFn && unlockBetween(siteFn, ld, site, a.class) {
					c.Fail(rule, key, in.Pos(), "handlersMutex is released between reading the handler slot and sending on its queue: the queue can be closed in between (send on closed channel)")
					continue
				}
				// matched by its own filter
				isMatched := func(v ssa.Value) bool {
					e, ok := core.Canon(v).(*ssa.Extract)
					if !ok || e.Index != 0 {
						return false
					}
					call, ok := e.Tuple.(*ssa.Call)
					if !ok || !isFieldOf(call.Call.Value, a.hFilter) {
						return false
					}
					return core.RootOf(call.Call.Value) == hroot
				}
				if !matchedInHelper && !core.Guarded(siteFn, site, core.IsTrue(isMatched)) {
					c.Fail(rule, key, in.Pos(), "a handler's queue receives a message its own filter did not select")
					continue
				}
				c.Pass(rule, key, in.Pos(), "non-blocking, under handlersMutex, non-nil slot, own filter matched")
			}
		}
	}
	if n == 0 {
		c.Fail(rule, "send(consumer)", a.dispatch.Pos(), "dispatch never enqueues a message")
	}
}

// handlerSite is a registration of a handler on an endpoint.
type handlerSite struct {
	fn                    *ssa.Function
	call                  ssa.CallInstruction
	via                   string // MakeHandler | AddHandler
	filter, queue, closer ssa.Value
	consumer              ssa.Value // AddHandler only
	ord                   int
}

func (s handlerSite) key() string {
	return fmt.Sprintf("%s@%s#%d", s.via, core.FuncKey(s.fn), s.ord)
}

// handlerSites enumerates every MakeHandler/AddHandler call of the repository
// (non-test code).
// thinWrapperOf: f is a private function that does nothing but call the
// EndPoint method `name` on one of its parameters with its other parameters
// (converted if need be) and hand back the result (makeHandler(e, f, q, c)
// handlerID { return handlerID(e.MakeHandler(f, q, c)) }).  perm[i] is the index
// of the parameter of f passed as the i-th argument of the method.
func thinWrapperOf(c *core.Ctx, f *ssa.Function, name string) ([]int, bool) {
	if f == nil || len(f.Blocks) != 1 || !isPrivateHelper(c, f) {
		return nil, false
	}
	var the ssa.CallInstruction
	for _, call := range core.Calls(f) {
		if the != nil {
			return nil, false
		}
		the = call
	}
	if the == nil {
		return nil, false
	}
	cc := the.Common()
	if !cc.IsInvoke() || cc.Method.Name() != name || !core.TypeIs(cc.Value.Type(), "bus/net", "EndPoint") {
		return nil, false
	}
	if _, isP := core.Canon(cc.Value).(*ssa.Parameter); !isP {
		return nil, false
	}
	perm := make([]int, len(cc.Args))
	for i, a := range cc.Args {
		perm[i] = -1
		pa, isP := core.StripConv(core.Canon(a)).(*ssa.Parameter)
		if !isP {
			return nil, false
		}
		for j, q := range f.Params {
			if q == pa {
				perm[i] = j
			}
		}
		if perm[i] < 0 {
			return nil, false
		}
	}
	return perm, true
}

// epCall: call invokes the EndPoint method `name` — directly, through the
// concrete end point's method, or through a thin wrapper of the repository:
// the arguments of the method as seen at this call.
func epCall(c *core.Ctx, call ssa.CallInstruction, name string) ([]ssa.Value, bool) {
	cc := call.Common()
	if cc.IsInvoke() {
		if cc.Method.Name() == name && core.TypeIs(cc.Value.Type(), "bus/net", "EndPoint") {
			return cc.Args, true
		}
		return nil, false
	}
	f := cc.StaticCallee()
	if f == nil {
		return nil, false
	}
	if perm, ok := thinWrapperOf(c, f, name); ok {
		args := make([]ssa.Value, len(perm))
		for i, j := range perm {
			if j >= len(cc.Args) {
				return nil, false
			}
			args[i] = cc.Args[j]
		}
		return args, true
	}
	return nil, false
}

func handlerSites(c *core.Ctx, a *epAnchors) []handlerSite {
	var out []handlerSite
	for _, fn := range c.RepoFuncs() {
		if c.IsTestFile(fn) {
			continue
		}
		ord := map[string]int{}
		for _, call := range core.Calls(fn) {
			cc := call.Common()
			name := ""
			var args []ssa.Value
			if cc.IsInvoke() {
				if !core.TypeIs(cc.Value.Type(), "bus/net", "EndPoint") {
					continue
				}
				name = cc.Method.Name()
				args = cc.Args
				// the registration inside a thin wrapper is seen at the wrapper's call sites
				if _, isW := thinWrapperOf(c, fn, name); isW {
					continue
				}
			} else if f := cc.StaticCallee(); f != nil && (f == a.makeHandler || f == a.addHandler) {
				name = f.Name()
				args = cc.Args[1:]
			} else if f != nil {
				for _, nm := range []string{"MakeHandler", "AddHandler"} {
					if as, ok := epCall(c, call, nm); ok {
						name, args = nm, as
					}
				}
			}
			if (name != "MakeHandler" && name != "AddHandler") || len(args) != 3 {
				continue
			}
			ord[name]++
			s := handlerSite{fn: fn, call: call, via: name, filter: args[0], closer: args[2], ord: ord[name]}
			if name == "MakeHandler" {
				s.queue = args[1]
			} else {
				s.consumer = args[1]
			}
			out = append(out, s)
		}
	}
	sort.Slice(out, func(i, j int) bool { return out[i].key() < out[j].key() })
	return out
}

// deadConsumers: consumers registered together with a filter that never
// matches (every return of the filter yields matched == false) and that are
// not called from anywhere else: the endpoint never invokes them.
func deadConsumers(c *core.Ctx, a *epAnchors) map[*ssa.Function]bool {
	out := map[*ssa.Function]bool{}
	sites, _ := c.CallSites()
	for _, s := range handlerSites(c, a) {
		if s.consumer == nil {
			continue
		}
		f, ok := funcValue(s.filter)
		cons, ok2 := funcValue(s.consumer)
		if !ok || !ok2 || f == nil || cons == nil || len(sites[cons]) > 0 {
			continue
		}
		never := len(core.Returns(f)) > 0
		for _, r := range core.Returns(f) {
			if b, isConst := core.ConstBool(core.RetVal(r, 0)); !isConst || b {
				never = false
			}
		}
		if never {
			out[cons] = true
		}
	}
	return out
}

// funcValue resolves a function-typed value to the function it denotes
// (closure or named function), nil for nil constants / unknown values.
func funcValue(v ssa.Value) (*ssa.Function, bool) {
	f, _, ok := funcValueCtx(v)
	return f, ok
}

// funcValueCtx also looks through a factory of the repository (a function
// whose every return is a closure of one literal, or one named function):
// then subst maps the factory's parameters to the arguments of this call, so
// that what the closure captured can be named in the caller.
func funcValueCtx(v ssa.Value) (*ssa.Function, map[*ssa.Parameter]ssa.Value, bool) {
	v = core.Canon(v)
	switch x := v.(type) {
	case *ssa.MakeClosure:
		f, _ := x.Fn.(*ssa.Function)
		if m, sub, ok := boundMethod(x); ok {
			return m, sub, true
		}
		return f, nil, f != nil
	case *ssa.Function:
		return x, nil, true
	case *ssa.Const:
		if x.Value == nil {
			return nil, nil, true // nil callback
		}
	case *ssa.Call:
		g := x.Call.StaticCallee()
		if g == nil || !inRepo(g) || len(g.Blocks) == 0 {
			return nil, nil, false
		}
		var res *ssa.Function
		for _, r := range core.Returns(g) {
			if len(r.Results) != 1 {
				return nil, nil, false
			}
			f, _, ok := funcValueCtx(core.RetVal(r, 0))
			if !ok || f == nil || (res != nil && res != f) {
				return nil, nil, false
			}
			res = f
		}
		if res == nil {
			return nil, nil, false
		}
		subst := map[*ssa.Parameter]ssa.Value{}
		for i, p := range g.Params {
			if i < len(x.Call.Args) {
				subst[p] = x.Call.Args[i]
			}
		}
		return res, subst, true
	}
	return nil, nil, false
}

// boundMethod: a method value of a struct built on the spot
// (callTarget{service, object, action, id}.matchReply): the method itself, with
// the fields of its receiver mapped to the values the struct was built from.
func boundMethod(mc *ssa.MakeClosure) (*ssa.Function, map[*ssa.Parameter]ssa.Value, bool) {
	w, _ := mc.Fn.(*ssa.Function)
	if w == nil || !strings.HasSuffix(w.Name(), "$bound") || len(mc.Bindings) != 1 || len(w.Blocks) != 1 {
		return nil, nil, false
	}
	var m *ssa.Function
	for _, call := range core.Calls(w) {
		if f := core.StaticCallee(call); f != nil && f.Signature.Recv() != nil {
			m = f
		}
	}
	if m == nil || !inRepo(m) || len(m.Params) == 0 || len(m.Blocks) == 0 {
		return nil, nil, false
	}
	var al *ssa.Alloc
	switch b := mc.Bindings[0].(type) {
	case *ssa.Alloc:
		al = b
	case *ssa.UnOp:
		if b.Op == token.MUL {
			al, _ = b.X.(*ssa.Alloc)
			// the receiver kept in a local variable that a closure captures
			// (stream := &eventStream{…}): the variable's one value is the struct
			if c2, ok := core.Canon(b).(*ssa.Alloc); ok && c2 != al {
				if _, isStruct := c2.Type().Underlying().(*types.Pointer).Elem().Underlying().(*types.Struct); isStruct {
					al = c2
				}
			}
		}
	}
	subst := map[*ssa.Parameter]ssa.Value{}
	if al == nil {
		return m, subst, true
	}
	for _, r := range core.Referrers(al) {
		fa, ok := r.(*ssa.FieldAddr)
		if !ok {
			continue
		}
		var vals []ssa.Value
		for _, u := range core.Referrers(fa) {
			if st, ok := u.(*ssa.Store); ok && st.Addr == ssa.Value(fa) {
				vals = append(vals, st.Val)
			}
		}
		if len(vals) == 1 {
			subst[recvFieldKey(m.Params[0], fa.Field)] = vals[0]
		}
	}
	return m, subst, true
}

var recvFieldKeys = map[*ssa.Parameter]map[int]*ssa.Parameter{}

// recvFieldKey: the key under which a substitution records the value of field
// i of receiver p (a placeholder that is only ever used as a map key).
func recvFieldKey(p *ssa.Parameter, i int) *ssa.Parameter {
	if recvFieldKeys[p] == nil {
		recvFieldKeys[p] = map[int]*ssa.Parameter{}
	}
	if recvFieldKeys[p][i] == nil {
		recvFieldKeys[p][i] = new(ssa.Parameter)
	}
	return recvFieldKeys[p][i]
}

// substValue resolves v through a substitution: a parameter of the factory, or
// a field of the receiver of a bound method.
func substValue(subst map[*ssa.Parameter]ssa.Value, v ssa.Value) ssa.Value {
	w := core.Canon(v)
	if p, ok := w.(*ssa.Parameter); ok {
		if a, ok := subst[p]; ok {
			return core.Canon(a)
		}
		return w
	}
	var recv ssa.Value
	field := -1
	switch x := core.StripConv(v).(type) {
	case *ssa.Field:
		recv, field = x.X, x.Field
	case *ssa.UnOp:
		if fa, ok := x.X.(*ssa.FieldAddr); ok && x.Op == token.MUL {
			recv, field = fa.X, fa.Field
			// a value receiver spilled into a local
			if al, ok := recv.(*ssa.Alloc); ok {
				for _, r := range core.Referrers(al) {
					if st, ok := r.(*ssa.Store); ok && st.Addr == ssa.Value(al) {
						recv = st.Val
					}
				}
			}
		}
	}
	if p, ok := recv.(*ssa.Parameter); ok && field >= 0 {
		if keys := recvFieldKeys[p]; keys != nil && keys[field] != nil {
			if a, ok := subst[keys[field]]; ok {
				return core.Canon(a)
			}
		}
	}
	return w
}

// sentHeaderField: v reads field fld of the header of the message this call
// sends — msg.Header.<fld> directly, or through a copy of that header handed
// to the callback's factory (replyFilter(msg.Header) comparing with
// call.Service): the captured copy is followed back to the argument.
func sentHeaderField(subst map[*ssa.Parameter]ssa.Value, sent ssa.Value, fld *types.Var, v ssa.Value) bool {
	if sent == nil || fld == nil {
		return false
	}
	p := core.AccessPath(core.StripConv(v))
	if len(p.Fields) == 0 || p.Fields[len(p.Fields)-1] != fld {
		return false
	}
	root := p.Root
	for depth := 0; depth < 4; depth++ {
		switch x := root.(type) {
		case *ssa.Alloc, *ssa.FreeVar:
			d := core.SingleDef(x)
			if d == nil {
				return false
			}
			q := core.AccessPath(d)
			root = q.Root
			continue
		case *ssa.Parameter:
			a, ok := subst[x]
			if !ok {
				return core.RootOf(x) == sent
			}
			q := core.AccessPath(a)
			root = q.Root
			if r2 := core.RootOf(a); r2 == sent {
				return true
			}
			continue
		}
		break
	}
	return root == sent || core.RootOf(root) == sent
}

// builtWithAPIParams: the message sent was built by one call of Call's own
// (c.newMessage(serviceID, objectID, actionID, payload)) whose k-th 32-bit
// argument is the k-th 32-bit parameter of the API method; that the builder
// puts them in the right header fields is rule C04.address.
func builtWithAPIParams(api *ssa.Function, sent ssa.Value, k int) bool {
	cr, _ := core.CallResult(sent)
	if cr == nil || cr.Parent() != api {
		return false
	}
	n := 0
	for _, a := range cr.Call.Args {
		b, ok := a.Type().Underlying().(*types.Basic)
		if !ok || b.Kind() != types.Uint32 {
			continue
		}
		if n == k {
			return apiParam(api, k, nil)(a)
		}
		n++
	}
	return false
}

// apiParam matches the k-th uint32 parameter of the API method api (service,
// object, action in that order for client.Call and client.Subscribe), as seen
// from a callback: directly captured, or captured by a factory whose
// parameters subst maps to the arguments api passed.
func apiParam(api *ssa.Function, k int, subst map[*ssa.Parameter]ssa.Value) func(ssa.Value) bool {
	return func(v ssa.Value) bool {
		w := substValue(subst, v)
		p, ok := w.(*ssa.Parameter)
		if !ok || p.Parent() != api {
			return false
		}
		n := 0
		for _, q := range api.Params {
			if b, ok := q.Type().Underlying().(*types.Basic); ok && b.Kind() == types.Uint32 {
				if q == p {
					return n == k
				}
				n++
			}
		}
		return false
	}
}

// allUses collects every instruction using value v, following conversions,
// phi nodes, stores into local variable cells (then every load of the cell,
// including in closures).
func allUses(v ssa.Value) []ssa.Instruction {
	var out []ssa.Instruction
	seen := map[ssa.Value]bool{}
	var visit func(v ssa.Value)
	var visitCell func(cell ssa.Value)
	visitCell = func(cell ssa.Value) {
		if seen[cell] {
			return
		}
		seen[cell] = true
		for _, r := range core.Referrers(cell) {
			switch x := r.(type) {
			case *ssa.UnOp:
				if x.Op == token.MUL {
					visit(x)
				}
			case *ssa.MakeClosure:
				if f, ok := x.Fn.(*ssa.Function); ok {
					for i, b := range x.Bindings {
						if b == cell && i < len(f.FreeVars) {
							visitCell(f.FreeVars[i])
						}
					}
				}
			}
		}
	}
	visit = func(v ssa.Value) {
		if seen[v] {
			return
		}
		seen[v] = true
		for _, r := range core.Referrers(v) {
			switch x := r.(type) {
			case *ssa.ChangeType:
				visit(x)
			case *ssa.MakeInterface:
				visit(x)
			case *ssa.ChangeInterface:
				visit(x)
			case *ssa.Phi:
				visit(x)
			case *ssa.Store:
				if x.Val == v {
					switch x.Addr.(type) {
					case *ssa.Alloc, *ssa.FreeVar:
						visitCell(x.Addr)
						continue
					}
				}
				out = append(out, r)
			case *ssa.DebugRef:
			default:
				out = append(out, r)
			}
		}
	}
	visit(v)
	return out
}

func ruleQueueOwnership(c *core.Ctx, a *epAnchors, rule string) {
	// 5. each MakeHandler gets a queue made by the caller, given to no other
	// handler, never closed nor written by the caller
	sites := handlerSites(c, a)
	usedBy := map[ssa.Value][]handlerSite{}
	for _, s := range sites {
		if s.via != "MakeHandler" {
			continue
		}
		if s.fn == a.addHandler {
			// AddHandler's own MakeHandler call: queue made right there
		}
		q := core.Canon(s.queue)
		mk, ok := q.(*ssa.MakeChan)
		if !ok {
			if p, isParam := q.(*ssa.Parameter); isParam && s.fn.Pkg.Pkg.Path() == core.Module+"/bus/net" {
				_ = p
				c.Pass(rule, s.key(), s.call.Pos(), "forwards its caller's queue (checked at the caller)")
				continue
			}
			c.Fail(rule, s.key(), s.call.Pos(), "the queue given to MakeHandler is not a channel made by the registering function: two handlers may share (and both close) one channel")
			continue
		}
		usedBy[mk] = append(usedBy[mk], s)
		bad := ""
		for _, u := range allUses(mk) {
			if ch := isCloseBuiltin(u); ch != nil {
				bad = "the registering function closes the queue itself (at " + c.Pos(u.Pos()) + "): the endpoint closes it again"
			}
			switch x := u.(type) {
			case *ssa.Send:
				bad = "the registering function sends on the handler queue (at " + c.Pos(x.Pos()) + "): send on closed channel after the endpoint closed it"
			case *ssa.Select:
				for _, st := range x.States {
					if st.Dir == types.SendOnly && core.Canon(st.Chan) == ssa.Value(mk) {
						bad = "the registering function sends on the handler queue"
					}
				}
			}
		}
		if bad != "" {
			c.Fail(rule, s.key(), s.call.Pos(), bad)
			continue
		}
		c.Pass(rule, s.key(), s.call.Pos(), "queue made by the registering function, only received from")
	}
	for mk, ss := range usedBy {
		if len(ss) > 1 {
			c.Fail(rule, ss[1].key()+"/shared", mk.Pos(), "one channel is registered as the queue of two handlers: it is closed twice")
		}
	}
}

// ruleCallbacks (C12/C17 #7): closers and filters run with handlersMutex held
// (RemoveHandler, dispatch): they must not reach a function that acquires
// handlersMutex again, nor block on a channel.
func ruleCallbacks(c *core.Ctx, a *epAnchors, lc *core.LockCache, rule string) {
	// functions acquiring the class
	acquirers := map[*ssa.Function]bool{}
	for _, fn := range srcFuncsOfPkg(c, "bus/net") {
		for _, call := range core.Calls(fn) {
			if op, ok := core.LockOpOf(call); ok && op.Class == a.class && op.Kind == core.OpLock {
				acquirers[fn] = true
			}
		}
	}
	cg := c.CHA()
	reachAcquirer := func(start *ssa.Function) []string {
		// BFS over the call graph, repository functions only, `go` edges excluded
		type item struct {
			fn   *ssa.Function
			path []string
		}
		seen := map[*ssa.Function]bool{start: true}
		q := []item{{start, []string{core.FuncKey(start)}}}
		for len(q) > 0 {
			it := q[0]
			q = q[1:]
			if acquirers[it.fn] && it.fn != start {
				return it.path
			}
			node := cg.Nodes[it.fn]
			if node == nil {
				continue
			}
			var outs []*ssa.Function
			for _, e := range node.Out {
				if _, isGo := e.Site.(*ssa.Go); isGo {
					continue
				}
				callee := e.Callee.Func
				if callee == nil || callee.Pkg == nil || !strings.HasPrefix(callee.Pkg.Pkg.Path(), core.Module) {
					continue
				}
				if c.IsTestFile(callee) || strings.Contains(callee.Pkg.Pkg.Path(), "/examples/") || strings.Contains(callee.Pkg.Pkg.Path(), "/cmd/") {
					continue
				}
				outs = append(outs, callee)
			}
			sort.Slice(outs, func(i, j int) bool { return core.FuncKey(outs[i]) < core.FuncKey(outs[j]) })
			for _, callee := range outs {
				if !seen[callee] {
					seen[callee] = true
					q = append(q, item{callee, append(append([]string{}, it.path...), core.FuncKey(callee))})
				}
			}
		}
		return nil
	}
	blocks := func(fn *ssa.Function, subst map[*ssa.Parameter]ssa.Value) (string, token.Pos) {
		for _, f := range core.AnonFuncs(fn) {
			for _, b := range f.Blocks {
				for _, in := range b.Instrs {
					switch x := in.(type) {
					case *ssa.Send:
						capOK := false
						// the channel captured directly, or handed to the callback's factory
						if mk, ok := core.Canon(substValue(subst, x.Chan)).(*ssa.MakeChan); ok {
							if k, ok := core.ConstInt(mk.Size); ok && k >= 1 {
								capOK = true
							}
						}
						if !capOK {
							return "blocking send on a channel without a positive constant capacity", x.Pos()
						}
					case *ssa.UnOp:
						if x.Op == token.ARROW {
							return "blocking receive", x.Pos()
						}
					case *ssa.Select:
						if x.Blocking {
							return "blocking select", x.Pos()
						}
					}
				}
			}
		}
		return "", token.NoPos
	}
	// where closers run with the mutex held: the plain calls of Handler.closeWith
	// made under it; conditional = only for a handler whose own filter has just
	// answered keep=false (dispatch)
	nUnder, allOnNotKeep := 0, true
	// a private helper (visit(i, h, msg)) runs under the mutex when one of its
	// callers calls it there
	var heldOnEntry func(fn *ssa.Function, depth int) bool
	heldOnEntry = func(fn *ssa.Function, depth int) bool {
		if depth > 3 || !isPrivateHelper(c, fn) {
			return false
		}
		all, _ := c.CallSites()
		for _, cs := range all[fn] {
			in, ok := cs.(ssa.Instruction)
			if !ok || cs.Parent() == nil {
				continue
			}
			if _, isGo := cs.(*ssa.Go); isGo {
				continue
			}
			if lc.Get(cs.Parent()).MayHeld(in)[a.class] || heldOnEntry(cs.Parent(), depth+1) {
				return true
			}
		}
		return false
	}
	for _, fn := range srcFuncsOfPkg(c, "bus/net") {
		for _, call := range core.Calls(fn) {
			cv, plain := call.(*ssa.Call)
			if !plain || !core.IsCallTo(call, a.hCloseWith) || !(lc.Get(fn).MayHeld(cv)[a.class] || heldOnEntry(fn, 0)) {
				continue
			}
			nUnder++
			h := cv.Call.Args[0]
			isKeep := func(v ssa.Value) bool {
				// the keep answer handed back by a private helper that evaluated the filter
				// of the handler it was given (keep, ret = e.offer(h, msg, ret))
				if cr, k := core.CallResult(core.Canon(v)); cr != nil {
					if g := cr.Call.StaticCallee(); g != nil && isPrivateHelper(c, g) && len(g.Blocks) > 0 {
						if k < 0 {
							k = 0
						}
						pi := -1
						okAll := true
						for _, r := range core.Returns(g) {
							if k >= len(r.Results) {
								okAll = false
								continue
							}
							e2, ok := core.Canon(core.ResolveLoad(core.RetVal(r, k))).(*ssa.Extract)
							if !ok || e2.Index != 1 {
								okAll = false
								continue
							}
							fc2, ok := e2.Tuple.(*ssa.Call)
							if !ok || !isFieldOf(fc2.Call.Value, a.hFilter) {
								okAll = false
								continue
							}
							rp, isP := core.RootOf(fc2.Call.Value).(*ssa.Parameter)
							if !isP {
								okAll = false
								continue
							}
							for i2, q := range g.Params {
								if q == rp {
									if pi >= 0 && pi != i2 {
										okAll = false
									}
									pi = i2
								}
							}
						}
						if okAll && pi >= 0 && pi < len(cr.Call.Args) {
							arg := cr.Call.Args[pi]
							return core.SameValue(core.Canon(arg), core.Canon(h)) || core.RootOf(arg) == core.RootOf(h)
						}
					}
				}
				e, ok := core.Canon(v).(*ssa.Extract)
				if !ok || e.Index != 1 {
					return false
				}
				fc, ok := e.Tuple.(*ssa.Call)
				if !ok || fc.Call.IsInvoke() || fc.Call.StaticCallee() != nil || !isFieldOf(fc.Call.Value, a.hFilter) {
					return false
				}
				return core.SameValue(core.RootOf(fc.Call.Value), core.Canon(h)) || core.RootOf(fc.Call.Value) == core.RootOf(h)
			}
			if !core.Guarded(fn, cv, core.IsFalse(isKeep)) {
				allOnNotKeep = false
			}
		}
	}
	alwaysKeeps := func(v ssa.Value) bool {
		f, ok := funcValue(v)
		if !ok || f == nil || len(f.Blocks) == 0 {
			return false
		}
		for _, r := range core.Returns(f) {
			if len(r.Results) != 2 {
				return false
			}
			if keep, isConst := core.ConstBool(core.RetVal(r, 1)); !isConst || !keep {
				return false
			}
		}
		return true
	}
	for _, s := range handlerSites(c, a) {
		for _, cb := range []struct {
			kind string
			v    ssa.Value
		}{{"closer", s.closer}, {"filter", s.filter}} {
			key := cb.kind + "@" + s.key()
			if cb.kind == "closer" && nUnder == 0 {
				c.Pass(rule, key, s.call.Pos(), "closers never run with handlersMutex held (handlers are taken out of the table and closed after the mutex is released)")
				continue
			}
			if cb.kind == "closer" && allOnNotKeep && alwaysKeeps(s.filter) {
				c.Pass(rule, key, s.call.Pos(), "the closer runs with handlersMutex held only when the handler's own filter answers keep=false, which this filter never does; RemoveHandler and shutdown close it after releasing the mutex")
				continue
			}
			f, fsubst, ok := funcValueCtx(cb.v)
			if !ok {
				if _, isParam := core.Canon(cb.v).(*ssa.Parameter); isParam {
					c.PassTrivial(rule, key, s.call.Pos(), "callback supplied by the caller of "+core.FuncKey(s.fn)+" (checked at its call sites when inside the repository; user callbacks are bound by the documented contract)")
					continue
				}
				c.Undecided(rule, key, s.call.Pos(), "cannot resolve the "+cb.kind+" function value")
				continue
			}
			if f == nil {
				c.PassTrivial(rule, key, s.call.Pos(), "nil "+cb.kind)
				continue
			}
			if path := reachAcquirer(f); path != nil {
				c.Fail(rule, key, f.Pos(), "the "+cb.kind+" runs with handlersMutex held (RemoveHandler / dispatch) and can re-acquire it: "+strings.Join(path, " -> ")+" (self-deadlock: the connection's dispatch and the calling goroutine are wedged)")
				continue
			}
			if why, pos := blocks(f, fsubst); why != "" {
				c.Fail(rule, key, pos, "the "+cb.kind+" runs with handlersMutex held and can block: "+why)
				continue
			}
			c.Pass(rule, key, f.Pos(), "does not reach an acquisition of handlersMutex and cannot block")
		}
	}
}

// unlockBetween reports whether some path from instruction a to instruction b
// releases the mutex class on the way.
func unlockBetween(fn *ssa.Function, a, b ssa.Instruction, class core.LockClass) bool {
	isUnlock := func(x ssa.Instruction) bool {
		call, ok := x.(*ssa.Call)
		if !ok {
			return false
		}
		op, ok := core.LockOpOf(call)
		return ok && op.Class == class && (op.Kind == core.OpUnlock || op.Kind == core.OpRUnlock)
	}
	for _, blk := range fn.Blocks {
		for _, x := range blk.Instrs {
			if !isUnlock(x) {
				continue
			}
			fromA := core.ReachFrom(core.After(a), func(y ssa.Instruction) bool { return y == b }, nil)
			if !fromA.Has(x) {
				continue
			}
			toB := core.ReachFrom(core.After(x), func(y ssa.Instruction) bool { return y == a }, nil)
			if toB.Has(b) {
				return true
			}
		}
	}
	return false
}

// freeSlotMatcher: the edges on which the slot idx is known to hold no live
// handler: handlers[idx] == nil (idx itself, or the value a search variable
// that starts at a sentinel was given), or idx >= len(handlers) (beyond the
// table: whatever is stored there after growing it replaces nothing).
func (a *epAnchors) freeSlotMatcher(idx ssa.Value) core.EdgeMatcher {
	cands := append([]ssa.Value{idx}, phiLeaves(idx)...)
	isIdx := func(v ssa.Value) bool {
		for _, cv := range cands {
			if core.SameValue(v, cv) {
				return true
			}
		}
		return false
	}
	isSlot := func(v ssa.Value) bool {
		i2, ok := a.slotLoadIndex(v)
		return ok && isIdx(i2)
	}
	isLen := func(v ssa.Value) bool {
		call, ok := core.Canon(v).(*ssa.Call)
		if !ok {
			return false
		}
		bi, ok := call.Call.Value.(*ssa.Builtin)
		return ok && bi.Name() == "len" && isFieldOf(call.Call.Args[0], a.handlers)
	}
	beyond := func(cm core.Cmp) (bool, bool) {
		if isIdx(cm.X) && isLen(cm.Y) {
			switch cm.Op {
			case token.GEQ, token.EQL: // idx >= len, idx == len
				return true, false
			case token.LSS: // !(idx < len)
				return false, true
			}
		}
		if isLen(cm.X) && isIdx(cm.Y) {
			switch cm.Op {
			case token.LEQ, token.EQL:
				return true, false
			case token.GTR:
				return false, true
			}
		}
		return false, false
	}
	return core.AnyOf(core.Eq(isSlot, core.IsNilConst), beyond)
}

// phiLeaves: the values other than the sentinel (a negative constant, false) a
// search variable can take.
func phiLeaves(v ssa.Value) []ssa.Value {
	var out []ssa.Value
	seen := map[*ssa.Phi]bool{}
	var walk func(v ssa.Value)
	walk = func(v ssa.Value) {
		p, ok := core.StripConv(v).(*ssa.Phi)
		if !ok {
			return
		}
		if seen[p] {
			return
		}
		seen[p] = true
		for _, e := range p.Edges {
			if k, isConst := core.ConstInt(e); isConst && k < 0 {
				continue
			}
			if _, isPhi := core.StripConv(e).(*ssa.Phi); isPhi {
				walk(e)
				continue
			}
			out = append(out, e)
		}
	}
	walk(v)
	return out
}

// indexFromFreeSlotHelper: idx is the result of a private helper every
// non-negative-constant return of which is guarded, inside the helper, by
// handlers[result] == nil (a "find a free slot" helper).
func (a *epAnchors) indexFromFreeSlotHelper(c *core.Ctx, fn *ssa.Function, use ssa.Instruction, idx ssa.Value) bool {
	// "no free slot" may be told by the length of the table: one past the end,
	// where nothing is replaced (the caller appends)
	isLen := func(v ssa.Value) bool {
		call, ok := core.Canon(v).(*ssa.Call)
		if !ok {
			return false
		}
		bi, ok := call.Call.Value.(*ssa.Builtin)
		return ok && bi.Name() == "len" && isFieldOf(call.Call.Args[0], a.handlers)
	}
	return searchHelperIndexX(c, fn, use, idx, func(h *ssa.Function, v ssa.Value, arg func(ssa.Value) ssa.Value) core.EdgeMatcher {
		return a.freeSlotMatcher(v)
	}, isLen)
}

// searchHelperIndex: idx is the result of a private search helper: every value
// it returns other than a negative "not found" constant is returned only where
// the guard built by matcherFor for that value holds (directly, or through a
// search variable that starts at the sentinel), and fn uses idx only where it
// was tested not to be the sentinel.
func searchHelperIndex(c *core.Ctx, fn *ssa.Function, use ssa.Instruction, idx ssa.Value, matcherFor0 func(h *ssa.Function, v ssa.Value, arg func(ssa.Value) ssa.Value) core.EdgeMatcher) bool {
	return searchHelperIndexX(c, fn, use, idx, matcherFor0, nil)
}

// searchHelperIndexX: as searchHelperIndex; alsoFine names returned values that
// need no guard (an index one past the end of the table), and a helper of the
// form (index, found bool) is understood: what it returns next to found=false
// is not an index, and the caller uses the index only where found is true.
func searchHelperIndexX(c *core.Ctx, fn *ssa.Function, use ssa.Instruction, idx ssa.Value, matcherFor0 func(h *ssa.Function, v ssa.Value, arg func(ssa.Value) ssa.Value) core.EdgeMatcher, alsoFine func(ssa.Value) bool) bool {
	call, ridx := core.CallResult(core.Canon(idx))
	if call == nil || ridx > 0 {
		return false
	}
	h := call.Call.StaticCallee()
	if h == nil || !isPrivateHelper(c, h) || len(h.Blocks) == 0 {
		return false
	}
	// arg: a parameter of the helper seen as the argument the caller passed
	arg := func(v ssa.Value) ssa.Value {
		if p, ok := core.Canon(v).(*ssa.Parameter); ok && p.Parent() == h {
			for i, hp := range h.Params {
				if hp == p && i < len(call.Call.Args) {
					return call.Call.Args[i]
				}
			}
		}
		return v
	}
	matcherFor := func(h *ssa.Function, v ssa.Value) core.EdgeMatcher { return matcherFor0(h, v, arg) }
	n, sentinel := 0, false
	// holds: at instruction at (of the helper) the guard for value v holds
	var holds func(at ssa.Instruction, v ssa.Value, depth int) bool
	holds = func(at ssa.Instruction, v ssa.Value, depth int) bool {
		if k, isConst := core.ConstInt(v); isConst && k < 0 {
			sentinel = true // "not found"
			return true
		}
		if p, ok := core.StripConv(v).(*ssa.Phi); ok && depth < 4 && !core.Guarded(h, at, matcherFor(h, v)) {
			// a search variable: each value it is given satisfies the guard where it is given
			for k, e := range p.Edges {
				pred := p.Block().Preds[k]
				if len(pred.Instrs) == 0 || !holds(pred.Instrs[len(pred.Instrs)-1], e, depth+1) {
					return false
				}
			}
			return true
		}
		n++
		return core.Guarded(h, at, matcherFor(h, v))
	}
	withFlag := false
	if res := h.Signature.Results(); res.Len() == 2 {
		if b, ok := res.At(1).Type().Underlying().(*types.Basic); ok && b.Kind() == types.Bool {
			withFlag = true
		}
	}
	for _, ret := range core.Returns(h) {
		if len(ret.Results) == 0 {
			return false
		}
		if withFlag {
			if found, isConst := core.ConstBool(core.RetVal(ret, 1)); isConst && !found {
				continue // (whatever, false): not an index
			}
		}
		if alsoFine != nil && alsoFine(core.RetVal(ret, 0)) {
			n++
			continue
		}
		if withFlag {
			// `return j, j < w.NumField()` after a condition-controlled search loop `for j <
			// w.NumField() && !match(j) { j++ }`: every path to the return crossed the match,
			// or the edge j >= w.NumField() — on which the flag returned is false (the bound is
			// the same pure call on the same receiver), and the caller uses the index only
			// where the flag is true
			if fl, ok := core.Canon(core.RetVal(ret, 1)).(*ssa.BinOp); ok && fl.Op == token.LSS && core.SameValue(fl.X, core.RetVal(ret, 0)) {
				if bound, isCall := core.Canon(fl.Y).(*ssa.Call); isCall {
					sameBound := func(v ssa.Value) bool {
						b2, ok := core.Canon(v).(*ssa.Call)
						if !ok {
							return false
						}
						f1, f2 := bound.Call.StaticCallee(), b2.Call.StaticCallee()
						if f1 == nil || f1 != f2 || len(bound.Call.Args) != len(b2.Call.Args) {
							// len(x) builtins
							bi1, ok1 := bound.Call.Value.(*ssa.Builtin)
							bi2, ok2 := b2.Call.Value.(*ssa.Builtin)
							if !(ok1 && ok2 && bi1.Name() == "len" && bi2.Name() == "len") {
								return false
							}
						}
						for i := range bound.Call.Args {
							if !core.SameValue(bound.Call.Args[i], b2.Call.Args[i]) {
								return false
							}
						}
						pure := false
						if f1 != nil && f1.Pkg != nil && f1.Pkg.Pkg.Path() == "reflect" && (f1.Name() == "NumField" || f1.Name() == "Len") {
							pure = true
						}
						if bi, ok := bound.Call.Value.(*ssa.Builtin); ok && bi.Name() == "len" {
							pure = true
						}
						return pure
					}
					idxV := core.RetVal(ret, 0)
					pastEnd := func(cm core.Cmp) (bool, bool) {
						if core.SameValue(cm.X, idxV) && sameBound(cm.Y) {
							switch cm.Op {
							case token.GEQ:
								return true, false
							case token.LSS:
								return false, true
							}
						}
						return false, false
					}
					if core.Guarded(h, ret, core.AnyOf(matcherFor(h, idxV), pastEnd)) {
						n++
						continue
					}
				}
			}
		}
		if !holds(ret, core.RetVal(ret, 0), 0) {
			return false
		}
	}
	if n == 0 {
		return false
	}
	if withFlag {
		// the caller uses the index only where the flag says it is one
		isFound := func(v ssa.Value) bool {
			e, ok := core.Canon(v).(*ssa.Extract)
			return ok && e.Tuple == ssa.Value(call) && e.Index == 1
		}
		if !core.Guarded(fn, use, core.IsTrue(isFound)) {
			return false
		}
	}
	if sentinel {
		// the caller uses the result only where it is not the sentinel
		isIdx := func(v ssa.Value) bool { return core.SameValue(v, idx) }
		if !core.Guarded(fn, use, core.AnyOf(core.LowerBound0(isIdx), core.Ne(isIdx, func(v ssa.Value) bool {
			k, ok := core.ConstInt(v)
			return ok && k < 0
		}))) {
			return false
		}
	}
	return true
}
