package rules

import (
	"go/token"
	"go/types"
	"strings"

	"golang.org/x/tools/go/ssa"

	"qicheck/internal/core"
)

// Constant tables of functions.  A codec step written as
//
//	var layout = []field{{"id", func(h *Header, w io.Writer) error {…}}, …}
//	for _, f := range layout { if err := f.write(h, w); err != nil {…} }
//
// performs, in order, the functions of the table: the loop is the sequence of
// its rows.  fnTable recovers the rows from the package initialiser.

type fnTable struct {
	G    *ssa.Global
	Rows int
	// Fns[field index][row]: the function stored in that field of that row (nil if none / nil)
	Fns map[int][]*ssa.Function
}

// tableCallee: the callee value of a dynamic call is field f of the element,
// indexed by a loop counter, of a package-level table that is only written by
// the package initialiser.  Returns the table and the field index.
func tableCallee(c *core.Ctx, v ssa.Value) (*fnTable, int, ssa.Value, bool) {
	var elemAddr ssa.Value
	field := -1
	switch x := v.(type) {
	case *ssa.Field:
		if ld, ok := x.X.(*ssa.UnOp); ok && ld.Op == token.MUL {
			elemAddr, field = ld.X, x.Field
		}
	case *ssa.UnOp:
		if x.Op == token.MUL {
			if fa, ok := x.X.(*ssa.FieldAddr); ok {
				elemAddr, field = fa.X, fa.Field
			}
		}
	}
	// the range variable is a local copy of the element (structs stay in memory)
	if al, ok := elemAddr.(*ssa.Alloc); ok && al.Parent() != nil {
		var src ssa.Value
		n := 0
		for _, r := range core.Referrers(al) {
			if st, ok := r.(*ssa.Store); ok && st.Addr == ssa.Value(al) {
				n++
				if ld, ok := st.Val.(*ssa.UnOp); ok && ld.Op == token.MUL {
					src = ld.X
				}
			}
		}
		if n == 1 && src != nil {
			elemAddr = src
		}
	}
	ia, ok := elemAddr.(*ssa.IndexAddr)
	if !ok || field < 0 {
		return nil, 0, nil, false
	}
	var g *ssa.Global
	switch b := ia.X.(type) {
	case *ssa.Global:
		g = b
	case *ssa.UnOp:
		if b.Op == token.MUL {
			g, _ = b.X.(*ssa.Global)
		}
	}
	if g == nil || g.Pkg == nil || !strings.HasPrefix(g.Pkg.Pkg.Path(), core.Module) {
		return nil, 0, nil, false
	}
	t := tableOf(c, g)
	if t == nil {
		return nil, 0, nil, false
	}
	return t, field, ia.Index, true
}

var fnTableCache = map[*ssa.Global]*fnTable{}

func tableOf(c *core.Ctx, g *ssa.Global) *fnTable {
	if t, ok := fnTableCache[g]; ok {
		return t
	}
	fnTableCache[g] = nil
	init := g.Pkg.Func("init")
	if init == nil {
		return nil
	}
	rootIsG := func(a ssa.Value) bool {
		for i := 0; i < 8; i++ {
			switch x := a.(type) {
			case *ssa.IndexAddr:
				a = x.X
			case *ssa.FieldAddr:
				a = x.X
			case *ssa.UnOp:
				a = x.X
			case *ssa.Slice:
				a = x.X
			case *ssa.Global:
				return x == g
			default:
				return false
			}
		}
		return false
	}
	// written only by the initialiser
	for _, m := range g.Pkg.Members {
		fn, ok := m.(*ssa.Function)
		if !ok {
			continue
		}
		fns := append([]*ssa.Function{fn}, fn.AnonFuncs...)
		for _, f := range fns {
			if f == init {
				continue
			}
			for _, b := range f.Blocks {
				for _, in := range b.Instrs {
					if st, ok := in.(*ssa.Store); ok && rootIsG(st.Addr) {
						return nil
					}
				}
			}
		}
	}
	for _, fn := range c.RepoFuncs(strings.TrimPrefix(g.Pkg.Pkg.Path(), core.Module+"/")) {
		if fn == init || fn.Pkg != g.Pkg {
			continue
		}
		for _, b := range fn.Blocks {
			for _, in := range b.Instrs {
				if st, ok := in.(*ssa.Store); ok && rootIsG(st.Addr) {
					return nil
				}
			}
		}
	}
	// the backing array: G itself (array variable) or the array sliced into G
	var backing ssa.Value
	nStores := 0
	for _, b := range init.Blocks {
		for _, in := range b.Instrs {
			st, ok := in.(*ssa.Store)
			if !ok || st.Addr != ssa.Value(g) {
				continue
			}
			nStores++
			if sl, ok := st.Val.(*ssa.Slice); ok && sl.Low == nil && sl.High == nil {
				backing = sl.X
			}
		}
	}
	rows := 0
	if arr, ok := g.Type().(*types.Pointer).Elem().Underlying().(*types.Array); ok {
		backing, rows = g, int(arr.Len())
		if nStores != 0 {
			return nil
		}
	} else {
		if nStores != 1 || backing == nil {
			return nil
		}
		al, ok := backing.(*ssa.Alloc)
		if !ok {
			return nil
		}
		arr, ok := al.Type().(*types.Pointer).Elem().Underlying().(*types.Array)
		if !ok {
			return nil
		}
		rows = int(arr.Len())
	}
	if rows == 0 || rows > 64 {
		return nil
	}
	t := &fnTable{G: g, Rows: rows, Fns: map[int][]*ssa.Function{}}
	for _, b := range init.Blocks {
		for _, in := range b.Instrs {
			st, ok := in.(*ssa.Store)
			if !ok {
				continue
			}
			fa, ok := st.Addr.(*ssa.FieldAddr)
			if !ok {
				continue
			}
			ia, ok := fa.X.(*ssa.IndexAddr)
			if !ok || ia.X != backing {
				continue
			}
			row, ok := core.ConstInt(ia.Index)
			if !ok || row < 0 || int(row) >= rows {
				return nil
			}
			var f *ssa.Function
			switch v := st.Val.(type) {
			case *ssa.Function:
				f = v
			case *ssa.MakeClosure:
				f, _ = v.Fn.(*ssa.Function)
			case *ssa.Const:
				// nil function
			default:
				if _, isFn := st.Val.Type().Underlying().(*types.Signature); isFn {
					return nil // a computed function: the table is not a constant
				}
				continue
			}
			if _, isFn := st.Val.Type().Underlying().(*types.Signature); !isFn {
				continue
			}
			if t.Fns[fa.Field] == nil {
				t.Fns[fa.Field] = make([]*ssa.Function, rows)
			}
			t.Fns[fa.Field][row] = f
		}
	}
	fnTableCache[g] = t
	return t
}

// countsRows: idx is the counter of a loop that visits every row in order
// (range over the table, or for i := 0; i < len; i++).
func countsRows(idx ssa.Value) bool {
	v := core.StripConv(idx)
	if b, ok := v.(*ssa.BinOp); ok && b.Op == token.ADD {
		// range loops: index = phi(-1, index) + 1
		if k, isK := core.ConstInt(b.Y); isK && k == 1 {
			if p, ok := b.X.(*ssa.Phi); ok {
				for _, e := range p.Edges {
					if k, isK := core.ConstInt(e); isK && k == -1 {
						return true
					}
				}
			}
		}
		return false
	}
	if p, ok := v.(*ssa.Phi); ok && len(p.Edges) == 2 {
		zero, inc := false, false
		for _, e := range p.Edges {
			if k, isK := core.ConstInt(e); isK && k == 0 {
				zero = true
			}
			if b, ok := e.(*ssa.BinOp); ok && b.Op == token.ADD && b.X == ssa.Value(p) {
				if k, isK := core.ConstInt(b.Y); isK && k == 1 {
					inc = true
				}
			}
		}
		return zero && inc
	}
	return false
}

// unrollTable: the body of a loop whose stream steps are calls through a
// constant table of functions is the sequence of the rows' functions.
func (s *shaper) unrollTable(kids []tok) ([]tok, bool) {
	var tab *fnTable
	nDyn := 0
	for _, k := range kids {
		if k.Kind != "prim" || k.Name != "Dyn" || k.Call == nil {
			if k.Kind == "alt" || k.Kind == "rep" {
				return nil, false
			}
			continue
		}
		t, _, idx, ok := tableCallee(s.c, k.Call.Common().Value)
		if !ok || !countsRows(idx) || (tab != nil && tab != t) {
			return nil, false
		}
		tab = t
		nDyn++
	}
	if tab == nil || nDyn == 0 {
		return nil, false
	}
	var out []tok
	for row := 0; row < tab.Rows; row++ {
		for _, k := range kids {
			if k.Kind != "prim" || k.Name != "Dyn" || k.Call == nil {
				out = append(out, k)
				continue
			}
			_, field, _, _ := tableCallee(s.c, k.Call.Common().Value)
			col := tab.Fns[field]
			if col == nil || col[row] == nil {
				continue // a nil entry: the call is skipped (or the program panics)
			}
			f := col[row]
			var param ssa.Value
			for i, a := range k.Call.Common().Args {
				if s.streamArg(a) && i < len(f.Params) {
					param = f.Params[i]
				}
			}
			if param == nil || len(f.Blocks) == 0 {
				return nil, false
			}
			ns := &shaper{c: s.c, stream: param, depth: s.depth + 1}
			sub := flatten(ns.walkFn(f))
			if ns.problem != "" {
				return nil, false
			}
			for i := range sub {
				if sub[i].Kind == "prim" {
					sub[i].Field = fieldOfValue(sub[i].Val, sub[i].Dir)
				}
				if sub[i].Kind == "sub" {
					sub[i].Field = fieldOfValue(sub[i].Val, "read")
				}
			}
			out = append(out, tok{Kind: "inline", Kids: sub, Pos: k.Pos, Fn: f})
		}
	}
	return out, true
}

// guardedThroughTable: fn succeeds only after a loop over a constant table of
// functions has run every row, leaving with an error as soon as a row's
// function returns one; some row's function returns nil only across guard m.
// (The validation steps of a decoder moved into a table of closures.)
func guardedThroughTable(c *core.Ctx, fn *ssa.Function, succ []*ssa.Return, m core.EdgeMatcher) bool {
	for _, call := range core.Calls(fn) {
		cv, ok := call.(*ssa.Call)
		if !ok || cv.Call.IsInvoke() || cv.Call.StaticCallee() != nil {
			continue
		}
		tab, field, idx, ok := tableCallee(c, cv.Call.Value)
		if !ok || !countsRows(idx) {
			continue
		}
		h := loopHeaderOf(cv)
		if h == nil || len(h.Instrs) == 0 {
			continue
		}
		// no success without the loop
		around := core.ReachEntry(fn, func(x ssa.Instruction) bool { return x == h.Instrs[0] }, nil)
		bypass := false
		for _, r := range succ {
			if around.Has(r) {
				bypass = true
			}
		}
		if bypass {
			continue
		}
		// an error of the row ends the function without success
		isRes := func(v ssa.Value) bool { cr, _ := core.CallResult(v); return cr == cv }
		after := core.ReachFrom(core.After(cv), nil, core.CutEstablishing(core.Eq(isRes, core.IsNilConst)))
		if after.Has(h.Instrs[0]) {
			continue
		}
		stops := true
		for _, r := range succ {
			if after.Has(r) {
				stops = false
			}
		}
		if !stops {
			continue
		}
		// the row's function is skipped only where the entry is nil
		sameEntry := func(v ssa.Value) bool { return sameFieldLoad(v, cv.Call.Value) }
		body := h.Succs[0]
		if r0 := core.ReachFrom(core.Point{B: body, I: 0}, nil, nil); !r0.Has(h.Instrs[0]) {
			body = h.Succs[1]
		}
		skip := core.ReachFrom(core.Point{B: body, I: 0}, func(x ssa.Instruction) bool { return x == ssa.Instruction(cv) }, core.CutEstablishing(core.Eq(sameEntry, core.IsNilConst)))
		if skip.Has(h.Instrs[0]) {
			continue
		}
		skipped := false
		for _, r := range succ {
			if skip.Has(r) {
				skipped = true
			}
		}
		if skipped {
			continue
		}
		// some row refuses what m excludes
		for _, f := range tab.Fns[field] {
			if f == nil || len(f.Blocks) == 0 {
				continue
			}
			all, n := true, 0
			for _, r := range core.Returns(f) {
				if !successReturn(r) {
					continue
				}
				n++
				if !core.Guarded(f, r, m) {
					all = false
				}
			}
			if all && n > 0 {
				return true
			}
		}
	}
	return false
}

// sameFieldLoad: two reads of the same field of the same element.
func sameFieldLoad(a, b ssa.Value) bool {
	if a == b {
		return true
	}
	switch x := a.(type) {
	case *ssa.Field:
		y, ok := b.(*ssa.Field)
		return ok && x.X == y.X && x.Field == y.Field
	case *ssa.UnOp:
		y, ok := b.(*ssa.UnOp)
		if !ok || x.Op != token.MUL || y.Op != token.MUL {
			return false
		}
		fa, ok1 := x.X.(*ssa.FieldAddr)
		fb, ok2 := y.X.(*ssa.FieldAddr)
		return ok1 && ok2 && fa.X == fb.X && fa.Field == fb.Field
	}
	return false
}

// constIntMap: the contents of a package-level map of integer constants that
// is only written by the package initialiser (a classification table);
// nil if g is not one.
func constIntMap(g *ssa.Global) map[int64]int64 {
	if g == nil || g.Pkg == nil || !strings.HasPrefix(g.Pkg.Pkg.Path(), core.Module) {
		return nil
	}
	init := g.Pkg.Func("init")
	if init == nil {
		return nil
	}
	// loads of g outside init only feed lookups / len / range
	for _, m := range g.Pkg.Members {
		fn, ok := m.(*ssa.Function)
		if !ok {
			continue
		}
		for _, f := range append([]*ssa.Function{fn}, fn.AnonFuncs...) {
			if f == init {
				continue
			}
			for _, b := range f.Blocks {
				for _, in := range b.Instrs {
					switch x := in.(type) {
					case *ssa.Store:
						if x.Addr == ssa.Value(g) {
							return nil
						}
					case *ssa.MapUpdate:
						if ld, ok := x.Map.(*ssa.UnOp); ok && ld.X == ssa.Value(g) {
							return nil
						}
					}
				}
			}
		}
	}
	var mk ssa.Value
	n := 0
	for _, b := range init.Blocks {
		for _, in := range b.Instrs {
			if st, ok := in.(*ssa.Store); ok && st.Addr == ssa.Value(g) {
				n++
				mk = st.Val
			}
		}
	}
	if n != 1 {
		return nil
	}
	if _, ok := mk.(*ssa.MakeMap); !ok {
		return nil
	}
	out := map[int64]int64{}
	for _, r := range core.Referrers(mk) {
		switch x := r.(type) {
		case *ssa.MapUpdate:
			k, ok1 := core.ConstInt(x.Key)
			v, ok2 := core.ConstInt(x.Value)
			if !ok1 || !ok2 {
				return nil
			}
			out[k] = v
		case *ssa.Store:
		default:
			if _, isDbg := r.(*ssa.DebugRef); !isDbg {
				return nil
			}
		}
	}
	return out
}

// classifiedAs: "table[x] == K" for a constant classification table establishes
// that x is one of the keys the table maps to K; the matcher holds when all of
// those keys are in allowed (a missing key yields the zero value: K must not
// be zero).
func classifiedAs(isX func(ssa.Value) bool, allowed ...int64) core.EdgeMatcher {
	in := map[int64]bool{}
	for _, k := range allowed {
		in[k] = true
	}
	return func(cm core.Cmp) (bool, bool) {
		side := func(a, b ssa.Value) bool {
			lk, ok := core.StripConv(a).(*ssa.Lookup)
			if !ok || lk.CommaOk || !isX(lk.Index) {
				return false
			}
			ld, ok := lk.X.(*ssa.UnOp)
			if !ok || ld.Op != token.MUL {
				return false
			}
			g, ok := ld.X.(*ssa.Global)
			if !ok {
				return false
			}
			k, ok := core.ConstInt(b)
			if !ok || k == 0 {
				return false
			}
			tab := constIntMap(g)
			if tab == nil {
				return false
			}
			n := 0
			for key, v := range tab {
				if v != k {
					continue
				}
				n++
				if !in[key] {
					return false
				}
			}
			return n > 0
		}
		if !side(cm.X, cm.Y) && !side(cm.Y, cm.X) {
			return false, false
		}
		switch cm.Op {
		case token.EQL:
			return true, false
		case token.NEQ:
			return false, true
		}
		return false, false
	}
}
