package rules

import (
	"fmt"
	"go/ast"
	"go/token"
	"go/types"
	"regexp/syntax"
	"sort"
	"strconv"
	"strings"

	"golang.org/x/tools/go/packages"
	"golang.org/x/tools/go/ssa"

	"qicheck/internal/core"
)

// E6 helpers: constant extraction from grammar constructions and printers.

func funcDecl(p *packages.Package, recv, name string) *ast.FuncDecl {
	if p == nil {
		return nil
	}
	for _, f := range p.Syntax {
		for _, d := range f.Decls {
			fd, ok := d.(*ast.FuncDecl)
			if !ok || fd.Name.Name != name || fd.Body == nil {
				continue
			}
			if recv == "" && fd.Recv == nil {
				return fd
			}
			if recv != "" && fd.Recv != nil && len(fd.Recv.List) == 1 {
				t := types.ExprString(fd.Recv.List[0].Type)
				if strings.TrimPrefix(t, "*") == recv {
					return fd
				}
			}
		}
	}
	return nil
}

// isParsecCall: call of parsec.<name>.
func isParsecCall(info *types.Info, call *ast.CallExpr, name string) bool {
	sel, ok := call.Fun.(*ast.SelectorExpr)
	if !ok || sel.Sel.Name != name {
		return false
	}
	if id, ok := sel.X.(*ast.Ident); ok {
		if pn, ok := info.Uses[id].(*types.PkgName); ok {
			return strings.HasSuffix(pn.Imported().Path(), "goparsec")
		}
	}
	return false
}

// atomsOf lists, in source order, the literals of the parsec.Atom calls under n.
func atomsOf(info *types.Info, n ast.Node) []string {
	var out []string
	ast.Inspect(n, func(m ast.Node) bool {
		if call, ok := m.(*ast.CallExpr); ok && isParsecCall(info, call, "Atom") && len(call.Args) >= 1 {
			out = append(out, stringLit(info, call.Args[0]))
		}
		return true
	})
	return out
}

// switchCaseCalls maps the string cases of the first switch statement of fd
// to the name of the function called in the returned expression.
func switchCaseCalls(info *types.Info, fd *ast.FuncDecl) map[string]string {
	out := map[string]string{}
	ast.Inspect(fd.Body, func(n ast.Node) bool {
		sw, ok := n.(*ast.SwitchStmt)
		if !ok {
			return true
		}
		for _, st := range sw.Body.List {
			cc, ok := st.(*ast.CaseClause)
			if !ok {
				continue
			}
			callee := ""
			for _, s := range cc.Body {
				if rs, ok := s.(*ast.ReturnStmt); ok && len(rs.Results) == 1 {
					if call, ok := rs.Results[0].(*ast.CallExpr); ok {
						switch f := call.Fun.(type) {
						case *ast.Ident:
							callee = f.Name
						case *ast.SelectorExpr:
							callee = f.Sel.Name
						}
					}
				}
			}
			for _, e := range cc.List {
				out[stringLit(info, e)] = callee
			}
		}
		return false
	})
	return out
}

// formatLiterals splits a printf format into its literal (non-verb, non-space) tokens.
func formatLiterals(format string) []string {
	var out []string
	cur := ""
	flush := func() {
		if cur != "" {
			out = append(out, cur)
			cur = ""
		}
	}
	for i := 0; i < len(format); i++ {
		ch := format[i]
		switch {
		case ch == '%' && i+1 < len(format):
			flush()
			i++
		case ch == ' ' || ch == '\t' || ch == '\n':
			flush()
		default:
			cur += string(ch)
		}
	}
	flush()
	return out
}

// stringLitsIn lists the string literals under n in source order.
func stringLitsIn(info *types.Info, n ast.Node) []string {
	var out []string
	ast.Inspect(n, func(m ast.Node) bool {
		if bl, ok := m.(*ast.BasicLit); ok && bl.Kind == token.STRING {
			if s, err := strconv.Unquote(bl.Value); err == nil {
				out = append(out, s)
			}
		}
		return true
	})
	return out
}

// glue concatenates tokens and re-splits them into single punctuation runes
// and identifier words, so that "Vec<" and "Vec", "<" compare equal.
func glue(tokens []string) string {
	return strings.Join(tokens, "")
}

// ---------------------------------------------------------------- rules shared by C09 / C18 / C07

// ruleUncheckedAssertions: in the parser node builders of rel, a type
// assertion without comma-ok may only target a scanner terminal
// (*parsec.Terminal); asserting the result of another node builder (which can
// be an error node) panics on malformed input.
func ruleUncheckedAssertions(c *core.Ctx, rule, rel string, allowed map[string]string) int {
	n := 0
	for _, fn := range srcFuncsOfPkg(c, rel) {
		for _, b := range fn.Blocks {
			for _, in := range b.Instrs {
				ta, ok := in.(*ssa.TypeAssert)
				if !ok || ta.CommaOk {
					continue
				}
				// only assertions on parser nodes (interface{} values coming from node slices)
				if _, isEmpty := ta.X.Type().Underlying().(*types.Interface); !isEmpty {
					continue
				}
				if ta.X.Type().Underlying().(*types.Interface).NumMethods() != 0 {
					continue
				}
				n++
				if core.TypeIs(ta.AssertedType, "goparsec", "Terminal") {
					continue
				}
				key := "unchecked-assert@" + core.FuncKey(fn) + ":" + types.TypeString(ta.AssertedType, func(p *types.Package) string { return p.Name() })
				if why, ok := allowed[core.FuncKey(fn)]; ok {
					c.Pass(rule, key, ta.Pos(), "accepted: "+why)
					continue
				}
				c.Fail(rule, key, ta.Pos(), "a parser node is asserted to "+ta.AssertedType.String()+" without comma-ok: when the sub-parser yields an error node (malformed but grammar-shaped input) the assertion panics instead of the input being rejected")
			}
		}
	}
	return n
}

// classRanges returns the rune ranges of the character classes of a regexp in order.
func classRanges(pattern string) ([][]rune, []string, error) {
	re, err := syntax.Parse(pattern, syntax.Perl)
	if err != nil {
		return nil, nil, err
	}
	var classes [][]rune
	var lits []string
	var walk func(r *syntax.Regexp)
	walk = func(r *syntax.Regexp) {
		switch r.Op {
		case syntax.OpCharClass:
			classes = append(classes, append([]rune(nil), r.Rune...))
		case syntax.OpLiteral:
			lits = append(lits, string(r.Rune))
		}
		for _, s := range r.Sub {
			walk(s)
		}
	}
	walk(re)
	return classes, lits, nil
}

func sameRunes(a, b []rune) bool {
	if len(a) != len(b) {
		return false
	}
	for i := range a {
		if a[i] != b[i] {
			return false
		}
	}
	return true
}

func sortedStrings(m map[string]bool) []string {
	var out []string
	for k := range m {
		out = append(out, k)
	}
	sort.Strings(out)
	return out
}

func fmtSet(xs []string) string { return fmt.Sprintf("%q", xs) }
