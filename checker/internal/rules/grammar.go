package rules

import (
	"strconv"
	"fmt"
	"go/ast"
	"go/constant"
	"go/token"
	"go/types"
	"regexp/syntax"
	"sort"
	"strings"

	"golang.org/x/tools/go/packages"
	"golang.org/x/tools/go/ssa"

	"qicheck/internal/core"
)

// E6 helpers: constant extraction from grammar constructions and printers.

func funcDecl(p *packages.Package, recv, name string) *ast.FuncDecl {
	if p == nil {
		return nil
	}
	for _, f := range p.Syntax {
		for _, d := range f.Decls {
			fd, ok := d.(*ast.FuncDecl)
			if !ok || fd.Name.Name != name || fd.Body == nil {
				continue
			}
			if recv == "" && fd.Recv == nil {
				return fd
			}
			if recv != "" && fd.Recv != nil && len(fd.Recv.List) == 1 {
				t := types.ExprString(fd.Recv.List[0].Type)
				if strings.TrimPrefix(t, "*") == recv {
					return fd
				}
			}
		}
	}
	return nil
}

// isParsecCall: call of parsec.<name>.
func isParsecCall(info *types.Info, call *ast.CallExpr, name string) bool {
	sel, ok := call.Fun.(*ast.SelectorExpr)
	if !ok || sel.Sel.Name != name {
		return false
	}
	if id, ok := sel.X.(*ast.Ident); ok {
		if pn, ok := info.Uses[id].(*types.PkgName); ok {
			return strings.HasSuffix(pn.Imported().Path(), "goparsec")
		}
	}
	return false
}

// atomWrapperDecls: function declarations of the loaded packages, by object
// (filled by the first rule that needs it: see atomLit).
var atomWrapperDecls map[types.Object]*ast.FuncDecl

// SetAtomWrapperDecls records the declarations atomLit may look into.
func setAtomWrapperDecls(c *core.Ctx) {
	atomWrapperDecls = map[types.Object]*ast.FuncDecl{}
	for _, rel := range []string{"meta/signature", "meta/idl"} {
		p := c.Pkg(rel)
		if p == nil {
			continue
		}
		for _, f := range p.Syntax {
			for _, d := range f.Decls {
				if fd, ok := d.(*ast.FuncDecl); ok && fd.Body != nil {
					atomWrapperDecls[p.TypesInfo.Defs[fd.Name]] = fd
				}
			}
		}
	}
}

// atomLit: call is parsec.Atom(lit, name) — or a call of a small function or
// method of the repository that does nothing but return parsec.Atom of its
// receiver or of one of its parameters (sigUint32.atom("uint32"), with sigUint32
// a typed string constant): the literal matched, and true.
func atomLit(info *types.Info, call *ast.CallExpr) (string, bool) {
	if (isParsecCall(info, call, "Atom") || isParsecCall(info, call, "AtomExact")) && len(call.Args) >= 1 {
		return stringLit(info, call.Args[0]), true
	}
	var callee types.Object
	var recvExpr ast.Expr
	switch fun := call.Fun.(type) {
	case *ast.Ident:
		callee = info.Uses[fun]
	case *ast.SelectorExpr:
		callee = info.Uses[fun.Sel]
		recvExpr = fun.X
	}
	fd := atomWrapperDecls[callee]
	if fd == nil || len(fd.Body.List) != 1 {
		return "", false
	}
	rs, ok := fd.Body.List[0].(*ast.ReturnStmt)
	if !ok || len(rs.Results) != 1 {
		return "", false
	}
	inner, ok := rs.Results[0].(*ast.CallExpr)
	if !ok || len(inner.Args) < 1 {
		return "", false
	}
	// the wrapper's own package info is not at hand: recognise parsec.Atom by name
	if sel, ok := inner.Fun.(*ast.SelectorExpr); !ok || (sel.Sel.Name != "Atom" && sel.Sel.Name != "AtomExact") {
		return "", false
	}
	// which name does the wrapper pass on?
	a0 := inner.Args[0]
	if conv, ok := a0.(*ast.CallExpr); ok && len(conv.Args) == 1 {
		a0 = conv.Args[0] // string(b)
	}
	id, ok := a0.(*ast.Ident)
	if !ok {
		return "", false
	}
	var actual ast.Expr
	if fd.Recv != nil && len(fd.Recv.List) == 1 && len(fd.Recv.List[0].Names) == 1 && fd.Recv.List[0].Names[0].Name == id.Name {
		actual = recvExpr
	} else if fd.Type.Params != nil {
		i := 0
		for _, fl := range fd.Type.Params.List {
			for _, n := range fl.Names {
				if n.Name == id.Name && i < len(call.Args) {
					actual = call.Args[i]
				}
				i++
			}
		}
	}
	if actual == nil {
		return "", false
	}
	if tv, ok := info.Types[actual]; ok && tv.Value != nil && tv.Value.Kind() == constant.String {
		return constant.StringVal(tv.Value), true
	}
	return "", false
}

// atomsOf lists, in source order, the literals of the parsec.Atom calls under n.
func atomsOf(info *types.Info, n ast.Node) []string {
	var out []string
	ast.Inspect(n, func(m ast.Node) bool {
		if call, ok := m.(*ast.CallExpr); ok {
			if lit, isAtom := atomLit(info, call); isAtom {
				out = append(out, lit)
				return false
			}
		}
		return true
	})
	return out
}

// switchCaseCalls maps the string cases of the first switch statement of fd
// to the name of the function called in the returned expression.
func switchCaseCalls(info *types.Info, fd *ast.FuncDecl) map[string]string {
	out := map[string]string{}
	ast.Inspect(fd.Body, func(n ast.Node) bool {
		sw, ok := n.(*ast.SwitchStmt)
		if !ok {
			return true
		}
		for _, st := range sw.Body.List {
			cc, ok := st.(*ast.CaseClause)
			if !ok {
				continue
			}
			callee := ""
			for _, s := range cc.Body {
				if rs, ok := s.(*ast.ReturnStmt); ok && len(rs.Results) == 1 {
					if call, ok := rs.Results[0].(*ast.CallExpr); ok {
						switch f := call.Fun.(type) {
						case *ast.Ident:
							callee = f.Name
						case *ast.SelectorExpr:
							callee = f.Sel.Name
						}
					}
				}
			}
			for _, e := range cc.List {
				out[stringLit(info, e)] = callee
			}
		}
		return false
	})
	return out
}

// formatLiterals splits a printf format into its literal (non-verb, non-space) tokens.
func formatLiterals(format string) []string {
	var out []string
	cur := ""
	flush := func() {
		if cur != "" {
			out = append(out, cur)
			cur = ""
		}
	}
	for i := 0; i < len(format); i++ {
		ch := format[i]
		switch {
		case ch == '%' && i+1 < len(format):
			flush()
			i++
		case ch == ' ' || ch == '\t' || ch == '\n':
			flush()
		default:
			cur += string(ch)
		}
	}
	flush()
	return out
}

// stringLitsIn lists, in source order, the constant strings used under n:
// literals and named constants (outermost constant expressions only, so that
// "a"+"b" counts once as "ab").
func stringLitsIn(info *types.Info, n ast.Node) []string {
	var out []string
	ast.Inspect(n, func(m ast.Node) bool {
		e, ok := m.(ast.Expr)
		if !ok {
			return true
		}
		if tv, ok := info.Types[e]; ok && tv.Value != nil {
			if b, isBasic := tv.Type.Underlying().(*types.Basic); isBasic && b.Info()&types.IsString != 0 {
				out = append(out, stringLit(info, e))
				return false
			}
			// a character literal appended to a byte buffer: sig = append(sig, '(')
			if bl, isLit := e.(*ast.BasicLit); isLit && bl.Kind == token.CHAR {
				if r, _, _, err := strconv.UnquoteChar(bl.Value[1:len(bl.Value)-1], '\''); err == nil {
					out = append(out, string(r))
				}
			}
			return false
		}
		// a constant identifier used as an operand
		if id, ok := e.(*ast.Ident); ok {
			if k, ok := info.Uses[id].(*types.Const); ok {
				if b, isBasic := k.Type().Underlying().(*types.Basic); isBasic && b.Info()&types.IsString != 0 {
					out = append(out, constString(k))
				}
			}
		}
		return true
	})
	return out
}

// glue concatenates tokens and re-splits them into single punctuation runes
// and identifier words, so that "Vec<" and "Vec", "<" compare equal.
func glue(tokens []string) string {
	return strings.Join(tokens, "")
}

// ---------------------------------------------------------------- rules shared by C09 / C18 / C07

// ruleUncheckedAssertions: in the parser node builders of rel, a type
// assertion without comma-ok may only target a scanner terminal
// (*parsec.Terminal); asserting the result of another node builder (which can
// be an error node) panics on malformed input.
func ruleUncheckedAssertions(c *core.Ctx, rule, rel string, allowed map[string]string) int {
	n := 0
	for _, fn := range srcFuncsOfPkg(c, rel) {
		for _, b := range fn.Blocks {
			for _, in := range b.Instrs {
				ta, ok := in.(*ssa.TypeAssert)
				if !ok || ta.CommaOk {
					continue
				}
				// only assertions on parser nodes (interface{} values coming from node slices)
				if _, isEmpty := ta.X.Type().Underlying().(*types.Interface); !isEmpty {
					continue
				}
				if ta.X.Type().Underlying().(*types.Interface).NumMethods() != 0 {
					continue
				}
				n++
				if core.TypeIs(ta.AssertedType, "goparsec", "Terminal") {
					continue
				}
				key := "unchecked-assert@" + core.FuncKey(fn) + ":" + types.TypeString(ta.AssertedType, func(p *types.Package) string { return p.Name() })
				// an exception names the function and the asserted type: a second unchecked
				// assertion added to an excepted builder is not covered by it
				if why, ok := allowed[core.FuncKey(fn)+":"+types.TypeString(ta.AssertedType, func(p *types.Package) string { return p.Name() })]; ok {
					c.Pass(rule, key, ta.Pos(), "accepted: "+why)
					continue
				}
				c.Fail(rule, key, ta.Pos(), "a parser node is asserted to "+ta.AssertedType.String()+" without comma-ok: when the sub-parser yields an error node (malformed but grammar-shaped input) the assertion panics instead of the input being rejected")
			}
		}
	}
	return n
}

// classRanges returns the rune ranges of the character classes of a regexp in order.
func classRanges(pattern string) ([][]rune, []string, error) {
	re, err := syntax.Parse(pattern, syntax.Perl)
	if err != nil {
		return nil, nil, err
	}
	var classes [][]rune
	var lits []string
	var walk func(r *syntax.Regexp)
	walk = func(r *syntax.Regexp) {
		switch r.Op {
		case syntax.OpCharClass:
			classes = append(classes, append([]rune(nil), r.Rune...))
		case syntax.OpLiteral:
			lits = append(lits, string(r.Rune))
		}
		for _, s := range r.Sub {
			walk(s)
		}
	}
	walk(re)
	return classes, lits, nil
}

func sameRunes(a, b []rune) bool {
	if len(a) != len(b) {
		return false
	}
	for i := range a {
		if a[i] != b[i] {
			return false
		}
	}
	return true
}

func sortedStrings(m map[string]bool) []string {
	var out []string
	for k := range m {
		out = append(out, k)
	}
	sort.Strings(out)
	return out
}

func fmtSet(xs []string) string { return fmt.Sprintf("%q", xs) }

// ---------------------------------------------------------------- grammar model

// production is one parsec.And / parsec.OrdChoice call whose first argument
// is a node builder of the package: the atoms it matches, in order (atoms of
// Kleene/Many/Maybe sub-productions referenced through a local variable are
// spliced in place), and the builder.
type production struct {
	Kind    string // "And" | "OrdChoice"
	Builder *types.Func
	Atoms   []string
	Opt     []bool // Atoms[i] belongs to an optional or repeated sub-production
	Pos     token.Pos
	AllAtom bool // every other argument is an Atom
}

// mandatory lists the atoms outside optional / repeated parts.
func (pr production) mandatory() []string {
	var out []string
	for i, a := range pr.Atoms {
		if i >= len(pr.Opt) || !pr.Opt[i] {
			out = append(out, a)
		}
	}
	return out
}

// productionsOf lists the productions of package p (non-test files), in source order.
func productionsOf(p *packages.Package) []production {
	var out []production
	if p == nil {
		return out
	}
	info := p.TypesInfo
	for _, f := range p.Syntax {
		if strings.HasSuffix(p.Fset.Position(f.Pos()).Filename, "_test.go") {
			continue
		}
		for _, d := range f.Decls {
			fd, ok := d.(*ast.FuncDecl)
			if !ok || fd.Body == nil {
				continue
			}
			// definitions of local parser variables in this function (and, for the
			// constructor functions that are inlined, in the other functions of the package:
			// objects are unique, so one table serves)
			defs := map[types.Object][]ast.Expr{}
			for _, f2 := range p.Syntax {
				for _, d2 := range f2.Decls {
					fd2, ok := d2.(*ast.FuncDecl)
					if !ok || fd2.Body == nil || fd2 == fd {
						continue
					}
					ast.Inspect(fd2.Body, func(n ast.Node) bool {
						if x, ok := n.(*ast.AssignStmt); ok && len(x.Lhs) == len(x.Rhs) {
							for i, l := range x.Lhs {
								if id, ok := l.(*ast.Ident); ok {
									if o := info.ObjectOf(id); o != nil {
										defs[o] = append(defs[o], x.Rhs[i])
									}
								}
							}
						}
						if x, ok := n.(*ast.ValueSpec); ok {
							for i, nm := range x.Names {
								if i < len(x.Values) {
									if o := info.ObjectOf(nm); o != nil {
										defs[o] = append(defs[o], x.Values[i])
									}
								}
							}
						}
						return true
					})
				}
			}
			ast.Inspect(fd.Body, func(n ast.Node) bool {
				switch x := n.(type) {
				case *ast.AssignStmt:
					if len(x.Lhs) == len(x.Rhs) {
						for i, l := range x.Lhs {
							if id, ok := l.(*ast.Ident); ok {
								if o := info.ObjectOf(id); o != nil {
									defs[o] = append(defs[o], x.Rhs[i])
								}
							}
						}
					}
				case *ast.ValueSpec:
					for i, nm := range x.Names {
						if i < len(x.Values) {
							if o := info.ObjectOf(nm); o != nil {
								defs[o] = append(defs[o], x.Values[i])
							}
						}
					}
				}
				return true
			})
			ast.Inspect(fd.Body, func(n ast.Node) bool {
				call, ok := n.(*ast.CallExpr)
				if !ok || len(call.Args) < 2 {
					return true
				}
				kind := ""
				for _, k := range []string{"And", "OrdChoice"} {
					if isParsecCall(info, call, k) {
						kind = k
					}
				}
				if kind == "" {
					return true
				}
				bid, ok := call.Args[0].(*ast.Ident)
				if !ok {
					return true
				}
				bf, ok := info.Uses[bid].(*types.Func)
				if !ok {
					return true
				}
				pr := production{Kind: kind, Builder: bf, Pos: call.Pos(), AllAtom: true}
				// atoms in order; sub-productions of repetition / option kind (inline or
				// through a local variable) are spliced in place and marked optional
				var walk func(e ast.Expr, opt bool, depth int)
				walk = func(e ast.Expr, opt bool, depth int) {
					if depth > 6 {
						return
					}
					if u, ok := e.(*ast.UnaryExpr); ok && u.Op == token.AND {
						e = u.X
					}
					switch x := e.(type) {
					case *ast.CallExpr:
						switch {
						case isAtomCall(info, x):
							lit, _ := atomLit(info, x)
							pr.Atoms = append(pr.Atoms, lit)
							pr.Opt = append(pr.Opt, opt)
						case isParsecCall(info, x, "Kleene") || isParsecCall(info, x, "Many") || isParsecCall(info, x, "Maybe"):
							for _, a := range x.Args[1:] {
								walk(a, true, depth+1)
							}
						case isParsecCall(info, x, "And") && depth > 0:
							for _, a := range x.Args[1:] {
								walk(a, opt, depth+1)
							}
						default:
							// a constructor function of the package that returns the
							// sub-production (newTypeDefinitionParser()): what it returns
							var fid *ast.Ident
							switch fx := x.Fun.(type) {
							case *ast.Ident:
								fid = fx
							}
							if fid != nil {
								if fo, ok := info.Uses[fid].(*types.Func); ok && fo.Pkg() == p.Types {
									if sub := funcDeclOf(p, fo); sub != nil && sub.Body != nil && len(sub.Body.List) > 0 {
										if rs, ok := sub.Body.List[len(sub.Body.List)-1].(*ast.ReturnStmt); ok && len(rs.Results) == 1 {
											walk(rs.Results[0], opt, depth+1)
										}
									}
								}
							}
						}
					case *ast.Ident:
						for _, def := range defs[info.ObjectOf(x)] {
							if dc, ok := def.(*ast.CallExpr); ok && (isParsecCall(info, dc, "Kleene") || isParsecCall(info, dc, "Many") || isParsecCall(info, dc, "Maybe")) {
								walk(dc, opt, depth+1)
							}
						}
					}
				}
				for _, a := range call.Args[1:] {
					if ac, ok := a.(*ast.CallExpr); !ok || !isAtomCall(info, ac) {
						pr.AllAtom = false
					}
					walk(a, false, 0)
				}
				out = append(out, pr)
				return true
			})
		}
	}
	return out
}

// funcDeclOf finds the declaration of a function object in p.
func funcDeclOf(p *packages.Package, fo *types.Func) *ast.FuncDecl {
	if p == nil || fo == nil {
		return nil
	}
	for _, f := range p.Syntax {
		for _, d := range f.Decls {
			if fd, ok := d.(*ast.FuncDecl); ok && p.TypesInfo.Defs[fd.Name] == fo {
				return fd
			}
		}
	}
	return nil
}

// dispatchEntry is one row of a string-keyed dispatch: the key and the first
// function of the repository referenced by the row (called or taken as a value).
type dispatchEntry struct {
	Key    string
	Target *types.Func
	Pos    token.Pos
	LitPos token.Pos // the row's value is a function literal written in the table
}

// dispatchTable extracts the string-keyed dispatch of root: rows of map
// literals with string keys and string cases of switch statements, in root's
// body, in the package-level variables it reads and in the functions of its
// own package it calls (one level).
func dispatchTable(p *packages.Package, root *ast.FuncDecl) []dispatchEntry {
	var out []dispatchEntry
	if p == nil || root == nil {
		return out
	}
	info := p.TypesInfo
	firstFunc := func(n ast.Node) *types.Func {
		var res *types.Func
		ast.Inspect(n, func(m ast.Node) bool {
			if res != nil {
				return false
			}
			if id, ok := m.(*ast.Ident); ok {
				if fo, ok := info.Uses[id].(*types.Func); ok && fo.Pkg() != nil && strings.HasPrefix(fo.Pkg().Path(), core.Module) {
					if sig, ok := fo.Type().(*types.Signature); ok && sig.Recv() == nil {
						res = fo
					}
				}
			}
			return true
		})
		return res
	}
	scan := func(n ast.Node) {
		ast.Inspect(n, func(m ast.Node) bool {
			switch x := m.(type) {
			case *ast.CompositeLit:
				t := info.TypeOf(x)
				if t == nil {
					return true
				}
				mt, isMap := t.Underlying().(*types.Map)
				if !isMap {
					return true
				}
				if b, ok := mt.Key().Underlying().(*types.Basic); !ok || b.Info()&types.IsString == 0 {
					return true
				}
				for _, el := range x.Elts {
					if kv, ok := el.(*ast.KeyValueExpr); ok {
						if k := stringLit(info, kv.Key); k != "" || isConstExpr(info, kv.Key) {
							if fl, isLit := kv.Value.(*ast.FuncLit); isLit {
								out = append(out, dispatchEntry{Key: k, Pos: kv.Pos(), LitPos: fl.Pos()})
								continue
							}
							out = append(out, dispatchEntry{Key: k, Target: firstFunc(kv.Value), Pos: kv.Pos()})
						}
					}
				}
				return false
			case *ast.SwitchStmt:
				if x.Tag == nil {
					return true
				}
				if b, ok := info.TypeOf(x.Tag).Underlying().(*types.Basic); !ok || b.Info()&types.IsString == 0 {
					return true
				}
				for _, st := range x.Body.List {
					cc, ok := st.(*ast.CaseClause)
					if !ok || len(cc.List) == 0 {
						continue
					}
					var target *types.Func
					for _, s := range cc.Body {
						if target = firstFunc(s); target != nil {
							break
						}
					}
					for _, e := range cc.List {
						if isConstExpr(info, e) {
							out = append(out, dispatchEntry{Key: stringLit(info, e), Target: target, Pos: cc.Pos()})
						}
					}
				}
				return false
			}
			return true
		})
	}
	scan(root.Body)
	if len(out) > 0 {
		return out
	}
	seen := map[types.Object]bool{}
	ast.Inspect(root.Body, func(m ast.Node) bool {
		id, ok := m.(*ast.Ident)
		if !ok {
			return true
		}
		o := info.Uses[id]
		if o == nil || seen[o] || o.Pkg() != p.Types {
			return true
		}
		seen[o] = true
		switch x := o.(type) {
		case *types.Var:
			if x.Parent() != p.Types.Scope() {
				return true
			}
			for _, f := range p.Syntax {
				for _, d := range f.Decls {
					gd, ok := d.(*ast.GenDecl)
					if !ok {
						continue
					}
					for _, sp := range gd.Specs {
						vs, ok := sp.(*ast.ValueSpec)
						if !ok {
							continue
						}
						for i, nm := range vs.Names {
							if info.Defs[nm] == o && i < len(vs.Values) {
								scan(vs.Values[i])
							}
						}
					}
				}
			}
		case *types.Func:
			if fd := funcDeclOf(p, x); fd != nil && fd != root && fd.Body != nil {
				scan(fd.Body)
			}
		}
		return true
	})
	return out
}

func isConstExpr(info *types.Info, e ast.Expr) bool {
	tv, ok := info.Types[e]
	return ok && tv.Value != nil
}

// ---------------------------------------------------------------- backtracking

// choiceAmbiguity: two alternatives of one ordered choice start with the same
// elements, a non-terminal among them: the shared prefix is parsed once per
// alternative, and again at every nesting level (exponential time).
type choiceAmbiguity struct {
	A, B   string // the two alternatives
	Prefix []string
	Pos    token.Pos
}

// choiceAmbiguities analyses every parsec.OrdChoice of package p.
func choiceAmbiguities(p *packages.Package) (out []choiceAmbiguity, nChoices int) {
	if p == nil {
		return nil, 0
	}
	info := p.TypesInfo
	// sequence (parsec.And call) returned by a package-level production function
	returnedSeq := func(fo *types.Func) *ast.CallExpr {
		fd := funcDeclOf(p, fo)
		if fd == nil || fd.Body == nil {
			return nil
		}
		var seq *ast.CallExpr
		ast.Inspect(fd.Body, func(n ast.Node) bool {
			if rs, ok := n.(*ast.ReturnStmt); ok && len(rs.Results) == 1 {
				if call, ok := rs.Results[0].(*ast.CallExpr); ok && isParsecCall(info, call, "And") {
					seq = call
				}
			}
			return true
		})
		return seq
	}
	classify := func(e ast.Expr) string {
		if call, ok := e.(*ast.CallExpr); ok {
			if lit, isAtom := atomLit(info, call); isAtom {
				return "atom:" + lit
			}
			if isParsecCall(info, call, "Token") || isParsecCall(info, call, "TokenExact") || isParsecCall(info, call, "Ident") {
				return "tok:" + types.ExprString(e)
			}
		}
		return "nt:" + types.ExprString(e)
	}
	for _, f := range p.Syntax {
		if strings.HasSuffix(p.Fset.Position(f.Pos()).Filename, "_test.go") {
			continue
		}
		for _, d := range f.Decls {
			fd, ok := d.(*ast.FuncDecl)
			if !ok || fd.Body == nil {
				continue
			}
			defs := map[types.Object]ast.Expr{}
			ast.Inspect(fd.Body, func(n ast.Node) bool {
				switch x := n.(type) {
				case *ast.AssignStmt:
					if len(x.Lhs) == len(x.Rhs) {
						for i, l := range x.Lhs {
							if id, ok := l.(*ast.Ident); ok {
								if o := info.ObjectOf(id); o != nil {
									defs[o] = x.Rhs[i]
								}
							}
						}
					}
				case *ast.ValueSpec:
					for i, nm := range x.Names {
						if i < len(x.Values) {
							if o := info.ObjectOf(nm); o != nil {
								defs[o] = x.Values[i]
							}
						}
					}
				}
				return true
			})
			ast.Inspect(fd.Body, func(n ast.Node) bool {
				call, ok := n.(*ast.CallExpr)
				if !ok || !isParsecCall(info, call, "OrdChoice") || len(call.Args) < 3 {
					return true
				}
				nChoices++
				type alt struct {
					name string
					seq  []string
				}
				var alts []alt
				for _, a := range call.Args[1:] {
					e := a
					if u, ok := e.(*ast.UnaryExpr); ok && u.Op == token.AND {
						e = u.X
					}
					var seq *ast.CallExpr
					switch x := e.(type) {
					case *ast.Ident:
						if def, ok := defs[info.ObjectOf(x)].(*ast.CallExpr); ok && isParsecCall(info, def, "And") {
							seq = def
						}
					case *ast.CallExpr:
						if isParsecCall(info, x, "And") {
							seq = x
						} else if id, ok := x.Fun.(*ast.Ident); ok {
							if fo, ok := info.Uses[id].(*types.Func); ok {
								seq = returnedSeq(fo)
							}
						}
					}
					if seq == nil || len(seq.Args) < 2 {
						continue
					}
					al := alt{name: types.ExprString(e)}
					for _, el := range seq.Args[1:] {
						al.seq = append(al.seq, classify(el))
					}
					alts = append(alts, al)
				}
				for i := 0; i < len(alts); i++ {
					for j := i + 1; j < len(alts); j++ {
						var prefix []string
						hasNT := false
						for k := 0; k < len(alts[i].seq) && k < len(alts[j].seq) && alts[i].seq[k] == alts[j].seq[k]; k++ {
							prefix = append(prefix, alts[i].seq[k])
							if strings.HasPrefix(alts[i].seq[k], "nt:") {
								hasNT = true
							}
						}
						if hasNT {
							out = append(out, choiceAmbiguity{alts[i].name, alts[j].name, prefix, call.Pos()})
						}
					}
				}
				return true
			})
		}
	}
	return out, nChoices
}

func isAtomCall(info *types.Info, call *ast.CallExpr) bool {
	_, ok := atomLit(info, call)
	return ok
}

// ruleCompositeElementParsers: in the production of a composite IDL type (an
// And whose atoms open with "Map<", "Vec<", "Tuple<"), every position that is
// not an atom holds the context's recursive type parser: the printer prints
// whatever type sits there (Map<Cell,str> for a map keyed by a struct), so a
// position narrowed to a sub-grammar (basicType()) refuses IDL the generator
// itself produced.
func ruleCompositeElementParsers(c *core.Ctx, p *packages.Package, rule string) {
	info := p.TypesInfo
	n := 0
	var check func(owner string, args []ast.Expr, first bool)
	check = func(owner string, args []ast.Expr, first bool) {
		for i, a := range args {
			if first && i == 0 {
				continue // the node builder
			}
			switch x := ast.Unparen(a).(type) {
			case *ast.CallExpr:
				if isAtomCall(info, x) {
					continue
				}
				nested := false
				for _, nm := range []string{"And", "Many", "Kleene", "Maybe", "OrdChoice", "ManyUntil"} {
					if isParsecCall(info, x, nm) {
						nested = true
					}
				}
				if nested {
					check(owner, x.Args, true)
					continue
				}
				n++
				c.Fail(rule, "element-parser@"+owner, x.Pos(), "a position of the composite type production "+owner+" is parsed by "+types.ExprString(x.Fun)+"(…) instead of the recursive type parser: the printer prints any type there (a map keyed by a struct, a vector of maps), so IDL the generator produced is refused by the parser")
			case *ast.SelectorExpr:
				if sel, ok := info.Selections[x]; ok && sel.Kind() == types.FieldVal {
					n++
					c.Pass(rule, "element-parser@"+owner+"#"+fmt.Sprint(i), x.Pos(), "the recursive type parser ("+types.ExprString(x)+")")
					continue
				}
				n++
				c.Undecided(rule, "element-parser@"+owner, x.Pos(), "cannot tell what parser "+types.ExprString(x)+" is")
			case *ast.Ident:
				if _, isFunc := info.Uses[x].(*types.Func); isFunc {
					continue // a node builder of a nested combinator
				}
				n++
				c.Undecided(rule, "element-parser@"+owner, x.Pos(), "cannot tell what parser "+x.Name+" is")
			}
		}
	}
	for _, f := range p.Syntax {
		if strings.HasSuffix(c.Fset.Position(f.Pos()).Filename, "_test.go") {
			continue
		}
		for _, d := range f.Decls {
			fd, ok := d.(*ast.FuncDecl)
			if !ok || fd.Body == nil {
				continue
			}
			ast.Inspect(fd.Body, func(nd ast.Node) bool {
				call, ok := nd.(*ast.CallExpr)
				if !ok || !isParsecCall(info, call, "And") {
					return true
				}
				opener := ""
				for _, a := range call.Args {
					if ac, ok := ast.Unparen(a).(*ast.CallExpr); ok && isAtomCall(info, ac) {
						if lit, ok := atomLit(info, ac); ok && len(lit) > 1 && strings.HasSuffix(lit, "<") {
							opener = lit
						}
					}
				}
				if opener == "" {
					return true
				}
				check(fd.Name.Name+"("+opener+")", call.Args, true)
				return false
			})
		}
	}
	if n == 0 {
		c.Undecided(rule, "element-parser", token.NoPos, "no composite type production (an And opened by an atom ending in '<') found in the IDL grammar")
	}
}
