package rules

import (
	"fmt"
	"go/token"
	"go/types"
	"sort"
	"strings"

	"golang.org/x/tools/go/ssa"

	"qicheck/internal/core"
)

// E3a — pairing: every Lock/RLock is released in the matching mode on every
// path to every return; no release of a mutex that is not held in that mode;
// no re-acquisition of a mutex held on the same path.
func lockPairing(c *core.Ctx, lc *core.LockCache, rule string, fns []*ssa.Function) {
	reentrantAcquire(c, lc, rule, fns)
	writesUnderReadLock(c, lc, rule, fns)
	for _, fn := range fns {
		lf := lc.Get(fn)
		if lf.Ops == 0 {
			continue
		}
		key := core.FuncKey(fn)
		if len(lf.Problems) == 0 {
			c.Pass(rule, key, fn.Pos(), fmt.Sprintf("%d mutex operations, balanced on every path", lf.Ops))
			continue
		}
		// one obligation per function; every problem is listed
		var msgs []string
		pos := fn.Pos()
		for i, p := range lf.Problems {
			if i == 0 {
				pos = core.InstrPos(p.Instr)
			}
			cl := ""
			if p.Class.Field != "" {
				cl = p.Class.String() + ": "
			}
			msgs = append(msgs, fmt.Sprintf("%s%s at %s", cl, p.What, c.Pos(core.InstrPos(p.Instr))))
		}
		sort.Strings(msgs)
		c.Fail(rule, key, pos, strings.Join(msgs, "; "))
	}
}

// guardedField is one row of a guarded-by table.
type guardedField struct {
	Rel, Struct, Field string     // field Rel.Struct.Field …
	Mutex              string     // … is protected by Rel.Struct.Mutex (a hint: the guard is inferred if renamed)
	Var                *types.Var // the field, when the caller resolved it by role
	Reason             string
	// ReadsUnlocked lists functions (FuncKey) allowed to read without the
	// lock, each with a reason; writes are never exempt.
	ReadsUnlocked map[string]string
}

type fieldAccess struct {
	fn    *ssa.Function
	instr ssa.Instruction
	write bool
	what  string
	fresh bool
}

// isFresh reports whether the struct whose field is accessed was allocated in
// the same function (object under construction, not yet shared).
func isFresh(v ssa.Value) bool {
	p := core.AccessPath(v)
	a, ok := p.Root.(*ssa.Alloc)
	if !ok {
		return false
	}
	// the allocation of the struct itself (new T / &T{}), not the cell of a
	// pointer variable
	pt, ok := a.Type().Underlying().(*types.Pointer)
	if !ok {
		return false
	}
	_, isStruct := pt.Elem().Underlying().(*types.Struct)
	if !isStruct {
		return false
	}
	// the struct itself, or a struct it holds by value (part of the same allocation)
	for _, f := range p.Fields {
		if _, inner := f.Type().Underlying().(*types.Struct); !inner {
			return false
		}
	}
	return true
}

// fieldAccesses enumerates reads and writes of struct field fld in fn.
func fieldAccesses(fn *ssa.Function, fld *types.Var) []fieldAccess {
	var out []fieldAccess
	for _, b := range fn.Blocks {
		for _, in := range b.Instrs {
			fa, ok := in.(*ssa.FieldAddr)
			if !ok {
				// value-typed struct field read
				if f, ok := in.(*ssa.Field); ok {
					if st, ok := f.X.Type().Underlying().(*types.Struct); ok && f.Field < st.NumFields() && st.Field(f.Field) == fld {
						out = append(out, fieldAccess{fn, in, false, "read", false})
					}
				}
				continue
			}
			pt, ok := fa.X.Type().Underlying().(*types.Pointer)
			if !ok {
				continue
			}
			st, ok := pt.Elem().Underlying().(*types.Struct)
			if !ok || fa.Field >= st.NumFields() || st.Field(fa.Field) != fld {
				continue
			}
			fresh := isFresh(fa.X)
			refs := core.Referrers(fa)
			if len(refs) == 0 {
				continue
			}
			for _, r := range refs {
				switch x := r.(type) {
				case *ssa.Store:
					if x.Addr == fa {
						out = append(out, fieldAccess{fn, r, true, "assign", fresh})
					}
				case *ssa.UnOp:
					if x.Op != token.MUL {
						continue
					}
					// loaded value: classify by its uses
					wrote := false
					for _, u := range core.Referrers(x) {
						switch y := u.(type) {
						case *ssa.MapUpdate:
							if y.Map == x {
								out = append(out, fieldAccess{fn, u, true, "map store", fresh})
								wrote = true
							}
						case *ssa.Call:
							if bi, ok := y.Call.Value.(*ssa.Builtin); ok && bi.Name() == "delete" && len(y.Call.Args) > 0 && y.Call.Args[0] == x {
								out = append(out, fieldAccess{fn, u, true, "map delete", fresh})
								wrote = true
							}
						case *ssa.IndexAddr:
							if y.X == x {
								for _, s := range core.Referrers(y) {
									if st, ok := s.(*ssa.Store); ok && st.Addr == y {
										out = append(out, fieldAccess{fn, s, true, "element store", fresh})
										wrote = true
									}
								}
							}
						}
					}
					_ = wrote
					out = append(out, fieldAccess{fn, r, false, "read", fresh})
				default:
					// address escapes (passed to a call, e.g. &s.mu): ignore for
					// non-mutex data fields it does not happen in this repository;
					// treat as read so that it is at least lock-checked.
					if _, isCall := r.(ssa.CallInstruction); isCall {
						out = append(out, fieldAccess{fn, r, false, "address taken", fresh})
					}
				}
			}
		}
	}
	return out
}

// entryHeld computes the mutex classes held on entry to fn, as the
// intersection over every static call site in the repository (function
// literals invoked or deferred/go'ed count as call sites with the lockset at
// that point; `go` sites contribute the empty set).
type entryLocks struct {
	c     *core.Ctx
	lc    *core.LockCache
	sites map[*ssa.Function][]ssa.CallInstruction
	memo  map[*ssa.Function]map[core.LockClass]bool
	busy  map[*ssa.Function]bool
}

func newEntryLocks(c *core.Ctx, lc *core.LockCache) *entryLocks {
	e := &entryLocks{c: c, lc: lc, sites: map[*ssa.Function][]ssa.CallInstruction{},
		memo: map[*ssa.Function]map[core.LockClass]bool{}, busy: map[*ssa.Function]bool{}}
	for _, fn := range c.RepoFuncs() {
		for _, call := range core.Calls(fn) {
			var callee *ssa.Function
			if f := core.StaticCallee(call); f != nil {
				callee = f
			}
			if callee != nil && callee.Pkg != nil && strings.HasPrefix(callee.Pkg.Pkg.Path(), core.Module) {
				e.sites[callee] = append(e.sites[callee], call)
			}
		}
	}
	return e
}

// held returns (locks held at entry, whether any call site was found).
func (e *entryLocks) held(fn *ssa.Function) (map[core.LockClass]bool, bool) {
	if m, ok := e.memo[fn]; ok {
		return m, len(e.sites[fn]) > 0
	}
	if e.busy[fn] {
		return map[core.LockClass]bool{}, true
	}
	e.busy[fn] = true
	defer delete(e.busy, fn)
	sites := e.sites[fn]
	var acc map[core.LockClass]bool
	// a function that is address-taken / stored (method value, interface
	// method) can be called from anywhere: nothing is held.
	exported := fn.Object() != nil && fn.Object().Exported()
	isMethod := fn.Signature.Recv() != nil
	if len(sites) == 0 || exported || (isMethod && implementsSomeInterface(e.c, fn)) {
		acc = map[core.LockClass]bool{}
	}
	for _, call := range sites {
		cur := map[core.LockClass]bool{}
		if _, isGo := call.(*ssa.Go); !isGo {
			caller := call.Parent()
			for k := range e.lc.Get(caller).MustHeld(call.(ssa.Instruction)) {
				cur[k] = true
			}
			if _, isDefer := call.(*ssa.Defer); isDefer {
				cur = map[core.LockClass]bool{} // runs at exit; be conservative
			}
			up, _ := e.held(caller)
			for k := range up {
				cur[k] = true
			}
		}
		if acc == nil {
			acc = cur
			continue
		}
		for k := range acc {
			if !cur[k] {
				delete(acc, k)
			}
		}
	}
	if acc == nil {
		acc = map[core.LockClass]bool{}
	}
	e.memo[fn] = acc
	return acc, len(sites) > 0
}

// implementsSomeInterface: a method that can be reached through an interface
// of the repository may be called from unknown sites.
func implementsSomeInterface(c *core.Ctx, fn *ssa.Function) bool {
	if fn.Signature.Recv() == nil {
		return false
	}
	name := fn.Name()
	recv := fn.Signature.Recv().Type()
	for _, p := range c.Pkgs {
		if p.Types == nil || !strings.HasPrefix(p.PkgPath, core.Module) {
			continue
		}
		sc := p.Types.Scope()
		for _, n := range sc.Names() {
			tn, ok := sc.Lookup(n).(*types.TypeName)
			if !ok {
				continue
			}
			it, ok := tn.Type().Underlying().(*types.Interface)
			if !ok || it.NumMethods() == 0 {
				continue
			}
			has := false
			for i := 0; i < it.NumMethods(); i++ {
				if it.Method(i).Name() == name {
					has = true
				}
			}
			if has && (types.Implements(recv, it) || types.Implements(types.NewPointer(recv), it)) {
				return true
			}
		}
	}
	return false
}

// guardedBy checks one table row over every function of the struct's package.
func guardedBy(c *core.Ctx, lc *core.LockCache, el *entryLocks, rule string, g guardedField) {
	st := strct(c, g.Rel, g.Struct)
	row := g.Rel + "." + g.Struct + "." + g.Field
	if st == nil {
		c.Undecided(rule, row, token.NoPos, "struct no longer exists (and no struct of the package has its field types): the guarded-by table must be re-confirmed")
		return
	}
	fld := g.Var
	if fld == nil {
		// the field itself, or the field moved with its mutex into a struct of its own
		if owner, f := fldNested(c, g.Rel, g.Struct, g.Field, fieldType[row]); f != nil {
			st, fld = owner, f
		}
	}
	if fld == nil {
		c.Undecided(rule, row, token.NoPos, "field no longer exists: the guarded-by table must be re-confirmed")
		return
	}
	class, ok := guardOf(c, lc, g.Rel, st, fld, g.Mutex)
	if !ok {
		c.Fail(rule, row+"@<type>", fld.Pos(), fmt.Sprintf("shared state %s has no mutex in its struct (%s)", row, g.Reason))
		return
	}
	n := 0
	for _, fn := range c.RepoFuncs(g.Rel) {
		if fn.Pkg.Pkg.Path() != core.Module+"/"+g.Rel {
			continue
		}
		if c.IsTestFile(fn) {
			continue
		}
		accs := fieldAccesses(fn, fld)
		if len(accs) == 0 {
			continue
		}
		lf := lc.Get(fn)
		entry, _ := el.held(fn)
		ord := map[string]int{}
		for _, a := range accs {
			if a.fresh {
				continue
			}
			kind := "read"
			if a.write {
				kind = "write"
			}
			base := fmt.Sprintf("%s@%s/%s", row, core.FuncKey(fn), kind)
			ord[base]++
			key := fmt.Sprintf("%s#%d", base, ord[base])
			n++
			held, reached := lf.HeldAt(a.instr, class, a.write)
			if !reached {
				continue
			}
			if !held && entry[class] {
				// held by every caller; mode unknown → accept for reads, and
				// for writes only if no caller holds it in read mode: we keep
				// it simple and accept (callers are pairing-checked).
				held = true
			}
			if held {
				c.Pass(rule, key, core.InstrPos(a.instr), fmt.Sprintf("%s of %s with %s held", a.what, g.Field, class))
				continue
			}
			if !a.write {
				if why, ok := g.ReadsUnlocked[core.FuncKey(fn)]; ok {
					c.Pass(rule, key, core.InstrPos(a.instr), "unlocked read accepted: "+why)
					continue
				}
			}
			mode := "held"
			if a.write {
				mode = "held exclusively"
				if h, _ := lf.HeldAt(a.instr, class, false); h {
					mode = "held exclusively (only the read lock is held)"
				}
			}
			c.Fail(rule, key, core.InstrPos(a.instr), fmt.Sprintf("%s of %s without %s %s (%s)", a.what, row, class, mode, g.Reason))
		}
	}
	if n == 0 {
		c.Undecided(rule, row, fld.Pos(), "no access to the field found: table row is stale")
	}
	guardedEscapes(c, lc, el, rule, g, fld, class)
}

// guardedEscapes: a slice or map loaded from a guarded field shares its
// storage with the field; using it (indexing, ranging, len, lookup) after the
// lock was released reads storage other goroutines modify under the lock —
// unless ownership was transferred (the field was given a fresh value in the
// same critical section, the swap-out idiom).
func guardedEscapes(c *core.Ctx, lc *core.LockCache, el *entryLocks, rule string, g guardedField, fld *types.Var, class core.LockClass) {
	switch fld.Type().Underlying().(type) {
	case *types.Slice, *types.Map:
	default:
		return
	}
	row := g.Rel + "." + g.Struct + "." + g.Field
	for _, fn := range c.RepoFuncs(g.Rel) {
		if fn.Pkg.Pkg.Path() != core.Module+"/"+g.Rel || c.IsTestFile(fn) {
			continue
		}
		lf := lc.Get(fn)
		entry, _ := el.held(fn)
		if entry[class] {
			continue
		}
		ord := 0
		for _, acc := range fieldAccesses(fn, fld) {
			ld, ok := acc.instr.(*ssa.UnOp)
			if !ok || acc.write || acc.fresh {
				continue
			}
			if h, reached := lf.HeldAt(ld, class, false); !h || !reached {
				continue // an unlocked load is already reported by the guarded-by rule
			}
			// ownership transfer: the field is assigned a fresh value after this load in the same section
			transferred := false
			for _, acc2 := range fieldAccesses(fn, fld) {
				st, ok := acc2.instr.(*ssa.Store)
				if !ok || !acc2.write || !core.Dominates(ld, st) {
					continue
				}
				if h, _ := lf.HeldAt(st, class, true); !h {
					continue
				}
				switch x := core.Canon(st.Val).(type) {
				case *ssa.MakeMap, *ssa.MakeSlice:
					transferred = true
				case *ssa.Slice:
					if _, fresh := x.X.(*ssa.Alloc); fresh {
						transferred = true
					}
				case *ssa.Const:
					transferred = x.Value == nil
				}
			}
			if transferred {
				continue
			}
			// the loaded slice and what shares its backing array: re-slices of it and
			// the results of appending to those (within capacity they are the same array)
			derived := []ssa.Value{ld}
			seenD := map[ssa.Value]bool{ld: true}
			for k := 0; k < len(derived) && k < 32; k++ {
				for _, u := range allUses(derived[k]) {
					var nv ssa.Value
					switch x := u.(type) {
					case *ssa.Slice:
						nv = x
					case *ssa.Call:
						if bi, ok := x.Call.Value.(*ssa.Builtin); ok && bi.Name() == "append" && len(x.Call.Args) > 0 && isSliceType(fld.Type()) {
							nv = x
						}
					}
					if nv != nil && !seenD[nv] && u.Parent() == fn {
						seenD[nv] = true
						derived = append(derived, nv)
					}
				}
			}
			var uses0 []ssa.Instruction
			for _, dv := range derived {
				uses0 = append(uses0, allUses(dv)...)
			}
			for _, u := range uses0 {
				if u.Parent() != fn {
					continue
				}
				uses := false
				switch x := u.(type) {
				case *ssa.IndexAddr, *ssa.Index, *ssa.Lookup, *ssa.Range, *ssa.Slice, *ssa.MapUpdate:
					uses = true
				case *ssa.Call:
					if bi, ok := x.Call.Value.(*ssa.Builtin); ok {
						switch bi.Name() {
						case "len", "cap", "delete", "copy":
							uses = true
						}
					}
				}
				if !uses {
					continue
				}
				if h, reached := lf.HeldAt(u, class, false); reached && !h {
					ord++
					c.Fail(rule, fmt.Sprintf("%s@%s/escape#%d", row, core.FuncKey(fn), ord), u.Pos(),
						fmt.Sprintf("the %s loaded from %s under %s is still used here after the lock was released: it shares its storage with the field, which other goroutines modify under the lock (stale or duplicated elements, data race)", map[bool]string{true: "slice", false: "map"}[isSliceType(fld.Type())], row, class))
				}
			}
		}
	}
}

func isSliceType(t types.Type) bool {
	_, ok := t.Underlying().(*types.Slice)
	return ok
}

// reentrantAcquire: a function calls, while holding a mutex of an object, a
// method of the same object that acquires that mutex again.  sync.Mutex
// self-deadlocks at once; sync.RWMutex read locks deadlock as soon as a writer
// is waiting between the two acquisitions.  Only failures are recorded.
func reentrantAcquire(c *core.Ctx, lc *core.LockCache, rule string, fns []*ssa.Function) {
	// lock acquisitions of a method on its own receiver, directly or through the
	// methods of the same object it calls (Send -> closeWith -> Lock)
	var acquiresDepth func(g *ssa.Function, depth int, seen map[*ssa.Function]bool) []core.LockClass
	acquiresDepth = func(g *ssa.Function, depth int, seen map[*ssa.Function]bool) []core.LockClass {
		var out []core.LockClass
		if g == nil || len(g.Blocks) == 0 || g.Signature.Recv() == nil || len(g.Params) == 0 || seen[g] || depth > 3 {
			return out
		}
		seen[g] = true
		for _, call := range core.Calls(g) {
			if op, ok := core.LockOpOf(call); ok {
				if (op.Kind == core.OpLock || op.Kind == core.OpRLock) && core.RootOf(call.Common().Args[0]) == ssa.Value(g.Params[0]) {
					out = append(out, op.Class)
				}
				continue
			}
			if _, plain := call.(*ssa.Call); !plain {
				continue // go / defer: not on this call's stack while the lock is held … defer is, but runs at exit
			}
			h := core.StaticCallee(call)
			if h == nil || !inRepo(h) || h.Signature.Recv() == nil || len(call.Common().Args) == 0 {
				continue
			}
			if core.RootOf(call.Common().Args[0]) == ssa.Value(g.Params[0]) {
				out = append(out, acquiresDepth(h, depth+1, seen)...)
			}
		}
		return out
	}
	acquires := func(g *ssa.Function) []core.LockClass {
		return acquiresDepth(g, 0, map[*ssa.Function]bool{})
	}
	for _, fn := range fns {
		lf := lc.Get(fn)
		if lf.Ops == 0 {
			continue
		}
		for _, call := range core.Calls(fn) {
			if _, plain := call.(*ssa.Call); !plain {
				continue
			}
			g := core.StaticCallee(call)
			if g == nil || !inRepo(g) || g == fn {
				continue
			}
			classes := acquires(g)
			if len(classes) == 0 {
				continue
			}
			recv := core.RootOf(call.Common().Args[0])
			for _, k := range classes {
				held, _ := lf.HeldAt(call.(ssa.Instruction), k, false)
				if !held {
					continue
				}
				// the lock held here was taken on the same object
				sameObj := false
				for _, lcall := range core.Calls(fn) {
					op, ok := core.LockOpOf(lcall)
					if ok && op.Class == k && (op.Kind == core.OpLock || op.Kind == core.OpRLock) && core.RootOf(lcall.Common().Args[0]) == recv {
						sameObj = true
					}
				}
				if sameObj {
					c.Fail(rule, "reentrant@"+core.FuncKey(fn)+"->"+g.Name(), call.Pos(),
						fmt.Sprintf("%s is called with %s held, and acquires it again on the same object: a plain mutex self-deadlocks, and two read locks deadlock as soon as a writer asks for the lock between them (every later request on this object then hangs)", core.FuncKey(g), k))
				}
			}
		}
	}
}

// writesUnderReadLock: a field of a struct (a map entry, a slice element, the
// field itself) is written while a read-write mutex of that same struct is held
// in read mode only: readers run concurrently, so two such writers race
// (concurrent map writes abort the process).  Only failures are recorded.
func writesUnderReadLock(c *core.Ctx, lc *core.LockCache, rule string, fns []*ssa.Function) {
	for _, fn := range fns {
		lf := lc.Get(fn)
		if lf.Ops == 0 {
			continue
		}
		n := 0
		for _, b := range fn.Blocks {
			for _, in := range b.Instrs {
				var target ssa.Value
				switch x := in.(type) {
				case *ssa.MapUpdate:
					target = x.Map
				case *ssa.Store:
					target = x.Addr
				case *ssa.Call:
					if bi, ok := x.Call.Value.(*ssa.Builtin); ok && bi.Name() == "delete" && len(x.Call.Args) == 2 {
						target = x.Call.Args[0]
					}
				}
				if target == nil {
					continue
				}
				p := core.AccessPath(target)
				if len(p.Fields) == 0 {
					continue
				}
				if p.Root == nil {
					continue
				}
				owner := core.OwnerOfType(p.Root.Type())
				if owner == "" {
					continue
				}
				for class := range lf.MayHeld(in) {
					if class.Owner != owner {
						continue
					}
					held, _ := lf.HeldAt(in, class, false)
					excl, _ := lf.HeldAt(in, class, true)
					if held && !excl && isFieldOfSameObject(fn, in, target, class) {
						n++
						c.Fail(rule, fmt.Sprintf("write-under-rlock@%s#%d", core.FuncKey(fn), n), in.Pos(),
							fmt.Sprintf("%s is written while %s is held in read mode only: other readers (and other such writers) run at the same time; for a map that is a fatal 'concurrent map writes'", p.String(), class))
					}
				}
			}
		}
	}
}

// isFieldOfSameObject: the written field belongs to the object whose mutex is held
// (the lock was taken on the same root value).
func isFieldOfSameObject(fn *ssa.Function, at ssa.Instruction, target ssa.Value, class core.LockClass) bool {
	root := core.RootOf(target)
	for _, call := range core.Calls(fn) {
		op, ok := core.LockOpOf(call)
		if ok && op.Class == class && op.Kind == core.OpRLock && core.RootOf(call.Common().Args[0]) == root {
			return true
		}
	}
	return false
}
