package rules

import (
	"fmt"
	"go/ast"
	"go/token"
	"go/types"
	"golang.org/x/tools/go/packages"
	"strings"

	"golang.org/x/tools/go/ssa"

	"qicheck/internal/core"
)

// typeReaderImpls returns the Read methods of the TypeReader implementations
// of meta/signature (the signature-driven readers).
func typeReaderImpls(c *core.Ctx) []*ssa.Function {
	var out []*ssa.Function
	for _, fn := range srcFuncsOfPkg(c, "meta/signature") {
		if fn.Parent() != nil || fn.Name() != "Read" || fn.Signature.Recv() == nil {
			continue
		}
		if fn.Signature.Params().Len() != 1 || fn.Signature.Results().Len() != 2 {
			continue
		}
		out = append(out, fn)
	}
	return out
}

// localBuffer finds the function-local bytes.Buffer whose Bytes() is returned.
func returnedBytes(fn *ssa.Function) (buf ssa.Value, extra []ssa.Value, direct ssa.Value, problem string) {
	for _, ret := range core.Returns(fn) {
		if !successReturn(ret) && errorReturnConst(ret) {
			continue
		}
		v := core.Canon(core.RetVal(ret, 0))
		if core.IsNilConst(v) {
			continue
		}
		// append(buf.Bytes(), data...), or a chain of appends onto an empty slice made here:
		// out := make([]byte, 0, n); out = append(out, header...); out = append(out, data...)
		var pieces []ssa.Value
		for depth := 0; depth < 6; depth++ {
			call, ok := v.(*ssa.Call)
			if !ok {
				break
			}
			bi, ok := call.Call.Value.(*ssa.Builtin)
			if !ok || bi.Name() != "append" || len(call.Call.Args) != 2 {
				break
			}
			pieces = append([]ssa.Value{call.Call.Args[1]}, pieces...)
			v = core.Canon(call.Call.Args[0])
		}
		extra = append(extra, pieces...)
		if mk, ok := v.(*ssa.MakeSlice); ok && len(pieces) > 0 {
			if k, isK := core.ConstInt(mk.Len); isK && k == 0 {
				continue // everything returned was appended: the pieces are the result
			}
		}
		if call, ok := v.(*ssa.Call); ok {
			if f := call.Call.StaticCallee(); f != nil && f.Name() == "Bytes" && core.TypeIs(f.Signature.Recv().Type(), "bytes", "Buffer") {
				b := core.Canon(call.Call.Args[0])
				if buf != nil && buf != b {
					problem = "different buffers returned on different paths"
				}
				buf = b
				continue
			}
		}
		direct = v
	}
	return
}

// helperEmitted: v is the byte slice returned by a helper of the repository
// that assembles it in a buffer created by that very call (encodeString(s)):
// the operations the helper emits, its parameters replaced by the arguments.
func helperEmitted(c *core.Ctx, v ssa.Value) ([]tok, bool) {
	call, idx := core.CallResult(core.Canon(v))
	if call == nil || idx > 0 {
		return nil, false
	}
	h := call.Call.StaticCallee()
	if h == nil || !inRepo(h) || len(h.Blocks) == 0 {
		return nil, false
	}
	hb, hextra, hdirect, hp := returnedBytes(h)
	if hp != "" || hb == nil || hdirect != nil || len(hextra) > 0 || !isFreshLocal(hb, h) {
		return nil, false
	}
	toks, p := shapeOf(c, h, hb)
	if p != "" {
		return nil, false
	}
	toks = flatten(toks)
	for i := range toks {
		if pr, ok := core.Canon(toks[i].Val).(*ssa.Parameter); ok {
			for j, hp := range h.Params {
				if hp == pr && j < len(call.Call.Args) {
					toks[i].Val = call.Call.Args[j]
				}
			}
		}
	}
	return toks, true
}

// isFreshLocal: v is storage created by this very call of fn (a local
// variable, new(T), make, a composite literal) — not a pooled or shared object.
func isFreshLocal(v ssa.Value, fn *ssa.Function) bool {
	switch x := core.Canon(v).(type) {
	case *ssa.Alloc:
		return x.Parent() == fn
	case *ssa.MakeSlice:
		return x.Parent() == fn
	case *ssa.Slice:
		if al, ok := x.X.(*ssa.Alloc); ok {
			return al.Parent() == fn
		}
		return isFreshLocal(x.X, fn)
	case *ssa.Call:
		if bi, ok := x.Call.Value.(*ssa.Builtin); ok && bi.Name() == "append" && len(x.Call.Args) > 0 {
			// append to storage of this call stays in (or re-allocates from) storage of this call
			return isFreshLocal(x.Call.Args[0], fn)
		}
		if f := x.Call.StaticCallee(); f != nil {
			k := core.FuncKey(f)
			if k == "bytes.NewBuffer" || k == "bytes.NewBufferString" {
				return true
			}
			// a small constructor of the repository (newBuffer(n)): every return is storage
			// made by that very call
			if f.Pkg != nil && strings.HasPrefix(f.Pkg.Pkg.Path(), core.Module) && len(f.Blocks) > 0 && len(f.Blocks) <= 12 && f != fn {
				rets := core.Returns(f)
				if len(rets) == 0 {
					return false
				}
				for _, r := range rets {
					if len(r.Results) != 1 || !isFreshLocal(core.RetVal(r, 0), f) {
						return false
					}
				}
				return true
			}
		}
	}
	return false
}

// ruleReadersReturnWhatTheyConsume: E1 on every TypeReader.Read.
func ruleReadersReturnWhatTheyConsume(c *core.Ctx, rule string) {
	n := 0
	for _, fn := range typeReaderImpls(c) {
		key := core.FuncKey(fn)
		r := ssa.Value(fn.Params[1])
		consumed, p1 := shapeOf(c, fn, r)
		consumed = flatten(consumed)
		if len(consumed) == 0 {
			// readers that consume nothing (UnknownReader returns an error)
			allErr := true
			for _, ret := range core.Returns(fn) {
				if !errorReturnConst(ret) {
					allErr = false
				}
			}
			if allErr {
				continue
			}
		}
		n++
		buf, extra, direct, p2 := returnedBytes(fn)
		if p1 != "" || p2 != "" {
			c.Undecided(rule, key, fn.Pos(), "cannot extract the shape: "+p1+p2)
			continue
		}
		var emitted []tok
		if buf != nil {
			if !isFreshLocal(buf, fn) {
				c.Fail(rule, key, fn.Pos(), "the bytes returned come from a buffer that is not created by this call (pooled or shared storage): the value keeps a slice of memory that a later read overwrites")
				continue
			}
			emitted, _ = shapeOf(c, fn, buf)
			emitted = flatten(emitted)
		}
		for _, e := range extra {
			if pre, ok := helperEmitted(c, e); ok {
				emitted = append(emitted, pre...) // bytes assembled by a helper of the repository
				continue
			}
			emitted = append(emitted, tok{Kind: "prim", Name: "Bytes", Dir: "write", Val: e})
		}
		if cv, isConv := direct.(*ssa.Convert); buf == nil && direct != nil && isConv {
			// []byte(str): the characters of a string without its length prefix
			emitted = append([]tok{{Kind: "prim", Name: "RawStringBytes", Dir: "write", Val: cv.X}}, emitted...)
			d := compareConsumedEmitted(consumed, emitted)
			c.Check(d == "", rule, key, fn.Pos(), "", "the bytes returned are not the bytes consumed: "+d+" (an opaque value holding this type re-encodes to different bytes)")
			continue
		}
		if buf == nil && direct != nil {
			if pre, ok := helperEmitted(c, direct); ok {
				// the bytes were assembled by a helper of the repository in a buffer of its own
				emitted = append(pre, emitted...)
			} else {
				// the reader returns the buffer it filled
				if !isFreshLocal(direct, fn) {
					c.Fail(rule, key, fn.Pos(), "the slice returned is not storage created by this call (pooled or shared buffer): a later read overwrites bytes a decoded value still refers to")
					continue
				}
				emitted = append([]tok{{Kind: "prim", Name: "Bytes", Dir: "write", Val: direct}}, emitted...)
			}
		}
		d := compareConsumedEmitted(consumed, emitted)
		c.Check(d == "", rule, key, fn.Pos(), "returns exactly what it consumes: "+shapeString(consumed), "the bytes returned are not the bytes consumed: "+d+" (an opaque value holding this type re-encodes to different bytes)")
	}
	if n < 4 {
		c.Undecided(rule, "meta/signature TypeReader implementations", token.NoPos, fmt.Sprintf("only %d readers found", n))
	}
}

// compareConsumedEmitted: same steps, and each value consumed is the value
// emitted (string read = string written, sub-reader bytes = bytes appended).
func compareConsumedEmitted(cs, es []tok) string {
	if len(cs) != len(es) {
		return fmt.Sprintf("consumes %d items (%s) but emits %d (%s)", len(cs), shapeString(cs), len(es), shapeString(es))
	}
	for i := range cs {
		a, b := cs[i], es[i]
		switch {
		case a.Kind == "rep" && b.Kind == "rep":
			if a.CountPrev != b.CountPrev {
				return fmt.Sprintf("item %d: the loop count is tied to the length prefix on one side only", i+1)
			}
			if d := compareConsumedEmitted(flatten(a.Kids), flatten(b.Kids)); d != "" {
				return fmt.Sprintf("item %d (loop): %s", i+1, d)
			}
		case a.Kind == "prim" && b.Kind == "prim":
			an := a.Name
			if an == "Sub" {
				an = "Bytes" // the bytes a sub-reader returned are re-emitted raw
			}
			if an != b.Name {
				return fmt.Sprintf("item %d: consumes %s, emits %s", i+1, a.Name, b.Name)
			}
			if a.Val != nil && b.Val != nil && !core.SameValue(a.Val, b.Val) {
				return fmt.Sprintf("item %d (%s): the value emitted is not the value that was read", i+1, a.Name)
			}
		default:
			return fmt.Sprintf("item %d: consumes %s, emits %s", i+1, a, b)
		}
	}
	return ""
}

// ruleLimitComparisons: every comparison of a length with one of the size
// limits refuses only values strictly greater than the limit (siblings agree:
// a `>=` somewhere makes one side refuse what the other accepts).
func ruleLimitComparisons(c *core.Ctx, rule string) {
	limits := map[string]bool{"MaxStringSize": true, "MaxPayloadSize": true, "listValueMaxSize": true, "rawValueMaxSize": true, "capabilityMapSizeMax": true}
	n := 0
	seenLimit := map[string]bool{}
	// a limit handed to a helper (readSize(r, rawValueMaxSize, ErrRawValueTooLong)):
	// the helper's parameter stands for the limit in the helper's comparisons
	paramLimit := map[types.Object]string{}
	for _, rel := range []string{"type/basic", "type/value", "type/encoding", "bus/net", "bus", "meta/signature"} {
		p := c.Pkg(rel)
		if p == nil {
			continue
		}
		decls := map[types.Object]*ast.FuncDecl{}
		for _, f := range p.Syntax {
			for _, d := range f.Decls {
				if fd, ok := d.(*ast.FuncDecl); ok {
					decls[p.TypesInfo.Defs[fd.Name]] = fd
				}
			}
		}
		for _, f := range p.Syntax {
			ast.Inspect(f, func(nd ast.Node) bool {
				call, ok := nd.(*ast.CallExpr)
				if !ok {
					return true
				}
				var callee types.Object
				switch fun := call.Fun.(type) {
				case *ast.Ident:
					callee = p.TypesInfo.Uses[fun]
				case *ast.SelectorExpr:
					callee = p.TypesInfo.Uses[fun.Sel]
				}
				fd := decls[callee]
				if fd == nil || fd.Type.Params == nil {
					return true
				}
				var params []*ast.Ident
				for _, fl := range fd.Type.Params.List {
					params = append(params, fl.Names...)
				}
				for i, a := range call.Args {
					id, ok := a.(*ast.Ident)
					if !ok || i >= len(params) {
						continue
					}
					if k, ok := p.TypesInfo.Uses[id].(*types.Const); ok && limits[k.Name()] {
						paramLimit[p.TypesInfo.Defs[params[i]]] = k.Name()
					}
				}
				return true
			})
		}
	}
	for _, rel := range []string{"type/basic", "type/value", "type/encoding", "bus/net", "bus", "meta/signature"} {
		p := c.Pkg(rel)
		if p == nil {
			continue
		}
		for _, f := range p.Syntax {
			fname := c.Fset.Position(f.Pos()).Filename
			if strings.HasSuffix(fname, "_test.go") {
				continue
			}
			ord := map[string]int{}
			ast.Inspect(f, func(nd ast.Node) bool {
				be, ok := nd.(*ast.BinaryExpr)
				if !ok {
					return true
				}
				isLimit := func(e ast.Expr) string {
					found := ""
					ast.Inspect(e, func(m ast.Node) bool {
						if id, ok := m.(*ast.Ident); ok {
							if k, ok := p.TypesInfo.Uses[id].(*types.Const); ok && limits[k.Name()] {
								found = k.Name()
							}
							if l := paramLimit[p.TypesInfo.Uses[id]]; l != "" {
								found = l
							}
						}
						if _, isBin := m.(*ast.BinaryExpr); isBin && m != ast.Node(e) {
							return false
						}
						return true
					})
					return found
				}
				var lim string
				var refuseStrict, inclusive bool
				switch be.Op {
				case token.GTR, token.GEQ, token.LSS, token.LEQ:
				default:
					return true
				}
				if l := isLimit(be.Y); l != "" {
					lim = l
					refuseStrict = be.Op == token.GTR // x > K
					inclusive = be.Op == token.LEQ    // x <= K (accept form)
				} else if l := isLimit(be.X); l != "" {
					lim = l
					refuseStrict = be.Op == token.LSS // K < x
					inclusive = be.Op == token.GEQ    // K >= x
				} else {
					return true
				}
				n++
				ord[lim]++
				seenLimit[lim] = true
				key := fmt.Sprintf("%s/%s#%d", strings.TrimPrefix(fname, c.Repo+"/"), lim, ord[lim])
				// the limit bounds the size itself: a side that adds something (header size,
				// one more element) bounds another quantity than its siblings do
				addend := func(e ast.Expr) string {
					out := ""
					// a local variable stands for the expression it was defined with
					// (length := HeaderSize + m.Header.Size; if length > MaxPayloadSize)
					if id, ok := e.(*ast.Ident); ok {
						if def := definingExpr(p, f, id); def != nil {
							e = def
						}
					}
					ast.Inspect(e, func(m ast.Node) bool {
						if b, ok := m.(*ast.BinaryExpr); ok && (b.Op == token.ADD || b.Op == token.SUB) {
							for _, side := range []ast.Expr{b.X, b.Y} {
								if isLimit(side) == "" {
									if tv, ok := p.TypesInfo.Types[side]; ok && tv.Value != nil {
										out = b.Op.String() + tv.Value.ExactString()
									}
								}
							}
						}
						return true
					})
					return out
				}
				limSide, valSide := be.Y, be.X
				if isLimit(be.X) != "" {
					limSide, valSide = be.X, be.Y
				}
				if a, b := addend(limSide), addend(valSide); a != b {
					c.Fail(rule, key, be.Pos(), "this comparison applies "+lim+" to the size "+b+" (the limit side has "+a+"): the sibling codecs bound the size itself, so sizes within that distance of the limit are produced by one side and refused by the other")
					return true
				}
				c.Check(refuseStrict || inclusive, rule, key, be.Pos(), "values up to and including "+lim+" are accepted",
					"this comparison with "+lim+" treats the limit itself as too large (>= / <) while the other codecs accept it: an encoding of exactly the limit is produced by one side and refused by the other")
				return true
			})
		}
	}
	// vacuity guard: every limit that is declared is compared somewhere (how many
	// times depends on how the checks are factored: five tests may share one predicate)
	for _, rel := range []string{"type/basic", "type/value", "type/encoding", "bus/net", "bus", "meta/signature"} {
		p := c.Pkg(rel)
		if p == nil || p.Types == nil {
			continue
		}
		for name := range limits {
			if k, ok := p.Types.Scope().Lookup(name).(*types.Const); ok && k != nil && !seenLimit[name] {
				c.Undecided(rule, "limit comparisons/"+name, token.NoPos, "the size limit "+name+" is declared but never compared with anything: the rule no longer finds the comparisons it was written for")
			}
		}
	}
	if n < 5 {
		c.Undecided(rule, "limit comparisons", token.NoPos, fmt.Sprintf("only %d comparisons with a size limit found", n))
	}
}

// definingExpr: the right-hand side of the single short declaration (x := e)
// or var declaration that defines the local variable id refers to, if that
// variable is never assigned again; nil otherwise.
func definingExpr(p *packages.Package, file *ast.File, id *ast.Ident) ast.Expr {
	obj := p.TypesInfo.Uses[id]
	if obj == nil {
		return nil
	}
	var def ast.Expr
	n := 0
	ast.Inspect(file, func(nd ast.Node) bool {
		as, ok := nd.(*ast.AssignStmt)
		if !ok {
			return true
		}
		for i, l := range as.Lhs {
			li, ok := l.(*ast.Ident)
			if !ok {
				continue
			}
			if p.TypesInfo.Defs[li] == obj || p.TypesInfo.Uses[li] == obj {
				n++
				if len(as.Rhs) == len(as.Lhs) {
					def = as.Rhs[i]
				}
			}
		}
		return true
	})
	if n != 1 {
		return nil
	}
	return def
}

// ruleEveryMemberRead: a loop that reads through a reader chosen per iteration
// (the members of a tuple or struct, the entries of a table of readers) reads
// every one of them: it is left early only by the loop condition or with an
// error.  A loop whose reader is the same for every iteration (the element of
// a list) may stop at an element without representation — the others have
// none either — which says nothing about the next member of a tuple.
func ruleEveryMemberRead(c *core.Ctx, rule string) {
	n := 0
	for _, fn := range srcFuncsOfPkg(c, "meta/signature") {
		if c.IsTestFile(fn) {
			continue
		}
		for i, call := range core.Calls(fn) {
			cc := call.Common()
			if !cc.IsInvoke() || cc.Method.Name() != "Read" || len(cc.Args) != 1 {
				continue
			}
			if !core.TypeIs(cc.Value.Type(), "meta/signature", "TypeReader") {
				continue
			}
			in := call.(ssa.Instruction)
			h := loopHeaderOf(in)
			if h == nil {
				continue
			}
			inLoop := func(b *ssa.BasicBlock) bool {
				if !h.Dominates(b) {
					return false
				}
				// b can come back to the header
				seen := map[*ssa.BasicBlock]bool{}
				var back func(x *ssa.BasicBlock) bool
				back = func(x *ssa.BasicBlock) bool {
					if x == h {
						return true
					}
					if seen[x] || !h.Dominates(x) {
						return false
					}
					seen[x] = true
					for _, s := range x.Succs {
						if back(s) {
							return true
						}
					}
					return false
				}
				for _, s := range b.Succs {
					if back(s) {
						return true
					}
				}
				return false
			}
			n++
			key := fmt.Sprintf("%s/read#%d", core.FuncKey(fn), i)
			if readerInvariant(cc.Value, inLoop, 0) {
				c.Pass(rule, key, call.Pos(), "one reader for every iteration (elements of one type)")
				continue
			}
			// exits of the loop other than the header's own and the error side of an error test
			bad := ""
			for _, b := range fn.Blocks {
				if !inLoop(b) || b == h || len(b.Instrs) == 0 {
					continue
				}
				ifi, isIf := b.Instrs[len(b.Instrs)-1].(*ssa.If)
				for si, s := range b.Succs {
					if inLoop(s) || s == h {
						continue
					}
					if isIf {
						if okIdx, isErr := isErrGuard(ifi); isErr && si != okIdx {
							continue // leaves with the error
						}
					}
					if blockOnlyFails(s) {
						continue
					}
					bad = "the loop is left at " + c.Pos(lastPos(b)) + " before every member was read"
				}
			}
			c.Check(bad == "", rule, key, call.Pos(), "a reader per iteration, every iteration runs (the loop ends with its condition or with an error)",
				"the members of a tuple or structure have types of their own: "+bad+" — the remaining members stay in the stream and are missing from the bytes returned")
		}
	}
	if n < 1 {
		c.Undecided(rule, "meta/signature reader loops", token.NoPos, fmt.Sprintf("only %d loops reading through a TypeReader found", n))
	}
}

// blockOnlyFails: every return reachable from b carries a non-nil error constant-wise
// (b starts an error exit).
func blockOnlyFails(b *ssa.BasicBlock) bool {
	seen := map[*ssa.BasicBlock]bool{}
	var walk func(x *ssa.BasicBlock) bool
	walk = func(x *ssa.BasicBlock) bool {
		if seen[x] {
			return true
		}
		seen[x] = true
		if len(x.Instrs) > 0 {
			if ret, ok := x.Instrs[len(x.Instrs)-1].(*ssa.Return); ok {
				return !successReturn(ret) && errorReturnConst(ret)
			}
		}
		if len(x.Succs) == 0 {
			return true
		}
		for _, s := range x.Succs {
			if !walk(s) {
				return false
			}
		}
		return true
	}
	return walk(b)
}

// readerInvariant: v denotes the same reader in every iteration of the loop.
func readerInvariant(v ssa.Value, inLoop func(*ssa.BasicBlock) bool, depth int) bool {
	if depth > 8 {
		return false
	}
	switch x := v.(type) {
	case *ssa.Parameter, *ssa.Const, *ssa.FreeVar, *ssa.Global, *ssa.Function:
		return true
	case *ssa.MakeInterface:
		return readerInvariant(x.X, inLoop, depth+1)
	case *ssa.ChangeInterface:
		return readerInvariant(x.X, inLoop, depth+1)
	case *ssa.ChangeType:
		return readerInvariant(x.X, inLoop, depth+1)
	}
	in, ok := v.(ssa.Instruction)
	if !ok {
		return false
	}
	if in.Block() != nil && !inLoop(in.Block()) {
		return true
	}
	switch x := v.(type) {
	case *ssa.Field:
		return readerInvariant(x.X, inLoop, depth+1)
	case *ssa.FieldAddr:
		return readerInvariant(x.X, inLoop, depth+1)
	case *ssa.UnOp:
		if x.Op != token.MUL {
			return false
		}
		if !readerInvariant(x.X, inLoop, depth+1) {
			return false
		}
		// nothing in the loop writes the variable
		root := x.X
		for {
			if fa, ok := root.(*ssa.FieldAddr); ok {
				root = fa.X
				continue
			}
			break
		}
		if al, ok := root.(*ssa.Alloc); ok {
			for _, r := range core.Referrers(al) {
				if st, ok := r.(*ssa.Store); ok && st.Addr == ssa.Value(al) && inLoop(st.Block()) {
					return false
				}
			}
		}
		return true
	}
	return false
}

// lastPos: the position of the last instruction of b that has one.
func lastPos(b *ssa.BasicBlock) token.Pos {
	for i := len(b.Instrs) - 1; i >= 0; i-- {
		if p := b.Instrs[i].Pos(); p.IsValid() {
			return p
		}
		if ifi, ok := b.Instrs[i].(*ssa.If); ok {
			if v, ok := ifi.Cond.(ssa.Instruction); ok && v.Pos().IsValid() {
				return v.Pos()
			}
		}
	}
	return token.NoPos
}
