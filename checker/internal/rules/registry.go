// Package rules holds the per-property rule sets.
package rules

import "qicheck/internal/core"

// Property is the rule set deciding the structural clauses of one property.
type Property struct {
	ID          string
	Title       string
	Explanation string
	Assumptions []string
	Run         func(c *core.Ctx)
}

// Registry maps property ids to their rule sets.
var Registry = map[string]*Property{}

func register(p *Property) { Registry[p.ID] = p }
