// Package rules holds the per-property rule sets.
package rules

import "qicheck/internal/core"

// Property is the rule set deciding the structural clauses of one property.
type Property struct {
	ID          string
	Title       string
	Explanation string
	Assumptions []string
	Run         func(c *core.Ctx)
}

// Registry maps property ids to their rule sets.
var Registry = map[string]*Property{}

func register(p *Property) {
	run := p.Run
	p.Run = func(c *core.Ctx) {
		setAtomWrapperDecls(c) // per-program tables the syntax-level helpers consult
		run(c)
	}
	Registry[p.ID] = p
}

// Related lists, per property, the properties whose rules the thorough tier
// also runs: the ones whose checks caught seeded breakages of the property
// that its own rules did not (DESIGN.md §9), i.e. whose behaviours overlap.
var Related = map[string][]string{
	"C01": {"C08", "C10"}, "C02": {"C03", "C08"}, "C03": {"C02", "C08", "C20"}, "C04": {"C12", "C11", "C17"},
	"C05": {"C03", "C13", "C07"}, "C07": {"C12", "C09", "C18"}, "C08": {"C01", "C03"}, "C09": {"C07"},
	"C10": {"C17", "C01"}, "C11": {"C17", "C13"}, "C12": {"C15", "C16", "C07", "C17"}, "C13": {"C14", "C11"},
	"C14": {"C13"}, "C15": {"C12", "C13"}, "C16": {"C12", "C17"}, "C17": {"C12", "C10", "C11"},
	"C18": {"C09", "C07"}, "C19": {"C10", "C11", "C06"}, "C20": {"C03"},
}
