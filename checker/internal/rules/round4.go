package rules

import (
	"fmt"
	"go/ast"
	"go/constant"
	"go/token"
	"go/types"
	"strings"

	"golang.org/x/tools/go/ssa"

	"qicheck/internal/core"
)

// Rules added after the fourth round of seeded changes (changes that ADD a fast
// path, a cache, a retry or a goroutine next to code that stays as it is).

// ruleEmitSequential: the events of one object are written by the goroutine
// that emits them, one subscriber after the other: no goroutine is started by
// UpdateSignal or by what it calls (a goroutine per recipient loses the
// emission order on every connection, and in a range loop shares the loop
// variable: go.mod says go 1.13).
func ruleEmitSequential(c *core.Ctx, rule string) {
	fn := c.Func("bus", "signalHandler", "UpdateSignal")
	if fn == nil {
		c.Undecided(rule, "bus.signalHandler.UpdateSignal", token.NoPos, "anchor not found")
		return
	}
	key := "bus.signalHandler.UpdateSignal/sequential"
	for _, u := range unitOf(c, fn) {
		for _, f := range core.AnonFuncs(u) {
			for _, call := range core.Calls(f) {
				if g, isGo := call.(*ssa.Go); isGo {
					c.Fail(rule, key, g.Pos(), "UpdateSignal hands the event to another goroutine: two emissions in a row are then written to a connection by two unordered writers (events arrive out of order or after an acknowledged unsubscription), and a goroutine started in the loop over the recipients shares the loop variable (go 1.13 semantics): the last subscriber gets the event several times and the others never")
					return
				}
			}
		}
	}
	// a goroutine started through a helper that is not private (go o.notify(...))
	for _, f := range core.AnonFuncs(fn) {
		for _, call := range core.Calls(f) {
			if _, isGo := call.(*ssa.Go); isGo {
				c.Fail(rule, key, call.Pos(), "UpdateSignal starts a goroutine")
				return
			}
		}
	}
	c.Pass(rule, key, fn.Pos(), "every recipient is written to by the emitting goroutine itself, in order")
}

// ruleTellEverySubscriber: in signalHandler.OnTerminate every former
// subscriber is told: no path through the body of the loop skips sendTerminate.
func ruleTellEverySubscriber(c *core.Ctx, rule string) {
	fn := c.Func("bus", "signalHandler", "OnTerminate")
	sendT := c.Func("bus", "signalHandler", "sendTerminate")
	if fn == nil || sendT == nil {
		return // reported by the rule that owns the anchors
	}
	for _, call := range core.Calls(fn) {
		if !core.IsCallTo(call, sendT) {
			continue
		}
		in := call.(ssa.Instruction)
		h := loopHeaderOf(in)
		if h == nil || len(h.Instrs) == 0 {
			continue
		}
		body := h.Succs[0]
		if r0 := core.ReachFrom(core.Point{B: body, I: 0}, nil, nil); !r0.Has(h.Instrs[0]) {
			body = h.Succs[1]
		}
		r := core.ReachFrom(core.Point{B: body, I: 0}, func(x ssa.Instruction) bool { return x == in }, nil)
		c.Check(!r.Has(h.Instrs[0]), rule, "bus.signalHandler.OnTerminate/each", call.Pos(), "no iteration of the loop over the former subscribers skips sendTerminate",
			"an iteration of the loop over the former subscribers can skip sendTerminate (told once per connection, or only under a condition): a subscription to another signal or property on the same connection is never told that the object is gone")
	}
}

// ruleFreshMessagePerRead: endPoint.process reads every message into a
// Message allocated for that read: the pointer is handed to the handler queues,
// so an object that is read into again is seen changed (or twice) by consumers
// that still hold it.
func ruleFreshMessagePerRead(c *core.Ctx, a *epAnchors, rule string) {
	rs := a.readSite(c)
	if rs.problem != "" || rs.call == nil {
		return // C11.read-error reports the missing anchor
	}
	key := "bus/net.endPoint.process/fresh-message"
	if rs.dispatchInHelper != nil {
		// receive(): the message is the helper's own allocation, one per call
		recv := rs.inner.Common().Args[0]
		al, ok := core.Canon(recv).(*ssa.Alloc)
		ok = ok && al.Heap && al.Parent() == rs.helper && loopHeaderOf(al) == loopHeaderOf(rs.inner.(ssa.Instruction))
		c.Check(ok, rule, key, rs.inner.Pos(), "every read fills a Message allocated for it", "a Message that was already handed to a handler queue can be read into again")
		return
	}
	recv := rs.call.Common().Args[0]
	rin := rs.call.(ssa.Instruction)
	al, ok := core.Canon(recv).(*ssa.Alloc)
	fn := rin.Parent()
	if ok && al.Parent() != fn {
		// the read lives in a helper: the message is the helper's own allocation or its parameter
		ok = false
	}
	if p, isParam := core.Canon(recv).(*ssa.Parameter); isParam && isPrivateHelper(c, fn) {
		// receive(msg): look at what the callers pass
		sites, _ := c.CallSites()
		ok = len(sites[fn]) > 0
		for _, cs := range sites[fn] {
			for i, hp := range fn.Params {
				if hp == p && i < len(cs.Common().Args) {
					a2, isAlloc := core.Canon(cs.Common().Args[i]).(*ssa.Alloc)
					if !isAlloc || !a2.Heap || loopHeaderOf(a2) != loopHeaderOf(cs.(ssa.Instruction)) {
						ok = false
					}
				}
			}
		}
		c.Check(ok, rule, key, rs.call.Pos(), "every read fills a Message allocated for it", "a Message that was already handed to a handler queue can be read into again")
		return
	}
	if ok {
		h1, h2 := loopHeaderOf(al), loopHeaderOf(rin)
		// allocated in the same iteration as the read (inside the loop, or a function without a loop of its own)
		ok = al.Heap && h1 == h2
	}
	c.Check(ok, rule, key, rs.call.Pos(), "every read fills a Message allocated for it",
		"the Message read into is not allocated for that read (it is kept across iterations): its pointer was handed to the handler queues by dispatch, and dispatch also reports an error when only one of several matching queues was full, so consumers that hold the earlier message see it overwritten by later traffic (messages lost and duplicated)")
}

// ruleTerminateHookCallers: the termination hook of an object is run by the
// function that took the object out of its table (serviceImpl.Remove /
// Terminate, clientService.Remove / its disconnect closer) and by the stubs that
// forward it to their implementation — nowhere else: anybody else cannot know
// whether the hook already ran.
func ruleTerminateHookCallers(c *core.Ctx, rule string) {
	// the closers registered with connection handlers (resolved through factories)
	closers := map[*ssa.Function]bool{}
	if a := getEP(c, rule); a != nil {
		for _, s := range handlerSites(c, a) {
			if f, ok := funcValue(s.closer); ok && f != nil {
				closers[f] = true
			}
		}
	}
	n := 0
	for _, fn := range srcFuncsOfPkg(c, "bus") {
		if isGenerated(c, fn) {
			continue
		}
		for i, call := range core.Calls(fn) {
			cc := call.Common()
			if !cc.IsInvoke() || cc.Method.Name() != "OnTerminate" {
				continue
			}
			root := fn
			for root.Parent() != nil {
				root = root.Parent()
			}
			key := fmt.Sprintf("OnTerminate-call@%s#%d", core.FuncKey(fn), i)
			n++
			ok := false
			why := ""
			switch {
			case root.Name() == "OnTerminate":
				ok, why = true, "a hook forwarding to the object it wraps"
			case root.Signature.Recv() != nil && (root.Name() == "Remove" || root.Name() == "Terminate"):
				ok, why = true, "the function that removes the object from its table"
			case closers[fn]:
				// the disconnect closer registered by clientService.Add (or built by a factory it calls)
				ok, why = true, "the closer of the connection handler registered when the object was added"
			}
			c.Check(ok, rule, key, call.Pos(), "the hook is run by "+why,
				"the termination hook is run by a function that did not take the object out of its table (a fallback when Remove fails, a convenience): Remove fails exactly when the object was already removed or terminated, so the hook runs a second time")
		}
	}
	if n < 3 {
		c.Undecided(rule, "OnTerminate-call", token.NoPos, fmt.Sprintf("only %d call sites of the termination hook found in package bus", n))
	}
}

// ruleNoGoConversion: type/conversion decides itself which kinds convert into
// which: it never defers to reflect's notion of convertibility, which is much
// wider (an integer converts to a string, a float to an integer).
func ruleNoGoConversion(c *core.Ctx, rule string) {
	n := 0
	for _, fn := range srcFuncsOfPkg(c, "type/conversion") {
		for i, call := range core.Calls(fn) {
			f := core.StaticCallee(call)
			if f == nil {
				continue
			}
			k := core.FuncKey(f)
			if k == "reflect.Value.Convert" || k == "reflect.Value.CanConvert" || (strings.HasSuffix(k, ".ConvertibleTo") && strings.HasPrefix(k, "reflect.")) {
				n++
				c.Fail(rule, fmt.Sprintf("reflect-convert@%s#%d", core.FuncKey(fn), i), call.Pos(), "the conversion defers to Go's own convertibility ("+f.Name()+"), which accepts pairs the protocol refuses: an integer becomes a one-character string, a float is truncated into an integer, instead of an error")
			}
			if cc := call.Common(); cc.IsInvoke() && (cc.Method.Name() == "ConvertibleTo" || cc.Method.Name() == "AssignableTo") && core.TypeIs(cc.Value.Type(), "reflect", "Type") {
				n++
				c.Fail(rule, fmt.Sprintf("reflect-convert@%s#%d", core.FuncKey(fn), i), call.Pos(), "the conversion defers to Go's own convertibility (Type."+cc.Method.Name()+"), which accepts pairs the protocol refuses: an integer becomes a one-character string, a float is truncated into an integer, instead of an error")
			}
		}
	}
	if n == 0 {
		c.Pass(rule, "reflect-convert", token.NoPos, "no use of reflect's Convert / ConvertibleTo / AssignableTo in type/conversion")
	}
}

// withExamples adds the overlaid package of positive and negative examples
// (core.WitnessDirName) to the packages a rule scans.
func withExamples(rels []string) []string {
	return append(append([]string{}, rels...), core.WitnessDirName)
}

// ruleIndexResultChecked: the result of an Index-style search (-1 when nothing
// is found) is not used as a slice bound or in arithmetic feeding one before it
// was tested: input[pos : pos+IndexByte(...)] panics for the input that does
// not contain the byte.
func ruleIndexResultChecked(c *core.Ctx, rule string, rels ...string) {
	n := 0
	for _, rel := range withExamples(rels) {
		for _, fn := range srcFuncsOfPkg(c, rel) {
			for i, call := range core.Calls(fn) {
				cv, ok := call.(*ssa.Call)
				if !ok {
					continue
				}
				f := core.StaticCallee(call)
				if f == nil || f.Pkg == nil {
					continue
				}
				pk := f.Pkg.Pkg.Path()
				if (pk != "strings" && pk != "bytes") || !(strings.HasPrefix(f.Name(), "Index") || strings.HasPrefix(f.Name(), "LastIndex")) {
					continue
				}
				if b, isB := f.Signature.Results().At(0).Type().Underlying().(*types.Basic); !isB || b.Kind() != types.Int {
					continue
				}
				n++
				key := fmt.Sprintf("index-result@%s#%d", core.FuncKey(fn), i)
				isRes := func(v ssa.Value) bool { return core.StripConv(v) == ssa.Value(cv) }
				bad := token.NoPos
				var visit func(v ssa.Value, depth int)
				visit = func(v ssa.Value, depth int) {
					if depth > 4 {
						return
					}
					for _, u := range core.Referrers(v) {
						switch x := u.(type) {
						case *ssa.Slice:
							if (x.Low == v || x.High == v || x.Max == v) && !core.Guarded(fn, x, core.LowerBound0(isRes)) {
								bad = x.Pos()
							}
						case *ssa.IndexAddr:
							if x.Index == v && !core.Guarded(fn, x, core.LowerBound0(isRes)) {
								bad = x.Pos()
							}
						case *ssa.Index:
							if x.Index == v && !core.Guarded(fn, x, core.LowerBound0(isRes)) {
								bad = x.Pos()
							}
						case *ssa.Lookup:
							if x.Index == v {
								if _, isStr := x.X.Type().Underlying().(*types.Basic); isStr && !core.Guarded(fn, x, core.LowerBound0(isRes)) {
									bad = x.Pos()
								}
							}
						case *ssa.BinOp:
							if x.Op == token.ADD {
								// idx + k with k >= 1 is never negative (s[strings.LastIndex(s, "/")+1:])
								other := x.Y
								if other == v {
									other = x.X
								}
								if k, isK := core.ConstInt(other); isK && k >= 1 {
									continue
								}
							}
							if x.Op == token.ADD || x.Op == token.SUB {
								visit(x, depth+1)
							}
						case *ssa.Convert:
							visit(x, depth+1)
						case *ssa.Phi:
							visit(x, depth+1)
						}
					}
				}
				visit(cv, 0)
				c.Check(!bad.IsValid(), rule, key, firstPos(bad, call.Pos()), "the search result is tested before it bounds a slice or an index",
					"the result of "+f.Name()+" (-1 when nothing is found) reaches a slice bound or an index without having been tested: the input that does not contain what is searched for makes the parser panic (slice bounds out of range) instead of returning an error")
			}
		}
	}
	if n == 0 {
		c.PassTrivial(rule, "index-result", token.NoPos, "no Index-style search in "+strings.Join(rels, ", "))
	}
}

// runsAtInitOnly: fn is a package initialiser, or a function that is only
// called (statically, its value never taken) from functions that run at
// initialisation only.
func runsAtInitOnly(c *core.Ctx, fn *ssa.Function, depth int) bool {
	for fn.Parent() != nil {
		fn = fn.Parent()
	}
	if fn.Name() == "init" || strings.HasPrefix(fn.Name(), "init#") {
		return true
	}
	if depth > 4 || !isPrivateHelper(c, fn) {
		return false
	}
	all, _ := c.CallSites()
	sites := all[fn]
	if len(sites) == 0 {
		return false
	}
	for _, cs := range sites {
		if !runsAtInitOnly(c, cs.Parent(), depth+1) {
			return false
		}
	}
	return true
}

// ruleSharedMapWritesExclusive: a map that is shared (a package-level variable,
// or a field reached from a parameter or receiver) is not written while the
// only lock held is a read lock: readers run concurrently, so two such writers
// race and the runtime aborts the process (concurrent map writes).  Applies to
// the packages of rels.
func ruleSharedMapWritesExclusive(c *core.Ctx, lc *core.LockCache, rule string, rels ...string) {
	n := 0
	for _, rel := range withExamples(rels) {
		for _, fn := range srcFuncsOfPkg(c, rel) {
			lf := lc.Get(fn)
			for _, b := range fn.Blocks {
				for _, in := range b.Instrs {
					var m ssa.Value
					switch x := in.(type) {
					case *ssa.MapUpdate:
						m = x.Map
					case *ssa.Call:
						if bi, ok := x.Call.Value.(*ssa.Builtin); ok && bi.Name() == "delete" && len(x.Call.Args) == 2 {
							m = x.Call.Args[0]
						}
					}
					if m == nil {
						continue
					}
					// a package-level map written at run time with no exclusive lock at all
					if ld, ok := m.(*ssa.UnOp); ok && ld.Op == token.MUL {
						if g, isG := ld.X.(*ssa.Global); isG && !runsAtInitOnly(c, fn, 0) {
							excl := false
							for class := range lf.MayHeld(in) {
								if e, _ := lf.HeldAt(in, class, true); e {
									excl = true
								}
							}
							if !excl {
								anyLock := len(lf.MayHeld(in)) > 0
								if !anyLock {
									n++
									c.Fail(rule, fmt.Sprintf("unlocked-package-map@%s/%s", core.FuncKey(fn), g.Name()), in.Pos(), fmt.Sprintf("the package-level map %s is written at run time with no lock held: two goroutines decoding at the same time write it concurrently (fatal error: concurrent map writes aborts the process), and a table keyed by what the input says grows with every input", g.Name()))
									continue
								}
							}
						}
					}
					if lf.Ops == 0 {
						continue
					}
					shared := false
					if ld, ok := m.(*ssa.UnOp); ok && ld.Op == token.MUL {
						switch r := ld.X.(type) {
						case *ssa.Global:
							shared = true
						case *ssa.FieldAddr:
							root := core.RootOf(r)
							if _, isParam := root.(*ssa.Parameter); isParam {
								shared = true
							}
							if _, isFree := root.(*ssa.FreeVar); isFree {
								shared = true
							}
						}
					}
					if !shared {
						continue
					}
					readOnly, exclusive := false, false
					var rc core.LockClass
					for class := range lf.MayHeld(in) {
						held, _ := lf.HeldAt(in, class, false)
						excl, _ := lf.HeldAt(in, class, true)
						if excl {
							exclusive = true
						} else if held {
							readOnly, rc = true, class
						}
					}
					if readOnly && !exclusive {
						n++
						c.Fail(rule, fmt.Sprintf("map-write-under-read-lock@%s#%d", core.FuncKey(fn), n), in.Pos(), fmt.Sprintf("a shared map is written while only the read lock %s is held: readers are admitted concurrently, so two goroutines on this path write the map at the same time (fatal error: concurrent map writes aborts the process)", rc))
					}
				}
			}
		}
	}
	if n == 0 {
		c.PassTrivial(rule, "map-write-under-read-lock", token.NoPos, "no shared map is written with only a read lock held in "+strings.Join(rels, ", "))
	}
}

// ruleWireStringIndex: a decoder does not index a string or a byte slice it has
// just read from the input with a constant before having tested its length:
// s[0] on the empty string panics (index out of range) in the goroutine that
// decodes, i.e. in the object's mailbox goroutine or the connection's reader.
func ruleWireStringIndex(c *core.Ctx, d *decoderSet, rule string) {
	n := 0
	for _, fn := range d.members() {
		if !notExample(fn) || c.IsTestFile(fn) {
			continue
		}
		fromWire := map[ssa.Value]bool{}
		for _, dc := range d.decoderCallsIn(fn) {
			cv, ok := dc.call.(*ssa.Call)
			if !ok {
				continue
			}
			for _, r := range core.Referrers(cv) {
				if e, ok := r.(*ssa.Extract); ok && e.Index != dc.errIdx {
					fromWire[e] = true
					fromWire[core.StripConv(core.Canon(e))] = true
				}
			}
		}
		if len(fromWire) == 0 {
			continue
		}
		for _, b := range fn.Blocks {
			for _, in := range b.Instrs {
				var base, idx ssa.Value
				switch x := in.(type) {
				case *ssa.Lookup:
					if bt, ok := x.X.Type().Underlying().(*types.Basic); ok && bt.Info()&types.IsString != 0 {
						base, idx = x.X, x.Index
					}
				case *ssa.Index:
					// go/ssa represents s[i] on a string as Index
					if bt, ok := x.X.Type().Underlying().(*types.Basic); ok && bt.Info()&types.IsString != 0 {
						base, idx = x.X, x.Index
					}
				case *ssa.IndexAddr:
					if _, ok := x.X.Type().Underlying().(*types.Slice); ok {
						base, idx = x.X, x.Index
					}
				}
				if base == nil || !(fromWire[core.StripConv(core.Canon(base))] || fromWire[core.StripConv(base)]) {
					continue
				}
				k, isK := core.ConstInt(idx)
				if !isK {
					continue
				}
				// the buffer comes from a helper that returns (on success) exactly as many
				// bytes as a constant argument says — readExact(r, 1)[0]
				if ex, isEx := core.StripConv(core.Canon(base)).(*ssa.Extract); isEx {
					if cl, isCall := ex.Tuple.(*ssa.Call); isCall {
						if j, okH := movesParamBytes(cl.Call.StaticCallee(), d.readN, nil); okH && j < len(cl.Call.Args) {
							if ln, isConst := core.ConstInt(cl.Call.Args[j]); isConst && k < ln {
								continue
							}
						}
					}
				}
				n++
				b0 := core.StripConv(core.Canon(base))
				isLen := func(v ssa.Value) bool {
					cl, ok := core.StripConv(v).(*ssa.Call)
					if !ok {
						return false
					}
					bi, ok := cl.Call.Value.(*ssa.Builtin)
					return ok && bi.Name() == "len" && core.StripConv(core.Canon(cl.Call.Args[0])) == b0
				}
				isBase := func(v ssa.Value) bool { return core.StripConv(core.Canon(v)) == b0 }
				isEmpty := func(v ssa.Value) bool { s, ok := core.ConstString(v); return ok && s == "" }
				longEnough := func(cm core.Cmp) (bool, bool) {
					// len(s) > k, len(s) >= k+1, len(s) != 0 (k == 0), and mirrored forms
					x, y, op := cm.X, cm.Y, cm.Op
					if !isLen(x) {
						if !isLen(y) {
							return false, false
						}
						x, y = y, x
						switch op {
						case token.LSS:
							op = token.GTR
						case token.LEQ:
							op = token.GEQ
						case token.GTR:
							op = token.LSS
						case token.GEQ:
							op = token.LEQ
						}
					}
					kk, ok := core.ConstInt(y)
					if !ok {
						return false, false
					}
					switch op {
					case token.GTR:
						return kk >= k, false
					case token.GEQ:
						return kk >= k+1, false
					case token.NEQ:
						return k == 0 && kk == 0, false
					case token.EQL:
						return false, k == 0 && kk == 0
					case token.LEQ:
						return false, kk >= k
					case token.LSS:
						return false, kk >= k+1
					}
					return false, false
				}
				guard := core.AnyOf(longEnough, core.Ne(isBase, isEmpty))
				if k != 0 {
					guard = longEnough
				}
				c.Check(core.Guarded(fn, in, guard), rule, fmt.Sprintf("wire-index@%s#%d", core.FuncKey(fn), n), in.Pos(), "indexed only after its length was tested",
					fmt.Sprintf("a string or byte slice just read from the input is indexed with %d before its length was tested: the empty (or short) value, which any client can send, panics with index out of range in the goroutine that decodes (the object's mailbox or the connection's reader)", k))
			}
		}
	}
	if n == 0 {
		c.PassTrivial(rule, "wire-index", token.NoPos, "no decoder indexes a value read from the input with a constant")
	}
}

// ruleRegistryCopies: the directory keeps service descriptions in its two
// tables; any other field that holds ServiceInfo values (a cache, an index by
// name) is a second copy, and every function that changes the table of ready
// services has to change it too — otherwise lookups answer from the copy what
// list no longer shows.
func ruleRegistryCopies(c *core.Ctx, rule string, st *types.Named, staging, services *types.Var, fns []*ssa.Function) {
	s, ok := st.Underlying().(*types.Struct)
	if !ok {
		return
	}
	holdsInfo := func(t types.Type) bool {
		found := false
		var walk func(t types.Type, depth int)
		walk = func(t types.Type, depth int) {
			if depth > 4 || found {
				return
			}
			if n, ok := t.(*types.Named); ok && n.Obj().Name() == "ServiceInfo" {
				found = true
				return
			}
			switch u := t.Underlying().(type) {
			case *types.Map:
				walk(u.Key(), depth+1)
				walk(u.Elem(), depth+1)
			case *types.Slice:
				walk(u.Elem(), depth+1)
			case *types.Array:
				walk(u.Elem(), depth+1)
			case *types.Pointer:
				walk(u.Elem(), depth+1)
			}
		}
		walk(t, 0)
		return found
	}
	n := 0
	for i := 0; i < s.NumFields(); i++ {
		f := s.Field(i)
		if f == staging || f == services || !holdsInfo(f.Type()) {
			continue
		}
		n++
		for _, fn := range fns {
			ups, dels := mapWrites(fn, services)
			if len(ups)+len(dels) == 0 {
				continue
			}
			touched := false
			for _, a := range fieldAccesses(fn, f) {
				if a.write {
					touched = true
				}
			}
			cu, cd := mapWrites(fn, f)
			if len(cu)+len(cd) > 0 {
				touched = true
			}
			pos := fn.Pos()
			if len(ups) > 0 {
				pos = ups[0].Pos()
			} else {
				pos = dels[0].Pos()
			}
			c.Check(touched, rule, fmt.Sprintf("copy-%s@%s", f.Name(), core.FuncKey(fn)), pos, "the second copy of the service descriptions is maintained with the table",
				fmt.Sprintf("%s changes the table of ready services but not %s, which also holds service descriptions (a cache or index): lookups answered from it return what the service was before the change, while list shows the new state", core.FuncKey(fn), f.Name()))
		}
	}
	if n == 0 {
		c.PassTrivial(rule, "registry-copies", st.Obj().Pos(), "service descriptions are held by the two tables only")
	}
}

// ruleBuildersBuildOneKind: a parser node builder that constructs a composite
// type (list, map, tuple, struct) yields that composite on every path that does
// not fail: a path that hands back one of its operands unchanged (the single
// member of a one-member tuple) parses the printed form into another type than
// the one that was printed.
func ruleBuildersBuildOneKind(c *core.Ctx, rule string, rels ...string) {
	n := 0
	for _, rel := range rels {
		sigType := c.Named("meta/signature", "Type")
		if sigType == nil {
			continue
		}
		iface, _ := sigType.Underlying().(*types.Interface)
		for _, fn := range srcFuncsOfPkg(c, rel) {
			if fn.Parent() != nil || len(fn.Params) != 1 || fn.Signature.Results().Len() != 1 {
				continue
			}
			if _, isSlice := fn.Params[0].Type().Underlying().(*types.Slice); !isSlice {
				continue
			}
			if _, isIface := fn.Signature.Results().At(0).Type().Underlying().(*types.Interface); !isIface {
				continue
			}
			// what each return yields
			built := map[string]token.Pos{}
			var passed []token.Pos
			for _, ret := range core.Returns(fn) {
				v := core.RetVal(ret, 0)
				mi, ok := v.(*ssa.MakeInterface)
				if !ok {
					if ct, isCT := v.(*ssa.ChangeInterface); isCT {
						// an operand's own Type handed back
						if iface != nil && types.Implements(ct.X.Type(), iface) {
							passed = append(passed, ret.Pos())
						}
					}
					continue
				}
				t := mi.X.Type()
				if core.IsErrorType(t) || (iface != nil && !types.Implements(t, iface)) {
					continue
				}
				switch x := core.Canon(mi.X).(type) {
				case *ssa.Alloc:
					built[types.TypeString(t, nil)] = ret.Pos()
				case *ssa.Call:
					if f := x.Call.StaticCallee(); f != nil && strings.HasPrefix(f.Name(), "New") {
						built[f.Name()] = ret.Pos()
					} else {
						passed = append(passed, ret.Pos())
					}
				default:
					if _, isIfaceVal := mi.X.Type().Underlying().(*types.Interface); isIfaceVal {
						passed = append(passed, ret.Pos())
					}
				}
			}
			if len(built) == 0 {
				continue
			}
			n++
			key := "builder@" + core.FuncKey(fn)
			if len(passed) > 0 {
				c.Fail(rule, key, passed[0], "this node builder constructs a composite type on one path and hands back one of its operands unchanged on another: the printed form of the composite parses back into a different type (a one-member tuple into its member)")
				continue
			}
			c.Pass(rule, key, fn.Pos(), "every successful path yields the composite this builder constructs")
		}
	}
	if n == 0 {
		c.Undecided(rule, "builders", token.NoPos, "no node builder constructing a composite type found")
	}
}

// ruleNoFabricatedOperands: in the node builders of the signature parser an
// operand list (the member names of a struct) is what the parser produced, never
// a zero-filled list made on the spot to stand in for a missing one: the type
// built from it prints a form the parser itself refuses ("(ff)<Point,,>").
func ruleNoFabricatedOperands(c *core.Ctx, rule string) {
	n := 0
	for _, fn := range srcFuncsOfPkg(c, "meta/signature") {
		if !strings.Contains(fn.Name(), "nodify") && !strings.Contains(fn.Name(), "extract") {
			continue
		}
		for _, b := range fn.Blocks {
			for _, in := range b.Instrs {
				p, ok := in.(*ssa.Phi)
				if !ok {
					break
				}
				if _, isSlice := p.Type().Underlying().(*types.Slice); !isSlice {
					continue
				}
				made, parsed, trimmed := false, false, false
				for _, e := range p.Edges {
					switch x := core.Canon(e).(type) {
					case *ssa.MakeSlice:
						made = true
					case *ssa.Slice:
						// a re-slice of another edge of the same phi: the parsed list with
						// members cut off on one path
						for _, e2 := range p.Edges {
							if e2 != e && core.Canon(x.X) == core.Canon(e2) {
								trimmed = true
							}
						}
					case *ssa.Call:
						if bi, isB := x.Call.Value.(*ssa.Builtin); isB && bi.Name() == "append" {
							continue // the list being filled in a loop: make(.., 0, n) then append
						}
						parsed = true
					case *ssa.Extract, *ssa.TypeAssert, *ssa.Parameter:
						parsed = true
					}
				}
				if trimmed && parsed {
					n++
					c.Fail(rule, fmt.Sprintf("trimmed-operand@%s#%d", core.FuncKey(fn), n), p.Pos(), "a list the parser produced is cut down on one path before the type is built from it: the members dropped are in the input but not in the printed form, so a signature of the grammar (a tuple whose only member is void, \"(v)\") does not print back as itself")
					continue
				}
				if made && parsed {
					n++
					c.Fail(rule, fmt.Sprintf("fabricated-operand@%s#%d", core.FuncKey(fn), n), p.Pos(), "a list the parser produced is replaced, on one path, by a zero-filled list made on the spot: an input outside the grammar is accepted and the type built from it prints a form that does not parse back (empty member names)")
				}
			}
		}
	}
	if n == 0 {
		c.PassTrivial(rule, "fabricated-operand", token.NoPos, "node builders use the lists the parser produced")
	}
}

// ruleReaderWidthTables: wherever a signature letter is paired with a
// fixed-width reader outside the constructor table (a shortcut table of the
// scalar readers), the width is the one the constructor of that letter uses:
// a double read as 4 bytes shifts everything that follows it.
func ruleReaderWidthTables(c *core.Ctx, rule string) {
	width := map[string]int64{}
	for _, r := range ctorTable(c) {
		if r.ReaderW > 0 {
			width[r.Signature] = r.ReaderW
		}
	}
	if len(width) < 8 {
		c.Undecided(rule, "reader-widths", token.NoPos, "the constructor table does not give the widths of the scalar readers")
		return
	}
	n := 0
	for _, rel := range []string{"meta/signature", "type/value", "type/encoding"} {
		p := c.Pkg(rel)
		if p == nil {
			continue
		}
		for _, f := range p.Syntax {
			if strings.HasSuffix(c.Fset.Position(f.Pos()).Filename, "_test.go") {
				continue
			}
			// the same table written as a switch over the letter:
			// case 'i', 'I', 'f': return constReader(4)
			ast.Inspect(f, func(nd ast.Node) bool {
				cc, ok := nd.(*ast.CaseClause)
				if !ok {
					return true
				}
				var sigs []string
				for _, e := range cc.List {
					tv, ok := p.TypesInfo.Types[e]
					if !ok || tv.Value == nil {
						continue
					}
					switch tv.Value.Kind() {
					case constant.String:
						sigs = append(sigs, constant.StringVal(tv.Value))
					case constant.Int:
						if k, exact := constant.Int64Val(tv.Value); exact && k > 32 && k < 127 {
							sigs = append(sigs, string(rune(k)))
						}
					}
				}
				if len(sigs) == 0 {
					return true
				}
				for _, st := range cc.Body {
					ast.Inspect(st, func(nd2 ast.Node) bool {
						if _, nested := nd2.(*ast.CaseClause); nested {
							return false
						}
						call, ok := nd2.(*ast.CallExpr)
						if !ok || len(call.Args) != 1 {
							return true
						}
						id, ok := call.Fun.(*ast.Ident)
						if !ok || id.Name != "constReader" {
							return true
						}
						tva, ok := p.TypesInfo.Types[call.Args[0]]
						if !ok || tva.Value == nil {
							return true
						}
						k, exact := constant.Int64Val(constant.ToInt(tva.Value))
						for _, sig := range sigs {
							want, known := width[sig]
							if !exact || !known {
								continue
							}
							n++
							c.Check(k == want, rule, fmt.Sprintf("reader-width@%s/case-%s", rel, sig), call.Pos(), fmt.Sprintf("%q is read as %d bytes, as its constructor does", sig, want),
								fmt.Sprintf("signature %q is paired with a %d-byte reader in this switch but its type constructor reads %d bytes: a value of that type met on this path is cut short (or over-read) and every byte after it is attributed to the wrong member", sig, k, want))
						}
						return true
					})
				}
				return true
			})
			ast.Inspect(f, func(nd ast.Node) bool {
				kv, ok := nd.(*ast.KeyValueExpr)
				if !ok {
					return true
				}
				tvk, ok := p.TypesInfo.Types[kv.Key]
				if !ok || tvk.Value == nil || tvk.Value.Kind() != constant.String {
					return true
				}
				call, ok := kv.Value.(*ast.CallExpr)
				if !ok || len(call.Args) != 1 {
					return true
				}
				id, ok := call.Fun.(*ast.Ident)
				if !ok || id.Name != "constReader" {
					return true
				}
				tva, ok := p.TypesInfo.Types[call.Args[0]]
				if !ok || tva.Value == nil {
					return true
				}
				k, exact := constant.Int64Val(constant.ToInt(tva.Value))
				sig := constant.StringVal(tvk.Value)
				want, known := width[sig]
				if !exact || !known {
					return true
				}
				n++
				c.Check(k == want, rule, fmt.Sprintf("reader-width@%s/%s", rel, sig), kv.Pos(), fmt.Sprintf("%q is read as %d bytes, as its constructor does", sig, want),
					fmt.Sprintf("signature %q is paired with a %d-byte reader here but its type constructor reads %d bytes: a value of that type met on this path is cut short (or over-read) and every byte after it is attributed to the wrong member", sig, k, want))
				return true
			})
		}
	}
	if n == 0 {
		c.PassTrivial(rule, "reader-widths", token.NoPos, "no table pairs a signature letter with a fixed-width reader outside the constructors")
	}
}

// ruleCopyFits: where a wire writer copies a value into a fixed-size array
// (a stack buffer holding a length prefix and the bytes), the array is large
// enough for everything the guard lets through: builtin copy truncates
// silently, so the prefix announces more bytes than are written.
func ruleCopyFits(c *core.Ctx, rule string, rels ...string) {
	n := 0
	for _, rel := range withExamples(rels) {
		for _, fn := range srcFuncsOfPkg(c, rel) {
			for i, call := range core.Calls(fn) {
				cv, ok := call.(*ssa.Call)
				if !ok {
					continue
				}
				bi, ok := cv.Call.Value.(*ssa.Builtin)
				if !ok || bi.Name() != "copy" || len(cv.Call.Args) != 2 {
					continue
				}
				sl, ok := core.StripConv(cv.Call.Args[0]).(*ssa.Slice)
				if !ok {
					continue
				}
				al, ok := sl.X.(*ssa.Alloc)
				if !ok {
					continue
				}
				arr, ok := al.Type().Underlying().(*types.Pointer).Elem().Underlying().(*types.Array)
				if !ok {
					continue
				}
				room := arr.Len()
				if sl.High != nil {
					h, isK := core.ConstInt(sl.High)
					if !isK {
						continue
					}
					room = h
				}
				if sl.Low != nil {
					l, isK := core.ConstInt(sl.Low)
					if !isK {
						continue
					}
					room -= l
				}
				n++
				src := core.StripConv(core.Canon(cv.Call.Args[1]))
				isLen := func(v ssa.Value) bool {
					cl, ok := core.StripConv(v).(*ssa.Call)
					if !ok {
						return false
					}
					b2, ok := cl.Call.Value.(*ssa.Builtin)
					if !ok || b2.Name() != "len" {
						return false
					}
					a := core.StripConv(core.Canon(cl.Call.Args[0]))
					return a == src || sameLen(a, src)
				}
				fits := core.Guarded(fn, cv, core.UpperBound(isLen, room))
				c.Check(fits, rule, fmt.Sprintf("copy-fits@%s#%d", core.FuncKey(fn), i), cv.Pos(), fmt.Sprintf("the %d bytes of room bound what is copied", room),
					fmt.Sprintf("a value is copied into %d bytes of a fixed-size buffer without its length having been bounded by that room: copy truncates silently, so for the lengths between the room and the guard the length prefix announces more bytes than are written and everything after the value is shifted", room))
			}
		}
	}
	if n == 0 {
		c.PassTrivial(rule, "copy-fits", token.NoPos, "no copy into a fixed-size array in "+strings.Join(rels, ", "))
	}
}

// ruleProxyResolvesBySignature: the generic proxy turns (method name,
// parameter signature) into an action id with MetaObject.MethodID — the only
// resolver that tells overloads apart — on every path: an id found by name alone
// sends the call of one overload to the stub of the other.
func ruleProxyResolvesBySignature(c *core.Ctx, rule string) {
	n := 0
	for _, name := range []string{"Call", "Call2"} {
		fn := c.Func("bus", "proxy", name)
		if fn == nil {
			continue
		}
		for _, call := range core.Calls(fn) {
			f := core.StaticCallee(call)
			if f == nil || f.Name() != "CallID" || len(call.Common().Args) < 2 {
				continue
			}
			n++
			var resolved func(v ssa.Value, depth int) bool
			resolved = func(v ssa.Value, depth int) bool {
				cr, idx := core.CallResult(core.Canon(v))
				if cr == nil || idx > 0 || depth > 3 {
					return false
				}
				g := cr.Call.StaticCallee()
				if g == nil {
					return false
				}
				if g.Name() == "MethodID" && g.Signature.Recv() != nil && core.TypeIs(g.Signature.Recv().Type(), "type/object", "MetaObject") {
					return len(cr.Call.Args) == 3
				}
				if !inRepo(g) || len(g.Blocks) == 0 || g.Object() == nil || g.Object().Exported() {
					return false
				}
				k := 0
				for _, r := range core.Returns(g) {
					if len(r.Results) == 0 {
						return false
					}
					if errorReturnConst(r) {
						continue
					}
					k++
					if !resolved(core.RetVal(r, 0), depth+1) {
						return false
					}
				}
				return k > 0
			}
			c.Check(resolved(call.Common().Args[1], 0), rule, "bus.proxy."+name+"/action-id", call.Pos(), "the action id comes from MetaObject.MethodID(name, parameter signature)",
				"the action id of a call can come from somewhere else than MetaObject.MethodID(name, parameter signature) (a cache or index keyed by the name alone): for an overloaded method both generated proxy methods resolve to one action, and one overload is decoded by the other overload's stub")
		}
	}
	if n == 0 {
		c.Undecided(rule, "bus.proxy.Call", token.NoPos, "no CallID call found in proxy.Call / proxy.Call2")
	}
}

// ruleInferredGuards: any further slice or map field of signalHandler that is
// written with signalsMutex held is shared state of the same kind as the
// registration table (a scratch list kept between emissions): it is guarded by
// that mutex everywhere and, like the table, not used after the lock is
// released (two emissions of one object overlap: a nested or concurrent
// UpdateSignal overwrites the list the first one is still walking).
func ruleInferredGuards(c *core.Ctx, lc *core.LockCache, el *entryLocks, rule string) {
	st := strct(c, "bus", "signalHandler")
	signals := fld(c, "bus", "signalHandler", "signals")
	if st == nil || signals == nil {
		return
	}
	class, ok := guardOf(c, lc, "bus", st, signals, "signalsMutex")
	if !ok {
		return
	}
	s := st.Underlying().(*types.Struct)
	for i := 0; i < s.NumFields(); i++ {
		f := s.Field(i)
		if f == signals {
			continue
		}
		switch f.Type().Underlying().(type) {
		case *types.Slice, *types.Map:
		default:
			continue
		}
		under := false
		for _, fn := range srcFuncsOfPkg(c, "bus") {
			for _, a := range fieldAccesses(fn, f) {
				if !a.write || a.fresh {
					continue
				}
				if h, _ := lc.Get(fn).HeldAt(a.instr, class, false); h {
					under = true
				}
			}
		}
		if !under {
			continue
		}
		guardedBy(c, lc, el, rule, guardedField{Rel: "bus", Struct: st.Obj().Name(), Field: f.Name(), Var: f, Mutex: class.Field,
			Reason: "written under the registration mutex: shared by every emission of the object"})
	}
}

// rulePackageKeepsNoCache: the functions of package rel answer from their
// arguments only: no package-level map (or sync.Map) is filled outside the
// package initialiser.  A memo keyed by less than what the answer depends on
// (an interface name for a property id, a struct name for its Go type) hands
// one object's answer to another.
func rulePackageKeepsNoCache(c *core.Ctx, rule, rel string) {
	n := 0
	for _, fn := range append(srcFuncsOfPkg(c, rel), srcFuncsOfPkg(c, core.WitnessDirName)...) {
		if fn.Name() == "init" && fn.Parent() == nil {
			continue
		}
		for i, b := range fn.Blocks {
			_ = i
			for _, in := range b.Instrs {
				var g *ssa.Global
				switch x := in.(type) {
				case *ssa.MapUpdate:
					if ld, ok := x.Map.(*ssa.UnOp); ok {
						g, _ = ld.X.(*ssa.Global)
					}
				case *ssa.Call:
					f := x.Call.StaticCallee()
					if f != nil && f.Signature.Recv() != nil && core.TypeIs(f.Signature.Recv().Type(), "sync", "Map") && (f.Name() == "Store" || f.Name() == "LoadOrStore" || f.Name() == "Swap") && len(x.Call.Args) > 0 {
						g, _ = x.Call.Args[0].(*ssa.Global)
					}
				}
				if g == nil || g.Pkg != fn.Pkg {
					continue
				}
				n++
				c.Fail(rule, fmt.Sprintf("package-cache@%s/%s", rel, g.Name()), in.Pos(), fmt.Sprintf("%s fills the package-level table %s: answers computed for one object (or one definition of a type) are handed out for another that has the same key, and the table keeps every key ever seen", core.FuncKey(fn), g.Name()))
			}
		}
	}
	if n == 0 {
		c.PassTrivial(rule, "package-cache@"+rel, token.NoPos, "no package-level table is filled outside the initialiser in "+rel)
	}
}

// rulePackageCacheKeys: where a package of the reflection codecs keeps a
// table across calls (a memo of per-type work is legitimate there: the set of
// Go types of a program is finite), the key identifies the type: it is the
// reflect.Type itself (or a pair of them), never a rendering of it —
// Type.String(), Name(), Kind() — under which two different types (homonymous
// structs of two packages, two anonymous structs printed alike) collide and the
// second is encoded, decoded or converted with the layout of the first.
func rulePackageCacheKeys(c *core.Ctx, rule string, rels ...string) {
	n := 0
	lossy := func(v ssa.Value) string {
		seen := map[ssa.Value]bool{}
		var walk func(v ssa.Value) string
		walk = func(v ssa.Value) string {
			v = core.Canon(v)
			if v == nil || seen[v] {
				return ""
			}
			seen[v] = true
			switch x := v.(type) {
			case *ssa.MakeInterface:
				return walk(x.X)
			case *ssa.BinOp:
				if s := walk(x.X); s != "" {
					return s
				}
				return walk(x.Y)
			case *ssa.Phi:
				for _, e := range x.Edges {
					if s := walk(e); s != "" {
						return s
					}
				}
			case *ssa.Convert:
				return walk(x.X)
			case *ssa.ChangeType:
				return walk(x.X)
			case *ssa.Call:
				cc := x.Common()
				name := ""
				var recv types.Type
				if cc.IsInvoke() {
					name, recv = cc.Method.Name(), cc.Value.Type()
				} else if f := cc.StaticCallee(); f != nil && f.Signature.Recv() != nil {
					name, recv = f.Name(), f.Signature.Recv().Type()
				}
				if recv != nil && (core.TypeIs(recv, "reflect", "Type") || core.TypeIs(recv, "reflect", "rtype") || core.TypeIs(recv, "reflect", "Value")) {
					switch name {
					case "String", "Name", "Kind", "PkgPath":
						return "reflect " + name + "()"
					}
				}
				if f := cc.StaticCallee(); f != nil && (core.FuncKey(f) == "fmt.Sprintf" || core.FuncKey(f) == "fmt.Sprint") {
					for _, a := range cc.Args {
						if s := walk(a); s != "" {
							return s
						}
					}
				}
			case *ssa.Slice:
				return walk(x.X)
			case *ssa.Alloc:
				// the variadic argument slice of Sprintf: look at what is stored in it
				for _, r := range core.Referrers(x) {
					if ia, ok := r.(*ssa.IndexAddr); ok {
						for _, r2 := range core.Referrers(ia) {
							if st, ok := r2.(*ssa.Store); ok {
								if s := walk(st.Val); s != "" {
									return s
								}
							}
						}
					}
				}
			}
			return ""
		}
		return walk(v)
	}
	for _, rel := range append(rels, core.WitnessDirName) {
		for _, fn := range srcFuncsOfPkg(c, rel) {
			if fn.Name() == "init" && fn.Parent() == nil {
				continue
			}
			for _, b := range fn.Blocks {
				for _, in := range b.Instrs {
					var g *ssa.Global
					var key ssa.Value
					switch x := in.(type) {
					case *ssa.MapUpdate:
						if ld, ok := x.Map.(*ssa.UnOp); ok {
							g, _ = ld.X.(*ssa.Global)
							key = x.Key
						}
					case *ssa.Call:
						f := x.Call.StaticCallee()
						if f != nil && f.Signature.Recv() != nil && core.TypeIs(f.Signature.Recv().Type(), "sync", "Map") && (f.Name() == "Store" || f.Name() == "LoadOrStore" || f.Name() == "Swap") && len(x.Call.Args) > 1 {
							g, _ = x.Call.Args[0].(*ssa.Global)
							key = x.Call.Args[1]
						}
					}
					if g == nil || g.Pkg != fn.Pkg || key == nil {
						continue
					}
					n++
					k := fmt.Sprintf("cache-key@%s/%s", rel, g.Name())
					if how := lossy(key); how != "" {
						c.Fail(rule, k, in.Pos(), fmt.Sprintf("%s fills the package-level table %s under a key made from %s: two different types that print alike (homonymous structs of two packages, anonymous structs) share an entry, and the second is handled with the field layout computed for the first", core.FuncKey(fn), g.Name(), how))
					} else {
						c.Pass(rule, k, in.Pos(), "the key of the table is not a rendering of a reflect.Type")
					}
				}
			}
		}
	}
	if n == 0 {
		c.PassTrivial(rule, "cache-key@"+strings.Join(rels, ","), token.NoPos, "no package-level table is filled outside the initialisers of "+strings.Join(rels, ", "))
	}
}
