package rules

import (
	"fmt"
	"go/token"
	"go/types"
	"strings"

	"golang.org/x/tools/go/ssa"

	"qicheck/internal/core"
)

// E1 — wire-shape extraction.  A codec function is walked along its success
// paths (error guards are transparent) and the operations it performs on one
// stream are turned into a token tree:
//
//	prim(name)      call of a type/basic primitive, value.NewValue, Value.Write …
//	sub(function)   call of another codec function of the repository on the stream
//	rep(body)       loop; CountPrev = its bound derives from the preceding 32-bit prim
//	alt(arms…)      branch both of whose sides can succeed
//
// Shapes of siblings (reader/writer of one type, consumed/returned of a
// TypeReader) are then compared.

type tok struct {
	Kind      string // prim | sub | rep | alt | inline
	Name      string
	Dir       string // read | write
	Val       ssa.Value
	Field     string
	Fn        *ssa.Function
	Kids      []tok
	Arms      [][]tok
	CountPrev bool
	Pos       token.Pos
	Call      ssa.CallInstruction // sub: the call itself
	Len       int64               // prim Bytes: the constant length given to ReadN / WriteN (0 if not constant)
}

func (t tok) String() string {
	switch t.Kind {
	case "prim":
		s := t.Name
		if t.Field != "" {
			s += "." + t.Field
		}
		return s
	case "sub":
		return "sub(" + t.Name + ")"
	case "rep":
		c := ""
		if t.CountPrev {
			c = "n:"
		}
		return "rep(" + c + shapeString(t.Kids) + ")"
	case "inline":
		return "{" + shapeString(t.Kids) + "}"
	case "alt":
		var arms []string
		for _, a := range t.Arms {
			arms = append(arms, shapeString(a))
		}
		return "alt(" + strings.Join(arms, " | ") + ")"
	}
	return "?"
}

func shapeString(ts []tok) string {
	var parts []string
	for _, t := range ts {
		parts = append(parts, t.String())
	}
	return strings.Join(parts, " ")
}

type shaper struct {
	c       *core.Ctx
	stream  ssa.Value // canonical stream value
	problem string
	depth   int
	exits   []*ssa.BasicBlock // exit blocks of the loops being walked (targets of break)
	headers []*ssa.BasicBlock // headers of the loops being walked (targets of continue)
	inLoop  bool              // an inlined helper whose call sits in a loop body of its caller
}

func (s *shaper) loopHeader(b *ssa.BasicBlock) bool {
	for _, e := range s.headers {
		if e == b {
			return true
		}
	}
	return false
}

// returnsQuietly: every path from b ends in a return without touching the
// stream and without coming back to a loop being walked (an early success
// return from inside a loop body: like a break).
func (s *shaper) returnsQuietly(b *ssa.BasicBlock) bool {
	seen := map[*ssa.BasicBlock]bool{}
	var walk func(b *ssa.BasicBlock) bool
	walk = func(b *ssa.BasicBlock) bool {
		if seen[b] {
			return true
		}
		seen[b] = true
		if s.loopHeader(b) || len(seen) > 12 {
			return false
		}
		if len(s.blockToks(b)) > 0 {
			return false
		}
		if len(b.Succs) == 0 {
			_, isRet := b.Instrs[len(b.Instrs)-1].(*ssa.Return)
			return isRet
		}
		for _, sc := range b.Succs {
			if !walk(sc) {
				return false
			}
		}
		return true
	}
	return walk(b)
}

// quietLeave: from arm a of the branch in block cur (inside a loop being
// walked) the branch is never reached again — a search/flag variable set on the
// way makes the loop condition false — and the loop exit is reached without
// touching the stream: the arm is a break.
func (s *shaper) quietLeave(cur *ssa.BasicBlock, arm int) bool {
	if len(s.exits) == 0 {
		return false
	}
	a := cur.Succs[arm]
	exit := s.exits[len(s.exits)-1]
	reach := core.SearchReachEdge(cur, arm)
	if reach[cur] || !reach[exit] {
		return false
	}
	seen := map[*ssa.BasicBlock]bool{}
	stack := []*ssa.BasicBlock{a}
	for len(stack) > 0 {
		b := stack[len(stack)-1]
		stack = stack[:len(stack)-1]
		if b == exit || seen[b] || !reach[b] {
			continue
		}
		seen[b] = true
		if len(seen) > 12 || len(b.Succs) == 0 || len(s.blockToks(b)) > 0 {
			return false
		}
		stack = append(stack, b.Succs...)
	}
	return true
}

// loopExit: b is the exit of a loop whose body is being walked.
func (s *shaper) loopExit(b *ssa.BasicBlock) bool {
	for _, e := range s.exits {
		if e == b {
			return true
		}
	}
	return false
}

// streamArg reports whether v denotes the stream being followed.
func (s *shaper) streamArg(v ssa.Value) bool {
	if core.Canon(v) == s.stream {
		return true
	}
	// a local buffer captured by reference in a function literal (`var out bytes.Buffer`
	// written as &out inside an immediately invoked literal): the free variable is the cell
	if fv, ok := core.Canon(v).(*ssa.FreeVar); ok {
		for depth := 0; fv != nil && depth < 4; depth++ {
			b := core.FreeVarBinding(fv)
			if b == nil {
				break
			}
			if core.Canon(b) == s.stream {
				return true
			}
			fv, _ = core.Canon(b).(*ssa.FreeVar)
		}
	}
	// a field of the stream holder (q.r / q.w of the reflection codec)
	if _, isParam := s.stream.(*ssa.Parameter); isParam && len(core.AccessPath(v).Fields) > 0 && core.RootOf(v) == s.stream {
		return true
	}
	return false
}

func isLoopHeader(b *ssa.BasicBlock) bool {
	for _, p := range b.Preds {
		if b.Dominates(p) {
			return true
		}
	}
	return false
}

// canSucceed: some return reachable from block b is not a certain error.
func canSucceed(b *ssa.BasicBlock) bool {
	if len(b.Instrs) == 0 {
		return false
	}
	r := core.ReachFrom(core.Point{B: b, I: 0}, nil, nil)
	for _, ret := range core.Returns(b.Parent()) {
		if (r.Has(ret) || ret.Block() == b) && !errorReturnConst(ret) {
			// `return x, err` where err was just tested non-nil is handled by the
			// transparent error guard; other non-constant errors count as success-capable
			return true
		}
	}
	return false
}

func basicPrim(f *ssa.Function) (string, string) {
	if f == nil || f.Pkg == nil || f.Pkg.Pkg.Path() != core.Module+"/type/basic" {
		return "", ""
	}
	n := f.Name()
	switch {
	case strings.HasPrefix(n, "Read") && n != "ReadN":
		return strings.TrimPrefix(n, "Read"), "read"
	case strings.HasPrefix(n, "Write") && n != "WriteN":
		return strings.TrimPrefix(n, "Write"), "write"
	case n == "ReadN":
		return "Bytes", "read"
	case n == "WriteN":
		return "Bytes", "write"
	}
	return "", ""
}

// callTok classifies one call instruction; ok=false if it does not touch the stream.
func (s *shaper) callTok(call ssa.CallInstruction) (tok, bool) {
	cc := call.Common()
	touches := false
	for _, a := range cc.Args {
		if s.streamArg(a) {
			touches = true
		}
	}
	if cc.IsInvoke() && s.streamArg(cc.Value) {
		// a method of the stream itself (buf.Bytes(), buf.Len()): not a codec step
		return tok{}, false
	}
	if f := cc.StaticCallee(); f != nil && f.Signature.Recv() != nil && len(cc.Args) > 0 && s.streamArg(cc.Args[0]) {
		if f.Pkg == nil || !strings.HasPrefix(f.Pkg.Pkg.Path(), core.Module) {
			if core.FuncKey(f) == "bytes.Buffer.Write" && len(cc.Args) == 2 {
				// buf.Write(data): the bytes appended raw, like basic.WriteN(&buf, data, len(data))
				return tok{Kind: "prim", Name: "Bytes", Dir: "write", Val: cc.Args[1], Pos: call.Pos()}, true
			}
			return tok{}, false // buf.Bytes(), buf.Len() …
		}
	}
	// immediately invoked function literal capturing the stream
	if mc, ok := cc.Value.(*ssa.MakeClosure); ok {
		lit, _ := mc.Fn.(*ssa.Function)
		if lit != nil {
			kids := s.walkFn(lit)
			if len(kids) > 0 {
				return tok{Kind: "inline", Kids: kids, Pos: call.Pos(), Fn: lit}, true
			}
		}
		return tok{}, false
	}
	if !touches {
		return tok{}, false
	}
	t := tok{Pos: call.Pos()}
	if f := cc.StaticCallee(); f != nil {
		if name, dir := basicPrim(f); name != "" {
			t.Kind, t.Name, t.Dir = "prim", name, dir
			if name == "Bytes" && len(cc.Args) == 3 {
				if n, ok := core.ConstInt(cc.Args[2]); ok {
					t.Len = n
				}
			}
			if dir == "write" {
				if name == "Bytes" {
					t.Val = cc.Args[1]
				} else {
					t.Val = cc.Args[0]
				}
			} else if cv, ok := call.(*ssa.Call); ok {
				t.Val = firstResult(cv)
				if name == "Bytes" {
					t.Val = cc.Args[1]
				}
			}
			return t, true
		}
		k := core.FuncKey(f)
		switch k {
		case "type/value.NewValue":
			t.Kind, t.Name, t.Dir = "prim", "Value", "read"
			if cv, ok := call.(*ssa.Call); ok {
				t.Val = firstResult(cv)
			}
			return t, true
		}
		if f.Pkg != nil && strings.HasPrefix(f.Pkg.Pkg.Path(), core.Module) {
			if it, ok := s.inlineHelper(call, f); ok {
				return it, true
			}
			t.Kind, t.Name, t.Fn, t.Call = "sub", k, f, call
			if cv, ok := call.(*ssa.Call); ok {
				t.Val = firstResult(cv)
			}
			// for writers the value written is the first non-stream argument
			for _, a := range cc.Args {
				if !s.streamArg(a) && t.Dir == "" {
					if _, isW := a.Type().Underlying().(*types.Interface); !isW {
						t.Dir = "arg"
						if t.Field == "" {
							t.Field = fieldOfValue(a, "write")
						}
					}
				}
			}
			return t, true
		}
		// foreign function on the stream
		t.Kind, t.Name = "prim", "foreign:"+k
		return t, true
	}
	if cc.IsInvoke() {
		m := cc.Method.Name()
		switch {
		case m == "Write" && core.TypeIs(cc.Value.Type(), "type/value", "Value"):
			t.Kind, t.Name, t.Dir, t.Val = "prim", "Value", "write", cc.Value
		case m == "Write":
			t.Kind, t.Name, t.Dir, t.Val = "prim", "Value", "write", cc.Value
		case m == "Read":
			t.Kind, t.Name, t.Dir = "prim", "Sub", "read"
			if cv, ok := call.(*ssa.Call); ok {
				t.Val = firstResult(cv)
			}
		default:
			t.Kind, t.Name = "prim", "invoke:"+m
		}
		return t, true
	}
	// dynamic call (NewValue's table)
	t.Kind, t.Name, t.Dir, t.Call = "prim", "Dyn", "read", call
	return t, true
}

// inlineHelper: a call handing the stream to an unexported helper that is not
// one half of a read/write pair (readBoundedSize, a case body moved into a
// function) contributes the helper's own steps.  A helper consisting of one
// primitive read whose value it returns counts as that primitive.
func (s *shaper) inlineHelper(call ssa.CallInstruction, f *ssa.Function) (tok, bool) {
	if f.Object() == nil || f.Object().Exported() || len(f.Blocks) == 0 || s.depth > 4 {
		return tok{}, false
	}
	for _, pre := range [][2]string{{"read", "write"}, {"write", "read"}, {"Read", "Write"}, {"Write", "Read"}} {
		if !strings.HasPrefix(f.Name(), pre[0]) {
			continue
		}
		dual := pre[1] + f.Name()[len(pre[0]):]
		if recv := f.Signature.Recv(); recv != nil {
			if o, _, _ := types.LookupFieldOrMethod(recv.Type(), true, f.Pkg.Pkg, dual); o != nil {
				return tok{}, false
			}
		} else if f.Pkg.Func(dual) != nil {
			return tok{}, false
		}
	}
	var param ssa.Value
	onlyIfAccessor := false
	cc := call.Common()
	for i, a := range cc.Args {
		if s.streamArg(a) && i < len(f.Params) {
			pt := f.Params[i].Type().Underlying()
			if ptr, isPtr := pt.(*types.Pointer); isPtr {
				// a pointer receiver of a codec type of the repository that holds the stream
				// (q *qiDecoder) is treated like the value receiver: its methods are the
				// element codecs, not moved-out pieces of one caller
				if nt, isNamed := ptr.Elem().(*types.Named); isNamed && nt.Obj().Pkg() != nil && strings.HasPrefix(nt.Obj().Pkg().Path(), core.Module) {
					if st, isSt := nt.Underlying().(*types.Struct); isSt {
						pt = st
					}
				}
			}
			switch pt.(type) {
			case *types.Interface, *types.Pointer:
				param = f.Params[i]
			case *types.Struct:
				// a value receiver holding the stream (q qiDecoder): only a helper with a
				// single call site is a moved-out piece of its caller; the others (readValue,
				// value) are the element codecs and stay opaque steps
				sites, _ := s.c.CallSites()
				if len(sites[f]) == 1 {
					param = f.Params[i]
				} else {
					// … or a helper that does nothing but read one primitive and hand it
					// back (readLength): decided below, once its shape is known
					param, onlyIfAccessor = f.Params[i], true
				}
			}
		}
	}
	if param == nil {
		return tok{}, false
	}
	ns := &shaper{c: s.c, stream: param, depth: s.depth + 1, inLoop: len(s.headers) > 0 || s.inLoop}
	kids := flatten(ns.walkFn(f))
	if ns.problem != "" {
		return tok{}, false
	}
	for i := range kids {
		if kids[i].Kind == "prim" {
			kids[i].Field = fieldOfValue(kids[i].Val, kids[i].Dir)
		}
	}
	if len(kids) == 1 && kids[0].Kind == "prim" && kids[0].Dir == "read" {
		returnsIt := true
		for _, r := range core.Returns(f) {
			if successReturn(r) && len(r.Results) > 0 && core.StripConv(core.Canon(core.RetVal(r, 0))) != core.StripConv(kids[0].Val) {
				returnsIt = false
			}
		}
		if cv, ok := call.(*ssa.Call); ok && returnsIt {
			k := kids[0]
			k.Val, k.Pos = firstResult(cv), call.Pos()
			return k, true
		}
	}
	if onlyIfAccessor {
		return tok{}, false
	}
	return tok{Kind: "inline", Kids: kids, Pos: call.Pos(), Fn: f}, true
}

func firstResult(cv *ssa.Call) ssa.Value {
	if _, isTuple := cv.Type().(*types.Tuple); !isTuple {
		return cv
	}
	for _, r := range core.Referrers(cv) {
		if e, ok := r.(*ssa.Extract); ok && e.Index == 0 {
			return e
		}
	}
	return nil
}

// fieldOfValue: for a read result, the struct field it is stored into; for a
// written value, the struct field it was loaded from.
func fieldOfValue(v ssa.Value, dir string) string {
	if v == nil {
		return ""
	}
	if dir == "write" {
		p := core.AccessPath(core.StripConv(v))
		if len(p.Fields) > 0 {
			return p.Fields[len(p.Fields)-1].Name()
		}
		return ""
	}
	for _, r := range core.Referrers(v) {
		switch x := r.(type) {
		case *ssa.Store:
			if x.Val == v {
				p := core.AccessPath(x.Addr)
				if len(p.Fields) > 0 {
					return p.Fields[len(p.Fields)-1].Name()
				}
			}
		case *ssa.Convert, *ssa.ChangeType:
			if f := fieldOfValue(x.(ssa.Value), dir); f != "" {
				return f
			}
		}
	}
	return ""
}

func (s *shaper) blockToks(b *ssa.BasicBlock) []tok {
	var out []tok
	for _, in := range b.Instrs {
		call, ok := in.(ssa.CallInstruction)
		if !ok {
			continue
		}
		if _, isGo := in.(*ssa.Go); isGo {
			continue
		}
		if _, isDefer := in.(*ssa.Defer); isDefer {
			continue
		}
		if t, ok := s.callTok(call); ok {
			if t.Kind == "prim" {
				t.Field = fieldOfValue(t.Val, t.Dir)
			}
			if t.Kind == "sub" {
				if f := fieldOfValue(t.Val, "read"); f != "" || t.Dir != "arg" {
					t.Field = f // (a sub-writer keeps the field of the value it was handed)
				}
			}
			out = append(out, t)
		}
	}
	return out
}

// isErrGuard: the If tests an error value against nil; returns the successor
// index taken when the error is nil.
func isErrGuard(ifi *ssa.If) (int, bool) {
	cm, neg := core.CondCmp(ifi.Cond)
	var e ssa.Value
	if core.IsNilConst(cm.Y) {
		e = cm.X
	} else if core.IsNilConst(cm.X) {
		e = cm.Y
	}
	if e == nil || !core.IsErrorType(e.Type()) {
		return 0, false
	}
	nilEdge := 0 // e == nil true edge
	if (cm.Op == token.NEQ) != neg {
		nilEdge = 1
	}
	return nilEdge, true
}

func (s *shaper) seq(start, stop *ssa.BasicBlock, seen map[*ssa.BasicBlock]bool) []tok {
	var out []tok
	cur := start
	for steps := 0; cur != nil && cur != stop; steps++ {
		if (s.loopExit(cur) || s.loopHeader(cur)) && cur != start {
			return out // break / continue: the iteration ends here
		}
		if steps > 400 || seen[cur] {
			s.problem = "control flow too irregular to extract a wire shape"
			return out
		}
		seen[cur] = true
		header := isLoopHeader(cur)
		if !header {
			out = append(out, s.blockToks(cur)...)
		}
		if len(cur.Instrs) == 0 {
			return out
		}
		switch last := cur.Instrs[len(cur.Instrs)-1].(type) {
		case *ssa.Return, *ssa.Panic:
			return out
		case *ssa.Jump:
			cur = cur.Succs[0]
		case *ssa.If:
			if header {
				// loop: the body is the successor from which the header is reachable again
				hdrToks := s.blockToks(cur)
				body, exit := cur.Succs[0], cur.Succs[1]
				r0 := core.ReachFrom(core.Point{B: body, I: 0}, nil, nil)
				if !(len(cur.Instrs) > 0 && r0.Has(cur.Instrs[0])) {
					body, exit = exit, body
				}
				bodySeen := map[*ssa.BasicBlock]bool{}
				for k := range seen {
					bodySeen[k] = true
				}
				delete(bodySeen, cur)
				s.exits = append(s.exits, exit)
				s.headers = append(s.headers, cur)
				kids := append(hdrToks, s.seq(body, cur, bodySeen)...)
				s.exits = s.exits[:len(s.exits)-1]
				s.headers = s.headers[:len(s.headers)-1]
				if rows, ok := s.unrollTable(kids); ok {
					// a loop over a constant table of functions: the sequence of its rows
					out = append(out, rows...)
					seen[cur] = true
					cur = exit
					continue
				}
				rep := tok{Kind: "rep", Kids: kids, Pos: last.Pos()}
				// bound derives from the preceding prim?
				if len(out) > 0 {
					prev := out[len(out)-1]
					if prev.Kind == "prim" && (prev.Name == "Uint32" || prev.Name == "Int32") {
						cm, _ := core.CondCmp(last.Cond)
						for _, side := range []ssa.Value{cm.X, cm.Y} {
							if prev.Dir == "read" && prev.Val != nil && core.StripConv(side) == prev.Val {
								rep.CountPrev = true
							}
							// count-down form: for remaining := size; remaining > 0; remaining--
							if phi, isPhi := core.StripConv(side).(*ssa.Phi); isPhi && prev.Dir == "read" && prev.Val != nil && phi.Block() == cur {
								starts, steps := false, true
								for _, e := range phi.Edges {
									e = core.StripConv(e)
									if e == prev.Val {
										starts = true
										continue
									}
									bo, isBo := e.(*ssa.BinOp)
									k, isK := int64(0), false
									if isBo {
										k, isK = core.ConstInt(bo.Y)
									}
									if !isBo || bo.Op != token.SUB || core.StripConv(bo.X) != ssa.Value(phi) || !isK || k != 1 {
										steps = false
									}
								}
								other := cm.Y
								if side == cm.Y {
									other = cm.X
								}
								if k, isK := core.ConstInt(other); starts && steps && isK && k == 0 {
									rep.CountPrev = true
								}
							}
							if prev.Dir == "write" && countDerives(side, prev.Val) {
								rep.CountPrev = true
							}
						}
						if prev.Dir == "write" && !rep.CountPrev && rangeOverSame(cur, prev.Val) {
							rep.CountPrev = true
						}
						if prev.Dir == "read" && !rep.CountPrev && rangeOverMade(cur, prev.Val) {
							rep.CountPrev = true
						}
					}
				}
				if len(kids) > 0 {
					out = append(out, rep)
				}
				seen[cur] = true
				cur = exit
				continue
			}
			if nilEdge, ok := isErrGuard(last); ok {
				cur = cur.Succs[nilEdge]
				continue
			}
			// `if c { break }` inside a loop body: the iteration goes on with the other arm
			if s.loopExit(cur.Succs[0]) && !s.loopExit(cur.Succs[1]) {
				cur = cur.Succs[1]
				continue
			}
			if s.loopExit(cur.Succs[1]) && !s.loopExit(cur.Succs[0]) {
				cur = cur.Succs[0]
				continue
			}
			// an arm that sets a flag which ends the loop (done = true; continue): a break
			if len(s.headers) > 0 {
				q0, q1 := s.quietLeave(cur, 0), s.quietLeave(cur, 1)
				if q0 && !q1 {
					cur = cur.Succs[1]
					continue
				}
				if q1 && !q0 {
					cur = cur.Succs[0]
					continue
				}
			}
			// an early success return from inside a loop body that touches the stream no more
			// (also when the loop body was moved into a helper: `return false, nil` there is
			// the `break` of the caller's loop)
			if len(s.headers) > 0 || s.inLoop {
				if s.returnsQuietly(cur.Succs[0]) && !s.returnsQuietly(cur.Succs[1]) && canSucceed(cur.Succs[0]) {
					cur = cur.Succs[1]
					continue
				}
				if s.returnsQuietly(cur.Succs[1]) && !s.returnsQuietly(cur.Succs[0]) && canSucceed(cur.Succs[1]) {
					cur = cur.Succs[0]
					continue
				}
			}
			// `if count == 0 { return empty, nil }` right after the count was read (or
			// written): the explicit form of a loop that runs zero times
			if len(out) > 0 {
				prev := out[len(out)-1]
				if prev.Kind == "prim" && (prev.Name == "Uint32" || prev.Name == "Int32") && prev.Val != nil {
					cm, neg := core.CondCmp(last.Cond)
					isCount := func(v ssa.Value) bool {
						if prev.Dir == "read" {
							return core.StripConv(v) == prev.Val
						}
						return countDerives(v, prev.Val)
					}
					zero := -1
					var other ssa.Value
					if isCount(cm.X) {
						other = cm.Y
					} else if isCount(cm.Y) {
						other = cm.X
					}
					if k, isK := core.ConstInt(other); other != nil && isK && k == 0 {
						switch cm.Op {
						case token.EQL:
							zero = 0
						case token.NEQ:
							zero = 1
						}
						if neg && zero >= 0 {
							zero = 1 - zero
						}
					}
					if zero >= 0 && s.returnsQuietly(cur.Succs[zero]) && canSucceed(cur.Succs[zero]) {
						cur = cur.Succs[1-zero]
						continue
					}
				}
			}
			t, f := cur.Succs[0], cur.Succs[1]
			tOK, fOK := canSucceed(t), canSucceed(f)
			switch {
			case tOK && !fOK:
				cur = t
			case fOK && !tOK:
				cur = f
			case !tOK && !fOK:
				return out
			default:
				join := joinOf(t, f)
				armSeen := func() map[*ssa.BasicBlock]bool {
					m := map[*ssa.BasicBlock]bool{}
					for k := range seen {
						m[k] = true
					}
					return m
				}
				a1 := s.seq(t, join, armSeen())
				a2 := s.seq(f, join, armSeen())
				if len(a1) > 0 || len(a2) > 0 {
					out = append(out, tok{Kind: "alt", Arms: [][]tok{a1, a2}, Pos: last.Pos()})
				}
				cur = join
			}
		default:
			return out
		}
	}
	return out
}

// countDerives: the loop bound is len(x) (or a conversion of it) where the
// written count prev is uint32(len(x)).
func countDerives(bound, written ssa.Value) bool {
	lenOf := func(v ssa.Value) ssa.Value {
		c, ok := core.StripConv(v).(*ssa.Call)
		if !ok {
			return nil
		}
		if bi, ok := c.Call.Value.(*ssa.Builtin); ok && bi.Name() == "len" {
			return core.Canon(c.Call.Args[0])
		}
		return nil
	}
	a, b := lenOf(bound), lenOf(written)
	if a != nil && b != nil && (a == b || sameLen(a, b)) {
		return true
	}
	return core.StripConv(bound) == core.StripConv(written) && bound != nil
}

// rangeOverSame: the loop at header h ranges over the collection whose length was written.
func rangeOverSame(h *ssa.BasicBlock, written ssa.Value) bool {
	c, ok := core.StripConv(written).(*ssa.Call)
	if !ok {
		return false
	}
	bi, ok := c.Call.Value.(*ssa.Builtin)
	if !ok || bi.Name() != "len" {
		return false
	}
	coll := core.Canon(c.Call.Args[0])
	// map range: header contains Next of Range(coll); slice range: bound is len(coll) in a pred
	for _, in := range h.Instrs {
		if nx, ok := in.(*ssa.Next); ok {
			if rg, ok := nx.Iter.(*ssa.Range); ok && (core.Canon(rg.X) == coll || sameLen(rg.X, coll)) {
				return true
			}
		}
	}
	for _, p := range append([]*ssa.BasicBlock{h}, h.Preds...) {
		for _, in := range p.Instrs {
			if lc, ok := in.(*ssa.Call); ok {
				if b2, ok := lc.Call.Value.(*ssa.Builtin); ok && b2.Name() == "len" && (core.Canon(lc.Call.Args[0]) == coll || sameLen(lc.Call.Args[0], coll)) {
					return true
				}
			}
		}
	}
	return false
}

// rangeOverMade: the loop ranges over a slice made with the count just read.
func rangeOverMade(h *ssa.BasicBlock, read ssa.Value) bool {
	for _, p := range append([]*ssa.BasicBlock{h}, h.Preds...) {
		for _, in := range p.Instrs {
			if lc, ok := in.(*ssa.Call); ok {
				if b2, ok := lc.Call.Value.(*ssa.Builtin); ok && b2.Name() == "len" {
					if mk, ok := core.Canon(lc.Call.Args[0]).(*ssa.MakeSlice); ok && core.StripConv(mk.Len) == read {
						return true
					}
				}
			}
		}
	}
	return false
}

// joinOf returns the first block reachable from both a and b (nil if none).
func joinOf(a, b *ssa.BasicBlock) *ssa.BasicBlock {
	reach := func(s *ssa.BasicBlock) map[*ssa.BasicBlock]bool {
		m := map[*ssa.BasicBlock]bool{s: true}
		w := []*ssa.BasicBlock{s}
		for len(w) > 0 {
			x := w[len(w)-1]
			w = w[:len(w)-1]
			for _, su := range x.Succs {
				if !m[su] {
					m[su] = true
					w = append(w, su)
				}
			}
		}
		return m
	}
	ra, rb := reach(a), reach(b)
	var best *ssa.BasicBlock
	for _, blk := range a.Parent().Blocks {
		if ra[blk] && rb[blk] {
			if best == nil || blk.Dominates(best) || (!best.Dominates(blk) && blk.Index < best.Index) {
				if best == nil || !best.Dominates(blk) {
					best = blk
				}
			}
		}
	}
	return best
}

func (s *shaper) walkFn(fn *ssa.Function) []tok {
	if len(fn.Blocks) == 0 || s.depth > 6 {
		return nil
	}
	s.depth++
	defer func() { s.depth-- }()
	return s.seq(fn.Blocks[0], nil, map[*ssa.BasicBlock]bool{})
}

// shapeOf extracts the shape of fn with respect to the stream value.
func shapeOf(c *core.Ctx, fn *ssa.Function, stream ssa.Value) ([]tok, string) {
	s := &shaper{c: c, stream: core.Canon(stream)}
	ts := s.walkFn(fn)
	return ts, s.problem
}

// streamParam returns the parameter of fn whose type is io.Reader / io.Writer
// (interface with Read or Write([]byte)).
func streamParam(fn *ssa.Function, method string) ssa.Value {
	for _, p := range fn.Params {
		it, ok := p.Type().Underlying().(*types.Interface)
		if !ok {
			continue
		}
		for i := 0; i < it.NumMethods(); i++ {
			if it.Method(i).Name() != method {
				continue
			}
			// the stream's method: Read/Write([]byte) (int, error) — not the Write(io.Writer)
			// of a value that is itself being written
			sig, _ := it.Method(i).Type().(*types.Signature)
			if sig != nil && sig.Params().Len() == 1 {
				if sl, ok := sig.Params().At(0).Type().Underlying().(*types.Slice); ok {
					if b, ok := sl.Elem().Underlying().(*types.Basic); ok && b.Kind() == types.Uint8 {
						return p
					}
				}
				continue
			}
			return p
		}
	}
	return nil
}

// ---------------------------------------------------------------- comparison

func dualName(n string) string { return n }

// subBase strips a read/write prefix from a function key.
func subBase(k string) string {
	i := strings.LastIndex(k, ".")
	pkg, name := k[:i+1], k[i+1:]
	low := strings.ToLower(name)
	for _, pre := range []string{"read", "write", "new"} {
		if strings.HasPrefix(low, pre) {
			return pkg + strings.ToLower(name[len(pre):])
		}
	}
	return pkg + low
}

// flatten removes inline wrappers.
func flatten(ts []tok) []tok {
	var out []tok
	for _, t := range ts {
		if t.Kind == "inline" {
			out = append(out, flatten(t.Kids)...)
			continue
		}
		if t.Kind == "rep" {
			t.Kids = flatten(t.Kids)
		}
		if t.Kind == "alt" {
			for i := range t.Arms {
				t.Arms[i] = flatten(t.Arms[i])
			}
		}
		out = append(out, t)
	}
	return out
}

// compareShapes checks that a reader shape and a writer shape describe the
// same wire layout.  Returns "" or a description of the first difference.
func compareShapes(r, w []tok, checkFields bool) string {
	r, w = flatten(r), flatten(w)
	if len(r) != len(w) {
		return fmt.Sprintf("reader performs %d steps (%s), writer %d (%s)", len(r), shapeString(r), len(w), shapeString(w))
	}
	for i := range r {
		a, b := r[i], w[i]
		if a.Kind != b.Kind {
			return fmt.Sprintf("step %d: reader %s, writer %s", i+1, a, b)
		}
		switch a.Kind {
		case "prim":
			if a.Name != b.Name {
				return fmt.Sprintf("step %d: reader reads %s, writer writes %s", i+1, a.Name, b.Name)
			}
			if checkFields && a.Field != "" && b.Field != "" && a.Field != b.Field {
				return fmt.Sprintf("step %d: reader fills field %s where the writer emits field %s", i+1, a.Field, b.Field)
			}
		case "sub":
			if subBase(a.Name) != subBase(b.Name) {
				return fmt.Sprintf("step %d: reader calls %s, writer calls %s", i+1, a.Name, b.Name)
			}
			if checkFields && a.Field != "" && b.Field != "" && a.Field != b.Field {
				return fmt.Sprintf("step %d: reader fills field %s where the writer emits field %s", i+1, a.Field, b.Field)
			}
		case "rep":
			if a.CountPrev != b.CountPrev {
				return fmt.Sprintf("step %d: the repetition count is tied to the preceding 32-bit length on one side only", i+1)
			}
			if d := compareShapes(a.Kids, b.Kids, checkFields); d != "" {
				return fmt.Sprintf("step %d (loop body): %s", i+1, d)
			}
		case "alt":
			if len(a.Arms) != len(b.Arms) {
				return fmt.Sprintf("step %d: different number of alternatives", i+1)
			}
			// arms may be listed in either order
			direct := ""
			for k := range a.Arms {
				if d := compareShapes(a.Arms[k], b.Arms[k], checkFields); d != "" {
					direct = d
				}
			}
			if direct != "" && len(a.Arms) == 2 {
				swapped := ""
				for k := range a.Arms {
					if d := compareShapes(a.Arms[k], b.Arms[1-k], checkFields); d != "" {
						swapped = d
					}
				}
				if swapped != "" {
					return fmt.Sprintf("step %d (alternative): %s", i+1, direct)
				}
			}
		}
	}
	return ""
}
